--------------------------- MODULE MC_IterFit ---------------------------
(* Bounded-exhaustive exploration of the iterfit machine (C10).                                *)
(*                                                                                             *)
(* Mode "single": every problem (n points, caller order, positively weighted set, limits,      *)
(* maxiter) and, step by step, every oracle answer: the status of each fit and the scaled      *)
(* residual of every point after each fit (TLC quantifies over all residual functions with     *)
(* values in ResVals, i.e. over all "Beyond" functions and over the side - low / high / at the *)
(* limit - on which a point lies).  Finished states carry the whole call history and are the   *)
(* cases the harness replays into the real iterfit.                                            *)
(*                                                                                             *)
(* Mode "pair": two runs on the SAME data in different caller orders.  The oracle is a         *)
(* function of the set of points fitted (that is what "the same data" means); it is chosen     *)
(* lazily in the first run, remembered in orc and re-used in the second.  PermutationInvariance*)
(* compares the two results.                                                                   *)
(*                                                                                             *)
(* Breakpoints: every problem has NBk breakpoints that a fit may drop (status -1).  A dropping  *)
(* fit chooses, step by step, every non-empty proper subset of the breakpoints in effect (what  *)
(* is left is fitted again); up to MaxDrops fits of a run drop.  The oracle - status, dropped    *)
(* breakpoints and residuals - is a function of (set of points fitted, breakpoints in effect):   *)
(* in pair mode it is remembered under that key, so the second run (same data, other order)      *)
(* meets the same drops and the same residuals on the reduced breakpoint set.                    *)
(*                                                                                             *)
(* Configurations: MC_IterFit_quick (n=3, all orders, residuals {-4,0,6}, limits beyond / at),  *)
(* MC_IterFit_thorough (n=3, all orders, 5 residual values, 3 limit pairs), MC_IterFit_chains_  *)
(* thorough (n=4,5, every Beyond function, up to 5 fits), MC_IterFit_pair_{quick,thorough}      *)
(* (n<=4 / n<=5, second run in every order; one fit of a run may drop breakpoints).             *)
(* NBk = 2 everywhere.                                                                          *)
EXTENDS IterFit, TLC
CONSTANTS Mode,       \* "single" or "pair"
          Ns,         \* set of problem sizes
          PermSel,    \* "all", "few" or "id" (pair mode: the first run; the second run takes every order)
          ResVals,    \* residual values offered for points of the current good set
          OffVals,    \* residual values offered for points outside it (never matter to the spec)
          Thrs,       \* set of <<lower, upper>>
          MaxIters,   \* set of maxiter values
          MaxDrops,   \* how many fits of a run may report "breakpoints dropped" (-1)
          WithFail,   \* BOOLEAN: also let a fit fail outright
          NBk,        \* number of (droppable) breakpoints of every problem
          MinGood
VARIABLES first,      \* pair mode: result of the first run ("none" before)
          orc         \* pair mode: oracle answers given so far: set of [mask, bk, st, d, z] (key: mask, bk)

mvars == <<vars, first, orc>>
(* residual alphabets (a configuration file cannot hold negative numbers) *)
Res2 == {0, 6}                          \* with limits <<5, 5>>: every "Beyond" function
Res3 == {-4, 0, 6}                      \* one low, one high: which is beyond depends on the limits
Res5 == {-6, -4, 0, 5, 6}               \* both sides, between asymmetric limits, at the limit
Res7 == {-6, -5, -4, 0, 4, 5, 6}
ThrSym  == {<<5, 5>>}
ThrQuick == {<<3, 5>>, <<4, 6>>, <<5, 5>>}\* with Res3: -4 and 6 beyond both limits / exactly at both limits
ThrAsym == {<<5, 5>>, <<3, 7>>}
ThrAll  == {<<5, 5>>, <<3, 7>>, <<7, 3>>}
None == [pc |-> "none", curveOf |-> {}, points |-> {}, nfit |-> 0, bk |-> {}, curveBk |-> {}]

Id(n)  == [i \in 1..n |-> i]
Rev(n) == [i \in 1..n |-> n + 1 - i]
Rot(n) == [i \in 1..n |-> (i % n) + 1]
Swp(n) == [i \in 1..n |-> IF i = 1 THEN n ELSE IF i = n THEN 1 ELSE i]
PermSet(n) == IF PermSel = "all" THEN Permutations(1..n)
              ELSE IF PermSel = "id" THEN {Id(n)} ELSE {Id(n), Rev(n), Rot(n), Swp(n)}

Problem(n, perm, g, thr, mi) ==
  [n |-> n, perm |-> perm, cpos |-> {c \in 1..n : perm[c] \in g}, lower |-> thr[1], upper |-> thr[2],
   band |-> 0, maxiter |-> mi, mingood |-> MinGood, nbk |-> NBk]

Init == /\ \E n \in Ns : \E perm \in PermSet(n) : \E g \in SUBSET (1..n) : \E thr \in Thrs : \E mi \in MaxIters :
             InitWith(Problem(n, perm, g, thr, mi))
        /\ first = None /\ orc = {}

ZChoices(m) == {z \in [1..prob.n -> ResVals \cup OffVals] :
                  \A i \in 1..prob.n : IF i \in m THEN z[i] \in ResVals ELSE z[i] \in OffVals}
Drops == Len(SelectSeq(hist, LAMBDA e : e.a = "fit" /\ e.st = -1))

(* the oracle is keyed by the set fitted AND the breakpoints in effect *)
Answer(st, d, z) == [mask |-> work, bk |-> bk, st |-> st, d |-> d, z |-> z]
Known == {o \in orc : o.mask = work /\ o.bk = bk}
DropChoices == IF Drops < MaxDrops THEN (SUBSET bk) \ {{}, bk} ELSE {}
FitStep ==
  IF Mode = "pair" /\ Known # {}
  THEN /\ \E o \in Known : Fit(o.st, o.d)
       /\ UNCHANGED <<first, orc>>
  ELSE /\ \/ Fit(0, {}) /\ UNCHANGED orc
          \/ \E d \in DropChoices : /\ Fit(-1, d)
                                     /\ orc' = IF Mode = "pair" THEN orc \cup {Answer(-1, d, <<>>)} ELSE orc
       /\ UNCHANGED first
RejectStep ==
  IF Mode = "pair" /\ \E o \in Known : o.st = 0
  THEN /\ \E o \in Known : o.st = 0 /\ Reject(o.z, SureBeyond(prob, work, o.z), o.bk)
       /\ UNCHANGED <<first, orc>>
  ELSE /\ \E z \in ZChoices(work) : /\ Reject(z, SureBeyond(prob, work, z), bk)
                                    /\ orc' = IF Mode = "pair" THEN orc \cup {Answer(0, {}, z)} ELSE orc
       /\ UNCHANGED first

(* pair mode: the same data handed over in another order *)
Restart ==
  /\ Mode = "pair" /\ Finished /\ first = None
  /\ first' = [pc |-> pc, curveOf |-> curveOf, points |-> {prob.perm[c] : c \in outmask}, nfit |-> Len(Fits(hist)),
                  bk |-> bk, curveBk |-> curveBk]
  /\ \E perm \in Permutations(1..prob.n) :
       prob' = [prob EXCEPT !.perm = perm, !.cpos = {c \in 1..prob.n : perm[c] \in Good(prob)}]
  /\ pc' = "start" /\ xsort' = <<>> /\ work' = {} /\ iter' = 0 /\ status' = 0
  /\ qdone' = FALSE /\ curveOf' = {} /\ outmask' = {} /\ hist' = <<>>
  /\ bk' = 1..prob.nbk /\ curveBk' = {}
  /\ UNCHANGED orc

Next ==
  \/ /\ \/ Sort
        \/ WithFail /\ FitFails
        \/ Mode = "single" /\ SkipReject
        \/ LoopOrExit \/ Unsort \/ Return
     /\ UNCHANGED <<first, orc>>
  \/ FitStep
  \/ RejectStep
  \/ Restart
  \/ (Finished /\ (Mode = "single" \/ first # None) /\ UNCHANGED mvars)

(* ---- the laws, one invariant each ---- *)
C10_TypeOK == TypeOK
C10_SortIsArgsort == SortIsArgsort
C10_ZeroWeightNeverUsed == ZeroWeightNeverUsed
C10_MaskInCallerOrder == MaskInCallerOrder
C10_MaxIter0IsPlainFit == MaxIter0IsPlainFit
C10_ReturnedCurveIsLastFit == ReturnedCurveIsLastFit
C10_FixpointOrBudget == FixpointOrBudget
C10_WithinBudget == WithinBudget
C10_RejectedStayOut == RejectedStayOut
C10_OutliersRejectedAndRefitted == OutliersRejectedAndRefitted
C10_PermutationInvariance ==
  (first # None /\ Finished) =>
     /\ first.pc = pc
     /\ pc = "done" => /\ curveOf = first.curveOf
                       /\ {prob.perm[c] : c \in outmask} = first.points
                       /\ Len(Fits(hist)) = first.nfit
                       /\ bk = first.bk /\ curveBk = first.curveBk
C10_BreakpointsOnlyShrink == BreakpointsOnlyShrink
C10_ResidualsOnBreakpointsInEffect == ResidualsOnBreakpointsInEffect
C10_ReturnedCurveOnReturnedBreakpoints == ReturnedCurveOnReturnedBreakpoints
=============================================================================
