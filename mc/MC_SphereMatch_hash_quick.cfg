CONSTANT Mode = "hash"
CONSTANT N1s = {2}
CONSTANT N2s = {2}
CONSTANT Ks = {0}
CONSTANT MaxRank = 1
CONSTANT MaxCand = 1
CONSTANT NCs = {1, 3, 4}
CONSTANT NBs = {1, 2, 3}
CONSTANT Ss = {3, 4}
CONSTANT Wrap = TRUE
CONSTANT Guard = TRUE
CONSTANT Walk = TRUE
INIT Init
NEXT Next
CHECK_DEADLOCK FALSE
INVARIANT C04_GeometryOK
INVARIANT C04_HashComplete
INVARIANT C04_HashOnce
INVARIANT C04_NeededWithinAssign
