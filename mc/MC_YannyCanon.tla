--------------------------- MODULE MC_YannyCanon ---------------------------
(* Dumps, for every literal document, what reading any rendering of it must yield.  *)
EXTENDS Yanny, YannyDocs
VARIABLES id, canon, nitems, pairdict
Init == /\ id \in AllDocIds
        /\ canon = Canon(DocById(id))
        /\ nitems = Len(DocById(id).pairs) + Len(DocById(id).enums) + Len(DocById(id).structs) + Len(DocById(id).rows)
        /\ pairdict = PairDict(Canon(DocById(id)))
Next == UNCHANGED <<id, canon, nitems, pairdict>>
(* the canonical writer's text is itself a rendering *)
X_RowOfTotal == \A ti \in 1..Len(canon.tables) : RowOf(canon, ti, 0) = <<>> /\ RowOf(canon, ti, Len(canon.tables[ti].rows) + 1) = <<>>
                   /\ Len(ListOfDicts(canon, ti)) = Len(canon.tables[ti].rows)
(* the writer upper-cases enum type names; a document with a lower-case enum name (D7, a reader-side document) is not
   something the writer produces, so the writer law is stated for the others *)
WriterExpressible(d) == \A k \in 1..Len(d.enums) : UpStr(d.enums[k].name) = d.enums[k].name
C01_WriteDocRoundTrip == WriterExpressible(DocById(id)) => SpecParse(WriteDoc(DocById(id))) = canon
=============================================================================
