--------------------------- MODULE MC_YannyCanon ---------------------------
(* Dumps, for every literal document, what reading any rendering of it must yield.  *)
EXTENDS Yanny, YannyDocs
VARIABLES id, canon, nitems
Init == /\ id \in AllDocIds
        /\ canon = Canon(DocById(id))
        /\ nitems = Len(DocById(id).pairs) + Len(DocById(id).enums) + Len(DocById(id).structs) + Len(DocById(id).rows)
Next == UNCHANGED <<id, canon, nitems>>
(* the canonical writer's text is itself a rendering *)
C01_WriteDocRoundTrip == SpecParse(WriteDoc(DocById(id))) = canon
=============================================================================
