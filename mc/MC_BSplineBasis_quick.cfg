CONSTANT Families = {"eval", "order", "rep", "full", "intx", "opt"}
CONSTANT BkMax = 4
CONSTANT Nords = {1, 2, 3, 4, 5, 6}
CONSTANT SpreadSel = "none"
CONSTANT RepLen = 4
CONSTANT OrderLen = 3
CONSTANT FullNords = {2, 3}
CONSTANT FullExtra = {0, 1}
CONSTANT IntxMax = 3
CONSTANT FormAllNs = {}
CONSTANT Ns = {1, 2, 3, 5, 8, 12}
CONSTANT OptNords = {1, 2, 4, 6}
CONSTANT AgreeNords = {1, 2, 3, 4}
INIT Init
NEXT Next
INVARIANT C08_KnotsNonDecreasing
INVARIANT C08_CoversData
INVARIANT C08_ExtraKnots
INVARIANT C08_OptionLaws
INVARIANT C08_PartitionOfUnity
INVARIANT C08_RangeIsCovered
INVARIANT C08_DefinitionsAgree
INVARIANT C08_Continuity
INVARIANT C08_ProcedureEqualsDefinition
INVARIANT C08_MaskExactlyOutside
INVARIANT C08_FormsRepresent
INVARIANT C08_FormIndependent
CHECK_DEADLOCK FALSE
