CONSTANT N = 12
CONSTANT NI = 12
CONSTANT B = 10
CONSTANT NP = 6
CONSTANT BP = 40
CONSTANT PairStride = 41
CONSTANT PairMinGood = 3
CONSTANT NS = 110
CONSTANT StackOffsets <- ThoroughOffsets
CONSTANT StackGrids = {1, 2, 3}
CONSTANT NE = 106
CONSTANT Families = {"single", "infl", "pair", "pairinfl", "stack", "edge"}
INIT Init
NEXT Next
INVARIANT C11_FastEqDef
INVARIANT C11_OutsideRange
INVARIANT C11_AllBad
INVARIANT C11_LenientStrict
INVARIANT C11_ModelContains
INVARIANT C11_InteriorKept
INVARIANT C11_Monotone
INVARIANT C11_InterpBound
INVARIANT C11_MultiIntersection
INVARIANT C11_MultiShrinks
INVARIANT C11_ExpIsSpec
INVARIANT C11_StackCoverage
INVARIANT C11_EdgeCounts
INVARIANT C11_InflNoIsolated
CHECK_DEADLOCK FALSE
