CONSTANT Families = {"basis", "sweep", "masks", "zerow", "general", "history", "tset", "tgrid"}
CONSTANT Dens = {1, 2, 3, 4}
CONSTANT CoefSel = "small"
CONSTANT XIds = {1, 7}
CONSTANT ZIds = {1}
CONSTANT HIds = {7}
CONSTANT Lays = {2, 3, 4, 5, 6, 7, 8}
CONSTANT Mod = 12
CONSTANT TsMod = 24
CONSTANT GMod = 8
INIT Init
NEXT Next
INVARIANT C13_Representable
INVARIANT C13_ThreeDefinitionsAgree
INVARIANT C13_EndpointOne
INVARIANT C13_Parity
INVARIANT C13_BoundedByOne
INVARIANT C13_PrefixStable
INVARIANT C13_ChebCosine
INVARIANT C13_LegAtZero
INVARIANT C13_SplitLaw
INVARIANT C13_ExpectedIsWLS
INVARIANT C13_FixedKept
INVARIANT C13_ExactRecovered
INVARIANT C13_SolveAgreesOnExact
INVARIANT C13_WellPosedIsSolvable
INVARIANT C13_ZeroWeightNoInfluence
INVARIANT C13_NoBetterNeighbour
INVARIANT C13_HistoryPerCall
INVARIANT C13_TsetExact
INVARIANT C13_TsetWLS
INVARIANT C13_FitThenEvaluate
INVARIANT C13_XNormLaws
INVARIANT C13_GridLaws
INVARIANT C13_RowIndependence
INVARIANT C13_IgnoreJump
INVARIANT C13_GridLenLaws
INVARIANT C13_GridIgnoreJump
INVARIANT C13_GridDerived
CHECK_DEADLOCK FALSE
