CONSTANT Families = {"wls", "pcomp", "hmfx", "hmfm"}
CONSTANT Tier = "quick"
INIT Init
NEXT Next
INVARIANT C15a_YfitIsAx
INVARIANT C15a_GradientZero
INVARIANT C15a_Chi2IsWeightedResidual
INVARIANT C15a_CovarIsInverse
INVARIANT C15a_VarIsDiagonal
INVARIANT C15a_DofCountsWeighted
INVARIANT C15a_NormalPosDef
INVARIANT C15a_NoBetterNeighbour
INVARIANT C15a_ZeroWeightIgnored
INVARIANT C15a_ScaleBoundsSolution
INVARIANT C15a_ScaleHomogeneous
INVARIANT C15a_LayoutIndependent
INVARIANT C15a_HomogeneousInB
INVARIANT C15a_HomogeneousInS
INVARIANT C15a_HomogeneousInA
INVARIANT C15a_ModelShift
INVARIANT C15b_ScatterSymmetric
INVARIANT C15b_ScatterCauchySchwarz
INVARIANT C15b_ScatterShiftInvariant
INVARIANT C15b_SingularWhenFewObs
INVARIANT C15c_GradientVanishesA
INVARIANT C15c_GradientVanishesG
INVARIANT C15c_OnlyOneFactorMoves
INVARIANT C15c_ProtoGradient
INVARIANT C15c_ProtoReorderPreservesModel
INVARIANT C15c_ProtoUnitRms
INVARIANT C15c_ProtoNonNegKept
INVARIANT C15c_ProtoSeedDeterminism
INVARIANT C15c_ProtoInputsUntouched
INVARIANT C15c_ProtoDoneMeansAllIterations
PROPERTY C15c_ChiNonIncreasing
PROPERTY C15c_ProtoChiNonIncreasing
PROPERTY C15c_ProtoOrder
CHECK_DEADLOCK FALSE
