---------------------------- MODULE MC_ReadSpec ----------------------------
(* Bounded instance for C16.  Families (constant):                                       *)
(*   "files"   one state per file of the tree with its full synthetic contents (the      *)
(*             harness writes the FITS files from these states)                          *)
(*   "machine" request vectors of length <= MaxLen over Tree x Fibs are built one        *)
(*             element at a time (Extend), submitted in every calling convention that    *)
(*             fits (Submit) and carried through the procedure one action per step:      *)
(*             Normalise, Group, ReadFile, Append, Reorder, Return                       *)
(*   "loc"     request vectors of length <= LocLen in every way of locating the tree     *)
(*   "allfib"  the fibre-omitted calls                                                   *)
(*   "append"  spec_append on all shapes <= AppMax x AppMax, shifts -AppMax..AppMax      *)
(*   "long"    scrambled request vectors of 17..40 elements                              *)
(*   "runs"    the requests on one file are a contiguous block of k fibres in every      *)
(*             order a block can be asked for (RunShapes), alone or interleaved with     *)
(*             requests on another file                                                  *)
(* The states with pc = "done" carry the call and the dictionary readspec must return.   *)
EXTENDS ReadSpec, TLC
CONSTANTS Families, MaxLen, LocLen, Fibs, AppMax, LongLens, LongSeeds, RunLens, RunSeeds
VARIABLES pc, b, call, req, keys, ki, blk, acc, ret
vars == <<pc, b, call, req, keys, ki, blk, acc, ret>>

Triples == {[plate |-> Tree[f].plate, mjd |-> Tree[f].mjd, fib |-> k] : f \in Files, k \in Fibs}
Convs == {[p |-> "s", m |-> "s", f |-> "s"], [p |-> "s", m |-> "s", f |-> "v"],
          [p |-> "s", m |-> "o", f |-> "s"], [p |-> "s", m |-> "o", f |-> "v"],
          [p |-> "v", m |-> "v", f |-> "s"], [p |-> "v", m |-> "v", f |-> "v"],
          [p |-> "v", m |-> "o", f |-> "s"], [p |-> "v", m |-> "o", f |-> "v"]}
Fits(bb, cv) ==
  /\ (cv.p = "s") => \A i \in DOMAIN bb : bb[i].plate = bb[1].plate
  /\ (cv.m = "s") => \A i \in DOMAIN bb : bb[i].mjd = bb[1].mjd
  /\ (cv.m = "o") => \A i \in DOMAIN bb : bb[i].mjd = Latest(bb[i].plate)
  /\ (cv.f = "s") => \A i \in DOMAIN bb : bb[i].fib = bb[1].fib
  /\ (cv.p = "s" /\ cv.f = "s") => Len(bb) = 1
MkCall(bb, cv, loc) ==
  [kind |-> "readspec", conv |-> cv, loc |-> loc, mem |-> "plain", num |-> "int",
   p |-> IF cv.p = "s" THEN <<bb[1].plate>> ELSE [i \in DOMAIN bb |-> bb[i].plate],
   m |-> IF cv.m = "o" THEN <<>> ELSE IF cv.m = "s" THEN <<bb[1].mjd>> ELSE [i \in DOMAIN bb |-> bb[i].mjd],
   f |-> IF cv.f = "s" THEN <<bb[1].fib>> ELSE [i \in DOMAIN bb |-> bb[i].fib]]
AllFibCall(ps, ms) == [kind |-> "readspec", conv |-> [p |-> IF Len(ps) = 1 THEN "s" ELSE "v",
                                                       m |-> IF ms = <<>> THEN "o" ELSE "s", f |-> "o"],
                       loc |-> "env", mem |-> "plain", num |-> "int", p |-> ps, m |-> ms, f |-> <<>>]

RECURSIVE Ascending(_)
Ascending(S) == IF S = {} THEN <<>> ELSE LET x == CHOOSE y \in S : \A z \in S : y <= z IN <<x>> \o Ascending(S \ {x})

(* "long" family: request vectors of 17..40 elements (beyond any small-array special case *)
(* of a sort), necessarily with repeated plate-MJDs and repeated fibres.  Element i of    *)
(* vector (n, s, v) is a scrambled pick: v = "any" over all files, "latest" over the      *)
(* latest MJD of every plate (fits the MJD-omitted conventions), "onefile" within one     *)
(* file (fits the scalar-plate conventions).                                               *)
NF == Cardinality(Fibs)
Scramble(i, s, n) == ((s * 7 + i * i * 5 + i * 3) % n) + 1
LatestFiles == Ascending({f \in Files : Tree[f].mjd = Latest(Tree[f].plate)})
LongVec(n, s, v) ==
  [i \in 1..n |->
     LET f == IF v = "any" THEN Scramble(i, s, Len(Tree))
              ELSE IF v = "latest" THEN LatestFiles[Scramble(i, s, Len(LatestFiles))]
              ELSE (s % Len(Tree)) + 1
         k == Scramble(i + s, s + 1, NF)
     IN [plate |-> Tree[f].plate, mjd |-> Tree[f].mjd, fib |-> k]]

(* "runs" family: the k requests on file f ask for the fibres of the contiguous block       *)
(* a..a+k-1 (k in RunLens: from 2 up to more fibres than any "few rows" special case; the    *)
(* block at the start, inside and at the end of the plate).  A block can be asked for in     *)
(* ascending order - the one order in which reading a slice of the file and gathering the    *)
(* rows one by one coincide - and in every other: descending, rotated, with two neighbours   *)
(* swapped, with the end points in place and the interior reversed / rotated, and with an    *)
(* interior fibre replaced by its predecessor (one fibre twice, one not at all, end points   *)
(* still spanning k-1).  Row i of the result belongs to request i in all of them.            *)
RunShapes == {"asc", "desc", "rot", "swap", "dup", "ends-rev", "ends-rot"}
RunFib(sh, a, k, s, i) ==
  LET up == a + i - 1
      n == k - 2                                    \* interior positions 2..k-1
  IN CASE sh = "asc" -> up
       [] sh = "desc" -> a + k - i
       [] sh = "rot" -> a + ((i - 1 + s) % k)
       [] sh = "swap" -> LET pos == (s % (k - 1)) + 1 IN IF i = pos THEN up + 1 ELSE IF i = pos + 1 THEN up - 1 ELSE up
       [] sh = "dup" -> IF k >= 3 /\ i = (s % n) + 2 THEN up - 1 ELSE up
       [] sh = "ends-rev" -> IF i = 1 \/ i = k THEN up ELSE a + (k - i)
       [] sh = "ends-rot" -> IF i = 1 \/ i = k THEN up ELSE a + 1 + ((i - 2 + s) % n)
RunVec(f, sh, a, k, s) == [i \in 1..k |-> [plate |-> Tree[f].plate, mjd |-> Tree[f].mjd, fib |-> RunFib(sh, a, k, s, i)]]
(* the same block with a request on file g in front of every two of its elements *)
Mixed(run, g, s) ==
  LET k == Len(run) IN
  [j \in 1..(k + ((k + 1) \div 2)) |->
     LET t == (j - 1) \div 3
         r == (j - 1) % 3
     IN IF r = 0 THEN [plate |-> Tree[g].plate, mjd |-> Tree[g].mjd, fib |-> Scramble(t + s, s, NF)]
        ELSE run[2 * t + r]]
RunCall(bb, cv) == [kind |-> "readspec", fam |-> "runs", conv |-> cv, loc |-> "env", mem |-> "plain", num |-> "int",
                    p |-> MkCall(bb, cv, "env").p, m |-> MkCall(bb, cv, "env").m, f |-> MkCall(bb, cv, "env").f]
(* what makes a vector a member of the family: on one of its files the requested fibres all *)
(* lie in a block as wide as the number of requests on that file                            *)
IsBlockOn(rq, key) ==
  LET fs == {rq[i].fib : i \in {j \in DOMAIN rq : KeyOf(rq[j]) = key}}
      lo == CHOOSE x \in fs : \A y \in fs : x <= y
  IN MaxOf(fs) - lo < Len(Positions(rq, key))

NoCall == [kind |-> "none"]
Blank(p) == /\ pc = p /\ b = <<>> /\ call = NoCall /\ req = <<>> /\ keys = <<>> /\ ki = 0
            /\ blk = Empty /\ acc = Empty /\ ret = <<>>
Block(n, r, w) == [i \in 1..r |-> [q \in 1..w |-> n * 100 + i * 10 + q]]
AppArgs(c) == <<c.s1, c.s2, c.shift>>
(* value ranges of the two blocks: the second (or first) block holds values the other      *)
(* block's narrowest type cannot (above 2^16, negative, odd above 2^24)                     *)
AppVariants == {"same", "big2", "big1", "neg2", "wide2"}
Vary(m, v, n) == [i \in DOMAIN m |-> [q \in DOMAIN m[i] |->
                    IF (v = "big2" /\ n = 2) \/ (v = "big1" /\ n = 1) THEN m[i][q] + 70000
                    ELSE IF v = "neg2" /\ n = 2 THEN 0 - m[i][q]
                    ELSE IF v = "wide2" /\ n = 2 THEN 16777217 + 2 * m[i][q]
                    ELSE m[i][q]]]

Init ==
  \/ "machine" \in Families /\ Blank("build")
  \/ /\ "files" \in Families
     /\ \E f \in Files : /\ pc = "file" /\ ret = FileContents(f)
                         /\ b = <<>> /\ call = NoCall /\ req = <<>> /\ keys = <<>> /\ ki = 0 /\ blk = Empty /\ acc = Empty
  \/ /\ "loc" \in Families
     /\ \E n \in 1..LocLen : \E bb \in [1..n -> Triples] : \E cv \in Convs : \E loc \in Locs \ {"env"} :
          /\ Fits(bb, cv)
          /\ (loc = "path") => \A i \in 1..n : bb[i].plate = bb[1].plate
          /\ call = MkCall(bb, cv, loc)
          /\ pc = "call" /\ b = <<>> /\ req = <<>> /\ keys = <<>> /\ ki = 0 /\ blk = Empty /\ acc = Empty /\ ret = <<>>
  \/ /\ "long" \in Families
     /\ \E n \in LongLens : \E s \in LongSeeds : \E v \in {"any", "latest", "onefile"} : \E cv \in Convs :
          /\ Fits(LongVec(n, s, v), cv)
          /\ call = MkCall(LongVec(n, s, v), cv, "env")
     /\ pc = "call" /\ b = <<>> /\ req = <<>> /\ keys = <<>> /\ ki = 0 /\ blk = Empty /\ acc = Empty /\ ret = <<>>
  \/ /\ "runs" \in Families
     \* one cheap initial state per block description; the vectors and calls are built by RunSubmit (all workers)
     /\ \E k \in RunLens : \E f \in Files : \E sh \in RunShapes : \E s \in RunSeeds : \E mixed \in BOOLEAN :
          /\ k <= Tree[f].nfib
          /\ \E a \in {1, 3, Tree[f].nfib - k + 1} :
               /\ a + k - 1 <= Tree[f].nfib
               /\ b = <<[k |-> k, file |-> f, sh |-> sh, s |-> s, a |-> a, mixed |-> mixed]>>
     /\ pc = "runs" /\ call = NoCall /\ req = <<>> /\ keys = <<>> /\ ki = 0 /\ blk = Empty /\ acc = Empty /\ ret = <<>>
  \/ /\ "allfib" \in Families
     /\ \/ \E f \in Files : \E om \in BOOLEAN :
              /\ om => Tree[f].mjd = Latest(Tree[f].plate)
              /\ call = AllFibCall(<<Tree[f].plate>>, IF om THEN <<>> ELSE <<Tree[f].mjd>>)
        \/ \E S \in SUBSET Plates : Cardinality(S) >= 2 /\ call = AllFibCall(Ascending(S), <<>>)
     /\ pc = "call" /\ b = <<>> /\ req = <<>> /\ keys = <<>> /\ ki = 0 /\ blk = Empty /\ acc = Empty /\ ret = <<>>
  \/ /\ "append" \in Families
     /\ \E r1, r2 \in 1..2 : \E p1, p2 \in 1..AppMax : \E s \in (-AppMax)..AppMax : \E v \in AppVariants :
          call = [kind |-> "append", s1 |-> Vary(Block(1, r1, p1), v, 1), s2 |-> Vary(Block(2, r2, p2), v, 2),
                  shift |-> s, v |-> v]
     /\ ret = SpecAppend(AppArgs(call)[1], AppArgs(call)[2], call.shift)
     /\ pc = "appended" /\ b = <<>> /\ req = <<>> /\ keys = <<>> /\ ki = 0 /\ blk = Empty /\ acc = Empty

Extend == /\ pc = "build" /\ Len(b) < MaxLen
          /\ \E t \in Triples : b' = Append(b, t)
          /\ UNCHANGED <<pc, call, req, keys, ki, blk, acc, ret>>
Submit == /\ pc = "build" /\ b # <<>>
          /\ \E cv \in Convs : Fits(b, cv) /\ call' = MkCall(b, cv, "env")
          /\ pc' = "call" /\ b' = <<>>
          /\ UNCHANGED <<req, keys, ki, blk, acc, ret>>
RunSubmit == /\ pc = "runs"
             /\ LET d == b[1]
                    run == RunVec(d.file, d.sh, d.a, d.k, d.s)
                    vec == IF d.mixed THEN Mixed(run, (d.file % Len(Tree)) + 1, d.s) ELSE run
                IN \E cv \in Convs : Fits(vec, cv) /\ call' = RunCall(vec, cv)
             /\ pc' = "call" /\ b' = <<>>
             /\ UNCHANGED <<req, keys, ki, blk, acc, ret>>
Normalise == /\ pc = "call" /\ req' = Requests(call) /\ pc' = "group"
             /\ UNCHANGED <<b, call, keys, ki, blk, acc, ret>>
Group == /\ pc = "group" /\ keys' = SortedKeys(req) /\ ki' = 1 /\ pc' = "read"
         /\ UNCHANGED <<b, call, req, blk, acc, ret>>
ReadFile == /\ pc = "read" /\ blk' = ReadBlock(req, keys[ki]) /\ pc' = "append"
            /\ UNCHANGED <<b, call, req, keys, ki, acc, ret>>
AppendStep == /\ pc = "append" /\ acc' = AppendBlock(acc, blk) /\ blk' = Empty
              /\ ki' = ki + 1 /\ pc' = IF ki = Len(keys) THEN "reorder" ELSE "read"
              /\ UNCHANGED <<b, call, req, keys, ret>>
ReorderStep == /\ pc = "reorder" /\ acc' = Reorder(acc) /\ pc' = "return"
               /\ UNCHANGED <<b, call, req, keys, ki, blk, ret>>
ReturnStep == /\ pc = "return" /\ ret' = Return(acc, req) /\ acc' = Empty /\ pc' = "done"
              /\ UNCHANGED <<b, call, req, keys, ki, blk>>
Next == Extend \/ Submit \/ RunSubmit \/ Normalise \/ Group \/ ReadFile \/ AppendStep \/ ReorderStep \/ ReturnStep

(* ------------------------------ properties ---------------------------------- *)
ASSUME TreeWellFormed /\ LayoutWellFormed /\ OrderRelationsCovered /\ SolutionRelationsCovered
Done == pc = "done"
TypeOK == /\ pc \in {"build", "runs", "file", "call", "group", "read", "append", "reorder", "return", "done", "appended"}
          /\ ki \in 0..(Len(Tree) + 1)
          /\ (call.kind = "readspec") => (ValidCall(call) /\ call.loc \in Locs /\ call.mem \in Mems /\ call.num \in Nums)
          /\ (pc \notin {"build", "runs", "file", "call", "appended"}) => RequestOK(req)
C16_RowIdentity == Done => RowIdentity(req, ret)
C16_NoShift == Done => NoShift(req, ret)
C16_ZeroPadRight == Done => ZeroPadRight(req, ret)
C16_LoglamAffine == Done => LoglamAffine(req, ret)
C16_TablesFollow == Done => TablesFollow(req, ret)
(* Run (the composition of the step operators as one expression) is compared on the short  *)
(* vectors only: TLC evaluates its nested function expressions lazily, which is slow for    *)
(* long ones; the actions themselves are checked against Specified for every vector.        *)
C16_MatchesSpecified == Done => (ret = Specified(req) /\ (Len(req) <= 8 => ret = Run(req)))
(* the result does not depend on the calling convention or on how the tree is located *)
C16_ConvIndependent == (Done /\ call.conv.f # "o") => \A cv \in Convs :
      Fits(req, cv) => Requests(MkCall(req, cv, call.loc)) = req
C16_MemIndependent == (pc = "call") => MemIndependent(call)
(* bookkeeping of the procedure: positions read so far are distinct request positions,   *)
(* the accumulated block is rectangular, and before Reorder they are a permutation       *)
C16_IndexBookkeeping ==
  /\ (pc \in {"read", "append", "reorder"}) =>
        /\ Injective(acc.pos)
        /\ {acc.pos[x] : x \in DOMAIN acc.pos} \subseteq DOMAIN req
        /\ Len(acc.img) = Len(acc.pos) /\ Len(acc.ll) = Len(acc.pos) /\ Len(acc.rows) = Len(acc.pos)
        /\ \A x \in DOMAIN acc.img : Len(acc.img[x]) = Len(acc.img[1])
  /\ (pc = "reorder") => IsPermutation(acc.pos, Len(req))
  /\ (pc = "return") => acc.pos = [i \in DOMAIN req |-> i]
(* the "runs" family is what it says: some file's requests lie in a block no wider than their number *)
C16_RunsAreBlocks == (pc = "group" /\ "fam" \in DOMAIN call) => \E key \in {KeyOf(req[i]) : i \in DOMAIN req} : IsBlockOn(req, key)
IsApp == pc = "appended"
C16_AppendShape == IsApp => AppendShape(AppArgs(call)[1], AppArgs(call)[2], call.shift, ret)
C16_AppendNoOverlap == IsApp => AppendNoOverlap(AppArgs(call)[1], AppArgs(call)[2], call.shift, ret)
C16_AppendNothingLost == IsApp => AppendNothingLost(AppArgs(call)[1], AppArgs(call)[2], call.shift, ret)
C16_AppendPadsZero == IsApp => AppendPadsZero(AppArgs(call)[1], AppArgs(call)[2], call.shift, ret)
(* every cell of both inputs occurs exactly once in the result (cells are distinct, non-zero) *)
C16_AppendBijective == IsApp =>
  LET cells(m) == {m[i][q] : i \in DOMAIN m, q \in DOMAIN m[1]}
      occ(v) == Cardinality({x \in (DOMAIN ret) \X (DOMAIN ret[1]) : ret[x[1]][x[2]] = v})
  IN \A v \in cells(AppArgs(call)[1]) \cup cells(AppArgs(call)[2]) : occ(v) = 1
=============================================================================
