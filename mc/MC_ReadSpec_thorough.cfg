CONSTANT Tree <- StdTree4
CONSTANT Families = {"machine", "loc", "allfib", "append", "long", "runs"}
CONSTANT MaxLen = 4
CONSTANT LocLen = 2
CONSTANT Fibs = {1, 2, 3}
CONSTANT AppMax = 3
CONSTANT LongLens = {17, 18, 20, 23, 27, 32, 36, 40}
CONSTANT LongSeeds = {1, 2, 3, 4, 5, 6, 7, 8, 9, 10}
CONSTANT RunLens = {2, 3, 4, 5, 6, 7, 8, 9, 10, 11, 12, 13, 14, 15, 16, 17, 18, 20, 24, 31, 32, 33, 40}
CONSTANT RunSeeds = {1, 2, 3, 5}
INIT Init
NEXT Next
INVARIANT TypeOK
INVARIANT C16_RowIdentity
INVARIANT C16_NoShift
INVARIANT C16_ZeroPadRight
INVARIANT C16_LoglamAffine
INVARIANT C16_TablesFollow
INVARIANT C16_MatchesSpecified
INVARIANT C16_ConvIndependent
INVARIANT C16_MemIndependent
INVARIANT C16_IndexBookkeeping
INVARIANT C16_RunsAreBlocks
INVARIANT C16_AppendShape
INVARIANT C16_AppendNoOverlap
INVARIANT C16_AppendNothingLost
INVARIANT C16_AppendPadsZero
INVARIANT C16_AppendBijective
CHECK_DEADLOCK FALSE
