CONSTANT Mode = "greedy"
CONSTANT N1s = {2, 3}
CONSTANT N2s = {1, 2}
CONSTANT Ks = {0, 1, 2}
CONSTANT MaxRank = 2
CONSTANT MaxCand = 3
CONSTANT NCs = {1}
CONSTANT NBs = {1}
CONSTANT Ss = {2}
CONSTANT Wrap = TRUE
CONSTANT Guard = TRUE
CONSTANT Walk = TRUE
INIT Init
NEXT Next
CHECK_DEADLOCK FALSE
INVARIANT C04_ProblemOK
INVARIANT C04_GreedyCharacterisation
INVARIANT C04_UnlimitedIsKZero
INVARIANT C04_LargeKIsUnlimited
INVARIANT C04_CountersAreUses
INVARIANT C04_OutWithinSeen
