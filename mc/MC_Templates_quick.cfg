CONSTANT Families = {"num", "wrong", "good", "run", "clip", "big", "nkeep", "main"}
CONSTANT Quick = TRUE
INIT Init
NEXT Next
INVARIANT X09_PcaIgnoresHmfKeys
INVARIANT X09_RefusalNamesAWrongKey
INVARIANT X09_AcceptedIffAllRight
INVARIANT X09_AcceptedEnv
INVARIANT X09_NumberNotation
INVARIANT X09_RefusedMustRaise
INVARIANT X09_Clip
INVARIANT X09_Run
INVARIANT X09_Main
CHECK_DEADLOCK FALSE
