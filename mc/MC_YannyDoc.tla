---------------------------- MODULE MC_YannyDoc ----------------------------
(* C01: families of logical documents.  For each enumerated in-domain document d the spec-level *)
(* law is  SpecParse(WriteDoc(d)) = Canon(d)  (the canonical writer's text means d); for each    *)
(* excluded text class a witness document shows the law FAILS in the spec (the exclusions of the *)
(* statement are necessary).  Every document is dumped with its Canon and written/read through   *)
(* pydl's real entry points by the harness.                                                      *)
EXTENDS Yanny
CONSTANTS Families,     \* subset of {"strings", "elements", "types", "tables", "headers", "witness", "kinds"}
          MaxStr,       \* longest scalar string in the "strings" family
          MaxCols       \* longest column list in the "types" family
VARIABLES fam, doc, canon, expectOK, kind

Alpha == {"a", SP, TAB, "#", ";", "{", "}"}
SeqsUpTo(A, n) == {<<>>} \cup UNION {[1..k -> A] : k \in 1..n}

CInt == <<"i","n","t">>
ColI(n) == Col(n, CInt, 0, NotChar)
Doc1(cols, cells) == [pairs |-> <<>>, enums |-> <<>>,
                      structs |-> <<[name |-> <<"S">>, cols |-> cols]>>,
                      rows |-> <<[t |-> 1, cells |-> cells]>>]

(* ---- strings: one scalar char column, one 2-element char array column, one row ---- *)
StrCols == << Col(<<"s">>, KwChar, 0, 4), Col(<<"t">>, KwChar, 2, 2) >>
StringDoc(s, e1, e2) == Doc1(StrCols, <<s, <<e1, e2>>>>)

(* ---- curated: longer strings aimed at the reader's substitutions (double braces, quotes, comments) ---- *)
WideCols == << Col(<<"s">>, KwChar, 0, 12), Col(<<"t">>, KwChar, 2, 12) >>
WideDoc(s, e1, e2) == Doc1(WideCols, <<s, <<e1, e2>>>>)
Curated == { <<"a", "{", "{", "}", "}", "b">>, <<"a", SP, "{", "{", "}", "}", SP, "b">>, <<"a", SP, "{", SP, "{", SP, "}", SP, "}", SP, "b">>,
             <<"x", SP, "{", "{", "}", "}">>, <<"x", SP, "{", "}", SP, "y">>, <<"a", ";", "b", SP, "c">>, <<"#", SP, "x">>, <<"a", SP, "#", SP, "b", SP, "#">>,
             <<SP, "l", "e", "a", "d">>, <<"t", "r", "a", "i", "l", SP>>, <<"a", TAB, "b">>, <<";", "{", "}">>, <<"t", "y", "p", "e", "d", "e", "f">>,
             <<"S">>, <<"s", SP, "1">>, <<"a", BS, "b">>, <<"a", SP, BS, SP, "b">>, <<"}", SP, "x">>, <<"x", SP, "{">> }
CuratedElems == {e \in Curated : ElementStringOK(e)}

(* ---- types: every column list over 12 kinds, 0..2 rows ---- *)
Kinds12 == {"short", "int", "long", "float", "double", "short2", "int2", "long2", "float2", "double2",
            "char3", "char23", "enum", "int1", "double1", "char13"}     \* ...1 = array columns of length one
KShort == <<"s","h","o","r","t">>
KLong == <<"l","o","n","g">>
KFloat == <<"f","l","o","a","t">>
KDouble == <<"d","o","u","b","l","e">>
EName == <<"Q","U","A","L">>
ELabels == << <<"N","O">>, <<"Y","E","S">> >>
BaseOf(k) == CASE k \in {"short", "short2"} -> KShort [] k \in {"int", "int2", "int1"} -> CInt [] k \in {"long", "long2"} -> KLong
               [] k \in {"float", "float2"} -> KFloat [] k \in {"double", "double2", "double1"} -> KDouble
               [] k \in {"char3", "char23", "char13"} -> KwChar [] k = "enum" -> EName
ColOfKindN(k, nm) ==
  CASE k \in {"short", "int", "long", "float", "double", "enum"} -> Col(nm, BaseOf(k), 0, NotChar)
    [] k \in {"short2", "int2", "long2", "float2", "double2"} -> Col(nm, BaseOf(k), 2, NotChar)
    [] k \in {"int1", "double1"} -> Col(nm, BaseOf(k), 1, NotChar)
    [] k = "char3" -> Col(nm, KwChar, 0, 3)
    [] k = "char23" -> Col(nm, KwChar, 2, 3)
    [] k = "char13" -> Col(nm, KwChar, 1, 3)
ColOfKind(k, j) ==   \* each later name is a prefix of the earlier ones
  ColOfKindN(k, CASE j = 1 -> <<"a","b","_","x">> [] j = 2 -> <<"a","b">> [] OTHER -> <<"a">>)
(* column names that differ only in letter case are different columns (names are case-sensitive) *)
CaseName(j) == CASE j = 1 -> <<"r","a">> [] j = 2 -> <<"R","A">> [] OTHER -> <<"R","a">>
IntVals == << <<"7">>, <<"-","1">> >>
FltVals == << <<"1",".","5">>, <<"-","2",".","2","5">> >>
StrVals == << <<"a","b">>, <<>> >>
CellOfKind(k, r) ==
  CASE k \in {"short", "int", "long"} -> IntVals[r]
    [] k \in {"float", "double"} -> FltVals[r]
    [] k \in {"short2", "int2", "long2"} -> <<IntVals[r], IntVals[3 - r]>>
    [] k \in {"float2", "double2"} -> <<FltVals[3 - r], FltVals[r]>>
    [] k = "int1" -> <<IntVals[r]>>
    [] k = "double1" -> <<FltVals[r]>>
    [] k = "char13" -> <<StrVals[r]>>
    [] k = "char3" -> StrVals[r]
    [] k = "char23" -> IF r = 1 THEN << <<"x">>, <<"y", SP>> >> ELSE << <<>>, <<"#","z">> >>
    [] k = "enum" -> ELabels[r]
TypesDoc(ks, nrows) ==
  [pairs |-> <<>>,
   enums |-> IF \E j \in 1..Len(ks) : ks[j] = "enum" THEN <<[name |-> EName, labels |-> ELabels]>> ELSE <<>>,
   structs |-> <<[name |-> <<"T","Y">>, cols |-> [j \in 1..Len(ks) |-> ColOfKind(ks[j], j)]]>>,
   rows |-> [r \in 1..nrows |-> [t |-> 1, cells |-> [j \in 1..Len(ks) |-> CellOfKind(ks[j], r)]]]]

CaseColsDoc(ks, nrows) ==
  [pairs |-> <<>>,
   enums |-> IF \E j \in 1..Len(ks) : ks[j] = "enum" THEN <<[name |-> EName, labels |-> ELabels]>> ELSE <<>>,
   structs |-> <<[name |-> <<"T","Y">>, cols |-> [j \in 1..Len(ks) |-> ColOfKindN(ks[j], CaseName(j))]]>>,
   rows |-> [r \in 1..nrows |-> [t |-> 1, cells |-> [j \in 1..Len(ks) |-> CellOfKind(ks[j], r)]]]]

(* ---- tables: 1..3 tables whose names contain one another / equal a column name elsewhere ---- *)
NameSets == { << <<"A">> >>, << <<"A">>, <<"A","B">> >>, << <<"a","b">>, <<"A">>, <<"b">> >>,
              << <<"M","y","T">>, <<"M","Y">> >> }
TablesDoc(names, nrows) ==
  [pairs |-> <<>>, enums |-> <<>>,
   structs |-> [k \in 1..Len(names) |-> [name |-> names[k], cols |-> <<ColI(LoStr(names[(k % Len(names)) + 1])), Col(<<"w">>, KwChar, 0, 2)>>]],
   rows |-> [j \in 1..(nrows * Len(names)) |->
               [t |-> ((j - 1) % Len(names)) + 1, cells |-> <<NatStr(j), IF j % 2 = 0 THEN <<"q", SP>> ELSE <<>> >>]]]

(* ---- enumtables: an enum column in one table and a same-named numeric column in another ---- *)
EnumTablesDoc(nr) ==
  [pairs |-> <<>>,
   enums |-> <<[name |-> EName, labels |-> ELabels]>>,
   structs |-> << [name |-> <<"O","B","S">>, cols |-> <<Col(<<"s","t">>, EName, 0, NotChar), ColI(<<"n">>)>>],
                  [name |-> <<"C","N","T">>, cols |-> <<ColI(<<"s","t">>), Col(<<"q">>, KDouble, 0, NotChar)>>] >>,
   rows |-> [j \in 1..(2 * nr) |-> IF j % 2 = 1 THEN [t |-> 1, cells |-> <<ELabels[((j \div 2) % 2) + 1], NatStr(j)>>]
                                     ELSE [t |-> 2, cells |-> <<NatStr(j + 40), FltVals[((j \div 2) % 2) + 1]>>]]]

(* ---- headers: 0..2 pairs, value texts over a small alphabet ---- *)
HAlpha == {"a", SP, ";", "{", "}"}
HeaderKeys == { <<"k","e","y">>, <<"e","n","u","m">>, <<"s","t","r","u","c","t">>, <<"t","y","p","e","d","e","f","s">>, <<"n">>, <<"N">> }   \* "n" is a column name of H; a key equal to the TABLE name is outside the domain (Appendix A)
HeaderDocK(key, v, two) ==
  [pairs |-> IF two THEN << << key, v >>, << <<"m","j","d">>, <<"5","4">> >> >> ELSE << << key, v >> >>,
   enums |-> <<>>,
   structs |-> <<[name |-> <<"H">>, cols |-> <<ColI(<<"n">>)>>]>>,
   rows |-> <<[t |-> 1, cells |-> << <<"3">> >>]>>]
HeaderDoc(v, two) ==
  [pairs |-> IF two THEN << << <<"k","e","y">>, v >>, << <<"m","j","d">>, <<"5","4">> >> >> ELSE << << <<"k","e","y">>, v >> >>,
   enums |-> <<>>,
   structs |-> <<[name |-> <<"H">>, cols |-> <<ColI(<<"n">>)>>]>>,
   rows |-> <<[t |-> 1, cells |-> << <<"3">> >>]>>]

(* ---- hdrtypes: header values whose text is the str() of a non-string Python object (the harness supplies ---- *)
(* ---- the object: 0, 0.0, -0.0, False, None, ...); the statement demands the text form back               ---- *)
TypedTexts == { <<"0">>, <<"0",".","0">>, <<"-","0",".","0">>, <<"F","a","l","s","e">>, <<"N","o","n","e">>, <<"T","r","u","e">>,
                <<"1">>, <<"-","7">>, <<"2",".","5">>, <<"1","e","-","0","5">>, <<"i","n","f">>, <<"n","a","n">> }

(* ---- witnesses: one document per excluded text class; the round trip must FAIL in the spec ---- *)
Witnesses ==
  { StringDoc(<<"a", SP, DQ, "b">>, <<>>, <<>>),        \* a double quote (in a string that needs quoting)
    StringDoc(<<"{", "a">>, <<>>, <<>>),                \* a leading '{'
    StringDoc(<<"a">>, <<"x", "}">>, <<>>),             \* '}' inside a string-array element
    Doc1(<<ColI(<<"n">>), Col(<<"s">>, KwChar, 0, 4)>>, << <<"1">>, <<"a", BS>> >>),      \* backslash ending the last column
    HeaderDoc(<<"a", "#", "b">>, FALSE) }               \* '#' in a header value

(* ---- kinds: which scalar column types the writer must accept / refuse ---- *)
Supported == {"i2", "i4", "i8", "f4", "f8", "S"}
AllKinds == Supported \cup {"i1", "u1", "u2", "u4", "u8", "b1", "f2", "c8", "c16"}
NoDoc == [pairs |-> <<>>, enums |-> <<>>, structs |-> <<>>, rows |-> <<>>]

Gen(f, d, ok) == fam = f /\ doc = d /\ canon = Canon(d) /\ expectOK = ok /\ kind = ""
Init ==
  \/ /\ "strings" \in Families
     /\ \E s \in SeqsUpTo(Alpha, MaxStr) : ScalarStringOK(s) /\ Gen("strings", StringDoc(s, <<"p">>, <<>>), TRUE)
  \/ /\ "elements" \in Families
     /\ \E e1 \in SeqsUpTo(Alpha \ {"}"}, 2) : \E e2 \in SeqsUpTo(Alpha \ {"}"}, 2) :
          ElementStringOK(e1) /\ ElementStringOK(e2) /\ Gen("elements", StringDoc(<<"z">>, e1, e2), TRUE)
  \/ /\ "curated" \in Families
     /\ \/ \E s \in Curated : ScalarStringOK(s) /\ Gen("curated", WideDoc(s, <<"p">>, <<>>), TRUE)
        \/ \E e \in CuratedElems : Gen("curated", WideDoc(<<"z">>, e, <<"q">>), TRUE)
        \/ \E e \in CuratedElems : Gen("curated", WideDoc(<<"z">>, <<>>, e), TRUE)
  \/ /\ "types" \in Families
     /\ \E n \in 1..MaxCols : \E ks \in [1..n -> Kinds12] : \E nr \in 0..2 : Gen("types", TypesDoc(ks, nr), TRUE)
  \/ /\ "types" \in Families
     /\ \E ks \in [1..2 -> Kinds12] : ks[1] # ks[2] /\ \E nr \in 1..2 : Gen("casecols", CaseColsDoc(ks, nr), TRUE)
  \/ /\ "tables" \in Families
     /\ \E ns \in NameSets : \E nr \in 0..2 : Gen("tables", TablesDoc(ns, nr), TRUE)
  \/ /\ "tables" \in Families
     /\ \E nr \in 0..2 : Gen("enumtables", EnumTablesDoc(nr), TRUE)
  \/ /\ "headers" \in Families
     /\ \E v \in SeqsUpTo(HAlpha, 3) : \E two \in BOOLEAN : HeaderValueOK(v) /\ Gen("headers", HeaderDoc(v, two), TRUE)
  \/ /\ "headers" \in Families
     /\ \E v \in TypedTexts : \E two \in BOOLEAN : Gen("hdrtypes", HeaderDoc(v, two), TRUE)
  \/ /\ "headers" \in Families          \* keyword names, including the words the format itself uses
     /\ \E key \in HeaderKeys : \E two \in BOOLEAN : Gen("hdrkeys", HeaderDocK(key, <<"v", SP, "w">>, two), TRUE)
  \/ /\ "witness" \in Families
     /\ \E d \in Witnesses : Gen("witness", d, FALSE)
  \/ /\ "kinds" \in Families
     /\ \E k \in AllKinds : fam = "kinds" /\ doc = NoDoc /\ canon = Canon(NoDoc) /\ expectOK = (k \in Supported) /\ kind = k
Next == UNCHANGED <<fam, doc, canon, expectOK, kind>>

C01_RoundTrip == (fam # "kinds" /\ expectOK) => SpecParse(WriteDoc(doc)) = canon
C01_DomainSharp == fam = "witness" => SpecParse(WriteDoc(doc)) # canon
=============================================================================
