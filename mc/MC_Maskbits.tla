--------------------------- MODULE MC_Maskbits ---------------------------
(* Bounded instances of the Maskbits machine (C07).  A state is a behaviour prefix: `hist` *)
(* is the sequence of [call, ret] executed so far, `cache` and `ret` are the machine's     *)
(* variables.  The harness replays every maximal history into the real pydl functions.     *)
(*                                                                                         *)
(* Mode "laws"   : Load(f) then one query, for EVERY file of the family and EVERY query of *)
(*                 the query family (bounded-exhaustive M2 use).                           *)
(* Mode "machine": histories load / (load|query) / (load|query) / query over a few files   *)
(*                 that differ in exactly the ways a stale cache would show.               *)
EXTENDS Maskbits, TLC
CONSTANTS Mode,        \* "laws" or "machine"
          BitPos,      \* bit positions a label may be assigned to
          Undef,       \* further bit positions that occur in values only
          G2Fam,       \* "one", "few" or "all": assignments tried for the second group
          AliasFam,    \* subset of {"none", "a1g1", "a1g2", "both1", "cross"}
          Orders,      \* subset of {"fwd", "rev", "mix"}, or {"hash"}: one order per file
          NMachFiles,  \* machine mode: number of files used (<= 6)
          NMachQueries \* machine mode: number of queries used (<= 12)
VARIABLES hist

vars == <<cache, ret, hist>>

(* ---- concrete names ---- *)
G1 == <<"T", "G">>
G2 == <<"Z", "W", "_", "2">>
A1 == <<"A", "L", "1">>
A2 == <<"P", "R", "I", "M">>
GX == <<"N", "O", "N", "E">>
L1 == <<"Q", "S", "O">>
L2 == <<"G", "A", "L", "_", "R">>
L3 == <<"X", "9">>
LX == <<"B", "A", "D">>
Labels == {L1, L2, L3}
LabelOrder == <<L1, L2, L3>>
GNames == {G1, G2, A1, A2, GX}

LowerOf == [A |-> "a", B |-> "b", C |-> "c", D |-> "d", E |-> "e", F |-> "f", G |-> "g", H |-> "h",
            I |-> "i", J |-> "j", K |-> "k", L |-> "l", M |-> "m", N |-> "n", O |-> "o", P |-> "p",
            Q |-> "q", R |-> "r", S |-> "s", T |-> "t", U |-> "u", V |-> "v", W |-> "w", X |-> "x",
            Y |-> "y", Z |-> "z"]
LoChar(ch) == IF ch \in DOMAIN LowerOf THEN LowerOf[ch] ELSE ch
Variant(nm, cs) == CASE cs = "lower" -> [i \in 1..Len(nm) |-> LoChar(nm[i])]
                     [] cs = "mixed" -> [i \in 1..Len(nm) |-> IF i % 2 = 1 THEN LoChar(nm[i]) ELSE nm[i]]
                     [] OTHER -> nm
VariantAll(ns, cs) == [i \in 1..Len(ns) |-> Variant(ns[i], cs)]
Cases == {"upper", "lower", "mixed"}

(* ---- file family ---- *)
(* an assignment: an injective function from a subset of the labels to bit positions *)
PInj(Pos) == UNION {{h \in [S -> Pos] : \A a, b \in S : a # b => h[a] # h[b]} : S \in SUBSET Labels}
MaxPos == CHOOSE b \in BitPos : \A x \in BitPos : x <= b
MinPos == CHOOSE b \in BitPos : \A x \in BitPos : x >= b
G2Choices == IF G2Fam = "all" THEN PInj(BitPos)
             ELSE IF G2Fam = "one" THEN {(L1 :> MaxPos @@ L3 :> MinPos)}
             ELSE {<<>>, (L1 :> MaxPos @@ L3 :> MinPos)}

GroupRows(grp, h) == LET ls == SelectSeq(LabelOrder, LAMBDA lb : lb \in DOMAIN h)
                     IN [i \in 1..Len(ls) |-> <<grp, ls[i], h[ls[i]]>>]
Mix(sq) == LET n == Len(sq) IN [k \in 1..((n + 1) \div 2) |-> sq[2 * k - 1]] \o [k \in 1..(n \div 2) |-> sq[2 * k]]
AliasRows(nm) == CASE nm = "a1g1" -> << <<A1, G1>> >>
                   [] nm = "a1g2" -> << <<A1, G2>> >>
                   [] nm = "both1" -> << <<A1, G1>>, <<A2, G1>> >>
                   [] nm = "cross" -> << <<A2, G2>>, <<A1, G1>> >>
                   [] OTHER -> <<>>
RECURSIVE BitSum(_)
BitSum(S) == IF S = {} THEN 0 ELSE LET x == CHOOSE y \in S : TRUE IN x + BitSum(S \ {x})
HashOrder(h1, h2) == LET k == (BitSum({h1[x] : x \in DOMAIN h1}) + 2 * Cardinality(DOMAIN h2) + Cardinality(DOMAIN h1)) % 3
                     IN IF k = 0 THEN "fwd" ELSE IF k = 1 THEN "rev" ELSE "mix"
MkFile(h1, h2, an, ord) ==
  LET fwd == GroupRows(G1, h1) \o GroupRows(G2, h2)
      o == IF ord = "hash" THEN HashOrder(h1, h2) ELSE ord
  IN [rows |-> IF o = "rev" THEN Reverse(fwd) ELSE IF o = "mix" THEN Mix(fwd) ELSE fwd,
      alias |-> AliasRows(an),
      afirst |-> (o = "rev")]

(* ---- query family (mode "laws") ---- *)
Qry(op, g, ls, v, fe, we, form) == [op |-> op, file |-> NoFile, g |-> g, ls |-> ls, v |-> v, fe |-> fe, we |-> we,
                                  form |-> form]
SeqsOver(S) == {sq \in [1..Cardinality(S) -> S] : \A i, j \in 1..Cardinality(S) : i # j => sq[i] # sq[j]}
PermSeqs == UNION {SeqsOver(S) : S \in (SUBSET Labels) \ {{}}}
CanonSeqs == {SelectSeq(LabelOrder, LAMBDA lb : lb \in S) : S \in (SUBSET Labels) \ {{}}}
UnknownSeqs == {<<LX>>, <<L1, LX>>, <<LX, L2>>}
ListForms(ls) == IF Len(ls) = 1 THEN {"list", "str"} ELSE IF Len(ls) = 2 THEN {"list", "tuple"} ELSE {"list"}

FlagvalQ ==
  {Qry("flagval", c[1], c[2], {}, FALSE, FALSE, c[3]) :
      c \in UNION {{<<d[1], d[2], fm>> : fm \in ListForms(d[2])} : d \in GNames \X (PermSeqs \cup UnknownSeqs \cup {<<>>})}}
  \cup
  {Qry("flagval", Variant(c[1], c[3]), VariantAll(c[2], c[3]), {}, FALSE, FALSE, "list") :
      c \in GNames \X (CanonSeqs \cup UnknownSeqs) \X {"lower", "mixed"}}

AllPos == BitPos \cup Undef
FewVals == {{}} \cup {{b} : b \in AllPos} \cup {AllPos, BitPos}
FullNames == {G1, A1}
ValForm(v) == LET k == Cardinality(v) % 3 IN IF k = 0 THEN "uint64" ELSE IF k = 1 THEN "pyint" ELSE "int64"
FlagnameQ ==
  {Qry("flagname", d[1], <<>>, d[2], FALSE, FALSE, ValForm(d[2])) : d \in FullNames \X SUBSET AllPos}
  \cup
  {Qry("flagname", c[1], <<>>, c[2], FALSE, FALSE, c[3]) : c \in GNames \X FewVals \X {"pyint", "uint64", "int64"}}
  \cup
  {Qry("flagname", Variant(c[1], c[3]), <<>>, c[2], FALSE, FALSE, "pyint") :
      c \in GNames \X {{}, AllPos, {MaxPos}} \X {"lower", "mixed"}}

ExistSeqs == {<<L1>>, <<L2>>, <<LX>>, <<L1, L2>>, <<L3, LX>>, <<L3, L1, L2>>, <<L1, LX, L2>>}
FlagexistQ ==
  {Qry("flagexist", c[1], c[2], {}, c[3], c[4], c[5]) :
      c \in (GNames \X ExistSeqs \X BOOLEAN \X BOOLEAN \X {"list"}) \cup
             (GNames \X {<<L1>>, <<L2>>, <<LX>>} \X {TRUE} \X {TRUE} \X {"str"}) \cup
             (GNames \X {<<L3>>} \X {FALSE} \X BOOLEAN \X {"str"})}
  \cup
  {Qry("flagexist", Variant(c[1], c[3]), VariantAll(c[2], c[3]), {}, TRUE, TRUE, "list") :
      c \in GNames \X {<<L1, L2>>, <<L3, LX>>, <<L2>>} \X {"lower", "mixed"}}

LawQueries == FlagvalQ \cup FlagnameQ \cup FlagexistQ

(* ---- mode "machine": a few files and queries ---- *)
MachFiles ==
  << MkFile((L1 :> 0 @@ L2 :> 63), <<>>, "a1g1", "fwd"),
     MkFile((L1 :> 63 @@ L3 :> 31), (L2 :> 0), "none", "mix"),
     MkFile(<<>>, (L1 :> 32 @@ L2 :> 0), "a1g2", "rev"),
     MkFile(<<>>, <<>>, "none", "fwd"),
     MkFile((L2 :> 0 @@ L1 :> 63), (L3 :> 31), "cross", "mix"),
     MkFile((L1 :> 0 @@ L2 :> 63), <<>>, "none", "rev") >>
MachQueries ==
  << Qry("flagval", A1, <<L2, L1>>, {}, FALSE, FALSE, "list"),
     Qry("flagname", G1, <<>>, {0, 31, 63}, FALSE, FALSE, "uint64"),
     Qry("flagexist", A1, <<L1, L3>>, {}, TRUE, TRUE, "list"),
     Qry("flagname", Variant(A1, "lower"), <<>>, {0, 5, 31, 32, 63}, FALSE, FALSE, "pyint"),
     Qry("flagval", Variant(G1, "lower"), <<Variant(L1, "mixed")>>, {}, FALSE, FALSE, "str"),
     Qry("flagname", G2, <<>>, {0, 32}, FALSE, FALSE, "int64"),
     Qry("flagexist", G2, <<L2, L1>>, {}, TRUE, TRUE, "list"),
     Qry("flagval", G2, <<L2>>, {}, FALSE, FALSE, "list"),
     Qry("flagval", G1, <<L3, L1>>, {}, FALSE, FALSE, "tuple"),
     Qry("flagexist", A2, <<L3>>, {}, TRUE, FALSE, "str"),
     Qry("flagname", GX, <<>>, {}, FALSE, FALSE, "pyint"),
     Qry("flagexist", G1, <<L1>>, {}, FALSE, FALSE, "list") >>
MaxLen == IF Mode = "laws" THEN 2 ELSE 4
MayLoad(pos) == IF Mode = "laws" THEN pos = 1 ELSE pos <= 3
MayQuery(pos) == pos >= 2

(* ---- the bounded machine ---- *)
Step(cl) == /\ Do(cl)
            /\ hist' = Append(hist, [call |-> cl, ret |-> ret'])

LoadCall(fl) == [NoCall EXCEPT !.op = "load", !.file = fl]

LoadStep ==
  IF Mode = "laws"
  THEN \E h1 \in PInj(BitPos) : \E h2 \in G2Choices : \E an \in AliasFam : \E ord \in Orders :
          Step(LoadCall(MkFile(h1, h2, an, ord)))
  ELSE \E k \in 1..NMachFiles : Step(LoadCall(MachFiles[k]))

QueryStep ==
  IF Mode = "laws"
  THEN \E q \in LawQueries : Step(q)
  ELSE \E k \in 1..NMachQueries : Step(MachQueries[k])

Init == MInit /\ hist = <<>>
Next == /\ Len(hist) < MaxLen
        /\ \/ MayLoad(Len(hist) + 1) /\ LoadStep
           \/ MayQuery(Len(hist) + 1) /\ QueryStep

(* ---- spec-level properties ---- *)
LastEv == hist[Len(hist)]
IsQ == Len(hist) > 0 /\ IsQuery(LastEv.call)
Loads == SelectSeq(hist, LAMBDA e : e.call.op = "load")
LastFile == Loads[Len(Loads)].call.file

C07_TypeOK == TypeOK
C07_RetIsOutcome == IsQ => (Specified(cache.m, LastEv.call) /\ ret = Outcome(cache.m, LastEv.call) /\ LastEv.ret = ret)
C07_ValIsUnion == IsQ => ValIsUnion(cache.m, LastEv.call, ret)
C07_NamesAscending == IsQ => NamesAscending(cache.m, LastEv.call, ret)
C07_RoundTripNames == IsQ => RoundTripNames(cache.m, LastEv.call, ret)
C07_RoundTripValue == IsQ => RoundTripValue(cache.m, LastEv.call, ret)
C07_AliasSame == IsQ => AliasSame(LastFile, LastEv.call)
C07_CaseInsensitive == IsQ => /\ CaseInsensitive(cache.m, LastEv.call, ret)
                              /\ \A cs \in Cases :
                                    Outcome(cache.m, [LastEv.call EXCEPT !.g = Variant(Fold(@), cs),
                                                                       !.ls = VariantAll(FoldNames(@), cs)])
                                    = ret
C07_UnknownRaises == IsQ => UnknownRaises(cache.m, LastEv.call, ret)
C07_ExistNeverRaises == IsQ => ExistNeverRaises(cache.m, LastEv.call, ret)
(* the cache is always exactly the meaning of the LAST file loaded, whatever came before *)
C07_ReloadReplaces == /\ cache.loaded <=> Len(Loads) > 0
                      /\ cache.loaded => cache.m = FileMap(LastFile)
(* an alias holds its own copy: same triples as its group, under the alias name *)
C07_AliasIsCopy == cache.loaded =>
                      \A al \in Elems(LastFile.alias) :
                         {<<tr[2], tr[3]>> : tr \in Of(cache.m, al[1])} = {<<tr[2], tr[3]>> : tr \in Of(cache.m, al[2])}
=============================================================================
