CONSTANT Mode = "pair"
CONSTANT Ns = {3, 4, 5}
CONSTANT PermSel = "few"
CONSTANT ResVals <- Res2
CONSTANT OffVals = {0}
CONSTANT Thrs <- ThrSym
CONSTANT MaxIters = {0, 2}
CONSTANT MaxDrops = 0
CONSTANT WithFail = FALSE
CONSTANT MinGood = 1
INIT Init
NEXT Next
INVARIANT C10_TypeOK
INVARIANT C10_SortIsArgsort
INVARIANT C10_ZeroWeightNeverUsed
INVARIANT C10_MaskInCallerOrder
INVARIANT C10_PermutationInvariance
