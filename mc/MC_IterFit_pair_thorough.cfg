CONSTANT Mode = "pair"
CONSTANT Ns = {3, 4, 5}
CONSTANT PermSel = "few"
CONSTANT ResVals <- Res2
CONSTANT OffVals = {0}
CONSTANT Thrs <- ThrSym
CONSTANT MaxIters = {0, 2}
CONSTANT MaxDrops = 1
CONSTANT WithFail = FALSE
CONSTANT NBk = 2
CONSTANT MinGood = 1
INIT Init
NEXT Next
INVARIANT C10_TypeOK
INVARIANT C10_SortIsArgsort
INVARIANT C10_ZeroWeightNeverUsed
INVARIANT C10_MaskInCallerOrder
INVARIANT C10_PermutationInvariance
INVARIANT C10_BreakpointsOnlyShrink
INVARIANT C10_ResidualsOnBreakpointsInEffect
INVARIANT C10_ReturnedCurveOnReturnedBreakpoints
