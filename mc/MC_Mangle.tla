---------------------------- MODULE MC_Mangle ----------------------------
(* Bounded-exhaustive instance of Mangle.tla (C12).  Every non-root state is one call of  *)
(* the real code (c) together with what the specification demands (exp):                   *)
(*   fam "pool"    the point pool itself (so that the harness takes it from TLC)           *)
(*   fam "cap"     one cap, all pool points            -> is_in_cap                        *)
(*   fam "poly"    one polygon, use-mask, ncaps arg    -> is_in_polygon                    *)
(*   fam "window"  a polygon list in its storage forms -> is_in_window via every reader    *)
(*   fam "usecaps" polygon, index list, flags          -> set_use_caps                     *)
(* Root -> seed -> cases, so that all TLC workers share the work.                          *)
EXTENDS Mangle, TLC
CONSTANTS Families,      \* subset of {"cap", "poly", "window", "usecaps"}
          MaxPolyCaps,   \* polygons of 0..MaxPolyCaps caps in fam "poly"
          MaxWindow,     \* windows of 1..MaxWindow polygons
          MaxUseCaps,    \* polygons of 0..MaxUseCaps caps in fam "usecaps"
          PoolSize,      \* "small" or "full"
          WindowNs,      \* values of the ncaps argument tried on windows
          LawStride      \* the polygon / window laws are evaluated on every LawStride-th pool point
VARIABLES c, exp

(* ---- the pool of exact unit vectors ---- *)
(* TLC caches a zero-arity constant definition only when it can pre-evaluate it at start-up, *)
(* which fails (silently) for anything that reaches a RECURSIVE operator such as Rat!GCD.    *)
(* The pools are therefore written with literal lowest-terms rationals Q(n, d) (d in         *)
(* {1, 2, 3, 5, 7, 100} and n coprime to d or 0); the ASSUMEs below check the normal form.   *)
Q(n, d) == IF n = 0 THEN <<0, 1>> ELSE <<n, d>>
V(a, b, cc, d) == << Q(a, d), Q(b, d), Q(cc, d) >>
PermSeq(a, b, z) == << <<a, b, z>>, <<b, a, z>>, <<a, z, b>>, <<b, z, a>>, <<z, a, b>>, <<z, b, a>> >>
S2 == << <<1, 1>>, <<1, -1>>, <<-1, 1>>, <<-1, -1>> >>
Axis == << V(1, 0, 0, 1), V(-1, 0, 0, 1), V(0, 1, 0, 1), V(0, -1, 0, 1), V(0, 0, 1, 1), V(0, 0, -1, 1) >>
P345 == [k \in 1..24 |-> LET t == PermSeq(3, 4, 0)[((k - 1) % 6) + 1]
                             s == S2[((k - 1) \div 6) + 1]
                         IN V(s[1] * t[1], s[2] * t[2], s[1] * s[2] * t[3], 5)]
P221 == [k \in 1..12 |-> LET t == PermSeq(2, 2, 1)[2 * ((k - 1) % 3) + 1]
                             s == S2[((k - 1) \div 3) + 1]
                         IN V(s[1] * t[1], s[2] * t[2], s[1] * t[3], 3)]
P236 == [k \in 1..12 |-> LET t == PermSeq(2, 3, 6)[((k - 1) % 6) + 1]
                             s == IF k <= 6 THEN 1 ELSE -1
                         IN V(s * t[1], s * t[2], s * t[3], 7)]
(* float images of these have x.x > 1 by an ulp, where arccos is NaN (deviation D-C12-2) *)
P13 == << V(12, 5, 0, 13), V(-12, 0, -5, 13), V(12, 0, 5, 13), V(0, -12, 5, 13),
          V(12, 4, 3, 13), V(-12, -4, -3, 13), V(3, -12, 4, 13), V(-4, 3, 12, 13) >>
Small == << V(3, 4, 0, 5), V(-3, -4, 0, 5), V(4, 3, 0, 5), V(-4, -3, 0, 5), V(-3, 4, 0, 5), V(3, -4, 0, 5),
            V(0, 3, 4, 5), V(0, -3, -4, 5), V(2, 2, 1, 3), V(-2, -2, -1, 3), V(2, 3, 6, 7), V(-2, -3, -6, 7),
            V(12, 0, 5, 13), V(-12, 0, -5, 13) >>
Pts == IF PoolSize = "small" THEN Axis \o Small ELSE Axis \o P345 \o P221 \o P236 \o P13
NP == Len(Pts)
IsRatVec(v) == IsRat(v[1]) /\ IsRat(v[2]) /\ IsRat(v[3])
ASSUME \A i \in 1..NP : IsRatVec(Pts[i]) /\ IsUnit(Pts[i]) /\ DenOK(Pts[i])
ASSUME \A i, j \in 1..NP : i # j => Pts[i] # Pts[j]

(* 1/20000 and 1/1000000 are caps of 0.57 and 0.08 degrees: Mangle's %.16g writes such cm in *)
(* exponent notation (5e-05, 1e-06).  Every pool point other than the centre is at 1 - x.p   *)
(* >= 1/91 from any other pool point, so membership stays decided with a huge margin.              *)
CMs == {Q(1, 100), Q(1, 2), Q(1, 1), Q(3, 2), Q(199, 100), Q(2, 1), Q(0, 1),
        Q(-1, 100), Q(-1, 2), Q(-1, 1), Q(-3, 2), Q(-199, 100), Q(-2, 1),
        Q(1, 20000), Q(-1, 20000), Q(1, 1000000), Q(-1, 1000000)}
ASSUME \A q \in CMs : IsRat(q)

(* caps used to build polygons: centres, antipodes and exact-boundary points all occur in Pts *)
A345 == V(3, 4, 0, 5)
CapPool == << MkCap(V(0, 0, 1, 1), Q(1, 2)),       MkCap(V(0, 0, 1, 1), Q(-1, 2)),
              MkCap(V(1, 0, 0, 1), Q(1, 1)),       MkCap(A345, Q(1, 20000)),
              MkCap(A345, Q(-1, 1000000)),             MkCap(V(-3, -4, 0, 5), Q(199, 100)),
              MkCap(V(2, 2, 1, 3), Q(3, 2)),       MkCap(V(-12, 0, -5, 13), Q(-3, 2)),
              MkCap(V(0, -1, 0, 1), Q(-1, 1)),     MkCap(V(12, 0, 5, 13), Q(1, 2)) >>
ASSUME \A i \in DOMAIN CapPool : IsRatVec(CapPool[i].x) /\ IsUnit(CapPool[i].x) /\ IsRat(CapPool[i].cm) /\ DenOK(CapPool[i].x)

(* polygons used to build windows (the masked ones exist only as FITS rows / in memory) *)
Poly(ix, use) == [caps |-> [j \in DOMAIN ix |-> CapPool[ix[j]]], use |-> use]
WFull == << Poly(<<1>>, {0}), Poly(<<3, 10>>, {0, 1}), Poly(<<5, 2>>, {0, 1}), Poly(<<7, 8, 9>>, {0, 1, 2}),
            Poly(<<6>>, {0}), Poly(<<4>>, {0}), Poly(<<3, 9>>, {0, 1}) >>
WMasked == << Poly(<<1, 2>>, {0}), Poly(<<1, 2>>, {1}), Poly(<<3, 10, 5>>, {0, 2}), Poly(<<7, 8>>, {}),
              Poly(<<4, 6>>, {1, 2}), Poly(<<9>>, {0}) >>

(* caps for the index-list family: duplicates, negative duplicates, same centre with       *)
(* different magnitudes (not duplicates)                                                     *)
Za == V(0, 0, 1, 1)
UPool == << MkCap(Za, Q(1, 2)), MkCap(Za, Q(-1, 2)), MkCap(A345, Q(1, 2)), MkCap(Za, Q(-1, 1)), MkCap(Za, Q(1, 100)) >>
UMasks == {{}, {0}, {2}, {1, 3}, {0, 1, 2}}

(* ---- outcomes ---- *)
NoExp == [none |-> TRUE]
(* in / out: pool points (by number) that must be reported inside / outside; the rest are   *)
(* exact boundary points.  dev2out: points of `in` that deviation D-C12-2 admits as outside.  *)
CapExp(cap) == LET al == [i \in 1..NP |-> CapAllowed(cap, Pts[i])] IN
               [in |-> {i \in 1..NP : al[i] = {TRUE}}, out |-> {i \in 1..NP : al[i] = {FALSE}},
                dev2out |-> {i \in 1..NP : al[i] = {TRUE} /\ AtPole(cap, Pts[i])
                                           /\ FALSE \in CapAllowedD(cap, Pts[i], TRUE)}]
PolyExp(poly, n) == LET al == [i \in 1..NP |-> PolyAllowed(poly, Pts[i], n)]
                        pole == {i \in 1..NP : \E k \in UsedCaps(poly, n) : AtPole(poly.caps[k], Pts[i])} IN
                    [in |-> {i \in 1..NP : al[i] = {TRUE}}, out |-> {i \in 1..NP : al[i] = {FALSE}},
                     dev2out |-> {i \in pole : al[i] = {TRUE} /\ FALSE \in PolyAllowedD(poly, Pts[i], n, TRUE)}]
WindowExp(polys, n) ==
  LET pole == {i \in 1..NP : \E k \in DOMAIN polys : \E j \in UsedCaps(polys[k], n) : AtPole(polys[k].caps[j], Pts[i])}
      al == [i \in 1..NP |-> WindowAllowed(polys, Pts[i], n)] IN
  [allowed |-> al,
   dev2 |-> [i \in 1..NP |-> IF i \in pole THEN WindowAllowedD(polys, Pts[i], n, TRUE) ELSE al[i]]]
UseExp(u) == [use |-> SetUseCaps(u.poly, u.idx, u.add, u.allowDoubles, u.allowNeg),
              dev1 |-> Dev_SetUseCaps(u.poly, u.idx, u.add, u.allowDoubles, u.allowNeg, TRUE, FALSE),
              dev3 |-> Dev_SetUseCaps(u.poly, u.idx, u.add, u.allowDoubles, u.allowNeg, FALSE, TRUE),
              dev13 |-> Dev_SetUseCaps(u.poly, u.idx, u.add, u.allowDoubles, u.allowNeg, TRUE, TRUE)]

(* ---- enumeration ---- *)
Root == [fam |-> "root"]
SeqsUpTo(S, n) == UNION {[1..m -> S] : m \in 0..n}
Natural(m) == [k \in 1..m |-> k]
Reversed(m) == [k \in 1..m |-> m + 1 - k]

RootStep ==
  /\ c = Root
  /\ \/ "cap" \in Families /\ \E i \in 1..NP : c' = [fam |-> "seedcap", i |-> i]
     \/ "poly" \in Families /\ \E ix \in SeqsUpTo(DOMAIN CapPool, MaxPolyCaps) : c' = [fam |-> "seedpoly", ix |-> ix]
     \/ "window" \in Families /\ \E masked \in BOOLEAN :
           \E w \in SeqsUpTo(IF masked THEN DOMAIN WMasked ELSE DOMAIN WFull, MaxWindow) :
              w # <<>> /\ c' = [fam |-> "seedwin", masked |-> masked, w |-> w]
     \/ "usecaps" \in Families /\ \E ix \in SeqsUpTo(DOMAIN UPool, MaxUseCaps) : c' = [fam |-> "seeduse", ix |-> ix]
     \/ c' = [fam |-> "pool", pts |-> Pts]
  /\ exp' = NoExp

(* every mask over the polygon's own caps; the bit just beyond the last cap together with the *)
(* empty and the full mask                                                                    *)
PolyMasks(m) == SUBSET (0..(m - 1)) \cup {{m}, 0..m}

CapStep ==
  /\ c.fam = "seedcap"
  /\ \E cm \in CMs : c' = [fam |-> "cap", cap |-> MkCap(Pts[c.i], cm)]
  /\ exp' = CapExp(c'.cap)

PolyStep ==
  /\ c.fam = "seedpoly"
  /\ \E use \in PolyMasks(Len(c.ix)) : \E n \in 0..(MaxPolyCaps + 1) :
        c' = [fam |-> "poly", poly |-> Poly(c.ix, use), n |-> n]
  /\ exp' = PolyExp(c'.poly, c'.n)

WindowStep ==
  /\ c.fam = "seedwin"
  /\ \E n \in WindowNs : \E rev \in BOOLEAN :
        LET src == IF c.masked THEN WMasked ELSE WFull
            polys == [k \in DOMAIN c.w |-> src[c.w[k]]]
            order == IF rev THEN Reversed(Len(polys)) ELSE Natural(Len(polys))
        IN /\ (rev => (~c.masked /\ Len(polys) > 1))
           /\ c' = [fam |-> "window", polys |-> polys, n |-> n, full |-> ~c.masked, order |-> order,
                    fits |-> FitsForm(polys),
                    ply |-> IF c.masked THEN <<>> ELSE PlyForm(polys),
                    balkans |-> IF c.masked THEN [blist |-> <<>>, bcaps |-> <<>>] ELSE BalkanForm(polys, order)]
  /\ exp' = WindowExp(c'.polys, c'.n)

UseStep ==
  /\ c.fam = "seeduse"
  /\ \E idx \in SeqsUpTo(0..(Len(c.ix) - 1), Len(c.ix)) : \E add, ad, an \in BOOLEAN :
       \E use \in (IF add THEN {m \in UMasks : m \subseteq 0..Len(c.ix)} ELSE {0..(Len(c.ix) - 1)}) :
        c' = [fam |-> "usecaps", poly |-> [caps |-> [j \in DOMAIN c.ix |-> UPool[c.ix[j]]], use |-> use],
              idx |-> idx, add |-> add, allowDoubles |-> ad, allowNeg |-> an]
  /\ exp' = UseExp(c')

Init == c = Root /\ exp = NoExp
Next == RootStep \/ CapStep \/ PolyStep \/ WindowStep \/ UseStep

(* ---- spec-level laws, one invariant each ---- *)
LawPts == {i \in 1..NP : i % LawStride = 1 % LawStride}
IsCap == c.fam = "cap"
IsPoly == c.fam = "poly"
IsWin == c.fam = "window"
IsUse == c.fam = "usecaps"
C12_EmptyContainsAll == IsPoly => \A i \in LawPts : EmptyContainsAll(c.poly, Pts[i], c.n)
C12_EmptyExpAll == (IsPoly /\ UsedCaps(c.poly, c.n) = {}) => exp.in = 1..NP
C12_FirstNIgnoresRest == IsPoly => \A i \in LawPts : FirstNIgnoresRest(c.poly, Pts[i], c.n)
C12_BitsBeyondIgnored == IsPoly => \A i \in LawPts : BitsBeyondIgnored(c.poly, Pts[i], c.n)
C12_CentreInsidePositiveCap == IsCap => CentreInsidePositiveCap(c.cap)
C12_CentreOutsideNegativeCap == IsCap => CentreOutsideNegativeCap(c.cap)
C12_DotAgreesWithRat == IsCap => \A i \in 1..NP : Dot3(c.cap.x, Pts[i]) = Dot(c.cap.x, Pts[i])
C12_ComplementCap == IsCap => \A i \in 1..NP : ComplementCap(c.cap, Pts[i])
C12_DecidedIsExact == IsPoly => \A i \in LawPts : InPolygon(c.poly, Pts[i], c.n) \in PolyAllowed(c.poly, Pts[i], c.n)
C12_DevOffIsSpec == /\ IsPoly => \A i \in LawPts : DevOffIsSpec(c.poly, Pts[i], c.n)
                    /\ IsWin => \A i \in LawPts : WindowDevOffIsSpec(c.polys, Pts[i], c.n)
C12_FirstMatchIsFirst == IsWin => \A i \in LawPts : FirstMatchIsFirst(c.polys, Pts[i], c.n)
C12_FormsAgree == IsWin => /\ FormsAgree(c.polys, c.order)
                           /\ FitsDenote(c.fits) = c.polys
                           /\ c.full => (PlyDenote(c.ply) = c.polys /\ BalkanDenote(c.balkans) = c.polys)
C12_UseCapsExactlyListed == IsUse => UseCapsExactlyListed(c.poly, c.idx, c.add, c.allowDoubles, c.allowNeg)
C12_SeqIsDeclarative == IsUse => SeqIsDeclarative(c.poly, c.idx, c.add, c.allowNeg)
=============================================================================
