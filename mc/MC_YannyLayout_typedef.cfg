CONSTANTS
  DocIds = {"D1", "D2", "D3", "D4", "D5", "D6", "D7"}
  Group = "typedef"
  MaxNoise = 2
INIT Init
NEXT Next
INVARIANT C02_LayoutIndependent
INVARIANT C02_NoFinalNewline
CHECK_DEADLOCK FALSE
