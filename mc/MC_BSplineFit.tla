--------------------------- MODULE MC_BSplineFit ---------------------------
(* Bounded instances for C09.                                                                 *)
(* Mode "cases" (INIT CInit / NEXT CNext): every state that is not a root or a seed is one    *)
(* call - a banded Cholesky call ("chol"), a tiny exact fit ("fit"), a polynomial             *)
(* reproduction problem ("poly"), a fit with too few good breakpoints ("fewbk") - together    *)
(* with the outcome the specification demands (exp).  root -> seed -> cases, so that all TLC  *)
(* workers share the work.  The machine variables are parked.                                 *)
(* Mode "machine" (INIT SInit / NEXT SNext): the status machine of part (c) from every        *)
(* support pattern; exp is the class of a fit from the current state (admissible statuses,    *)
(* droppable breakpoints).                                                                    *)
EXTENDS BSplineFit
CONSTANTS Families,      \* subset of {"small", "hash", "fit", "poly", "fewbk"}
          SmallN, SmallBW, OffSel, DiagVals,      \* "small": every lower-banded integer factor
          HashN, HashBW, HashPar,                 \* "hash": larger factors from a 2-parameter formula
          Variants,      \* subset of {"indef", "nonfinite" (or "nonfinite1": one class per spot), "mininf"}
          FitDesigns,    \* names of the tiny designs
          FitMult, FitNmin, FitNmax, YSel, WMode,         \* "fit": multiplicities of pool points, data values, weights
          PolyNords, PolySegs,                    \* "poly": orders and numbers of cells
          MNords, MaxS, CntFullS, KnotS, MaxFitsSel        \* machine: orders, cells, data on breakpoints when S <= KnotS, budgets
VARIABLES c, exp
allvars == <<c, exp, prob, bkmask, status, nfits, phase>>

OffVals == IF OffSel = "wide" THEN -2..2 ELSE {-1, 0, 2}
YVals == {-1, 0, 2}
Root == [kind |-> "root"]
NoExp == [ok |-> FALSE]
ParkedProb == [nord |-> 1, S |-> 1, pc |-> <<0, 0, 0>>, maxfits |-> 0]
Parked == prob = ParkedProb /\ bkmask = {} /\ status = NoFit /\ nfits = 0 /\ phase = "parked"
StayParked == UNCHANGED <<prob, bkmask, status, nfits, phase>>

(* =============================== (a) Cholesky =============================== *)
OffPos(n, bw) == {ij \in (1..n) \X (1..n) : ij[2] < ij[1] /\ ij[1] - ij[2] < bw}
MkL(n, bw, dg, f) == [i \in 1..n |-> [j \in 1..n |-> IF i = j THEN dg[i] ELSE IF <<i, j>> \in OffPos(n, bw) THEN f[<<i, j>>] ELSE 0]]
HashL(n, bw, a, b) == [i \in 1..n |-> [j \in 1..n |->
                         IF i = j THEN ((a + b * i) % 3) + 1
                         ELSE IF j < i /\ i - j < bw THEN ((a * i + b * j + i * j) % 5) - 2 ELSE 0]]
X0(n, e) == [j \in 1..n |-> ((3 * j + e * j * j + e) % 5) - 2]

CholCase(n, bw, L, d, e, bad, minf2) ==
  [kind |-> "chol", n |-> n, bw |-> bw, L |-> L, d |-> d, x0 |-> X0(n, e), bad |-> bad, minf2 |-> minf2]
BandArea(n, bw) == {kj \in (1..bw) \X (1..n) : kj[2] + kj[1] - 1 <= n}
(* positions for a non-finite entry: the first and last diagonal entries and the last entry of the lowest stored diagonal *)
BadSpots(n, bw) == {<<1, 1>>, <<1, n>>} \cup (IF bw <= n /\ bw > 1 THEN {<<bw, n - bw + 1>>} ELSE {})
NFClass(m) == CASE m = 1 -> "inf" [] m = 2 -> "nan" [] OTHER -> "ninf"
SpotNo(n, bw, kj) == IF kj = <<1, 1>> THEN 1 ELSE IF kj = <<1, n>> THEN 2 ELSE 3
CholVariants(n, bw, L) ==
  {CholCase(n, bw, L, Ones(n), e, <<>>, 0) : e \in {0, 1}}
  \cup (IF "indef" \in Variants
        THEN {CholCase(n, bw, L, [k \in 1..n |-> IF k = j THEN v ELSE 1], 0, <<>>, 0) : j \in 1..n, v \in {0, -1}} ELSE {})
  \cup (IF "nonfinite" \in Variants
        THEN {CholCase(n, bw, L, Ones(n), 0, <<kj[1], kj[2], cls>>, 0) : kj \in BadSpots(n, bw), cls \in {"inf", "ninf", "nan"}}
        ELSE IF "nonfinite1" \in Variants
        THEN {CholCase(n, bw, L, Ones(n), 0, <<kj[1], kj[2], NFClass(SpotNo(n, bw, kj))>>, 0) : kj \in BadSpots(n, bw)} ELSE {})
  \cup (IF "mininf" \in Variants
        THEN {CholCase(n, bw, L, Ones(n), 1, <<>>, m) : m \in {3, 9}} ELSE {})

SmallSeed(n, bw, dg) == [kind |-> "seed", fam |-> "small", n |-> n, bw |-> bw, dg |-> dg]
HashSeed(n, bw, a) == [kind |-> "seed", fam |-> "hash", n |-> n, bw |-> bw, a |-> a]
SmallStep ==
  /\ c.kind = "seed" /\ c.fam = "small"
  /\ \E f \in [OffPos(c.n, c.bw) -> OffVals] : c' \in CholVariants(c.n, c.bw, MkL(c.n, c.bw, c.dg, f))
  /\ exp' = ExpectedChol(c')
HashStep ==
  /\ c.kind = "seed" /\ c.fam = "hash"
  /\ \E b \in HashPar : c' \in CholVariants(c.n, c.bw, HashL(c.n, c.bw, c.a, b))
  /\ exp' = ExpectedChol(c')

(* =============================== (b) tiny exact fits =============================== *)
H(m) == R(m, 2)
T3(m) == R(m, 3)
(* design name -> [k, t, pool]: knots as the constructor lays them out for integer breakpoints *)
DesignOf(name) ==
  CASE name = "o1s1" -> [k |-> 1, t |-> <<0, 1>>,             pool |-> <<OfInt(0), T3(1), H(1), OfInt(1)>>]
    [] name = "o1s2" -> [k |-> 1, t |-> <<0, 1, 2>>,          pool |-> <<OfInt(0), H(1), T3(2), T3(4), H(3), OfInt(2)>>]
    [] name = "o1s4" -> [k |-> 1, t |-> <<0, 2, 4, 6, 8>>,    pool |-> <<OfInt(1), OfInt(3), H(7), OfInt(5), OfInt(7), OfInt(8)>>]
    [] name = "o2s1" -> [k |-> 2, t |-> <<-1, 0, 1, 2>>,      pool |-> <<OfInt(0), T3(1), H(1), OfInt(1)>>]
    [] name = "o2s2" -> [k |-> 2, t |-> <<-1, 0, 1, 2, 3>>,   pool |-> <<OfInt(0), H(1), OfInt(1), H(3), OfInt(2)>>]
    [] name = "o2s2w" -> [k |-> 2, t |-> <<-2, 0, 2, 4, 6>>,  pool |-> <<OfInt(0), OfInt(1), H(3), OfInt(3), OfInt(4)>>]
    [] name = "o3s1" -> [k |-> 3, t |-> <<-2, -1, 0, 1, 2, 3>>, pool |-> <<OfInt(0), OfInt(0), H(1), H(1), OfInt(1), OfInt(1)>>]
    [] name = "o3s1w" -> [k |-> 3, t |-> <<-4, -2, 0, 2, 4, 6>>, pool |-> <<OfInt(0), OfInt(0), OfInt(1), OfInt(1), OfInt(2), OfInt(2)>>]
RECURSIVE Repeat(_, _, _)
Repeat(pool, mult, u) == IF u > Len(pool) THEN <<>>
                         ELSE [m \in 1..mult[u] |-> pool[u]] \o Repeat(pool, mult, u + 1)
WSet(N) == IF WMode = "all" THEN [1..N -> {0, 1, 2}]
           ELSE {[i \in 1..N |-> 1], [i \in 1..N |-> 1 + (i % 2)], [i \in 1..N |-> (2 * i) % 3], [i \in 1..N |-> 3 - (i % 3)]}
                \cup {[i \in 1..N |-> IF i = z THEN 0 ELSE 1 + ((i + z) % 2)] : z \in 1..N}
YSet(N) == IF YSel = "all" THEN [1..N -> YVals]
           ELSE {[i \in 1..N |-> i - 2], [i \in 1..N |-> 1 - 2 * (i % 2)], [i \in 1..N |-> ((i * i * 3 + 1) % 5) - 2],
                 [i \in 1..N |-> IF i = (N + 1) \div 2 THEN 2 ELSE 0]}
FitCase(name, D, x, y, w, pcf) == [kind |-> "fit", name |-> name, k |-> D.k, t |-> D.t, x |-> x, y |-> y, w |-> w, pc |-> pcf]
ProbOf(cc) == [t |-> cc.t, k |-> cc.k, x |-> cc.x, y |-> cc.y, w |-> cc.w]
FitExp(cc) ==
  LET p == ProbOf(cc)
      wp == WellPosed(p)
      cls == FitClass(SupportOfData(cc.t, cc.k, cc.x, cc.w), 1..Len(cc.t))
  IN IF wp THEN [wellposed |-> TRUE, allowed |-> cls.allowed] @@ ExpectedFit(p)
     ELSE [wellposed |-> FALSE, allowed |-> cls.allowed, status |-> 0, coeff |-> <<>>, yfit |-> <<>>]
FitSeed(name, mult) == [kind |-> "seed", fam |-> "fit", name |-> name, mult |-> mult]
(* polynomials of degree < k scaled so that the data are integers at thirds and halves *)
PolyScale(k) == CASE k = 1 -> 1 [] k = 2 -> 6 [] k = 3 -> 4
PolyPcs(k) == {[m \in 1..k |-> PolyScale(k) * (((a * m * m + m + a) % 5) - 2)] : a \in 0..1}
FitStep ==
  /\ c.kind = "seed" /\ c.fam = "fit"
  /\ LET D == DesignOf(c.name)
         x == Repeat(D.pool, c.mult, 1)
         N == Len(x)
     IN \/ \E y \in YSet(N) : \E w \in WSet(N) : c' = FitCase(c.name, D, x, y, w, <<>>)
        \/ \E pcf \in PolyPcs(D.k) : \E w \in {[i \in 1..N |-> 1], [i \in 1..N |-> 1 + (i % 2)]} :
             /\ AllInt(PolyData(pcf, x))
             /\ c' = FitCase(c.name, D, x, [i \in 1..N |-> PolyVal(pcf, x[i])[1]], w, pcf)
  /\ exp' = FitExp(c')

(* =============================== (b) polynomial reproduction, all orders =============================== *)
PadKnots(k, S, sp) == [g \in 1..(S + 2 * k - 1) |-> (g - k) * sp]
HalvesIn(k, hi) == IF k = 1 THEN <<OfInt(0)>> \o [m \in 1..hi |-> H(2 * m - 1)] \o <<OfInt(hi)>>
                   ELSE [m \in 1..(2 * hi + 1) |-> H(m - 1)]
Pow2(m) == IF m = 0 THEN 1 ELSE 2 ^ m
PolyCase(k, S, sp, a, wv) ==
  LET t == PadKnots(k, S, sp)
      x == HalvesIn(k, S * sp)
      pcf == [m \in 1..k |-> Pow2(k - 1) * (((a * m * m + m + a) % 5) - 2)]
      N == Len(x)
      w == CASE wv = 1 -> [i \in 1..N |-> 1]
             [] wv = 2 -> [i \in 1..N |-> 1 + (i % 2)]
             [] wv = 3 -> [i \in 1..N |-> IF i % 3 = 0 THEN 0 ELSE 2]
  IN [kind |-> "poly", k |-> k, t |-> t, x |-> x, w |-> w, pc |-> pcf,
      probes |-> <<T3(1), T3(3 * S * sp - 1), T3(2 * S * sp - 1), OfInt(0), OfInt(S * sp)>>]
PolyExp(cc) == [allowed |-> FitClass(SupportOfData(cc.t, cc.k, cc.x, cc.w), 1..Len(cc.t)).allowed,
                y |-> [i \in 1..Len(cc.x) |-> PolyVal(cc.pc, cc.x[i])[1]],
                pv |-> [i \in 1..Len(cc.probes) |-> PolyVal(cc.pc, cc.probes[i])]]
PolySeed(k, S) == [kind |-> "seed", fam |-> "poly", k |-> k, S |-> S]
PolyStep ==
  /\ c.kind = "seed" /\ c.fam = "poly"
  /\ \E sp \in {2, 3} : \E a \in 0..2 : \E wv \in 1..3 : c' = PolyCase(c.k, c.S, sp, a, wv)
  /\ exp' = PolyExp(c')

(* =============================== too few good breakpoints =============================== *)
FewSeed(k, S) == [kind |-> "seed", fam |-> "fewbk", k |-> k, S |-> S]
FewStep ==
  /\ c.kind = "seed" /\ c.fam = "fewbk"
  /\ \E T \in SUBSET ((c.k + 1)..(c.S + 2 * c.k - 1)) :
       /\ Cardinality(T) < c.k
       /\ c' = [kind |-> "fewbk", k |-> c.k, S |-> c.S, good |-> (1..c.k) \cup T]
  /\ exp' = [allowed |-> FitClass([nord |-> c.k, S |-> c.S, pc |-> [q \in 1..(2 * c.S + 1) |-> IF q % 2 = 0 THEN c.k + 1 ELSE 0]],
                                  c'.good).allowed]

(* =============================== cases mode =============================== *)
MultOK(name, mult) == LET N == ISum(mult) IN N >= FitNmin /\ N <= FitNmax
RootStep ==
  /\ c = Root
  /\ \/ /\ "small" \in Families
        /\ \E n \in SmallN : \E bw \in SmallBW : \E dg \in [1..n -> DiagVals] : c' = SmallSeed(n, bw, dg)
     \/ /\ "hash" \in Families
        /\ \E n \in HashN : \E bw \in HashBW : \E a \in HashPar : c' = HashSeed(n, bw, a)
     \/ /\ "fit" \in Families
        /\ \E name \in FitDesigns : \E mult \in [1..Len(DesignOf(name).pool) -> FitMult] :
             MultOK(name, mult) /\ c' = FitSeed(name, mult)
     \/ /\ "poly" \in Families
        /\ \E k \in PolyNords : \E S \in PolySegs : c' = PolySeed(k, S)
     \/ /\ "fewbk" \in Families
        /\ \E k \in 1..4 : \E S \in 1..3 : c' = FewSeed(k, S)
  /\ exp' = NoExp
CInit == c = Root /\ exp = NoExp /\ Parked
CNext == (RootStep \/ SmallStep \/ HashStep \/ FitStep \/ PolyStep \/ FewStep) /\ StayParked

IsChol == c.kind = "chol"
IsFit == c.kind = "fit"
IsPoly == c.kind = "poly"
(* (a) *)
C09a_GeneratorSound == IsChol => CholGeneratorSound(c)
C09a_BandStorage == IsChol => CholStorage(c, exp)
C09a_FactorLaw == IsChol => CholFactorLaw(c, exp)
C09a_SolveLaw == IsChol => CholSolveLaw(c, exp)
C09a_Definiteness == IsChol => CholDefiniteness(c, exp)
(* (b) *)
C09b_GradientZero == (IsFit /\ exp.wellposed) => GradientZero(ProbOf(c), exp)
C09b_YfitIsSpline == (IsFit /\ exp.wellposed) => YfitIsSpline(ProbOf(c), exp)
C09b_NoBetterNeighbour == (IsFit /\ exp.wellposed) => NoBetterNeighbour(ProbOf(c), exp)
C09b_ZeroWeightInvariant == (IsFit /\ exp.wellposed) => ZeroWeightInvariant(ProbOf(c), exp)
C09b_LinearInY == (IsFit /\ exp.wellposed) => LinearInY(ProbOf(c), exp)
C09b_WeightScaleInvariant == (IsFit /\ exp.wellposed) => WeightScaleInvariant(ProbOf(c), exp)
C09b_YHomogeneous == (IsFit /\ exp.wellposed) => YHomogeneous(ProbOf(c), exp)
C09b_SupportScaleInvariant == (IsFit \/ IsPoly) => SupportScaleInvariant(c.t, c.k, c.x, c.w)
C09b_GridScaleInvariant == (IsFit /\ exp.wellposed) => GridScaleInvariant(ProbOf(c), exp)
C09b_GridSupportInvariant == (IsFit \/ IsPoly) => GridSupportInvariant(c.t, c.k, c.x, c.w)
C09b_PolyReproduced == (IsFit /\ exp.wellposed /\ c.pc # <<>>) => PolyReproduced(ProbOf(c), c.pc, exp)
(* the determinant criterion and the Schoenberg-Whitney criterion of part (c) agree *)
C09b_SupportAgrees == IsFit => (exp.wellposed <=> Determined(SupportOfData(c.t, c.k, c.x, c.w), 1..Len(c.t)))
C09b_WellSupportedIsWellPosed == (IsFit /\ exp.allowed = {0}) => exp.wellposed
C09b_PolyDataInteger == IsPoly => AllInt(PolyData(c.pc, c.x)) /\ Len(c.pc) <= c.k

(* =============================== machine mode =============================== *)
CntVals(k, S) == IF S > CntFullS THEN {0, 1, k + 1} ELSE {0, 1, 2, k + 1}
KnotFns(k, S) == IF S > KnotS THEN {[g \in 1..(S + 1) |-> 0]}
                 ELSE {g \in [1..(S + 1) -> {0, 1}] : k > 1 \/ \A m \in 2..S : g[m] = 0}
Patterns(k, S) == {[q \in 1..(2 * S + 1) |-> IF q % 2 = 0 THEN f[q \div 2] ELSE g[(q + 1) \div 2]] :
                     f \in [1..S -> CntVals(k, S)], g \in KnotFns(k, S)}
SInit == /\ \E k \in MNords : \E S \in 1..MaxS : \E pcv \in Patterns(k, S) :
              \E mf \in (IF MaxFitsSel = "both" THEN {1, S} ELSE {S}) :
                 MInit([nord |-> k, S |-> S, pc |-> pcv], mf)
         /\ c = [kind |-> "machine"]
         /\ exp = FitClass(prob, bkmask)
SNext == MNext /\ c' = c /\ exp' = FitClass(prob', bkmask')
C09c_SupportOK == SupportOK(prob)
C09c_TypeOK == MTypeOK
C09c_EndKnotsKept == EndKnotsKept
C09c_FitsBounded == FitsBounded
C09c_OKOnlyIfSupported == OKOnlyIfSupported
C09c_DropMeansDropped == DropMeansDropped
C09c_ClassesConsistent == ClassesConsistent
C09c_DropKeepsDetermined == DropKeepsDetermined
C09c_LoopEndsDecided == LoopEndsDecided
C09c_ExpIsClass == exp = FitClass(prob, bkmask)
C09c_MaskNeverGrows == [][bkmask' \subseteq bkmask]_allvars
C09c_WellSupportedGivesZero == [][(nfits' = nfits + 1 /\ WellSupported(prob, bkmask)) => status' = 0]_allvars
C09c_StatusDocumented == [][nfits' = nfits + 1 => status' \in Statuses]_allvars
=============================================================================
