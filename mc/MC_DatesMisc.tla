--------------------------- MODULE MC_DatesMisc ---------------------------
(* Bounded-exhaustive enumeration of calls of the X04 functions.  Every non-seed state is *)
(* one call c together with the outcome exp the specification demands; the dump is        *)
(* replayed into the real functions.  The second-by-second sweep of get_juldate is         *)
(* produced in two steps (root -> block seed -> cases) so that all TLC workers share it.   *)
EXTENDS DatesMisc, TLC
CONSTANTS Families,      \* subset of {"jd", "jdsweep", "iaumain", "decode", "exc", "calibv"}
          SweepStride,   \* every SweepStride-th second of the swept half days
          DecodeLen,     \* all byte strings up to this length over the boundary alphabet
          MainCoords,    \* number of coordinate pairs of the command-line family
          MainFull       \* TRUE: every (number form, layout) pair of every option combination; FALSE: every fourth
VARIABLES c, exp

NoExp == [none |-> TRUE]
Root == [fn |-> "root"]
Is(f) == c.fn = f

(* ------------------------------ Julian date ------------------------------ *)
QSet == {-1073741824, -49000, -41403, -381, -3, -2, -1, 0, 1, 2, 3, 380, 21915, 23148, 41403, 41404, 49000,
         1048576, 1073741824}
RSet == {<<0, 1>>, <<1, 1>>, <<-1, 1>>, <<1, 2>>, <<-1, 2>>, <<1, 64>>, <<21600, 1>>, <<43199, 1>>, <<2764799, 64>>,
         <<43200, 1>>, <<86400, 1>>, <<-43200, 1>>, <<86399, 1>>, <<98765, 8>>, <<6400, 1>>, <<2047, 1>>, <<-2047, 2>>}
Decoy == [q |-> 23148, r |-> <<6400, 1>>]            \* the clock while a time is GIVEN: 10^9 s
JdCase(t, ty, via) == [fn |-> "jd", t |-> t, ty |-> ty, via |-> via, clock |-> IF via \in GivenVias THEN Decoy ELSE t]
InitJd ==
  \E q \in QSet : \E r \in RSet :
     \/ \E ty \in NumTypes : Fits(ty, Time(q, r)) /\ c = JdCase(Time(q, r), ty, "pos")
     \/ \E ty \in {"int", "float", "np.int64", "np.float32"} : Fits(ty, Time(q, r)) /\ c = JdCase(Time(q, r), ty, "kw")
     \/ \E via \in Vias \ GivenVias : Fits("float", Time(q, r)) /\ c = JdCase(Time(q, r), "float", via)

SweepQs == {-1, 0, 41403}
Block == 400
JdSeed(q, b) == [fn |-> "seed", q |-> q, b |-> b]
RootStep ==
  /\ c = Root /\ "jdsweep" \in Families
  /\ \E q \in SweepQs : \E b \in 0 .. (HalfDay \div Block - 1) : c' = JdSeed(q, b)
  /\ exp' = NoExp
SweepCase(q, s) ==
  CASE s % 4 = 0 -> JdCase(Time(q, <<s, 1>>), "int", IF s % 3 = 0 THEN "kw" ELSE "pos")
    [] s % 4 = 1 -> JdCase(Time(q, R(2 * s + 1, 2)), "float", IF s % 3 = 0 THEN "kw" ELSE "pos")
    [] s % 4 = 2 -> JdCase(Time(q, <<s, 1>>), "np.int64", "pos")
    [] s % 4 = 3 -> JdCase(Time(q, R(4 * s + 1, 4)), "float", IF s % 3 = 0 THEN "clock" ELSE "mjd")
SweepStep ==
  /\ c.fn = "seed"
  /\ \E s \in (c.b * Block) .. (c.b * Block + Block - 1) :
        /\ s % SweepStride = 0
        /\ c' = SweepCase(c.q, s)
  /\ exp' = JdExpected(c')

(* ------------------------- hogg_iau_name command line ------------------------- *)
CoordSeq == <<
  <<DecNum(FALSE, 354, 12037, 5), DecNum(TRUE, 0, 54478, 5)>>,
  <<DecNum(FALSE, 0, 123, 5), DecNum(TRUE, 0, 71, 5)>>,
  <<DecNum(FALSE, 10, 3, 1), DecNum(FALSE, 5, 3, 1)>>,                  \* on cell boundaries: open
  <<DecNum(FALSE, 359, 99987, 5), DecNum(FALSE, 89, 99993, 5)>>,
  <<DecNum(FALSE, 180, 1, 5), DecNum(TRUE, 89, 99999, 5)>>,
  <<DecNum(FALSE, 15, 7, 5), DecNum(FALSE, 0, 3, 5)>>,
  <<DecNum(FALSE, 354, 120375, 6), DecNum(TRUE, 0, 544778, 6)>>,         \* the doctest's position
  <<DecNum(FALSE, 370, 51237, 5), DecNum(FALSE, 5, 37001, 5)>>,          \* right ascension out of range: open
  <<DecNum(FALSE, 23, 99999, 5), DecNum(FALSE, 59, 98334, 5)>>,
  <<DecNum(FALSE, 7, 0, 0), DecNum(TRUE, 12, 0, 0)>> >>                  \* whole degrees (nd = 0), on boundaries: open
PrefixSet == {<<>>, SDSS, <<"2", "M", "A", "S", "S">>, <<"X", " ", "y">>}
MainCase(rd, p, phow, prefix, qhow, form, layout) ==
  LET m == [fn |-> "iaumain", kind |-> "ok", ra |-> rd[1], dec |-> rd[2], p |-> p, phow |-> phow,
            prefix |-> prefix, qhow |-> qhow, form |-> form, layout |-> layout, argv |-> <<>>]
  IN [m EXCEPT !.argv = ArgvOf(m)]
HowNo(h) == CASE h = "none" -> 0 [] h = "short" -> 1 [] h = "glued" -> 2 [] h = "long" -> 3 [] h = "eq" -> 4
FormNo(f) == CASE f = "plain" -> 0 [] f = "plus" -> 1 [] f = "pad" -> 2 [] f = "trail" -> 3 [] f = "noint" -> 4
MainExp(argv) == LET o == MainOutcome(argv)
                 IN [out |-> o.out, line |-> o.line, words |-> IF o.out = "help" THEN HelpWords ELSE {}]
MainSeed(k, phow, p, qhow, prefix) == [fn |-> "mseed", k |-> k, phow |-> phow, p |-> p, qhow |-> qhow, prefix |-> prefix]
MainRootStep ==
  /\ c = Root /\ "iaumain" \in Families
  /\ \E k \in 1 .. MainCoords : \E phow \in OptHows : \E p \in 0 .. 2 : \E qhow \in OptHows : \E prefix \in PrefixSet :
        /\ (phow = "none" => p = 1) /\ (qhow = "none" => prefix = SDSS)
        /\ ~(qhow = "glued" /\ prefix = <<>>)
        /\ c' = MainSeed(k, phow, p, qhow, prefix)
  /\ exp' = NoExp
MainStep ==
  /\ c.fn = "mseed"
  /\ \E form \in NumForms : \E layout \in Layouts :
        /\ (MainFull \/ (FormNo(form) + layout + c.k + c.p + HowNo(c.phow) + 2 * HowNo(c.qhow)) % 4 = 0)
        /\ c' = MainCase(CoordSeq[c.k], c.p, c.phow, c.prefix, c.qhow, form, layout)
  /\ exp' = MainExp(c'.argv)
InitMain ==
  \/ \E a \in BadArgvs : c = [fn |-> "iaumain", kind |-> "bad", argv |-> a]
  \/ \E a \in HelpArgvs : c = [fn |-> "iaumain", kind |-> "help", argv |-> a]
  \/ \E a \in OddArgvs : c = [fn |-> "iaumain", kind |-> "odd", argv |-> a]

(* -------------------------------- decode_mixed -------------------------------- *)
Alphabet == {0, 65, 127, 128, 143, 144, 159, 160, 191, 192, 193, 194, 223, 224, 237, 239, 240, 244, 245, 255}
Alphabet3 == {65, 128, 159, 160, 191, 224, 237, 239, 240}
Tails4 == {65, 128, 143, 144, 191}
SomeBytes == {<<>>, <<65>>, <<97, 98, 0>>, <<195, 169>>, <<255>>, <<226, 130, 172, 32, 49>>}
DecodeCase(kind, b) == [fn |-> "decode", kind |-> kind, b |-> b]
InitDecode ==
  \/ \E n \in 0 .. DecodeLen : \E b \in [1 .. n -> Alphabet] : c = DecodeCase("bytes", b)
  \/ \E b \in [1 .. 3 -> Alphabet3] : c = DecodeCase("bytes", b)
  \/ \E l \in {240, 244} : \E b \in [1 .. 3 -> Tails4] : c = DecodeCase("bytes", <<l>> \o b)
  \/ \E kind \in {"np.bytes_", "bytearray"} : \E n \in 0 .. 2 : \E b \in [1 .. n -> Alphabet \ {0}] : c = DecodeCase(kind, b)
  \/ \E kind \in ObjKinds : \E b \in SomeBytes : c = DecodeCase(kind, b)

(* ------------------------------ exceptions, calibv ------------------------------ *)
InitExc == \E a \in Classes : \E b \in Classes : c = [fn |-> "exc", a |-> a, b |-> b]
InitCalib == \E u \in CalibUnits : c = [fn |-> "calibv", unit |-> u]

(* ------------------------------------------------------------------------------- *)
ExpOf(cc) == CASE cc.fn = "jd" -> JdExpected(cc)
               [] cc.fn = "iaumain" -> MainExp(cc.argv)
               [] cc.fn = "decode" -> DecodeExpected(cc.kind, cc.b)
               [] cc.fn = "exc" -> ExcExpected(cc.a, cc.b)
               [] cc.fn = "calibv" -> [val |-> CalibVIn(cc.unit)]

Init == \/ c = Root /\ exp = NoExp
        \/ /\ \/ "jd" \in Families /\ InitJd
              \/ "iaumain" \in Families /\ InitMain
              \/ "decode" \in Families /\ InitDecode
              \/ "exc" \in Families /\ InitExc
              \/ "calibv" \in Families /\ InitCalib
           /\ exp = ExpOf(c)
Next == RootStep \/ SweepStep \/ MainRootStep \/ MainStep

(* --------------------------------- spec-level laws --------------------------------- *)
ASSUME JdAnchors
ASSUME CalibLaws
ASSUME HierarchyLaws
Shifts == {<<1, 64>>, <<1, 1>>, <<43200, 1>>, <<86399, 1>>, <<1000000, 1>>}
X04_JdLaws == Is("jd") => /\ JdNormal(c.t) /\ JdDefining(c.t)
                          /\ Fits(c.ty, c.t)
                          /\ (c.via \in GivenVias => JdExpected([c EXCEPT !.clock = c.t]) = exp)     \* the clock is irrelevant
                          /\ (c.via \notin GivenVias => c.clock = c.t)
(* the algebraic laws: on the whole boundary family and on every 16th second of the sweep *)
X04_JdAlgebra == (Is("jd") /\ ((c.t.q \in QSet /\ c.t.r \in RSet) \/ c.t.r[1] % 16 = 0)) =>
                          /\ JdDayLater(c.t) /\ JdRepresentationFree(c.t) /\ MjdIsJdMinusOffset(c.t)
                          /\ \A s \in Shifts : JdMonotone(c.t, s)
X04_MainLaws == Is("iaumain") =>
                   /\ (c.kind = "bad" => exp.out = "reject") /\ (c.kind = "help" => exp.out = "help")
                   /\ (c.kind = "odd" => exp.out = "name")
                   /\ (c.kind = "ok" =>
                         /\ c.argv = ArgvOf(c) /\ ReadsBack(c) /\ MainNameOfValues(c)
                         /\ TextMeansValue(c.ra) /\ TextMeansValue(c.dec)
                         /\ (c.form = "plain" /\ c.layout = 1 => MainFormFree(c) /\ MainDefaults(c))
                         /\ (exp.out = "name" =>
                               /\ MU!IauCellContainsCoordinate(DecValue(c.ra), DecValue(c.dec), EffPrefix(c), EffPrecision(c))
                               /\ MU!IauLength(DecValue(c.ra), DecValue(c.dec), EffPrefix(c), EffPrecision(c))))
X04_DecodeLaws == Is("decode") => /\ Utf8RoundTrip(c.b) /\ Utf8AsciiIdentity(c.b) /\ Utf8Lengths(c.b) /\ Utf8Concat(c.b)
                                  /\ DecodeOnlyWithMethod(c.kind, c.b)
X04_ExcLaws == Is("exc") => /\ (exp.sub /\ ExcExpected(c.b, c.a).sub) => c.a = c.b
                            /\ (c.a = c.b => exp.sub)
X04_CalibLaws == Is("calibv") => IsRat(exp.val) /\ Lt(Zero, exp.val)
=============================================================================
