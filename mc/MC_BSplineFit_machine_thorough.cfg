CONSTANT Families = {}
CONSTANT SmallN = {1}
CONSTANT SmallBW = {1}
CONSTANT OffSel = "narrow"
CONSTANT DiagVals = {1}
CONSTANT HashN = {4}
CONSTANT HashBW = {1}
CONSTANT HashPar = {0}
CONSTANT Variants = {}
CONSTANT FitDesigns = {}
CONSTANT FitMult = {0, 1}
CONSTANT FitNmin = 2
CONSTANT FitNmax = 4
CONSTANT YSel = "patterns"
CONSTANT WMode = "patterns"
CONSTANT PolyNords = {1}
CONSTANT PolySegs = {1}
CONSTANT MNords = {1, 2, 3, 4}
CONSTANT MaxS = 5
CONSTANT CntFullS = 4
CONSTANT KnotS = 2
CONSTANT MaxFitsSel = "both"
INIT SInit
NEXT SNext
INVARIANT C09c_SupportOK
INVARIANT C09c_TypeOK
INVARIANT C09c_EndKnotsKept
INVARIANT C09c_FitsBounded
INVARIANT C09c_OKOnlyIfSupported
INVARIANT C09c_DropMeansDropped
INVARIANT C09c_ClassesConsistent
INVARIANT C09c_DropKeepsDetermined
INVARIANT C09c_LoopEndsDecided
INVARIANT C09c_ExpIsClass
PROPERTY C09c_MaskNeverGrows
PROPERTY C09c_WellSupportedGivesZero
PROPERTY C09c_StatusDocumented
CHECK_DEADLOCK FALSE
