----------------------------- MODULE MC_Reject -----------------------------
(* Bounded-exhaustive instances for C17.  Every non-root, non-seed state is one call (c)   *)
(* of one of the five functions together with the outcome the specification demands (exp). *)
(* Root -> seed -> cases, so that all TLC workers share the enumeration.  The dump is      *)
(* replayed into djs_reject / djs_maskinterp / aesthetics / djs_median / skymask.          *)
EXTENDS Reject, TLC
CONSTANTS Families,      \* subset of {"reject","rejnum","interp1","interpnd","aesth","median","median2","sky"}
          Tier           \* "quick" or "thorough": sizes below
VARIABLES c, exp

Q == Tier = "quick"
Root == [kind |-> "root"]
NoExp == [none |-> TRUE]
Opt(b, v) == IF b THEN <<OfInt(v)>> ELSE <<>>
Injective(f) == \A i, j \in DOMAIN f : i # j => f[i] # f[j]

(* ------------------------------ djs_reject: set algebra ------------------------------ *)
(* every (inmask, prev, residual-bad set, sticky, grow); the bad points are realised as   *)
(* beyond-lower (i%3=1), beyond-maxdev only (i%3=2, sigma 2) and beyond-upper (i%3=0).     *)
(* In the seeds with z = TRUE the lower/upper violators are exactly known points instead   *)
(* (sigma = 0, residual -1 / +1, far inside the limits in absolute units) and the good     *)
(* points at i%3 # 2 have sigma = 0 and a zero residual.                                   *)
RejFullNs == IF Q THEN {3} ELSE {3, 4}       \* every (inmask, prev, bad set, sticky, grow)
RejMidNs == IF Q THEN {} ELSE {5}            \* the same with grow in 1..2 and at most two bad points
RejSparseNs == IF Q THEN {4} ELSE {6}        \* at most one bad point, grow >= 1
GrowMax == 3
RejZ(inmask, prev) == (Cardinality(inmask) + Cardinality(prev)) % 2 = 1
RejCase(n, inmask, prev, B, sticky, grow) ==
  [kind |-> "reject", n |-> n,
   diff |-> [i \in 1..n |-> OfInt(
               IF RejZ(inmask, prev) /\ i % 3 # 2
               THEN (IF i \in B THEN (IF i % 3 = 1 THEN -1 ELSE 1) ELSE 0)
               ELSE (IF i \in B THEN (CASE i % 3 = 1 -> -10 [] i % 3 = 2 -> 8 [] OTHER -> 10)
                     ELSE (IF i % 2 = 0 THEN 1 ELSE -1)))],
   mode |-> "sigma",
   scale |-> [i \in 1..n |-> IF i % 3 = 2 THEN OfInt(2) ELSE IF RejZ(inmask, prev) THEN Zero ELSE One],
   lower |-> Opt(TRUE, 5), upper |-> Opt(TRUE, 5), maxdev |-> Opt(TRUE, 7),
   inmask |-> inmask, prev |-> prev, sticky |-> sticky, grow |-> grow]
RejSeed(n, inmask, prev, fam) == [kind |-> "seedrej", n |-> n, inmask |-> inmask, prev |-> prev, fam |-> fam]
RootReject ==
  \/ \E n \in RejFullNs : \E im \in SUBSET (1..n) : \E pv \in SUBSET (1..n) : c' = RejSeed(n, im, pv, "full")
  \/ \E n \in RejMidNs : \E im \in SUBSET (1..n) : \E pv \in SUBSET (1..n) : c' = RejSeed(n, im, pv, "mid")
  \/ \E n \in RejSparseNs : \E im \in SUBSET (1..n) : \E pv \in SUBSET (1..n) : c' = RejSeed(n, im, pv, "sparse")
StepReject ==
  /\ c.kind = "seedrej"
  /\ \E B \in SUBSET (1..c.n) : \E st \in BOOLEAN : \E g \in 0..GrowMax :
        /\ c.fam = "sparse" => (Cardinality(B) <= 1 /\ g >= 1)
        /\ c.fam = "mid" => (g \in 1..2 /\ Cardinality(B) <= 2)
        /\ c' = RejCase(c.n, c.inmask, c.prev, B, st, g)
  /\ exp' = ExpectedReject(c')

(* ------------------------------ djs_reject: the limits ------------------------------- *)
(* residuals on and around every threshold, sigma in {1/2, 1, 2} and zero weight, each    *)
(* limit present or absent.  lower = 5, upper = 4, maxdev = 7.                             *)
NumD1 == {-15, -11, -10, -8, -7, -6, -5, -3, -2, 0, 2, 3, 4, 5, 7, 8, 9, 15}
NumD2 == IF Q THEN {-11, 5, 8} ELSE {-11, -10, -6, -5, -3, 0, 2, 4, 5, 8, 9}
NumW == {Zero, R(1, 2), One, OfInt(2)}     \* sigma, or sqrt(invvar)
NumCase(n, lims, grow, d, mode, w) ==
  [kind |-> "rejnum", n |-> n, diff |-> [i \in 1..n |-> OfInt(d[i])], mode |-> mode, scale |-> w,
   lower |-> Opt(lims[1], 5), upper |-> Opt(lims[2], 4), maxdev |-> Opt(lims[3], 7),
   inmask |-> 1..n, prev |-> 1..n, sticky |-> FALSE, grow |-> grow]
RootRejnum ==
  \E n \in {1, 2} : \E lims \in BOOLEAN \X BOOLEAN \X BOOLEAN : \E g \in {0, 1} :
     /\ (n = 1 => g = 0)
     /\ \E mode \in {"sigma", "weight"} : c' = [kind |-> "seednum", n |-> n, lims |-> lims, grow |-> g, mode |-> mode]
StepRejnum ==
  /\ c.kind = "seednum"
  /\ \E d \in [1..c.n -> IF c.n = 1 THEN NumD1 ELSE NumD2] : \E w \in [1..c.n -> NumW] :
        /\ c.mode = "weight" => \E i \in 1..c.n : w[i] = Zero   \* positive weights are the sigma cases (RejModesAgree)
        /\ c' = NumCase(c.n, c.lims, c.grow, d, c.mode, w)
  /\ exp' = ExpectedReject(c')

(* ------------------------------ djs_maskinterp, 1-D ---------------------------------- *)
YVals == {0, 1, 4}
InterpFullN == IF Q THEN 3 ELSE 4        \* every y over YVals up to this length
InterpMaxN == IF Q THEN 5 ELSE 6
PermFullN == IF Q THEN 3 ELSE 4          \* every ordering of x up to this length
YPatterns(n) == { [i \in 1..n |-> (i * i) % 5], [i \in 1..n |-> (7 * i) % 4], [i \in 1..n |-> 4 - ((i * 3) % 5)] }
YSet(n) == IF n <= InterpFullN THEN [1..n -> YVals] ELSE YPatterns(n)
PermOK(f, n) == (\A i \in 1..n : f[i] \in 1..n) /\ Injective(f)
Perms(n) == IF n <= PermFullN THEN {f \in [1..n -> 1..n] : Injective(f)}
            ELSE {f \in { [i \in 1..n |-> i], [i \in 1..n |-> n + 1 - i], [i \in 1..n |-> (i * 3) % (n + 1)],
                          [i \in 1..n |-> ((i * 2) % n) + 1] } : PermOK(f, n)}
XVariants(n) == {<<>>} \cup { [i \in 1..n |-> OfInt(f[i] * f[i])] : f \in Perms(n) }
                       \cup { [i \in 1..n |-> R(f[i] * f[i] - 10, 2)] : f \in {[i \in 1..n |-> n + 1 - i]} }
RootInterp1 == \E n \in 1..InterpMaxN : \E x \in XVariants(n) : c' = [kind |-> "seedi1", n |-> n, x |-> x]
StepInterp1 ==
  /\ c.kind = "seedi1"
  /\ \E y \in YSet(c.n) : \E bad \in SUBSET (1..c.n) : \E const \in BOOLEAN :
        c' = [kind |-> "interp1", y |-> [i \in 1..c.n |-> OfInt(y[i])], bad |-> bad, x |-> c.x, const |-> const]
  /\ exp' = [val |-> MaskInterp1(c'.y, c'.bad, c'.x)]

(* ------------------------------ djs_maskinterp, N-d ---------------------------------- *)
NDShapes == IF Q THEN {<<2, 3>>, <<3, 2>>, <<2, 2, 2>>}
            ELSE {<<4>>, <<2, 3>>, <<3, 2>>, <<3, 3>>, <<2, 4>>, <<2, 2, 2>>, <<2, 2, 3>>}
NDShapesLite == IF Q THEN {} ELSE {<<2, 3, 2>>, <<3, 2, 2>>}      \* one x / y pattern only
YND(shape, pat) == [p \in 1..Prod(shape) |-> OfInt(IF pat = 1 THEN (p * p) % 7 ELSE 9 - ((p * 5) % 11))]
XND(shape, xf) == IF xf = 0 THEN <<>> ELSE [p \in 1..Prod(shape) |-> OfInt((p * 11) % 29)]
RootInterpND ==
  \/ \E shape \in NDShapes : \E k \in 0..(Len(shape) - 1) : \E xf \in {0, 1} : \E pat \in {1, 2} :
     c' = [kind |-> "seednd", shape |-> shape, axis |-> k, xf |-> xf, pat |-> pat]
  \/ \E shape \in NDShapesLite : \E k \in 0..(Len(shape) - 1) :
     c' = [kind |-> "seednd", shape |-> shape, axis |-> k, xf |-> 1, pat |-> 2]
StepInterpND ==
  /\ c.kind = "seednd"
  /\ \E bad \in SUBSET (1..Prod(c.shape)) :
        c' = [kind |-> "interpnd", shape |-> c.shape, axis |-> c.axis, y |-> YND(c.shape, c.pat),
              bad |-> bad, x |-> XND(c.shape, c.xf), const |-> (c.pat = 2)]
  /\ exp' = [val |-> MaskInterpND(c'.shape, c'.y, c'.bad, c'.x, c'.axis)]

(* ------------------------------ aesthetics -------------------------------------------- *)
AesFullN == IF Q THEN 3 ELSE 4
AesMaxN == IF Q THEN 5 ELSE 6
RootAesth == \E n \in 1..AesMaxN : \E m \in AesMethods : c' = [kind |-> "seedae", n |-> n, method |-> m]
StepAesth ==
  /\ c.kind = "seedae"
  /\ \E f \in YSet(c.n) : \E iv \in [1..c.n -> {0, 2}] :
        c' = [kind |-> "aesth", flux |-> [i \in 1..c.n |-> OfInt(f[i])], ivar |-> iv, method |-> c.method]
  /\ exp' = [val |-> Aesthetics(c'.flux, c'.ivar, c'.method), free |-> AesFree(c'.flux, c'.ivar, c'.method)]

(* ------------------------------ reflecting running median ----------------------------- *)
MedVals == IF Q THEN {0, 1, 4} ELSE {0, 1, 4, 9}
MedMaxN == IF Q THEN 5 ELSE 7
Widths(n) == {w \in {1, 3, 5, 7} : w <= n}
RootMedian == \E n \in 1..MedMaxN : \E w \in Widths(n) : c' = [kind |-> "seedmed", n |-> n, w |-> w]
StepMedian ==
  /\ c.kind = "seedmed"
  /\ \E a \in [1..c.n -> IF c.n <= 6 THEN MedVals ELSE {0, 1, 4}] : c' = [kind |-> "median", a |-> a, w |-> c.w]
  /\ exp' = [val |-> ReflectMedian(c'.a, c'.w)]

Med2Shapes == IF Q THEN {<<3, 3, 3, 2>>} ELSE {<<3, 3, 3, 3>>, <<3, 4, 3, 2>>, <<4, 3, 3, 2>>}   \* rows, cols, width, #values
RootMedian2 == \E s \in Med2Shapes : \E r1 \in [1..s[2] -> 0..(s[4] - 1)] :
                  c' = [kind |-> "seedmed2", nr |-> s[1], nc |-> s[2], w |-> s[3], nv |-> s[4], row1 |-> r1]
StepMedian2 ==
  /\ c.kind = "seedmed2"
  /\ \E rest \in [2..c.nr -> [1..c.nc -> 0..(c.nv - 1)]] :
        c' = [kind |-> "median2",
              A |-> [r \in 1..c.nr |-> [q \in 1..c.nc |-> LET v == IF r = 1 THEN c.row1[q] ELSE rest[r][q] IN v * v]],
              w |-> c.w]
  /\ exp' = [val |-> ReflectMedian2(c'.A, c'.w)]

(* ------------------------------ skymask ----------------------------------------------- *)
(* two SPPIXMASK tables: the survey's bit numbers, and one whose bits fit an int16 mask  *)
SkyTables == { [BADSKYCHI |-> 27, REDMONSTER |-> 28, O1 |-> 26, O2 |-> 29],
               [BADSKYCHI |-> 3, REDMONSTER |-> 13, O1 |-> 14, O2 |-> 4] }
SkyClasses == {"none", "bsc", "rm", "other", "both", "mix"}
ClassBits(t, cl) == CASE cl = "none" -> {} [] cl = "bsc" -> {t.BADSKYCHI} [] cl = "rm" -> {t.REDMONSTER}
                      [] cl = "other" -> {t.O1} [] cl = "both" -> {t.BADSKYCHI, t.REDMONSTER, t.O2}
                      [] cl = "mix" -> {t.BADSKYCHI, t.O1}
SkyIvar(nr, L) == [r \in 1..nr |-> [p \in 1..L |-> IF (p + r) % 4 = 0 THEN 0 ELSE 10 * r + p]]
SkyFullL == IF Q THEN {1, 3} ELSE {1, 2, 3, 4, 5}      \* every class pattern
SkyLongL == IF Q THEN {5} ELSE {7}                  \* classes none / rm / other only
SkyTwoRowL == IF Q THEN 2 ELSE 3
RootSky ==
  \/ \E t \in SkyTables : \E L \in SkyFullL : \E g \in 0..3 :
        c' = [kind |-> "seedsky", tbl |-> t, nr |-> 1, L |-> L, ngrow |-> g, cls |-> SkyClasses]
  \/ \E t \in SkyTables : \E L \in SkyLongL : \E g \in 0..3 :
        c' = [kind |-> "seedsky", tbl |-> t, nr |-> 1, L |-> L, ngrow |-> g, cls |-> {"none", "rm", "other"}]
  \/ \E t \in SkyTables : \E g \in 0..3 :
        c' = [kind |-> "seedsky", tbl |-> t, nr |-> 2, L |-> SkyTwoRowL, ngrow |-> g, cls |-> {"none", "bsc", "other"}]
StepSky ==
  /\ c.kind = "seedsky"
  /\ \E cl \in [1..c.nr -> [1..c.L -> c.cls]] :
        c' = [kind |-> "sky", pat |-> "std", tbl |-> c.tbl, ngrow |-> c.ngrow, ivar |-> SkyIvar(c.nr, c.L),
              flags |-> [r \in 1..c.nr |-> [p \in 1..c.L |-> ClassBits(c.tbl, cl[r][p])]]]
  /\ exp' = [val |-> SkyMask(c'.ivar, c'.flags, c'.ngrow, c'.tbl)]

(* mask VALUES with the top bit of their own integer type set (negative values of the signed types): top = 7, 15, 31,  *)
(* 63 is the sign bit of int8 / int16 / int32 / int64 (and an ordinary high bit of every wider type).  A value is its    *)
(* set of bits; "ones" is the value -1 of the type (all bits 0..top, the two flags included when the type holds them).   *)
SkyTops == {7, 15, 31, 63}
SkyTopClasses == {"none", "top", "topo", "topf", "ones"}
TopBits(t, top, cl) ==
  CASE cl = "none" -> {}
    [] cl = "top" -> {top}
    [] cl = "topo" -> {top, IF t.O1 < top THEN t.O1 ELSE 0}
    [] cl = "topf" -> {top, IF t.BADSKYCHI < top THEN t.BADSKYCHI ELSE 1}
    [] cl = "ones" -> 0..top
SkyTopL == IF Q THEN 3 ELSE 4
RootSkyTop == \E t \in SkyTables : \E top \in SkyTops : \E g \in (IF Q THEN {0, 1} ELSE 0..3) :
                 c' = [kind |-> "seedtop", tbl |-> t, top |-> top, ngrow |-> g]
StepSkyTop ==
  /\ c.kind = "seedtop"
  /\ \E cl \in [1..SkyTopL -> SkyTopClasses] :
        c' = [kind |-> "sky", pat |-> "top", tbl |-> c.tbl, ngrow |-> c.ngrow, ivar |-> SkyIvar(1, SkyTopL),
              flags |-> <<[p \in 1..SkyTopL |-> TopBits(c.tbl, c.top, cl[p])]>>]
  /\ exp' = [val |-> SkyMask(c'.ivar, c'.flags, c'.ngrow, c'.tbl)]
(* a value whose only set bits are the top bit and bits other than the two flags zeroes nothing *)
SkyTopBitAloneHarmless ==
  (c.kind = "sky" /\ c.pat = "top" /\ \A p \in Idx(c.flags[1]) : c.flags[1][p] \cap SkyBits(c.tbl) = {}) => exp.val = c.ivar

(* wide dilations: every ngrow up to SkyWideMax on rows long enough to hold the whole window,  *)
(* with isolated flagged pixels (no second flagged pixel inside the same 2*ngrow+1 window).   *)
SkyWideMax == IF Q THEN 60 ELSE 130
(* the values around which 2*ngrow+1 leaves the range of an 8-bit integer (ngrow handed over as numpy.int8 /   *)
(* numpy.uint8): also in the quick tier                                                                        *)
SkyWideNgrows == (0..SkyWideMax) \cup {63, 64, 65, 66, 127, 128, 129, 130}
SkyWidePats == {"mid", "ends", "far", "pair"}
WideLen(g, pat) == CASE pat = "mid" -> 2 * g + 3 [] pat = "ends" -> 2 * g + 3 [] pat = "far" -> 4 * g + 5 [] pat = "pair" -> 2 * g + 4
WideFlags(t, g, pat) ==
  [p \in 1..WideLen(g, pat) |->
     CASE pat = "mid" -> (IF p = g + 2 THEN {t.REDMONSTER} ELSE IF p = 1 THEN {t.O1} ELSE {})
       [] pat = "ends" -> (IF p = 1 THEN {t.BADSKYCHI} ELSE IF p = 2 * g + 3 THEN {t.REDMONSTER, t.O2} ELSE {})
       [] pat = "far" -> (IF p = g + 2 THEN {t.BADSKYCHI, t.O1} ELSE IF p = 3 * g + 4 THEN {t.REDMONSTER} ELSE {})
       [] pat = "pair" -> (IF p = g + 2 THEN {t.BADSKYCHI} ELSE IF p = g + 3 THEN {t.REDMONSTER} ELSE {})]
RootSkyWide == \E t \in SkyTables : \E g \in SkyWideNgrows : c' = [kind |-> "seedwide", tbl |-> t, ngrow |-> g]
StepSkyWide ==
  /\ c.kind = "seedwide"
  /\ \E pat \in SkyWidePats :
        /\ c.ngrow > SkyWideMax => pat \in {"mid", "ends"}
        /\ c' = [kind |-> "sky", pat |-> pat, tbl |-> c.tbl, ngrow |-> c.ngrow, ivar |-> <<[p \in 1..WideLen(c.ngrow, pat) |-> 1 + (p % 7)]>>,
              flags |-> <<WideFlags(c.tbl, c.ngrow, pat)>>]
  /\ exp' = [val |-> SkyMask(c'.ivar, c'.flags, c'.ngrow, c'.tbl)]
(* what the patterns are for: every flagged pixel is alone in its window, the dilations leave  *)
(* unflagged pixels on the row ("mid": both end pixels; "ends": the centre; "far": three gaps) *)
SkyWideShape ==
  (c.kind = "sky" /\ c.pat \in {"mid", "ends", "far"}) =>
     /\ \E p \in Idx(exp.val[1]) : exp.val[1][p] # 0
     /\ \A p, q \in SkyFlagged(c.flags, c.tbl, 1) : p # q => Abs(p - q) > 2 * c.ngrow

(* ------------------------------ the machine ------------------------------------------- *)
Init == c = Root /\ exp = NoExp
RootStep ==
  /\ c = Root
  /\ \/ "reject" \in Families /\ RootReject
     \/ "rejnum" \in Families /\ RootRejnum
     \/ "interp1" \in Families /\ RootInterp1
     \/ "interpnd" \in Families /\ RootInterpND
     \/ "aesth" \in Families /\ RootAesth
     \/ "median" \in Families /\ RootMedian
     \/ "median2" \in Families /\ RootMedian2
     \/ "sky" \in Families /\ RootSky
     \/ "skywide" \in Families /\ RootSkyWide
     \/ "skytop" \in Families /\ RootSkyTop
  /\ exp' = NoExp
Next == RootStep \/ StepReject \/ StepRejnum \/ StepInterp1 \/ StepInterpND \/ StepAesth
        \/ StepMedian \/ StepMedian2 \/ StepSky \/ StepSkyWide \/ StepSkyTop

IsRej == c.kind \in {"reject", "rejnum"}
IsI1 == c.kind = "interp1"
IsND == c.kind = "interpnd"
IsAes == c.kind = "aesth"
IsMed == c.kind = "median"
IsMed2 == c.kind = "median2"
IsSky == c.kind = "sky"

(* ------------------------------ spec-level laws (one INVARIANT each) ------------------ *)
C17_RejBoundsNested == IsRej => RejBoundsNested(c)
C17_RejGrowZeroExact == IsRej => RejGrowZeroExact(c)
C17_RejNoExclusionDetermined == IsRej => RejNoExclusionDetermined(c)
C17_RejWithinMasks == IsRej => RejWithinMasks(c)
C17_RejGrowMonotone == IsRej => RejGrowMonotone(c)
C17_RejGrowWidth == IsRej => RejGrowWidth(c)
C17_RejSecondPassDone == IsRej => RejSecondPassDone(c)
C17_RejLimitsAbsent == IsRej => RejLimitsAbsentNoResidual(c)
C17_RejZeroWeight == IsRej => RejZeroWeightOnlyDev(c)
C17_RejZeroSigmaSign == IsRej => RejZeroSigmaSign(c)
C17_RejModesAgree == IsRej => RejModesAgree(c)
C17_RejGrowSupersetLaw == IsRej => RejGrowSupersetLaw(c)
C17_RejExpectedAccepted == IsRej => (RejectOK(c, exp.gmax, exp.done) /\ RejectOK(c, exp.gmin, exp.donemin))
C17_RejDevDiffers == (IsRej /\ c.grow = 0) => Dev_GrowIgnored(c) = GoodMax(c)

C17_MIOnlyMaskedChange == IsI1 => MIOnlyMaskedChange(c.y, c.bad, c.x)
C17_MINoGoodOrNoBad == IsI1 => MINoGoodOrNoBadUnchanged(c.y, c.bad, c.x)
C17_MIOneGoodConstant == IsI1 => MIOneGoodConstant(c.y, c.bad, c.x)
C17_MIWithinGoodRange == IsI1 => MIWithinGoodRange(c.y, c.bad, c.x)
C17_MIIndexIsIdentityX == IsI1 => MIIndexIsIdentityX(c.y, c.bad)
C17_MIAffineXInvariant == IsI1 => MIAffineXInvariant(c.y, c.bad, c.x)
C17_MIReversal == IsI1 => MIReversal(c.y, c.bad, c.x)
C17_MIIdempotent == IsI1 => MIIdempotent(c.y, c.bad, c.x)
C17_MIXDistinct == (IsI1 \/ IsND) => XDistinct(c.x)
C17_NDOnlyMaskedChange == IsND => NDOnlyMaskedChange(c.shape, c.y, c.bad, c.x, c.axis)
C17_NDOneDim == IsND => NDOneDimIsMaskInterp1(c.shape, c.y, c.bad, c.x, c.axis)
C17_NDTranspose == IsND => NDTranspose2(c.shape, c.y, c.bad, c.x, c.axis)

C17_AesOnlyWhereIvarZero == IsAes => AesChangesOnlyWhereIvarZero(c.flux, c.ivar, c.method)
C17_AesFreeOnlyWhereIvarZero == IsAes => AesFreeOnlyWhereIvarZero(c.flux, c.ivar, c.method)
C17_AesNothingIdentity == IsAes => AesNothingIsIdentity(c.flux, c.ivar)
C17_AesNoMaskIdentity == IsAes => AesNoMaskIsIdentity(c.flux, c.ivar, c.method)
C17_AesMeanWithinRange == IsAes => AesMeanWithinGoodRange(c.flux, c.ivar)
C17_AesExpectedAccepted == IsAes => AesOK(c.flux, c.ivar, c.method, exp.val)

C17_MedWidthOne == IsMed => MedWidthOneIdentity(c.a)
C17_MedValuesFromInput == IsMed => MedValuesFromInput(c.a, c.w)
C17_MedInterior == IsMed => MedInteriorIsPlainMedian(c.a, c.w)
C17_MedReversal == IsMed => MedReversal(c.a, c.w)
C17_MedConstant == IsMed => MedConstantFixed(c.a, c.w)
C17_Med2EqualRows == IsMed2 => Med2RowsOfEqualColumnsIs1D(c.A, c.w)

C17_SkyNoGrowExact == IsSky => SkyNoGrowExact(c.ivar, c.flags, c.tbl)
C17_SkyGrowMonotone == IsSky => SkyGrowMonotone(c.ivar, c.flags, c.ngrow, c.tbl)
C17_SkyWidth == IsSky => SkyWidth(c.ivar, c.flags, c.ngrow, c.tbl)
C17_SkyOtherBits == IsSky => SkyOtherBitsIrrelevant(c.ivar, c.flags, c.ngrow, c.tbl)
C17_SkyRowsIndependent == IsSky => SkyRowsIndependent(c.ivar, c.flags, c.ngrow, c.tbl)
C17_SkyWideIsolated == SkyWideShape
C17_SkyTopBitAloneHarmless == SkyTopBitAloneHarmless
C17_SkyOnlyZeroes == IsSky => SkyOnlyZeroes(c.ivar, c.flags, c.ngrow, c.tbl)
=============================================================================
