CONSTANT Families = {"tok", "prot", "tc", "dts", "acc", "conv"}
CONSTANT TokLen = 4
CONSTANT TokLenWide = 5
CONSTANT ProtLen = 3
CONSTANT TcLen = 5
CONSTANT TcLenWide = 6
CONSTANT DtsMaxCols = 2
CONSTANT AccMaxCols = 1
CONSTANT AccWideCols = 2
INIT Init
NEXT Next
INVARIANT X08_GetTokenIterates
INVARIANT X08_GetTokenSetsNonEmpty
INVARIANT X08_ProtectReadsBack
INVARIANT X08_TrailingCommentSound
INVARIANT X08_DtsReadsBack
INVARIANT X08_BlocksAgree
INVARIANT X08_AccColsConsistent
INVARIANT X08_AccStyleFree
CHECK_DEADLOCK FALSE
