CONSTANT Families = {"contig", "cir", "iau", "laxis", "print", "lines", "median", "cooling"}
CONSTANT ContigN = 9
CONSTANT ContigM = 4
CONSTANT CirN = 400
CONSTANT IauStride = 24
CONSTANT LaxisD = 3
CONSTANT PrintK = 2
CONSTANT LinesN = 8
CONSTANT MedianBig = FALSE
INIT Init
NEXT Next
INVARIANT X02_ContigLaws
INVARIANT X02_CirLaws
INVARIANT X02_IauLaws
INVARIANT X02_LaxisLaws
INVARIANT X02_PrintLaws
INVARIANT X02_LinesLaws
INVARIANT X02_MedianLaws
INVARIANT X02_InterpLaws
CHECK_DEADLOCK FALSE
