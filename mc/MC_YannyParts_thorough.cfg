CONSTANT Families = {"tok", "prot", "tc", "dts", "acc", "conv"}
CONSTANT TokLen = 5
CONSTANT TokLenWide = 7
CONSTANT ProtLen = 5
CONSTANT TcLen = 6
CONSTANT TcLenWide = 8
CONSTANT DtsMaxCols = 3
CONSTANT AccMaxCols = 2
CONSTANT AccWideCols = 3
INIT Init
NEXT Next
INVARIANT X08_GetTokenIterates
INVARIANT X08_GetTokenSetsNonEmpty
INVARIANT X08_ProtectReadsBack
INVARIANT X08_TrailingCommentSound
INVARIANT X08_DtsReadsBack
INVARIANT X08_BlocksAgree
INVARIANT X08_AccColsConsistent
INVARIANT X08_AccStyleFree
CHECK_DEADLOCK FALSE
