CONSTANT Mode = "single"
CONSTANT Ns = {3}
CONSTANT PermSel = "all"
CONSTANT ResVals <- Res3
CONSTANT OffVals = {0}
CONSTANT Thrs <- ThrQuick
CONSTANT MaxIters = {0, 1, 2}
CONSTANT MaxDrops = 1
CONSTANT WithFail = TRUE
CONSTANT NBk = 2
CONSTANT MinGood = 2
INIT Init
NEXT Next
INVARIANT C10_TypeOK
INVARIANT C10_SortIsArgsort
INVARIANT C10_ZeroWeightNeverUsed
INVARIANT C10_MaskInCallerOrder
INVARIANT C10_MaxIter0IsPlainFit
INVARIANT C10_ReturnedCurveIsLastFit
INVARIANT C10_FixpointOrBudget
INVARIANT C10_WithinBudget
INVARIANT C10_RejectedStayOut
INVARIANT C10_OutliersRejectedAndRefitted
INVARIANT C10_BreakpointsOnlyShrink
INVARIANT C10_ResidualsOnBreakpointsInEffect
INVARIANT C10_ReturnedCurveOnReturnedBreakpoints
