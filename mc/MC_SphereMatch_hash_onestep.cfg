CONSTANT Mode = "hash"
CONSTANT N1s = {2}
CONSTANT N2s = {2}
CONSTANT Ks = {0}
CONSTANT MaxRank = 1
CONSTANT MaxCand = 1
CONSTANT NCs = {1, 2, 3, 4}
CONSTANT NBs = {3, 4}
CONSTANT Ss = {3, 4}
CONSTANT Wrap = TRUE
CONSTANT Guard = TRUE
CONSTANT Walk = FALSE
INIT Init
NEXT Next
CHECK_DEADLOCK FALSE
INVARIANT C04_HashComplete
