CONSTANT Families = {"obj", "alg", "circle", "used", "misc"}
CONSTANT MaxObjCaps = 3
CONSTANT MaxAlgCaps = 2
CONSTANT MaxNew = 2
CONSTANT PoolSize = "full"
CONSTANT LawStride = 3
INIT Init
NEXT Next
INVARIANT X06_SingleCapArea
INVARIANT X06_DirectionIrrelevant
INVARIANT X06_AreaBounds
INVARIANT X06_ZeroArIsZero
INVARIANT X06_UnusedCapsIrrelevant
INVARIANT X06_SplitAdditive
INVARIANT X06_Monotone
INVARIANT X06_InteriorPoint
INVARIANT X06_CmMinfLaws
INVARIANT X06_GareaShape
INVARIANT X06_AddCapsIsIntersection
INVARIANT X06_PolyNComplement
INVARIANT X06_AlgExpConsistent
INVARIANT X06_CircleIsCap
INVARIANT X06_CircleCentre
CHECK_DEADLOCK FALSE
