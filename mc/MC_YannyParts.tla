--------------------------- MODULE MC_YannyParts ---------------------------
(* X08: bounded-exhaustive families of calls of the yanny helpers and accessors.  Every state  *)
(* whose c.fam is a family name is one call together with the outcome YannyParts specifies;     *)
(* root and seed states carry no call (Root -> seed -> cases, so that all workers share the     *)
(* enumeration).  The dump is replayed into pydl.pydlutils.yanny.                               *)
EXTENDS YannyParts
CONSTANTS Families,     \* subset of {"tok", "prot", "tc", "dts", "acc", "conv"}
          TokLen,       \* get_token: all strings up to this length over TokAlpha
          TokLenWide,   \*            and up to this length over TokAlphaSmall
          ProtLen,      \* protect: all strings up to this length over ProtAlpha
          TcLen,        \* trailing_comment: all strings up to this length over TcAlpha
          TcLenWide,    \*            and up to this length over TcAlphaSmall
          DtsMaxCols,   \* dtype_to_struct: record dtypes of up to this many fields
          AccMaxCols,   \* accessors: structures of up to this many members, all styles
          AccWideCols   \*            and up to this many members in the reduced styles
VARIABLES c,      \* the call (texts shown as TLA+ strings, see Txt)
          exp,    \* the outcome YannyParts specifies for it
          law     \* accessor family: the spec-level laws evaluated on the same parse as exp (TRUE elsewhere)

(* Show: texts (sequences of one-character strings) are dumped as TLA+ strings and sets as sequences (any order); the    *)
(* laws are evaluated on the unprojected values                                                                            *)
Txt(s) == FoldLeft(LAMBDA a, ch : a \o ch, "", s)
Txts(q) == [k \in 1..Len(q) |-> Txt(q[k])]
TxtSet(A) == SetToSeq({Txt(x) : x \in A})

TokAlpha == {"a", SP, TAB, DQ, "{", "}", "#", BS}
TokAlphaSmall == {"a", SP, DQ, "{", "}"}
ProtAlpha == {"a", SP, TAB, DQ, "#", "{", CR, NL}
TcAlpha == {"a", SP, TAB, DQ, "#"}
TcAlphaSmall == {"a", SP, DQ, "#"}
AlphaOf(n) == CASE n = "tok" -> TokAlpha [] n = "toks" -> TokAlphaSmall [] n = "prot" -> ProtAlpha
                [] n = "tc" -> TcAlpha [] n = "tcs" -> TcAlphaSmall

Root == [fam |-> "root"]
NoExp == [open |-> TRUE]
Families6 == {"tok", "prot", "tc", "dts", "acc", "conv"}
IsCase == c.fam \in Families6

(* ---------------- string families ---------------- *)
StrSeed(of, alpha, pre, lo, hi) == [fam |-> "seed", of |-> of, alpha |-> alpha, pre |-> pre, lo |-> lo, hi |-> hi]
StrCase(of, s) == [fam |-> of, s |-> Txt(s), n |-> Len(s)]
ShowTok(g) == [open |-> g.open, words |-> TxtSet(g.words), rems |-> TxtSet(g.rems)]
ShowTc(e) == [open |-> e.open, vals |-> TxtSet(e.vals)]
ShowDts(e, dev) == [err |-> e.err, key |-> Txt(e.key), names |-> Txts(e.names), struct |-> Txt(e.struct),
                    enumreq |-> TxtSet(e.enumreq), enumall |-> TxtSet(e.enumall),
                    devstruct |-> Txt(dev.struct)]       \* the typedef text under the named deviation D-X08-1
StrExp(of, s) == CASE of = "tok" -> ShowTok(GetToken(s)) [] of = "prot" -> [open |-> FALSE, val |-> Txt(Protect(s))] [] of = "tc" -> ShowTc(TrailingComment(s))
StrLaw(of, s) == CASE of = "tok" -> GetTokenIterates(s)
                   [] of = "prot" -> ProtectReadsBack(s) /\ \A k \in ProtectKinds : ProtectOf(s, k) = Protect(s)
                   [] of = "tc" -> HostileAgrees(s) /\ TCDecidedSound(s)
(* all strings up to length max over alphabet alpha: those shorter than 2 directly, the others by their 2-character prefix *)
StrSeeds(of, alpha, lo, hi) ==
  IF hi < 2 \/ hi < lo THEN {} ELSE {StrSeed(of, alpha, <<x, y>>, (IF lo > 2 THEN lo - 2 ELSE 0), hi - 2) : x \in AlphaOf(alpha), y \in AlphaOf(alpha)}
ShortStrings(alpha) == {<<>>} \cup {<<x>> : x \in AlphaOf(alpha)}

(* ---------------- dtype_to_struct ---------------- *)
DtsNames == << <<"a">>, <<"b","b">>, <<"c","_","1">> >>
SNames == << <<"m","y","s","t","r","u","c","t">>, <<"F","o","o">>, <<"t","b","_","2">> >>
EnumA == [ename |-> <<"s","t","a","t","u","s">>, labels |-> << <<"X">>, <<"Y","Y">> >>]
EnumB == [ename |-> <<"F","l","a","g">>, labels |-> << <<"O","N","E">> >>]
DtsFieldChoices(k) ==
  {[name |-> DtsNames[k], kind |-> kd, w |-> 0, alen |-> al] : kd \in {"i2", "i4", "i8", "f4", "f8"}, al \in {0, 1, 3}}
  \cup {[name |-> DtsNames[k], kind |-> kd, w |-> w, alen |-> al] : kd \in {"S", "U"}, w \in {1, 5}, al \in {0, 1, 3}}
(* enum declarations: 0 none; 1 first column; 2 a column the structure does not have; 3 columns one and two, same type; *)
(* 4 first and second column, different types                                                                          *)
DtsEnums(v) ==
  CASE v = 0 -> <<>>
    [] v = 1 -> << [col |-> DtsNames[1]] @@ EnumA >>
    [] v = 2 -> << [col |-> <<"z","z">>] @@ EnumA >>
    [] v = 3 -> << [col |-> DtsNames[1]] @@ EnumA, [col |-> DtsNames[2]] @@ EnumA >>
    [] v = 4 -> << [col |-> DtsNames[2]] @@ EnumB, [col |-> DtsNames[1]] @@ EnumA >>
DtsCase(cols, v, sn) == [fam |-> "dts", cols |-> cols, enums |-> DtsEnums(v), sname |-> SNames[sn], order |-> "native"]
DtsSeed(n, f1) == [fam |-> "dseed", n |-> n, f1 |-> f1]
DtsRefusedCases ==
  {DtsCase(<<[name |-> DtsNames[1], kind |-> kd, w |-> 0, alen |-> 0]>>, 0, 1) : kd \in RefusedKinds}
  \cup {DtsCase(<<[name |-> DtsNames[1], kind |-> "i4", w |-> 0, alen |-> 0], [name |-> DtsNames[2], kind |-> kd, w |-> 0, alen |-> 3]>>, 1, 2) : kd \in RefusedKinds}

(* ---------------- accessors ---------------- *)
EName == <<"E">>
ELabels == << <<"A">>, <<"B","B">>, <<"C","C","C">> >>
CName == <<"c","h","a","r","m">>                \* an enum type whose name contains "char"
CLabels == << <<"X">>, <<"Y","Y">> >>
(* member forms: the type word, the dimensions exactly as written, and the cells of rows 1 and 2 *)
Form(base, dims, c1, c2) == [base |-> base, dims |-> dims, cells |-> <<c1, c2>>]
Forms ==
  << Form(KwInt, <<>>, <<"7">>, <<"-","1","2">>),
     Form(KwFloat, <<"[","3","]">>, << <<"1",".","5">>, <<"2">>, <<"-","0",".","2","5">> >>, << <<"0">>, <<"1","0">>, <<"3",".","5">> >>),
     Form(KwDouble, <<"<","2",">">>, << <<"1">>, <<"2">> >>, << <<"0",".","5">>, <<"4">> >>),
     Form(KwChar, <<"[","4","]">>, <<"w","x","y","z">>, <<"q",SP,"r">>),
     Form(KwChar, <<"<","4",">">>, <<"w","x">>, <<>>),
     Form(KwChar, <<"[","2","]","[","5","]">>, << <<"a","b">>, <<"c","d","e">> >>, << <<>>, <<"x",SP,"y">> >>),
     Form(KwChar, <<"<","2",">","<","5",">">>, << <<"a","b">>, <<"c","d","e">> >>, << <<"#">>, <<"x">> >>),
     Form(KwChar, <<"[","2","]","<","5",">">>, << <<"a","b">>, <<"c","d","e">> >>, << <<"p">>, <<"x">> >>),
     Form(KwChar, <<"<","2",">","[","5","]">>, << <<"a","b">>, <<"c","d","e">> >>, << <<"p">>, <<"x">> >>),
     Form(KwChar, <<"[","]">>, <<"a","b","c">>, <<"a","b","c","d","e">>),
     Form(KwChar, <<"[","2","]","[","]">>, << <<"a">>, <<"b","c","d">> >>, << <<"a","b","c","d","e","f">>, <<>> >>),
     Form(KwChar, <<>>, <<"a">>, <<"b">>),
     Form(EName, <<>>, <<"A">>, <<"C","C","C">>),
     Form(EName, <<"[","2","]">>, << <<"A">>, <<"B","B">> >>, << <<"C","C","C">>, <<"A">> >>),
     Form(KwShort, <<>>, <<"0">>, <<"3","1">>),
     Form(KwLong, <<"[","1","]">>, << <<"9","9">> >>, << <<"-","5">> >>),
     Form(CName, <<>>, <<"X">>, <<"Y","Y">>),
     Form(CName, <<"[","2","]">>, << <<"X">>, <<"Y","Y">> >>, << <<"Y","Y">>, <<"X">> >>),
     Form(KwChar, <<"[","2","]","[","]">>, << <<>>, <<>> >>, << <<>>, <<>> >>),        \* only empty strings: width 0
     Form(KwChar, <<"[","]">>, <<>>, <<>>) >>
NForms == Len(Forms)
AccNames == << <<"a","b">>, <<"a">>, <<"x","a">> >>      \* the second is a proper prefix of the first and a suffix of the third
DeclText(fi, k, sep) == Forms[fi].base \o sep \o AccNames[k] \o Forms[fi].dims \o <<";">>
ColOfForm(fi, k) == ColOf(Forms[fi].base, NameDims(AccNames[k] \o Forms[fi].dims))

CmtPlain == <<SP, "#", SP, "a", SP, "n", "o", "t", "e">>
CmtSemi == <<SP, "#", SP, "o", "l", "d", ":", SP, "i", "n", "t", SP, "q", ";">>
CmtBrace == <<SP, "#", SP, "b", "i", "t", "s", SP, "{", "8", ",", SP, "1", "6", "}">>
NmUpper == <<"T","B">>
NmMixed == <<"T","b">>
NmLower == <<"t","b">>
(* styles of the typedef: layout, where comments go, line ends, letter case of the name *)
Style(lay, cmt, endcmt, opencmt, eol, sep, nm) ==
  [lay |-> lay, cmt |-> cmt, endcmt |-> endcmt, opencmt |-> opencmt, eol |-> eol, sep |-> sep, nm |-> nm]
Styles ==
  << Style("multi", <<>>, <<>>, <<>>, <<NL>>, <<SP>>, NmUpper),
     Style("multi", CmtPlain, <<>>, <<>>, <<NL>>, <<SP>>, NmMixed),
     Style("multi", CmtSemi, <<>>, <<>>, <<NL>>, <<SP>>, NmUpper),
     Style("multi", CmtBrace, <<>>, <<>>, <<NL>>, <<SP>>, NmUpper),
     Style("one", <<>>, <<>>, <<>>, <<NL>>, <<SP>>, NmLower),
     Style("one", <<>>, CmtPlain, <<>>, <<NL>>, <<SP>>, NmUpper),
     Style("multi", <<>>, <<>>, <<>>, <<CR, NL>>, <<TAB>>, NmUpper),
     Style("multi", <<>>, CmtPlain, CmtPlain, <<NL>>, <<SP, SP>>, NmUpper) >>
NStyles == Len(Styles)
ReducedStyles == {1, 3, 4, 5, 7}

StructTextX(fs, sty) ==
  LET n == Len(fs) IN
  IF sty.lay = "one"
  THEN KwTypedef \o <<SP>> \o KwStruct \o <<SP, "{", SP>>
         \o Concat([k \in 1..n |-> DeclText(fs[k], k, sty.sep) \o <<SP>>]) \o <<"}", SP>> \o sty.nm \o <<";">> \o sty.endcmt \o sty.eol
  ELSE KwTypedef \o <<SP>> \o KwStruct \o <<SP, "{">> \o sty.opencmt \o sty.eol
         \o Concat([k \in 1..n |-> Indent \o DeclText(fs[k], k, sty.sep) \o (IF k = 1 THEN sty.cmt ELSE <<>>) \o sty.eol])
         \o <<"}", SP>> \o sty.nm \o <<";">> \o sty.endcmt \o sty.eol

(* the other structure of the file: its name "T" is contained in "TB", its members reuse the names *)
OtherStruct == [name |-> <<"T">>, cols |-> << Col(<<"a">>, KwInt, 0, NotChar), Col(<<"a","b">>, KwChar, 0, 3) >>]
OtherRow == [t |-> 1, cells |-> << <<"5">>, <<"u","v">> >>]
PairLines(x) ==
  CASE x = 1 -> <<>>
    [] x = 2 -> <<"k","e","y",SP,"v","a","l",SP,"u","e",NL>> \o <<"m","j","d",TAB,"5","4",SP,"#",SP,"c",NL>> \o <<"k","e","y",SP,"2",NL>>
    [] x = 3 -> <<"e","n","u","m",SP,"x",NL>> \o <<"s","t","r","u","c","t",SP,"y",SP,"z",NL>>

AccText(fs, si, nrows, x) ==
  LET sty == Styles[si]
      struct == [name |-> NmUpper, cols |-> [k \in 1..Len(fs) |-> ColOfForm(fs[k], k)]]
      usesC == \E k \in 1..Len(fs) : Forms[fs[k]].base = CName
      rows == [r \in 1..nrows |-> [t |-> 1, cells |-> [k \in 1..Len(fs) |-> Forms[fs[k]].cells[r]]]]
  IN Magic \o <<NL>> \o PairLines(x)
      \o EnumText([name |-> EName, labels |-> ELabels]) \o <<NL>>
      \o (IF usesC THEN KwTypedef \o <<SP>> \o KwEnum \o <<SP, "{", SP, "X", ",", SP, "Y", "Y", SP, "}", SP>> \o CName \o <<";", NL>> ELSE <<>>)
      \o (IF x = 2 THEN StructText(OtherStruct) \o <<NL>> ELSE <<>>)
      \o StructTextX(fs, sty)
      \o (IF x = 3 THEN StructText(OtherStruct) \o <<NL>> ELSE <<>>)
      \o (IF x # 1 THEN RowText(<<OtherStruct>>, OtherRow) \o <<NL>> ELSE <<>>)
      \o Concat([r \in 1..nrows |-> RowText(<<struct>>, rows[r]) \o sty.eol])
      \o (IF x # 1 THEN <<"t", SP, "6", SP>> \o <<"w">> \o <<NL>> ELSE <<>>)
AccTextOf(fs, si, nrows) == AccText(fs, si, nrows, ((si + nrows + Len(fs)) % 3) + 1)
AccSeed(f1, si) == [fam |-> "aseed", f1 |-> f1, si |-> si]

(* ---------------- convert ---------------- *)
IntTexts == { <<"0">>, <<"7">>, <<"-","1","2">>, <<"+","5">>, <<"0","0","7">>, <<"9","9","9","9","9">>, <<"1",".","5">> }
DecTexts == { <<"1",".","5">>, <<"-","0",".","2","5">>, <<"3">>, <<"0",".","1">>, <<"-","0">>, <<"1","0",".","7","5">>, <<"0","0","2",".","5","0">> }
StrTexts == { <<"a","b">>, <<>>, <<"a",SP,"b">>, <<"1","2">> }
ConvTexts(base) == IF base \in {KwShort, KwInt, KwLong} THEN IntTexts ELSE IF base \in {KwFloat, KwDouble} THEN DecTexts ELSE StrTexts
ConvBases == {KwShort, KwInt, KwLong, KwFloat, KwDouble, KwChar, EName}
ConvCase(base, isarray, value) == [fam |-> "conv", base |-> base, isarray |-> isarray, value |-> value]

(* ---------------- what is dumped ---------------- *)
DtsShowCase(d) ==
  [fam |-> "dts", sname |-> Txt(d.sname), order |-> d.order,
   cols |-> [k \in 1..Len(d.cols) |-> [name |-> Txt(d.cols[k].name), kind |-> d.cols[k].kind, w |-> d.cols[k].w, alen |-> d.cols[k].alen]],
   enums |-> [k \in 1..Len(d.enums) |-> [col |-> Txt(d.enums[k].col), ename |-> Txt(d.enums[k].ename), labels |-> Txts(d.enums[k].labels)]]]
ShowConv(e) == [k \in 1..Len(e) |-> [k |-> e[k].k, i |-> e[k].i, q |-> e[k].q, s |-> Txt(e[k].s)]]
ShowCol(a) == [name |-> Txt(a.name), type |-> Txt(a.type), base |-> Txt(a.base), isarray |-> a.isarray, isenum |-> a.isenum,
               alen |-> a.alen, clen |-> a.clen, dt |-> a.dt]
ShowAcc(e) ==
  [tables |-> Txts(e.tables), pairs |-> Txts(e.pairs), undef |-> e.undef, notes |-> e.notes,
   tabs |-> [ti \in 1..Len(e.tabs) |->
               [name |-> Txt(e.tabs[ti].name), columns |-> Txts(e.tabs[ti].columns), size |-> e.tabs[ti].size,
                cols |-> [ci \in 1..Len(e.tabs[ti].cols) |-> ShowCol(e.tabs[ti].cols[ci])]]]]

(* the accessors of the generated members are those of the forms they were generated from, whatever the style *)
AccStyleFree(e, fs) ==
  LET ti == CHOOSE t \in 1..Len(e.tabs) : e.tabs[t].name = NmUpper
      tab == e.tabs[ti]
  IN /\ Len(tab.cols) = Len(fs)
     /\ \A k \in 1..Len(fs) :
          /\ tab.cols[k].name = AccNames[k]
          /\ tab.cols[k].base = Forms[fs[k]].base
          /\ tab.cols[k].isarray = (ColOfForm(fs[k], k).alen > 0)
          /\ tab.cols[k].type = Forms[fs[k]].base
                                  \o [j \in 1..Len(Forms[fs[k]].dims) |->
                                        LET d == Forms[fs[k]].dims[j] IN IF d = "<" THEN "[" ELSE IF d = ">" THEN "]" ELSE d]
AccColsConsistent(e) == \A ti \in 1..Len(e.tabs) : \A ci \in 1..Len(e.tabs[ti].cols) : ColAccConsistent(e.tabs[ti].cols[ci])

(* ---------------- the state graph ---------------- *)
InitCase ==
  \/ /\ "tok" \in Families
     /\ \E s \in ShortStrings("tok") : c = StrCase("tok", s) /\ exp = StrExp("tok", s) /\ law = StrLaw("tok", s)
  \/ /\ "prot" \in Families
     /\ \E s \in ShortStrings("prot") : c = StrCase("prot", s) /\ exp = StrExp("prot", s) /\ law = StrLaw("prot", s)
  \/ /\ "tc" \in Families
     /\ \E s \in ShortStrings("tc") : c = StrCase("tc", s) /\ exp = StrExp("tc", s) /\ law = StrLaw("tc", s)
  \/ /\ "dts" \in Families
     /\ \E d \in DtsRefusedCases : c = DtsShowCase(d) /\ exp = ShowDts(DtypeToStruct(d), Dev_UnicodeBytes(d)) /\ law = (DtsReadsBack(d) /\ DtsRepresentationFree(d))
  \/ /\ "conv" \in Families
     /\ \E b \in ConvBases : \E v \in ConvTexts(b) :
          c = [fam |-> "conv", base |-> Txt(b), isarray |-> FALSE, value |-> <<Txt(v)>>] /\ exp = ShowConv(Convert(b, FALSE, v)) /\ law = TRUE
  \/ /\ "conv" \in Families
     /\ \E b \in ConvBases : \E v \in ConvTexts(b) : \E w \in ConvTexts(b) :
          c = [fam |-> "conv", base |-> Txt(b), isarray |-> TRUE, value |-> <<Txt(v), Txt(w)>>] /\ exp = ShowConv(Convert(b, TRUE, <<v, w>>)) /\ law = TRUE
Init == (c = Root /\ exp = NoExp /\ law = TRUE) \/ InitCase

RootStep ==
  /\ c = Root
  /\ exp' = NoExp
  /\ law' = TRUE
  /\ \/ "tok" \in Families /\ c' \in StrSeeds("tok", "tok", 2, TokLen) \cup StrSeeds("tok", "toks", TokLen + 1, TokLenWide)
     \/ "prot" \in Families /\ c' \in StrSeeds("prot", "prot", 2, ProtLen)
     \/ "tc" \in Families /\ c' \in StrSeeds("tc", "tc", 2, TcLen) \cup StrSeeds("tc", "tcs", TcLen + 1, TcLenWide)
     \/ "dts" \in Families /\ \E n \in 1..DtsMaxCols : \E f \in DtsFieldChoices(1) : c' = DtsSeed(n, f)
     \/ "acc" \in Families /\ \E f \in 1..NForms : \E si \in 1..NStyles : c' = AccSeed(f, si)

StrStep ==
  /\ c.fam = "seed"
  /\ \E n \in c.lo..c.hi : \E g \in [1..n -> AlphaOf(c.alpha)] :
        /\ c' = StrCase(c.of, c.pre \o g)
        /\ exp' = StrExp(c.of, c.pre \o g)
        /\ law' = StrLaw(c.of, c.pre \o g)

DtsStep ==
  /\ c.fam = "dseed"
  /\ \E rest \in (IF c.n = 1 THEN {<<>>}
                  ELSE IF c.n = 2 THEN {<<f2>> : f2 \in DtsFieldChoices(2)}
                  ELSE {<<f2, f3>> : f2 \in DtsFieldChoices(2), f3 \in DtsFieldChoices(3)}) :
       \E v \in 0..4 : \E sn \in (IF c.n = 1 THEN 1..3 ELSE {(v % 3) + 1}) :
          LET d == DtsCase(<<c.f1>> \o rest, v, sn) IN
          /\ c' = DtsShowCase(d)
          /\ exp' = ShowDts(DtypeToStruct(d), Dev_UnicodeBytes(d))
          /\ law' = (DtsReadsBack(d) /\ DtsRepresentationFree(d))

AccStep ==
  /\ c.fam = "aseed"
  /\ \E n \in 1..AccWideCols : \E rest \in [1..(n - 1) -> 1..NForms] : \E nrows \in 0..2 :
        /\ (IF n <= AccMaxCols THEN TRUE ELSE (c.si \in ReducedStyles /\ nrows = 1))
        /\ LET fs == <<c.f1>> \o rest
               text == AccTextOf(fs, c.si, nrows)
               res == SpecParse(text)
               tb == TypedefBlocks(text)
               sb == SelectSeq(tb, LAMBDA b : ParseTypedef(b).kind = "struct")
               e == AccessorsOf(res, tb, sb)
           IN /\ c' = [fam |-> "acc", text |-> Txt(text), forms |-> fs, style |-> c.si, nrows |-> nrows]
              /\ exp' = ShowAcc(e)
              /\ law' = [blocks |-> BlocksAgreeOf(res, sb), cols |-> AccColsConsistent(e), style |-> AccStyleFree(e, fs)]

Next == RootStep \/ StrStep \/ DtsStep \/ AccStep

(* ---------------- spec-level laws, checked on every enumerated case ---------------- *)
X08_GetTokenIterates == c.fam = "tok" => law
X08_GetTokenSetsNonEmpty == (c.fam = "tok" /\ ~exp.open) => (exp.words # <<>> /\ exp.rems # <<>>)
X08_ProtectReadsBack == c.fam = "prot" => law
X08_TrailingCommentSound == c.fam = "tc" => law          \* HostileAgrees /\ TCDecidedSound
X08_DtsReadsBack == c.fam = "dts" => law                  \* DtsReadsBack /\ DtsRepresentationFree
X08_BlocksAgree == c.fam = "acc" => law.blocks
X08_AccColsConsistent == c.fam = "acc" => law.cols
X08_AccStyleFree == c.fam = "acc" => law.style
=============================================================================
