CONSTANTS
  DocIds = {"D1", "D3"}
  Group = "hostile"
  MaxNoise = 2
INIT Init
NEXT Next
INVARIANT C02_LayoutIndependent
INVARIANT C02_NoFinalNewline
CHECK_DEADLOCK FALSE
