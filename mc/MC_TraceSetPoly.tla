-------------------------- MODULE MC_TraceSetPoly --------------------------
(* Bounded-exhaustive instances for C13.  Every non-root, non-seed state is one case        *)
(* (a basis evaluation, a fitting problem or a trace-set problem) together with the outcome *)
(* the specification demands; the dump is replayed into flegendre / fchebyshev / fpoly /    *)
(* fchebyshev_split / func_fit / TraceSet / traceset2xy / xy2traceset.                      *)
(* root -> seed -> cases so that all TLC workers share the work.                            *)
EXTENDS TraceSetPoly, TLC
CONSTANTS Families,     \* subset of {"basis", "sweep", "masks", "zerow", "general", "history", "tset", "tgrid"}
          Dens,         \* denominators of the abscissa grid for the bases
          CoefSel,      \* "full": sweep coefficients from -2..2, else from {-1, 0, 2}
          XIds,         \* abscissa sets used by the fit families
          ZIds,         \* abscissa sets of the zero-weight family (all subsets are enumerated)
          HIds,         \* abscissa sets of the call-history family
          Lays,         \* trace-set layouts
          Mod,          \* 1: every case of the masks / zerow / general families; k > 1: every k-th (quick tier sample)
          TsMod,        \* the same for the exact trace-set cases (the inexact ones are always all enumerated)
          GMod          \* the same for the default-grid cases (every (xmin, xmax) pair is always in the sample)
VARIABLES c, exp

CoefDom == IF CoefSel = "full" THEN -2..2 ELSE {-1, 0, 2}
Keep(h) == h % Mod = 0
Q(n, d) == R(n, d)
I(n) == OfInt(n)
Ints(s) == [k \in 1..Len(s) |-> OfInt(s[k])]

(* ------------------------------ bases ----------------------------------- *)
Grid == {x \in {Q(p, q) : p \in -8..8, q \in Dens} : Abs(x[1]) <= x[2]}
MaxM(b, x) == IF b = "chebyshev_split" THEN MaxDeg(x[2]) + 2 ELSE MaxDeg(x[2]) + 1
BasisCase(b, m, x) == [kind |-> "basis", basis |-> b, m |-> m, x |-> x]
BasisSeed(b) == [kind |-> "seed", fam |-> "basis", basis |-> b]
BasisStep ==
  /\ c.kind = "seed" /\ c.fam = "basis"
  /\ \E x \in Grid : \E m \in MinM(c.basis)..MaxM(c.basis, x) :
        /\ c' = BasisCase(c.basis, m, x)
        /\ exp' = [vals |-> Basis(c.basis, m, x)]

(* ------------------------------ fits ------------------------------------ *)
XSet(id) ==
  CASE id = 1 -> << Q(1, 2), I(-1), Zero, One, Q(-1, 2) >>                                   \* unsorted
    [] id = 2 -> << I(-1), Q(-3, 5), Q(-1, 5), Q(1, 5), Q(3, 5), One >>
    [] id = 3 -> << I(-1), Q(-2, 3), Q(-1, 3), Zero, Q(1, 3), Q(2, 3), One >>
    [] id = 4 -> << I(-1), Q(-3, 4), Q(-1, 2), Q(-1, 4), Zero, Q(1, 4), Q(1, 2), Q(3, 4), One >>
    [] id = 5 -> << Zero, Zero, One, One, I(-1), I(-1), Q(1, 2), Q(-1, 2) >>                 \* repeated abscissae
    [] id = 6 -> << I(-1), Q(-1, 2), Zero, Q(1, 3), Q(1, 2), One >>                          \* not symmetric
    [] id = 7 -> << I(2), I(-1), Zero, One, I(-2), I(3) >>                                   \* integers (handed over in integer types too)
WPat(id, n) == [i \in 1..n |-> CASE id = 1 -> 1 [] id = 2 -> i [] id = 3 -> (i % 3) + 1 [] id = 4 -> ((i * i) % 5) + 1]
DyPat(id, n) == [i \in 1..n |-> CASE id = 0 -> 0 [] id = 1 -> Sgn(i) [] id = 2 -> (IF i = 2 THEN 3 ELSE 0)
                                  [] id = 3 -> ((i * i) % 3) - 1 [] id = 4 -> (i % 4) - 2]
ZPat(id, n) == CASE id = 1 -> {} [] id = 2 -> {2} [] id = 3 -> {1, n}
CoefPool == << <<1, -2, 2, -1>>, <<0, 1, 0, 2>>, <<-2, 0, 1, 1>>, <<3, 1, -1, 0>> >>
Prefix(s, n) == SubSeq(s, 1, n)

(* the fixed-value conventions: "true" prescribed = generating value; "true5" the same with *)
(* 5 in the (meaningless) free slots; "off" generating value + 1; "zero" zeros              *)
Ians(fm, coef, ia) ==
  [j \in 1..Len(coef) |-> IF ia[j] THEN (IF fm = "true5" THEN 5 ELSE 0)
                          ELSE CASE fm \in {"true", "true5"} -> coef[j] [] fm = "off" -> coef[j] + 1 [] fm = "zero" -> 0]

FitCase(fam, b, nc, xid, coef, ia, ians, wts, Z, junk, dy) ==
  LET xs == XSet(xid)
      n == Len(xs)
      v == Ints(coef)
  IN [kind |-> "fit", fam |-> fam, basis |-> b, nc |-> nc, xs |-> xs,
      y |-> [i \in 1..n |-> QAdd(Eval(v, b, xs[i]), I(dy[i] + IF i \in Z THEN junk ELSE 0))],
      w |-> [i \in 1..n |-> IF i \in Z THEN Zero ELSE I(wts[i])],
      ia |-> ia, ians |-> Ints(ians), gen |-> v]

(* the specified outcome: the generating vector when the data are an exact combination of   *)
(* the basis (any number of free coefficients), else the solution of the normal equations   *)
Answer(p) == IF IsExactCombination(p, p.gen) THEN p.gen ELSE Solve(p)
Expected(p) == FitOutcome(p, Answer(p))
NFree(ia) == Cardinality({j \in DOMAIN ia : ia[j]})
AllFree(nc) == [j \in 1..nc |-> TRUE]

FitSeed(fam, b, nc, xid) == [kind |-> "seed", fam |-> fam, basis |-> b, nc |-> nc, xid |-> xid]
Emit(p) == WellPosed(p) /\ c' = p /\ exp' = Expected(p)

SweepStep ==
  /\ c.kind = "seed" /\ c.fam = "sweep"
  /\ \E coef \in [1..c.nc -> CoefDom] :
       Emit(FitCase("sweep", c.basis, c.nc, c.xid, coef, AllFree(c.nc), [j \in 1..c.nc |-> 0],
                    WPat(1, Len(XSet(c.xid))), {}, 0, DyPat(0, Len(XSet(c.xid)))))

MasksStep ==
  /\ c.kind = "seed" /\ c.fam = "masks"
  /\ LET n == Len(XSet(c.xid)) IN
     \E ci \in 1..2 : \E ia \in [1..c.nc -> BOOLEAN] : \E fm \in {"true", "true5", "off", "zero"} :
     \E zi \in 1..3 : \E wp \in 1..2 :
       /\ Keep(7 * ci + 3 * zi + 5 * wp + 11 * NFree(ia) + 13 * (CASE fm = "true" -> 0 [] fm = "true5" -> 1 [] fm = "off" -> 2 [] fm = "zero" -> 3))
       /\ (fm \in {"off", "zero"}) => (NFree(ia) < c.nc /\ (c.xid = 1 \/ c.nc <= 3))   \* inexact: keep the numbers small
       /\ Emit(FitCase("masks", c.basis, c.nc, c.xid, Prefix(CoefPool[ci], c.nc), ia,
                       Ians(fm, Prefix(CoefPool[ci], c.nc), ia), WPat(wp, n), ZPat(zi, n), 7, DyPat(0, n)))

ZeroStep ==
  /\ c.kind = "seed" /\ c.fam = "zerow"
  /\ LET n == Len(XSet(c.xid))  coef == Prefix(CoefPool[1], c.nc) IN
     \E Z \in SUBSET (1..n) : \E junk \in {7, -3} : \E wp \in 1..2 : \E fix1 \in BOOLEAN :
       LET ia == [j \in 1..c.nc |-> ~(fix1 /\ j = 1)] IN
       /\ Z # {}
       /\ Keep(3 * Cardinality(Z) + 5 * wp + (IF fix1 THEN 7 ELSE 0) + (IF junk = 7 THEN 0 ELSE 11))
       /\ Emit(FitCase("zerow", c.basis, c.nc, c.xid, coef, ia, Ians("true", coef, ia), WPat(wp, n), Z, junk, DyPat(0, n)))

GeneralStep ==
  /\ c.kind = "seed" /\ c.fam = "general"
  /\ LET n == Len(XSet(c.xid))  coef == Prefix(CoefPool[3], c.nc) IN
     \E dp \in 1..4 : \E wp \in 1..4 : \E ia \in [1..c.nc -> BOOLEAN] : \E fm \in {"off", "zero"} : \E zi \in 1..2 :
       /\ NFree(ia) >= 1
       /\ Keep(3 * dp + 5 * wp + 7 * zi + 11 * NFree(ia) + (IF fm = "off" THEN 13 ELSE 0))
       /\ (NFree(ia) = c.nc) => fm = "zero"
       /\ Emit(FitCase("general", c.basis, c.nc, c.xid, coef, ia, Ians(fm, coef, ia), WPat(wp, n), ZPat(zi, n), 7, DyPat(dp, n)))

(* ------------------------------ call histories ------------------------- *)
(* Several func_fit calls one after the other on the SAME data and the SAME vector of        *)
(* prescribed values, each with its own free/fixed mask (the harness reuses one array object *)
(* for x, y, invvar, ia and inputans).  A call is a function of its arguments only: the      *)
(* outcome of call k is what the specification demands of that call alone.                   *)
MaskNum(m) == LET RECURSIVE S(_) S(j) == IF j = 0 THEN 0 ELSE (IF m[j] THEN 2 ^ (j - 1) ELSE 0) + S(j - 1) IN S(Len(m))
HistCase(b, nc, xid, fm, masks) ==
  LET coef == Prefix(CoefPool[1], nc)                               \* every entry non-zero
      pres == [j \in 1..nc |-> IF fm = "true" THEN coef[j] ELSE coef[j] + 1]   \* one vector for all calls
      n == Len(XSet(xid))
  IN [kind |-> "hist", basis |-> b, nc |-> nc, fm |-> fm,
      calls |-> [k \in 1..Len(masks) |-> FitCase("history", b, nc, xid, coef, masks[k], pres, WPat(2, n), {}, 0, DyPat(0, n))]]
HistExpected(h) == [k \in 1..Len(h.calls) |-> Expected(h.calls[k])]
HistStep ==
  /\ c.kind = "seed" /\ c.fam = "history"
  /\ LET M == [1..c.nc -> BOOLEAN] IN
     \E fm \in {"true", "off"} : \E m1 \in M : \E m2 \in M : \E m3 \in M \cup {<<>>} :
       LET masks == IF m3 = <<>> THEN <<m1, m2>> ELSE <<m1, m2, m3>>
           h == HistCase(c.basis, c.nc, c.xid, fm, masks) IN
       /\ m1 # m2 /\ NFree(m2) < c.nc
       /\ (m3 # <<>>) => (m3 # m2 /\ NFree(m3) < c.nc /\ fm = "true" /\ Keep(3 * MaskNum(m1) + 5 * MaskNum(m2) + 7 * MaskNum(m3)))
       /\ \A k \in 1..Len(masks) : WellPosed(h.calls[k])
       /\ c' = h
       /\ exp' = HistExpected(h)

(* ------------------------------ trace sets ------------------------------ *)
Range(a, b) == [i \in 1..(b - a + 1) |-> I(a + i - 1)]
Layout(l) ==
  CASE l = 1 -> << Range(0, 8) >>
    [] l = 2 -> << Range(0, 6), Range(0, 6), Range(0, 6) >>
    [] l = 3 -> << Range(0, 8), [i \in 1..9 |-> Q(2 * i - 1, 2)] >>     \* the traces cover different ranges: 0..8, 1/2..17/2
    [] l = 4 -> << Range(2, 12), Range(2, 12) >>                          \* does not start at 0
    [] l = 5 -> << Range(-8, -2), Range(-8, -2) >>                        \* all positions negative
    \* far from 0, rows that are NEARLY equal (1/128 apart at x ~ 1000: 8e-6 relative), exactly equal, clearly different
    [] l = 6 -> << Range(1000, 1008), [i \in 1..9 |-> Q(128 * (999 + i) + 1, 128)], Range(1000, 1008),
                   [i \in 1..9 |-> Q(2 * (999 + i) + 1, 2)] >>
    \* positions whose SUM does not fit the narrow integer type they may be handed over in (uint8: 124 + 132; int16: 2 * 30000)
    [] l = 7 -> << Range(124, 132), Range(124, 132) >>
    [] l = 8 -> << Range(30000, 30008) >>
LayA(l) == CASE l = 4 -> 2 [] l = 5 -> -8 [] l = 6 -> 1000 [] l = 7 -> 124 [] l = 8 -> 30000 [] OTHER -> 0
LayB(l) == CASE l = 1 -> 8 [] l = 2 -> 6 [] l = 3 -> 8 [] l = 4 -> 12 [] l = 5 -> -2 [] l = 6 -> 1008 [] l = 7 -> 132 [] l = 8 -> 30008
(* the limits: 1 neither supplied; 2 both, one beyond the data on each side; 3 both, not integers; and the     *)
(* zero-valued ones, placed so that 0 is NOT what the positions would give: 4 xmin = 0 only (data start above *)
(* 0); 5 xmax = 0 only (data all negative); 6 xmin = 0 and xmax both; 7 xmin and xmax = 0 both                *)
(* (only on layout 4: the ranges 0..1008 with 1/128 steps, 0..133 cubed and 0..30008 do not fit 32 bits) *)
MinMaxOK(mm, l) == CASE mm \in {4, 6} -> (LayA(l) > 0 /\ l \notin {6, 7, 8}) [] mm \in {5, 7} -> LayB(l) < 0 [] OTHER -> TRUE
NMinMax == 7
(* jump kinds: none; narrow inside; wide inside with a negative value; wholly below the     *)
(* data; wholly above; straddling the upper end; 7-11: zero / negative / edge parameters    *)
Jump(jk, l) ==
  LET a == LayA(l)  b == LayB(l)  mid == (a + b) \div 2 IN
  CASE jk = 1 -> NoJump
    [] jk = 2 -> [on |-> TRUE, lo |-> Q(2 * mid - 1, 2), hi |-> Q(2 * mid + 1, 2), val |-> Q(1, 2)]
    [] jk = 3 -> [on |-> TRUE, lo |-> I(mid - 2), hi |-> I(mid + 2), val |-> Q(-1, 4)]
    [] jk = 4 -> [on |-> TRUE, lo |-> I(a - 1), hi |-> I(a), val |-> One]
    [] jk = 5 -> [on |-> TRUE, lo |-> I(b), hi |-> I(b + 1), val |-> Q(1, 2)]
    [] jk = 6 -> [on |-> TRUE, lo |-> I(b - 1), hi |-> I(b + 1), val |-> Q(1, 2)]
    \* parameters that are zero / negative / on the edge of the data:
    [] jk = 7 -> [on |-> TRUE, lo |-> Zero, hi |-> I(2), val |-> Q(1, 2)]             \* the ramp starts exactly at 0
    [] jk = 8 -> [on |-> TRUE, lo |-> I(-2), hi |-> Zero, val |-> Q(1, 2)]            \* ... ends exactly at 0
    [] jk = 9 -> [on |-> TRUE, lo |-> I(mid - 1), hi |-> I(mid + 1), val |-> Zero]    \* a jump of size 0
    [] jk = 10 -> [on |-> TRUE, lo |-> I(-1), hi |-> I(3), val |-> Q(-1, 4)]          \* starts below 0, ends inside
    [] jk = 11 -> [on |-> TRUE, lo |-> I(a), hi |-> I(a + 2), val |-> One]            \* starts at the first position (= default xmin)
NJump == 11
TsCoef(ci, k, nc) == Ints(Prefix(CoefPool[((ci + k - 2) % 4) + 1], nc))
(* weights: all one; one zero-weight point in the first trace; both ends of the last trace;  *)
(* 4: weights 1, 2, 3 cyclically with one zero-weight point in the first trace               *)
TsZero(wv, l) == LET nt == Len(Layout(l))  n == Len(Layout(l)[1]) IN
                 CASE wv = 1 -> {} [] wv = 2 -> {<<1, 3>>} [] wv = 3 -> {<<nt, 1>>, <<nt, n>>} [] wv = 4 -> {<<1, 2>>}
TsWeight(wv, k, i) == IF wv = 4 THEN I(((i + k) % 3) + 1) ELSE One

(* nz = 0: the positions are exact combinations of the basis (any coefficients, jump, limits); *)
(* nz = 1: they are not (a +-1 zigzag is added) - the answer is the solution of the normal     *)
(*         equations; only where the normalised abscissae are quarters or thirds               *)
TsCase(b, nc, l, ci, jk, mm, wv, nz) ==
  LET xpos == Layout(l)
      nt == Len(xpos)
      a == LayA(l)  bb == LayB(l)
      t0 == [kind |-> "tset", basis |-> b, nc |-> nc, xpos |-> xpos, jump |-> Jump(jk, l),
             gmin |-> mm \in {2, 3, 4, 6, 7}, gmax |-> mm \in {2, 3, 5, 6, 7},
             xmin |-> CASE mm = 2 -> I(a - 1) [] mm = 3 -> Q(2 * a - 1, 2) [] mm = 7 -> I(a - 1) [] OTHER -> Zero,
             xmax |-> CASE mm = 2 -> I(bb + 1) [] mm = 3 -> Q(4 * bb + 1, 4) [] mm = 6 -> I(bb + 1) [] OTHER -> Zero]
      co == [k \in 1..nt |-> TsCoef(ci, k, nc)]
      Z == TsZero(wv, l)
      clean == TsEval(t0, co, xpos, t0.jump)
  IN t0 @@
     [ypos |-> [k \in 1..nt |-> [i \in 1..Len(xpos[k]) |->
                  QAdd(clean[k][i], I((IF <<k, i>> \in Z THEN 7 ELSE 0) + (IF nz = 1 THEN Sgn(i + k) ELSE 0)))]],
      w |-> [k \in 1..nt |-> [i \in 1..Len(xpos[k]) |-> IF <<k, i>> \in Z THEN Zero ELSE TsWeight(wv, k, i)]],
      gen |-> co, noisy |-> nz = 1]

TsExpected(t) ==
  LET co == IF t.noisy THEN [k \in 1..Len(t.xpos) |-> Solve(TsProblem(t, k))] ELSE t.gen
      g == TsGrid(t)
  IN [xmin |-> TsXmin(t), xmax |-> TsXmax(t), coeff |-> co,
      yfit |-> [k \in 1..Len(co) |-> FitOutcome(TsProblem(t, k), co[k]).yfit],
      grid |-> g,
      ygrid |-> TsEval(t, co, [k \in 1..Len(co) |-> g], t.jump),
      yign |-> TsEval(t, co, t.xpos, NoJump)]

TsSeed(b, nc, l) == [kind |-> "seed", fam |-> "tset", basis |-> b, nc |-> nc, lay |-> l]
TsMaxNc(l) == IF l = 6 THEN 3 ELSE 4          \* (squares of 1/128 steps at x ~ 1000 are the largest numbers that fit)
TsStep ==
  /\ c.kind = "seed" /\ c.fam = "tset"
  /\ \E ci \in 1..2 : \E jk \in 1..NJump : \E mm \in 1..NMinMax : \E wv \in 1..4 : \E nz \in 0..1 :
       /\ MinMaxOK(mm, c.lay)
       /\ (nz = 1) => (jk = 1 /\ mm = 1 /\ c.lay \in {1, 2} /\ c.nc <= 3)
       \* (the sample always contains each of the jump kinds 7-11 and each of the limit kinds 4-7 per seed: first coefficients, default limits, unit weights)
       /\ ((3 * ci + 5 * jk + 7 * mm + 11 * wv + 13 * c.nc) % TsMod = 0) \/ nz = 1 \/ (jk >= 7 /\ ci = 1 /\ mm = 1 /\ wv = 1)
                                                                            \/ (mm >= 4 /\ ci = 1 /\ jk \in {1, 2} /\ wv = 1)
       /\ LET t == TsCase(c.basis, c.nc, c.lay, ci, jk, mm, wv, nz) IN
          /\ \A k \in 1..Len(t.xpos) : WellPosed(TsProblem(t, k))
          /\ c' = t
          /\ exp' = TsExpected(t)

(* ------------------------------ default grids --------------------------- *)
(* The x-range of a trace set as a dimension of its own.  xmin = s/4 and xmax = xmin + d/4 run over every       *)
(* quarter fraction of both the start and the WIDTH (widths below one pixel, whole numbers of pixels, and every *)
(* fraction above a whole number), for starts below / at / above 0: the limits of a trace set are real numbers, *)
(* they are integers only when the positions it was made from happen to be pixel indices.                       *)
(* One case = a trace set (coefficients, limits, with / without the jump) of which the specification says what  *)
(* the default grid is (nx points per trace: xmin, xmin + 1, ... not beyond xmax) and the values on it; dpos =  *)
(* real-valued positions whose extremes are exactly xmin and xmax (the grid and, where the grid stops short of   *)
(* xmax, xmax itself), dy the values there: a trace set fitted to (dpos, dy) WITHOUT the xmin / xmax keywords    *)
(* has the same limits, coefficients and default grid.                                                          *)
GStarts == {4 * a + f : a \in {-3, 0, 2}, f \in 0..3}
GWidths == {1, 2, 3, 4, 5, 6, 7, 8, 13, 18, 22, 27, 28, 29, 30, 31, 32, 33}
GJump(jk, xmin) == IF jk = 1 THEN NoJump
                   ELSE [on |-> TRUE, lo |-> QAdd(xmin, Half), hi |-> QAdd(xmin, Q(3, 2)), val |-> Half]
GOnes(n) == [i \in 1..n |-> One]
(* the fitting problem of trace k on positions xp / values yp, limits as the case says (supplied or derived) *)
GProblem(t, xp, yp, k, given) ==
  TsProblem([basis |-> t.basis, nc |-> t.nc, xpos |-> xp, ypos |-> yp, w |-> [kk \in 1..Len(xp) |-> GOnes(Len(xp[kk]))],
             gmin |-> given, gmax |-> given, xmin |-> t.xmin, xmax |-> t.xmax, jump |-> t.jump], k)
GridCase(b, nc, ci, nt, s, d, jk) ==
  LET xmin == Q(s, 4)
      xmax == Q(s + d, 4)
      t0 == [kind |-> "tgrid", basis |-> b, nc |-> nc, gmin |-> TRUE, gmax |-> TRUE, xmin |-> xmin, xmax |-> xmax,
             xpos |-> <<>>, jump |-> GJump(jk, xmin), coeff |-> [k \in 1..nt |-> TsCoef(ci, k, nc)]]
      g == DefaultGrid(xmin, xmax)
      ends == IF g[Len(g)] = xmax THEN g ELSE Append(g, xmax)
  IN t0 @@ [dpos |-> [k \in 1..nt |-> ends]]
GridExpected(t) ==
  LET g == DefaultGrid(t.xmin, t.xmax)
      nt == Len(t.coeff)
      gg == [k \in 1..nt |-> g]
      yg == TsEval(t, t.coeff, gg, t.jump)
      dy == TsEval(t, t.coeff, t.dpos, t.jump)
  IN [nx |-> GridLen(t.xmin, t.xmax), grid |-> g, ygrid |-> yg, ygridign |-> TsEval(t, t.coeff, gg, NoJump), dy |-> dy,
      \* may the coefficients be demanded back from a fit to the grid (limits supplied) / to dpos (limits derived)?
      \* (a fit to a single point is outside "enough good points": it is not demanded)
      fitk |-> Len(g) >= 2 /\ \A k \in 1..nt : WellPosed(GProblem(t, gg, yg, k, TRUE)),
      fitd |-> \A k \in 1..nt : (Len(t.dpos[k]) >= 2 /\ WellPosed(GProblem(t, t.dpos, dy, k, FALSE)))]
GBase(b) == CASE b = "legendre" -> 0 [] b = "chebyshev" -> 1 [] b = "poly" -> 2
GridSeed(b, s) == [kind |-> "seed", fam |-> "tgrid", basis |-> b, s |-> s]
GridStep ==
  /\ c.kind = "seed" /\ c.fam = "tgrid"
  /\ \E d \in GWidths : \E nc \in 1..3 : \E jk \in 1..2 :
       /\ (c.s + 3 * d + 5 * nc + 7 * jk + 11 * GBase(c.basis)) % GMod = 0
       /\ LET t == GridCase(c.basis, nc, 1 + (d % 2), 1 + ((c.s + d) % 2), c.s, d, jk) IN
          /\ c' = t
          /\ exp' = GridExpected(t)

(* ------------------------------ the graph ------------------------------- *)
Root == [kind |-> "root"]
None == [none |-> TRUE]
RootStep ==
  /\ c = Root
  /\ exp' = None
  /\ \/ "basis" \in Families /\ \E b \in Bases : c' = BasisSeed(b)
     \/ \E fam \in Families \cap {"sweep", "masks"} : \E b \in Bases : \E nc \in MinM(b)..4 :
          \E xid \in XIds : c' = FitSeed(fam, b, nc, xid)
     \* inexact data: the exact answers have large denominators, 4 coefficients only on the halves
     \/ "general" \in Families /\ \E b \in Bases : \E xid \in XIds : \E nc \in MinM(b)..(IF xid = 1 THEN 4 ELSE 3) :
          c' = FitSeed("general", b, nc, xid)
     \/ "history" \in Families /\ \E b \in Bases : \E nc \in 2..3 : \E xid \in HIds : c' = FitSeed("history", b, nc, xid)
     \/ "zerow" \in Families /\ \E b \in Bases : \E nc \in MinM(b)..4 : \E xid \in ZIds : c' = FitSeed("zerow", b, nc, xid)
     \/ "tset" \in Families /\ \E b \in PolyBases : \E l \in Lays : \E nc \in 1..TsMaxNc(l) : c' = TsSeed(b, nc, l)
     \/ "tgrid" \in Families /\ \E b \in PolyBases : \E s \in GStarts : c' = GridSeed(b, s)

Init == c = Root /\ exp = None
Next == RootStep \/ BasisStep \/ SweepStep \/ MasksStep \/ ZeroStep \/ GeneralStep \/ HistStep \/ TsStep \/ GridStep

IsBasis == c.kind = "basis"
IsPolyBasis == c.kind = "basis" /\ c.basis \in PolyBases
IsFit == c.kind = "fit"
IsTset == c.kind = "tset"
IsHist == c.kind = "hist"
IsGrid == c.kind = "tgrid"

(* ---- every number of every case and outcome fits TLC's integers (no NaR anywhere) ---- *)
ProperAll(ss) == \A k \in 1..Len(ss) : AllProper(ss[k])
C13_Representable ==
  /\ IsBasis => AllProper(exp.vals)
  /\ IsFit => (AllProper(c.y) /\ AllProper(exp.res) /\ AllProper(exp.yfit))
  /\ IsHist => \A k \in 1..Len(c.calls) : (AllProper(exp[k].res) /\ AllProper(exp[k].yfit))
  /\ IsTset => (ProperAll(c.ypos) /\ ProperAll(exp.coeff) /\ ProperAll(exp.yfit) /\ ProperAll(exp.ygrid) /\ ProperAll(exp.yign)
                 /\ AllProper(exp.grid) /\ \A k \in 1..Len(c.xpos) : AllProper(TsXvec(c, k, c.jump)))
  /\ IsGrid => (AllProper(exp.grid) /\ ProperAll(exp.ygrid) /\ ProperAll(exp.ygridign) /\ ProperAll(exp.dy) /\ ProperAll(c.dpos))
(* ---- laws of the bases ---- *)
C13_ThreeDefinitionsAgree == IsPolyBasis => ThreeDefinitionsAgree(c.basis, c.m, c.x)
C13_EndpointOne == IsPolyBasis => EndpointOne(c.basis, c.m)
C13_Parity == IsPolyBasis => Parity(c.basis, c.m, c.x)
C13_BoundedByOne == IsPolyBasis => BoundedByOne(c.basis, c.m, c.x)
C13_PrefixStable == IsBasis => PrefixStable(c.basis, c.m, c.x)
C13_ChebCosine == (IsBasis /\ c.basis = "chebyshev") => ChebCosine(c.m)
C13_LegAtZero == (IsBasis /\ c.basis = "legendre") => LegAtZero(c.m)
C13_SplitLaw == (IsBasis /\ c.basis = "chebyshev_split") => SplitLaw(c.m, c.x)
(* ---- laws of the fit ---- *)
C13_ExpectedIsWLS == IsFit => IsWLS(c, exp.res)
C13_FixedKept == IsFit => \A j \in FixedSet(c) : exp.res[j] = c.ians[j]
C13_ExactRecovered == (IsFit /\ IsExactCombination(c, c.gen)) =>
                         /\ exp.res = c.gen
                         /\ Chi2(c, exp.res) = Zero
                         /\ \A i \in 1..NPts(c) : exp.yfit[i] = Eval(c.gen, c.basis, c.xs[i])
(* (the elimination itself is carried out where its intermediate numbers stay inside 32 bits) *)
Small(p) == p.nc <= 3 \/ p.xs = XSet(1)
C13_SolveAgreesOnExact == (IsFit /\ Small(c) /\ IsExactCombination(c, c.gen)) => Solve(c) = c.gen
C13_WellPosedIsSolvable == (IsFit /\ Small(c)) => PositiveDefinite(NormalMatrix(c))
(* the y value at a zero-weight point is irrelevant *)
C13_ZeroWeightNoInfluence ==
  (IsFit /\ c.fam \in {"zerow", "general"}) =>
     LET other == [c EXCEPT !.y = [i \in 1..NPts(c) |-> IF c.w[i] = Zero THEN QAdd(c.y[i], I(11)) ELSE c.y[i]]]
     IN Answer(other) = exp.res
(* moving one free coefficient by +-1 raises chi^2 (the optimum is unique) *)
C13_NoBetterNeighbour ==
  (IsFit /\ c.fam = "general" /\ c.xs = XSet(1)) =>      \* (on the halves only: the numbers get large)
     \A j \in 1..c.nc : \A d \in {-1, 1} :
        c.ia[j] => QLt(Zero, Chi2Diff(c, exp.res, [exp.res EXCEPT ![j] = QAdd(@, I(d))]))
(* ---- laws of a call history: every call is judged on its own arguments ---- *)
C13_HistoryPerCall == IsHist => \A k \in 1..Len(c.calls) :
                         /\ IsWLS(c.calls[k], exp[k].res)
                         /\ \A j \in FixedSet(c.calls[k]) : exp[k].res[j] = c.calls[k].ians[j]
                         /\ (c.fm = "true") => exp[k].res = c.calls[k].gen
                         /\ \A k2 \in 1..Len(c.calls) : (c.calls[k2].ia = c.calls[k].ia) => exp[k2] = exp[k]
(* ---- laws of the trace set ---- *)
C13_TsetExact == (IsTset /\ ~c.noisy) => \A k \in 1..Len(c.xpos) : IsExactCombination(TsProblem(c, k), exp.coeff[k])
C13_TsetWLS == IsTset => \A k \in 1..Len(c.xpos) : IsWLS(TsProblem(c, k), exp.coeff[k])
C13_FitThenEvaluate == IsTset => TsEval(c, exp.coeff, c.xpos, c.jump) = exp.yfit
C13_XNormLaws == IsTset => \A k \in 1..Len(c.xpos) : \A i \in 1..Len(c.xpos[k]) :
                    XNormLaws(c.xpos[k][i], exp.xmin, exp.xmax, c.jump)
C13_GridLaws == IsTset => (GridLaws(exp.xmin, exp.xmax) /\ exp.grid = DefaultGrid(exp.xmin, exp.xmax))
(* every row of an evaluation depends only on that row's positions and that trace's coefficients: evaluating the *)
(* traces together is evaluating each alone (nearly equal rows are still different rows)                         *)
C13_RowIndependence == IsTset => (RowIndependent(c, exp.coeff, c.xpos, c.jump) /\ exp.yfit = TsEval(c, exp.coeff, c.xpos, c.jump))
C13_IgnoreJump == (IsTset /\ ~c.jump.on) => exp.yign = exp.yfit
(* ---- laws of the default grid, for every real-valued x-range ---- *)
C13_GridLenLaws == IsGrid => /\ GridLenLaws(c.xmin, c.xmax) /\ GridLaws(c.xmin, c.xmax)
                             /\ exp.grid = DefaultGrid(c.xmin, c.xmax) /\ exp.nx = Len(exp.grid)
                             /\ \A k \in 1..Len(c.coeff) : Len(exp.ygrid[k]) = exp.nx
(* the grid does not depend on the jump; without a jump ignoring it changes nothing *)
C13_GridIgnoreJump == (IsGrid /\ ~c.jump.on) => exp.ygridign = exp.ygrid
(* limits derived from real-valued positions: a trace set made from dpos (no xmin / xmax keywords) has the limits *)
(* of the case, hence its default grid and - the values being an exact combination of the basis - its coefficients *)
C13_GridDerived == IsGrid =>
   LET d == [c EXCEPT !.gmin = FALSE, !.gmax = FALSE, !.xpos = c.dpos] IN
   /\ TsXmin(d) = c.xmin /\ TsXmax(d) = c.xmax /\ TsGrid(d) = exp.grid
   /\ \A k \in 1..Len(c.coeff) :
        /\ SubSeq(c.dpos[k], 1, exp.nx) = exp.grid /\ SubSeq(exp.dy[k], 1, exp.nx) = exp.ygrid[k]
        /\ Len(c.dpos[k]) \in {exp.nx, exp.nx + 1}
        /\ (Len(c.dpos[k]) = exp.nx) <=> (QSub(c.xmax, c.xmin)[2] = 1)
        /\ exp.fitd => IsExactCombination(GProblem(c, c.dpos, exp.dy, k, FALSE), c.coeff[k])
        /\ exp.fitk => IsExactCombination(GProblem(c, [kk \in 1..Len(c.coeff) |-> exp.grid], exp.ygrid, k, TRUE), c.coeff[k])
=============================================================================
