CONSTANT Tree <- StdTree4
CONSTANT Families = {"machine", "loc", "allfib", "append", "long", "runs"}
CONSTANT MaxLen = 3
CONSTANT LocLen = 1
CONSTANT Fibs = {1, 2, 3}
CONSTANT AppMax = 3
CONSTANT LongLens = {17, 23, 32, 40}
CONSTANT LongSeeds = {1, 2, 3}
CONSTANT RunLens = {2, 3, 4, 5, 8, 9, 12, 17, 24}
CONSTANT RunSeeds = {1, 2}
INIT Init
NEXT Next
INVARIANT TypeOK
INVARIANT C16_RowIdentity
INVARIANT C16_NoShift
INVARIANT C16_ZeroPadRight
INVARIANT C16_LoglamAffine
INVARIANT C16_TablesFollow
INVARIANT C16_MatchesSpecified
INVARIANT C16_ConvIndependent
INVARIANT C16_MemIndependent
INVARIANT C16_IndexBookkeeping
INVARIANT C16_RunsAreBlocks
INVARIANT C16_AppendShape
INVARIANT C16_AppendNoOverlap
INVARIANT C16_AppendNothingLost
INVARIANT C16_AppendPadsZero
INVARIANT C16_AppendBijective
CHECK_DEADLOCK FALSE
