------------------------- MODULE MC_SphereMatch -------------------------
(* Bounded instances for C04.                                                            *)
(*  Mode "greedy": every problem with n1 \in N1s, n2 \in N2s, k \in Ks, every assignment *)
(*    of a class to each pair - 0 = not close, 1..MaxRank = closer than the match length *)
(*    with that distance rank (equal ranks = ties), MaxRank+1 = guard band - with at     *)
(*    most MaxCand candidate pairs; all behaviours of the machine (every order inside a  *)
(*    tie, every subset of guard-band pairs skipped).  The finished states are dumped   *)
(*    and replayed into the real spherematch (the distance function replaced by the     *)
(*    problem's ranks).                                                                 *)
(*  Mode "hash": the design model of the spatial hash; one state per (geometry, point);  *)
(*    replayed into the real chunks.assign / chunks.get on a flat lattice.               *)
EXTENDS SphereMatch, TLC
CONSTANTS Mode, N1s, N2s, Ks, MaxRank, MaxCand,
          NCs, NBs, Ss, Wrap, Guard, Walk
VARIABLE h            \* hash case [kind, g, p, cells, need, allow] or [kind |-> "none"]

NoHash == [kind |-> "none"]
NoProblem == [n1 |-> 0, n2 |-> 0, near |-> {}, border |-> {}, rank |-> <<>>, k |-> 0]

ProblemOf(n1, n2, cls, k) ==
  LET ps == (1..n1) \X (1..n2) IN
  [n1 |-> n1, n2 |-> n2, k |-> k,
   near |-> {p \in ps : cls[p] \in 1..MaxRank},
   border |-> {p \in ps : cls[p] = MaxRank + 1},
   rank |-> [p \in {q \in ps : cls[q] # 0} |-> cls[p]]]

(* root -> seed (shape, k, candidate set) -> problem (class of every candidate): two     *)
(* steps so that all workers share the enumeration                                       *)
InitGreedy == h = [kind |-> "root"] /\ InitWith(NoProblem)
RootStep ==
  /\ h.kind = "root"
  /\ \E n1 \in N1s : \E n2 \in N2s : \E k \in Ks : \E C \in SUBSET ((1..n1) \X (1..n2)) :
       /\ Cardinality(C) <= MaxCand
       /\ h' = [kind |-> "seed", n1 |-> n1, n2 |-> n2, k |-> k, c |-> C]
  /\ UNCHANGED mvars
SeedStep ==
  /\ h.kind = "seed"
  /\ \E r \in [h.c -> 1..(MaxRank + 1)] :
       Load(ProblemOf(h.n1, h.n2, [p \in (1..h.n1) \X (1..h.n2) |-> IF p \in h.c THEN r[p] ELSE 0], h.k))
  /\ h' = NoHash

HashCase(g, p) == [kind |-> "hash", g |-> g, p |-> p, cells |-> Assign(g, p),
                   need |-> Needed(g, p), allow |-> Allowed(g, p)]
(* root -> geometry -> point, again so that all workers share the enumeration *)
InitHash == h = [kind |-> "hroot"] /\ InitWith(NoProblem)
HashRootStep ==
  /\ h.kind = "hroot"
  /\ \E nc \in NCs : \E nb \in NBs : \E s \in Ss : \E m \in 1..(s - 1) : \E hh \in 1..s :
       h' = [kind |-> "hseed",
             g |-> [nc |-> nc, nb |-> nb, s |-> s, h |-> hh, m |-> m, wrap |-> Wrap, guard |-> Guard, walk |-> Walk]]
  /\ UNCHANGED mvars
HashSeedStep ==
  /\ h.kind = "hseed"
  /\ \E p \in PointsOf(h.g) : h' = HashCase(h.g, p)
  /\ UNCHANGED mvars

Init == IF Mode = "greedy" THEN InitGreedy ELSE InitHash
Step == /\ h = NoHash
        /\ \E p \in Cands(prob) : Consider(p) \/ SkipBorder(p)
        /\ UNCHANGED h
Next == IF Mode = "greedy" THEN RootStep \/ SeedStep \/ Step ELSE HashRootStep \/ HashSeedStep

IsHash == h.kind = "hash"

(* ---- spec-level laws, one INVARIANT each ---- *)
C04_ProblemOK == ProblemOK(prob)
C04_GreedyCharacterisation == GreedyCharacterisation
C04_UnlimitedIsKZero == UnlimitedIsKZero
C04_LargeKIsUnlimited == LargeKIsUnlimited
C04_CountersAreUses == CountersAreUses
C04_OutWithinSeen == OutWithinSeen
C04_GeometryOK == IsHash => GeometryOK(h.g)
C04_HashComplete == IsHash => HashComplete(h.g, h.p)
C04_HashOnce == IsHash => HashOnce(h.g, h.p)
C04_NeededWithinAssign == IsHash => (h.need \subseteq h.cells /\ h.cells \subseteq h.allow)
=============================================================================
