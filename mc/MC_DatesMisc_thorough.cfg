CONSTANT Families = {"jd", "jdsweep", "iaumain", "decode", "exc", "calibv"}
CONSTANT SweepStride = 1
CONSTANT DecodeLen = 3
CONSTANT MainCoords = 10
CONSTANT MainFull = TRUE
INIT Init
NEXT Next
INVARIANT X04_JdLaws
INVARIANT X04_JdAlgebra
INVARIANT X04_MainLaws
INVARIANT X04_DecodeLaws
INVARIANT X04_ExcLaws
INVARIANT X04_CalibLaws
CHECK_DEADLOCK FALSE
