--------------------------- MODULE MC_SdssNames ---------------------------
(* Bounded-exhaustive enumeration of calls for X01 (spec/SdssNames.tla).  Every state is one  *)
(* call c = [fn, a] with the specified outcome exp = Expected(fn, a) and dev = the outcome    *)
(* under a named deviation (when that differs).  The dump is replayed into the real pydl      *)
(* functions by harness/props/x01.py.  Small families are initial states; the big sweeps of   *)
(* the thorough tier go root -> seed -> cases so that all TLC workers share them.             *)
EXTENDS SdssNames, TLC
CONSTANTS Families,      \* subset of {"name", "path", "filter", "misc", "astrombad", "specpath", "latestmjd", "wave"}
          Big            \* BOOLEAN: thorough-tier sizes and sweeps
VARIABLES c, exp, dev

Mk(fn, a) == [fn |-> fn, a |-> a]

(* ---------------- sdss_name / sdss_path ---------------- *)
Env1 == [redux |-> "/PHOTO_REDUX", data |-> "/PHOTO_DATA", calib |-> "/PHOTO_CALIB", resolve |-> "/PHOTO_RESOLVE"]
Env2 == [redux |-> "/sas/dr17/eboss/photo/redux", data |-> "/d", calib |-> "/sas/calib.v2", resolve |-> "/uufs/resolve_2013"]
UnknownTypes == {"fooBar", "fpc", "reobj", "FPC", "fpC ", "", "psfield", "reObjFoo"}
AllTypes == DOMAIN TypeTable \cup {"reObj"} \cup UnknownTypes
RunsQ == IF Big THEN {0, 1, 9, 10, 94, 137, 999, 1000, 9999, 10000, 65535} ELSE {0, 7, 137, 1000, 65535}
FieldsQ == IF Big THEN {0, 1, 9, 10, 42, 99, 100, 999, 1000, 4095} ELSE {0, 42, 4095}
CamcolsQ == IF Big THEN {1, 4, 6} ELSE {1, 6}
Reruns == IF Big THEN {"301", "137", "40", "1"} ELSE {"301", "40"}
HasFilter(ft) == LET r == Resolved(ft, TRUE) IN Known(r) /\ TypeTable[r].filt
FiltersFor(ft) == IF HasFilter(ft) THEN {NumF(0), NumF(2), NumF(4), StrF("r"), StrF("g"), StrF("z")}
                  ELSE {StrF("r"), NumF(3)}
ResolveChoices(ft) == IF ft \in {"reObj", "reObjGlobal", "reObjTmp"} THEN BOOLEAN ELSE {TRUE}

NameCase(ft, run, cc, fld, rr, f, np, e, hr) ==
  Mk("sdss_name", [ftype |-> ft, run |-> run, camcol |-> cc, field |-> fld, rerun |-> rr, filter |-> f,
                   no_path |-> np, env |-> e, hasResolve |-> hr])
PathCase(ft, run, cc, rr, e, hr) ==
  Mk("sdss_path", [ftype |-> ft, run |-> run, camcol |-> cc, rerun |-> rr, env |-> e, hasResolve |-> hr])

InitName ==
  \E ft \in AllTypes : \E run \in RunsQ : \E cc \in CamcolsQ : \E fld \in FieldsQ : \E f \in FiltersFor(ft) :
  \E np \in BOOLEAN : \E hr \in ResolveChoices(ft) :
     \E rr \in (IF ft = "tsField" \/ ~np THEN Reruns ELSE {"301"}) :
     \E e \in (IF np \/ run # 137 THEN {Env1} ELSE {Env1, Env2}) :
        c = NameCase(ft, run, cc, fld, rr, f, np, e, hr)

InitPath ==
  \E ft \in AllTypes : \E run \in RunsQ : \E cc \in CamcolsQ : \E rr \in Reruns : \E e \in {Env1, Env2} :
  \E hr \in ResolveChoices(ft) : c = PathCase(ft, run, cc, rr, e, hr)

(* ---------------- filters, sdss_calib, default_skyversion ---------------- *)
NotFilters == {"foo", "x", "U", "G", "", "ug", "v", "y", "r ", "filter", "0", "2"}
InitFilter ==
  \/ \E k \in 0 .. 4 : c = Mk("filtername", [f |-> NumF(k)])
  \/ \E s \in {"u", "g", "r", "i", "z", "foo", "R", ""} : c = Mk("filtername", [f |-> StrF(s)])
  \/ \E k \in 1 .. 5 : c = Mk("filternum", [given |-> TRUE, s |-> FilterNames[k]])
  \/ \E s \in NotFilters : c = Mk("filternum", [given |-> TRUE, s |-> s])
  \/ c = Mk("filternum", [given |-> FALSE, s |-> ""])

InitMisc ==
  \/ c = Mk("default_skyversion", [none |-> 0])
  \/ \E run \in {0, 94, 65535} : \E cc \in {1, 6} : \E fld \in {0, 101, 4095} : \E rr \in {"", "301"} :
       c = Mk("sdss_calib", [run |-> run, camcol |-> cc, field |-> fld, rerun |-> rr])

(* ---------------- sdss_astrombad ---------------- *)
Row(r, p, f, l) == [run |-> r, problem |-> p, first |-> f, last |-> l]
RowPool == {Row(r, p, fl[1], fl[2]) : r \in {77, 85}, p \in {"astrom", "rotator", "psf"},
                                       fl \in {<<30, 73>>, <<8, 28>>, <<40, 40>>}}
(* the table of pydl's own test, and a table with every kind of problem *)
TestTable == <<Row(77, "astrom", 30, 73), Row(85, "astrom", 8, 28), Row(85, "rotator", 242, 253),
               Row(209, "astrom", 8, 116), Row(209, "astrom", 137, 175), Row(250, "astrom", 456, 468),
               Row(251, "astrom", 147, 159)>>
MixTable == <<Row(77, "psf", 0, 4095), Row(77, "rotator", 8, 28), Row(85, "shutter", 30, 73),
              Row(77, "astrom", 40, 40), Row(85, "astrom", 28, 30)>>
EdgeTable == <<Row(0, "astrom", 0, 0), Row(65535, "astrom", 4095, 4095), Row(65535, "rotator", 0, 1)>>
Tables1 == {<<r>> : r \in RowPool}
Tables2 == {<<r, s>> : r \in RowPool, s \in RowPool}
QuickPairs == {<<Row(77, "astrom", 30, 73), Row(77, "astrom", 8, 28)>>,
               <<Row(77, "psf", 30, 73), Row(85, "astrom", 30, 73)>>,
               <<Row(85, "rotator", 40, 40), Row(85, "astrom", 8, 28)>>,
               <<Row(77, "astrom", 40, 40), Row(77, "rotator", 30, 73)>>}
Bnd == {0, 7, 8, 9, 27, 28, 29, 30, 31, 39, 40, 41, 72, 73, 74, 4095}

Astro(t, run, cc, fld, conv) == Mk("sdss_astrombad", [table |-> t, run |-> run, camcol |-> cc, field |-> fld, conv |-> conv])
ScalarQ(t) == \E run \in {77, 85, 86} : \E cc \in {1, 6} : \E fld \in Bnd : c = Astro(t, <<run>>, <<cc>>, <<fld>>, "scalar")
ArrayQ(t) == \E rv \in {<<77, 85, 77>>, <<85, 85, 86>>} : \E fv \in {<<28, 29, 73>>, <<73, 28, 40>>, <<8, 30, 74>>, <<41, 7, 72>>} :
                c = Astro(t, rv, <<1, 3, 6>>, fv, "array")
RejectQ(t) ==
  \/ \E run \in {-1, -2, 65536, 131072} : c = Astro(t, <<run>>, <<1>>, <<20>>, "scalar")
  \/ \E cc \in {0, 7, 32, -1} : c = Astro(t, <<77>>, <<cc>>, <<20>>, "scalar")
  \/ \E fld \in {-1, 4096, 65536} : c = Astro(t, <<77>>, <<1>>, <<fld>>, "scalar")
  \/ \E pos \in 1 .. 3 : \E which \in {"run", "camcol", "field"} : \E hi \in BOOLEAN :
       LET rv == [<<77, 85, 77>> EXCEPT ![pos] = IF which = "run" THEN (IF hi THEN 65536 ELSE -1) ELSE @]
           cv == [<<1, 3, 6>> EXCEPT ![pos] = IF which = "camcol" THEN (IF hi THEN 7 ELSE 0) ELSE @]
           fv == [<<28, 29, 73>> EXCEPT ![pos] = IF which = "field" THEN (IF hi THEN 4096 ELSE -1) ELSE @]
       IN c = Astro(t, rv, cv, fv, "array")
  \/ \E lens \in {<<3, 1, 3>>, <<3, 3, 1>>, <<3, 2, 3>>, <<3, 3, 4>>, <<1, 3, 3>>, <<2, 2, 3>>} :
       c = Astro(t, SubSeq(<<77, 85, 77, 85>>, 1, lens[1]), SubSeq(<<1, 3, 6, 2>>, 1, lens[2]),
                 SubSeq(<<28, 29, 73, 40>>, 1, lens[3]), "lenmismatch")
EdgeQ ==
  \E q \in {<<0, 1, 0>>, <<0, 6, 1>>, <<65535, 6, 4095>>, <<65535, 1, 4094>>, <<65535, 3, 0>>, <<65535, 3, 1>>, <<65535, 3, 2>>, <<1, 1, 0>>} :
     c = Astro(EdgeTable, <<q[1]>>, <<q[2]>>, <<q[3]>>, "scalar")

InitAstro ==
  \/ \E t \in (Tables1 \cup QuickPairs \cup {TestTable, MixTable}) : ScalarQ(t) \/ ArrayQ(t)
  \/ \E t \in {TestTable, MixTable} : RejectQ(t)
  \/ EdgeQ
  \/ \E q \in {<<77, 1, 20>>, <<77, 3, 35>>, <<77, 6, 77>>, <<85, 1, 15>>, <<85, 2, 252>>, <<85, 2, 253>>, <<209, 4, 116>>, <<209, 4, 136>>,
               <<250, 5, 468>>, <<251, 3, 151>>} : c = Astro(TestTable, <<q[1]>>, <<q[2]>>, <<q[3]>>, "scalar")

(* ---------------- spec_path ---------------- *)
OptSet(S) == {None} \cup {Some(s) : s \in S}
PlateArgs == {<<<<p>>, "scalar">> : p \in {0, 7, 123, 1234, 9999, 10000, 12345}}
             \cup {<<v, "array">> : v \in {<<1234, 5678>>, <<7, 7, 123>>, <<10000>>, <<9999, 0, 12345, 1>>}}
InitSpecPath ==
  \E pa \in PlateArgs : \E path \in OptSet({"/some/where/else"}) : \E topdir \in OptSet({"/top/dir"}) :
  \E run2d \in OptSet({"v5_7_0", "26"}) : \E er \in OptSet({"v5_10_0", "103"}) : \E eb \in OptSet({"/BOSS_SPECTRO_REDUX"}) :
     c = Mk("spec_path", [plates |-> pa[1], conv |-> pa[2], path |-> path, topdir |-> topdir, run2d |-> run2d,
                          env_run2d |-> er, env_boss |-> eb])

(* ---------------- latest_mjd ---------------- *)
FilePool == {<<123, 51000>>, <<123, 55000>>, <<123, 55001>>, <<1234, 55000>>, <<1234, 99999>>, <<7, 10000>>,
             <<10000, 57346>>, <<10000, 58000>>}
InitLatest ==
  \E F \in SUBSET FilePool : \E pa \in ({<<<<p>>, "scalar">> : p \in {123, 1234, 7, 99, 10000}}
                                         \cup {<<v, "array">> : v \in {<<123, 1234, 123>>, <<7, 99, 123>>, <<1234>>, <<10000, 123>>}}) :
  \E layout \in {"tree", "flat"} :
     (IF Big THEN TRUE ELSE Cardinality(F) <= 3) /\
     c = Mk("latest_mjd", [files |-> SetToSortSeq(F, LAMBDA x, y : x[1] < y[1] \/ (x[1] = y[1] /\ x[2] < y[2])),
                           plates |-> pa[1], conv |-> pa[2], layout |-> layout])

(* ---------------- wavevector ---------------- *)
WaveCase(mn, mx, zp, bin, wm) ==
  Mk("wavevector", [min |-> mn, max |-> mx, zp |-> zp, bin |-> bin, wm |-> wm,
                    scale |-> IF (mn + mx) % 2 = 0 THEN 16 ELSE 1024])
IntOpt(v) == [set |-> TRUE, v |-> v]
NoInt == [set |-> FALSE, v |-> 0]
InitWave ==
  \E bin \in (IF Big THEN {1, 2, 3, 5} ELSE {1, 3}) : \E zp \in {0, 8} : \E mn \in (zp - 4) .. (zp + 6) :
  \E mx \in (mn - 2) .. (mn + 10) : \E wm \in {NoInt, IntOpt(mn), IntOpt(mn + 3), IntOpt(mn - 1)} :
     (IF Big THEN TRUE ELSE IF wm.set THEN wm.v # mn - 1 ELSE TRUE) /\ c = WaveCase(mn, mx, zp, bin, wm)

(* ---------------- the big sweeps (thorough tier) ---------------- *)
Root == Mk("root", [none |-> 0])
NoExp == Open
Block == 256
RootStep ==
  /\ c = Root /\ Big
  /\ \/ /\ "name" \in Families
        /\ \/ \E ft \in {"fpC", "reObj"} : \E b \in 0 .. 255 : c' = Mk("seed_run", [ft |-> ft, b |-> b])
           \/ \E ft \in AllTypes \ UnknownTypes : \E b \in 0 .. 15 : c' = Mk("seed_field", [ft |-> ft, b |-> b])
     \/ /\ "astrombad" \in Families
        /\ \E t \in Tables2 : c' = Mk("seed_table", [t |-> t])
  /\ exp' = NoExp /\ dev' = NoDev

RunSweep ==
  /\ c.fn = "seed_run"
  /\ \E run \in (c.a.b * Block) .. (c.a.b * Block + Block - 1) :
       c' = NameCase(c.a.ft, run, 1 + (run % 6), run % 4096, "301", IF run % 2 = 0 THEN NumF(run % 5) ELSE StrF(FilterNames[1 + (run % 5)]),
                     run % 3 = 0, Env1, run % 7 # 0)
  /\ exp' = Expected(c'.fn, c'.a) /\ dev' = Deviation(c'.fn, c'.a)

FieldSweep ==
  /\ c.fn = "seed_field"
  /\ \E fld \in (c.a.b * Block) .. (c.a.b * Block + Block - 1) :
       c' = NameCase(c.a.ft, 65535 - 13 * fld, 1 + (fld % 6), fld, "157", NumF(fld % 5), fld % 2 = 0, Env2, TRUE)
  /\ exp' = Expected(c'.fn, c'.a) /\ dev' = Deviation(c'.fn, c'.a)

TableSweep ==
  /\ c.fn = "seed_table"
  /\ \E run \in {77, 85} : \E fld \in Bnd : c' = Astro(c.a.t, <<run>>, <<1 + (fld % 6)>>, <<fld>>, "scalar")
  /\ exp' = Expected(c'.fn, c'.a) /\ dev' = Deviation(c'.fn, c'.a)

IsCase == c.fn \notin {"root", "seed_run", "seed_field", "seed_table"}

Init == \/ c = Root /\ exp = NoExp /\ dev = NoDev
        \/ /\ \/ "name" \in Families /\ InitName
              \/ "path" \in Families /\ InitPath
              \/ "filter" \in Families /\ InitFilter
              \/ "misc" \in Families /\ InitMisc
              \/ "astrombad" \in Families /\ InitAstro
              \/ "specpath" \in Families /\ InitSpecPath
              \/ "latestmjd" \in Families /\ InitLatest
              \/ "wave" \in Families /\ InitWave
           /\ exp = Expected(c.fn, c.a)
           /\ dev = Deviation(c.fn, c.a)
Next == RootStep \/ RunSweep \/ FieldSweep \/ TableSweep

(* ---------------- spec-level properties ---------------- *)
ASSUME TableWellFormed /\ FilterInverse
ASSUME \A n \in {0, 1, 9, 10, 99, 100, 999, 1000, 9999, 10000, 65535, 99999, 100000, 999999, 1000000} : \A w \in {1, 4, 6} : PadLaw(n, w)
ASSUME Text(Chars("fpC-000137-r4-0042.fit")) = "fpC-000137-r4-0042.fit" /\ Len(Chars("abc")) = 3 /\ Chars("") = <<>>
(* the documented examples of pydl's tests are instances of the specification *)
ExA == [ftype |-> "fpC", run |-> 137, camcol |-> 4, field |-> 42, rerun |-> "301", filter |-> StrF("r"), no_path |-> TRUE,
        env |-> Env1, hasResolve |-> TRUE]
ASSUME ExpName(ExA).val = "fpC-000137-r4-0042.fit"
ASSUME ExpName([ExA EXCEPT !.ftype = "tsField"]).val = "tsField-000137-4-301-0042.fit"
ASSUME ExpName([ExA EXCEPT !.ftype = "fakeIdR", !.no_path = FALSE]).val = "/PHOTO_DATA/137/fake_fields/4/idR-000137-r4-0042.fit"
ASSUME ExpName([ExA EXCEPT !.ftype = "calibPhotomGlobal", !.no_path = FALSE]).val = "/PHOTO_CALIB/301/137/nfcalib/calibPhotomGlobal-000137-4.fits"
ASSUME ExpName([ExA EXCEPT !.ftype = "reObj", !.hasResolve = FALSE]).val = "reObjRun-000137-4-0042.fits"
ASSUME ExpName([ExA EXCEPT !.ftype = "fooBar"]) = KeyErr
ASSUME ExpWave([min |-> 30, max |-> 40, zp |-> 35, bin |-> 1, wm |-> NoInt, scale |-> 10]).val = <<31, 32, 33, 34, 35, 36, 37, 38, 39, 40>>
ASSUME ExpWave([min |-> 30, max |-> 40, zp |-> 35, bin |-> 1, wm |-> IntOpt(30), scale |-> 10]).val = <<30, 31, 32, 33, 34, 35, 36, 37, 38, 39, 40>>

X01_NameLaws == (IsCase /\ c.fn = "sdss_name") => NameLaws(c.a)
X01_AstrombadLaws == (IsCase /\ c.fn = "sdss_astrombad") => AstrombadLaws(c.a)
X01_SpecPathLaws == (IsCase /\ c.fn = "spec_path") => SpecPathLaws(c.a)
X01_LatestLaws == (IsCase /\ c.fn = "latest_mjd") => LatestLaws(c.a)
X01_WaveLaws == (IsCase /\ c.fn = "wavevector") => WaveLaws(c.a)
X01_OutcomeShape == IsCase => (exp.err \in {"", "KeyError", "ValueError", "open"} /\ (dev.id # "" => ~SameOutcome(dev.out, exp)))
=============================================================================
