--------------------------- MODULE MC_IdLayout ---------------------------
(* Bounded-exhaustive enumeration of identifier calls (C06).  Every state is one call   *)
(* together with the outcome the specification demands; the dump is replayed into the   *)
(* real sdss_objid / sdss_specobjid / unwrap_objid / unwrap_specobjid.                  *)
EXTENDS IdLayout, TLC
CONSTANT Families        \* subset of {"boundary", "sweep", "reject", "mismatch", "run2d"}
VARIABLES c, exp

Kinds == {"obj", "spec"}
AllMin(L) == [n \in Names(L) |-> L[FieldOf(L, n)].min]
AllMax(L) == [n \in Names(L) |-> L[FieldOf(L, n)].max]
Ext(L) == {AllMin(L), AllMax(L)}

Pow2(w) == {2^j : j \in 0..w}
Interesting(F) == ({F.min, F.min + 1, F.max - 1, F.max} \cup Pow2(F.w) \cup {p - 1 : p \in Pow2(F.w)}
                   \cup {(2^(F.w) - 1) - p : p \in Pow2(F.w - 1)}) \cap (F.min .. F.max)
Outside(F) == {F.min - 1, F.max + 1, 2^(F.w), 2^(F.w) + F.min, -1, 2^(F.w + 1) - 1, 2^20} \ (F.min .. F.max)

Mk(k, f, conv, which, str) == [kind |-> k, f |-> f, conv |-> conv, which |-> which, str |-> str]

(* Families are written as initial-state predicates so that TLC enumerates them lazily. *)
Convs3 == {"array", "scalar", "array1"}
FieldCase(k, i, v, e, conv) == Mk(k, [e EXCEPT ![LayoutOf(k)[i].name] = v], conv, "", <<>>)

InitBoundary ==
  \/ \E k \in Kinds : \E i \in DOMAIN LayoutOf(k) : \E v \in Interesting(LayoutOf(k)[i]) :
       \E e \in Ext(LayoutOf(k)) : \E conv \in Convs3 : c = FieldCase(k, i, v, e, conv)
  \/ \E k \in Kinds : \E S \in SUBSET Names(LayoutOf(k)) :
       c = Mk(k, [n \in Names(LayoutOf(k)) |-> IF n \in S THEN AllMax(LayoutOf(k))[n] ELSE AllMin(LayoutOf(k))[n]],
              "array", "", <<>>)

(* The two big families are enumerated in two Next steps (root -> seed -> cases) so that *)
(* all TLC workers share the work; root and seed states carry no call.                 *)
Root == [kind |-> "root"]
NoExp == [err |-> FALSE, id |-> {}]
Block == 256
SweepSeed(k, i, e, b) == [kind |-> "seed", k |-> k, i |-> i, e |-> e, b |-> b]
Run2dSeed(N, M) == [kind |-> "seed2", N |-> N, M |-> M]

RootStep ==
  /\ c = Root
  /\ \/ /\ "sweep" \in Families
        /\ \E k \in Kinds : \E i \in DOMAIN LayoutOf(k) : \E e \in Ext(LayoutOf(k)) :
             \E b \in 0 .. (LayoutOf(k)[i].max \div Block) : c' = SweepSeed(k, i, e, b)
     \/ /\ "run2d" \in Families
        /\ \E N \in 5..6 : \E M \in 0..99 : c' = Run2dSeed(N, M)
     \/ /\ "run2dq" \in Families          \* reduced vN_M_P family for the quick tier
        /\ \E N \in 5..6 : \E M \in {0, 1, 7, 10, 63, 99} : c' = Run2dSeed(N, M)
  /\ exp' = NoExp

SweepStep ==
  /\ c.kind = "seed"
  /\ \E v \in (c.b * Block) .. (c.b * Block + Block - 1) :
        /\ v \in LayoutOf(c.k)[c.i].min .. LayoutOf(c.k)[c.i].max
        /\ c' = FieldCase(c.k, c.i, v, c.e, "array")
  /\ exp' = Expected(c')

Run2dStep ==
  /\ c.kind = "seed2"
  /\ \E P \in 0..99 : \E e \in Ext(SpecLayout) :
        /\ Run2dStringOK(c.N, c.M, P)
        /\ c' = Mk("spec", [e EXCEPT !.run2d = Run2dOfString(c.N, c.M, P)], "scalar", "", <<c.N, c.M, P>>)
  /\ exp' = Expected(c')

InitReject ==
  \E k \in Kinds : \E i \in DOMAIN LayoutOf(k) : \E v \in Outside(LayoutOf(k)[i]) :
       \E e \in Ext(LayoutOf(k)) : \E conv \in Convs3 : c = FieldCase(k, i, v, e, conv)

InitMismatch ==
  \/ \E k \in Kinds : \E e \in Ext(LayoutOf(k)) : \E n \in Names(LayoutOf(k)) : c = Mk(k, e, "lenmismatch", n, <<>>)
  \/ \E l \in {1, 5, 1023} : c = Mk("spec", [AllMin(SpecLayout) EXCEPT !.line = l], "lineindex", "", <<>>)

Init == \/ c = Root /\ exp = NoExp
        \/ /\ \/ "boundary" \in Families /\ InitBoundary
              \/ "reject" \in Families /\ InitReject
              \/ "mismatch" \in Families /\ InitMismatch
           /\ exp = Expected(c)
Next == RootStep \/ SweepStep \/ Run2dStep
IsCall == c.kind \in Kinds

(* spec-level properties *)
ASSUME LayoutWellFormed(ObjLayout) /\ LayoutWellFormed(SpecLayout) /\ ObjBit63Empty /\ SpecCoversAll
C06_RoundTrip == IsCall => RoundTrip(c)
C06_NoStrayBits == IsCall => NoStrayBits(c)
C06_RejectedNeverWrapped == IsCall => RejectedNeverWrapped(c)
C06_ConvIndependent == IsCall /\ c.conv \in {"array", "scalar", "array1"} => ConvIndependent(c)
C06_Run2dString == (IsCall /\ c.str # <<>>) => StringOfRun2d(c.f.run2d) = c.str
C06_UnpackOfExpected == (IsCall /\ ~exp.err) =>
     ExpectedUnpack(c.kind, exp.id) = (IF c.kind = "spec" THEN [c.f EXCEPT !.mjd = @ + MJDOffset] ELSE c.f)
=============================================================================
