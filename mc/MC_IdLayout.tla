--------------------------- MODULE MC_IdLayout ---------------------------
(* Bounded-exhaustive enumeration of identifier calls (C06).  Every state is one call   *)
(* together with the outcome the specification demands; the dump is replayed into the   *)
(* real sdss_objid / sdss_specobjid / unwrap_objid / unwrap_specobjid.                  *)
EXTENDS IdLayout, TLC
CONSTANT Families        \* subset of {"boundary", "sweep", "reject", "mismatch", "run2d"}
VARIABLES c, exp

Kinds == {"obj", "spec"}
AllMin(L) == [n \in Names(L) |-> L[FieldOf(L, n)].min]
AllMax(L) == [n \in Names(L) |-> L[FieldOf(L, n)].max]
Ext(L) == {AllMin(L), AllMax(L)}

Pow2(w) == {2^j : j \in 0..w}
Interesting(F) == ({F.min, F.min + 1, F.max - 1, F.max} \cup Pow2(F.w) \cup {p - 1 : p \in Pow2(F.w)}
                   \cup {(2^(F.w) - 1) - p : p \in Pow2(F.w - 1)}) \cap (F.min .. F.max)
Outside(F) == {F.min - 1, F.max + 1, 2^(F.w), 2^(F.w) + F.min, -1, 2^(F.w + 1) - 1, 2^20} \ (F.min .. F.max)
(* what the caller supplies for mjd is the TRUE MJD: small true MJDs (zero, powers of two and   *)
(* their predecessors up to 2^15) are far below the offset and out of range like any other     *)
SmallTrueMjd == {t - MJDOffset : t \in {0} \cup {2^j : j \in 0..15} \cup {2^j - 1 : j \in 1..15}}
OutsideOf(k, F) == Outside(F) \cup (IF k = "spec" /\ F.name = "mjd" THEN SmallTrueMjd ELSE {})

Mk(k, f, conv, which, str) == [kind |-> k, f |-> f, conv |-> conv, which |-> which, str |-> str]

(* the calls of the families enumerated in Init also carry, per argument, the integer types *)
(* admissible for its value (IdLayout!FormsOf): the harness drives the array conventions in  *)
(* those types as well and the specified outcome is the same (IntFormIndependent)            *)
MkT(k, f, conv, which, str) == [kind |-> k, f |-> f, conv |-> conv, which |-> which, str |-> str, forms |-> FormsOf(k, f)]

(* Families are written as initial-state predicates so that TLC enumerates them lazily. *)
Convs3 == {"array", "scalar", "array1"}
FieldCase(k, i, v, e, conv) == Mk(k, [e EXCEPT ![LayoutOf(k)[i].name] = v], conv, "", <<>>)
FieldCaseT(k, i, v, e, conv) == MkT(k, [e EXCEPT ![LayoutOf(k)[i].name] = v], conv, "", <<>>)

InitBoundary ==
  \/ \E k \in Kinds : \E i \in DOMAIN LayoutOf(k) : \E v \in Interesting(LayoutOf(k)[i]) :
       \E e \in Ext(LayoutOf(k)) : \E conv \in Convs3 : c = FieldCaseT(k, i, v, e, conv)
  \/ \E k \in Kinds : \E S \in SUBSET Names(LayoutOf(k)) :
       c = MkT(k, [n \in Names(LayoutOf(k)) |-> IF n \in S THEN AllMax(LayoutOf(k))[n] ELSE AllMin(LayoutOf(k))[n]],
              "array", "", <<>>)

(* The two big families are enumerated in two Next steps (root -> seed -> cases) so that *)
(* all TLC workers share the work; root and seed states carry no call.                 *)
Root == [kind |-> "root"]
NoExp == [err |-> FALSE, id |-> {}]
Block == 256
SweepSeed(k, i, e, b) == [kind |-> "seed", k |-> k, i |-> i, e |-> e, b |-> b]
Run2dSeed(N, M) == [kind |-> "seed2", N |-> N, M |-> M]

(* ---- arrays of arbitrary length (families "longq" / "long") --------------------------------- *)
(* The array of length n is Base(k) repeated cyclically (IdLayout!ElemAt); the period is odd so  *)
(* that no power-of-two block of an implementation lines up with it.  A seed state carries the   *)
(* base tuples, the outcome specified for each of them and the plan of (identifier form, unwrap  *)
(* keywords) combinations; its successors are the probe positions (outcome at position p of the  *)
(* array of length n) and arrays with ONE out-of-range element at a probe position.             *)
Period == 7
BaseVal(F, j) == IF j = 1 THEN F.max ELSE IF j = 2 THEN F.min
                 ELSE F.min + ((j * ((F.max - F.min) \div 5) + 37 * j) % (F.max - F.min + 1))
Base(k) == [j \in 1..Period |-> [n \in Names(LayoutOf(k)) |-> BaseVal(LayoutOf(k)[FieldOf(LayoutOf(k), n)], j)]]
Around(S) == UNION {{x - 1, x, x + 1} : x \in S}
LongOn == "long" \in Families \/ "longq" \in Families
LongLens == IF "long" \in Families
            THEN {1, 2, 3, 7} \cup Around({2^k : k \in 3..21} \cup {100000, 1000000})
            ELSE {1, 2, 3, 7, 8} \cup Around({2^8, 2^16, 2^17}) \cup {100000, 2^20 + 1}
RejLens == LongLens \cap (IF "long" \in Families THEN {2, 257, 2^16 + 1, 2^17 + 1, 2^20 + 1} ELSE {2, 2^16 + 1, 2^17 + 1})
Probes(n) == ({0, n - 1, n \div 2} \cup {2^k - 1 : k \in 0..21} \cup {2^k : k \in 0..21} \cup {10000, 100000, 1000000})
             \cap (0 .. (n - 1))
(* every form with every keyword combination on short arrays; on long ones each form once, the *)
(* keywords along a diagonal (every keyword value occurs, the string form of run2d three times) *)
(* beyond HugeMin (quick tier only) two calls: an integer form with the string run2d, a string *)
(* form with the integer run2d                                                                  *)
FullPlanMax == 257
HugeMin == IF "long" \in Families THEN 2^30 ELSE 2^18
Plan(k, n) == IF n <= FullPlanMax \/ (k = "obj" /\ n < HugeMin) THEN {[form |-> g, opt |-> o] : g \in IdForms, o \in OptsOf(k)}
              ELSE IF n >= HugeMin
              THEN {[form |-> "int", opt |-> IF k = "spec" THEN Opt(FALSE, TRUE) ELSE CHOOSE o \in NoOpts : TRUE],
                    [form |-> "bstr", opt |-> IF k = "spec" THEN Opt(TRUE, FALSE) ELSE CHOOSE o \in NoOpts : TRUE]}
              ELSE {[form |-> "int", opt |-> Opt(FALSE, TRUE)], [form |-> "swapped", opt |-> Opt(TRUE, FALSE)],
                    [form |-> "ustr", opt |-> Opt(TRUE, TRUE)], [form |-> "bstr", opt |-> Opt(FALSE, TRUE)]}
(* the integer types in which a whole column of the periodic array can be supplied *)
BaseForms(k) == [n \in Names(LayoutOf(k)) |-> {g \in IntForms : \A j \in 1..Period : g \in FormsOf(k, Base(k)[j])[n]}]
LongSeed(k, n) == [kind |-> "longseed", k |-> k, len |-> n, base |-> Base(k), plan |-> Plan(k, n), forms |-> BaseForms(k)]
LongSeedExp(k) == [err |-> FALSE, id |-> {}, per |-> [j \in 1..Period |-> ElemOutcome(k, Base(k)[j])]]

LongStep ==
  /\ c.kind = "longseed"
  /\ \/ \E p \in Probes(c.len) :
          /\ c' = [kind |-> "long", k |-> c.k, len |-> c.len, pos |-> p]
          /\ exp' = ElemOutcome(c.k, ElemAt(Base(c.k), p))
     \/ /\ c.len \in RejLens
        /\ \E p \in Probes(c.len) : \E i \in DOMAIN LayoutOf(c.k) :
             \E v \in {LayoutOf(c.k)[i].max + 1, LayoutOf(c.k)[i].min - 1} :
               LET t == [AllMin(LayoutOf(c.k)) EXCEPT ![LayoutOf(c.k)[i].name] = v] IN
               /\ c' = [kind |-> "longrej", k |-> c.k, len |-> c.len, pos |-> p, which |-> LayoutOf(c.k)[i].name, t |-> t]
               /\ exp' = ExpectedArrayWith(c.k, Base(c.k), c.len, p, t)

RootStep ==
  /\ c = Root
  /\ \/ /\ "sweep" \in Families
        /\ \E k \in Kinds : \E i \in DOMAIN LayoutOf(k) : \E e \in Ext(LayoutOf(k)) :
             \E b \in 0 .. (LayoutOf(k)[i].max \div Block) : c' = SweepSeed(k, i, e, b)
     \/ /\ "run2d" \in Families
        /\ \E N \in 5..6 : \E M \in 0..99 : c' = Run2dSeed(N, M)
     \/ /\ "run2dq" \in Families          \* reduced vN_M_P family for the quick tier
        /\ \E N \in 5..6 : \E M \in {0, 1, 7, 10, 63, 99} : c' = Run2dSeed(N, M)
     \/ /\ LongOn
        /\ \E k \in Kinds : \E n \in LongLens : c' = LongSeed(k, n)
  /\ exp' = IF c'.kind = "longseed" THEN LongSeedExp(c'.k) ELSE NoExp

SweepStep ==
  /\ c.kind = "seed"
  /\ \E v \in (c.b * Block) .. (c.b * Block + Block - 1) :
        /\ v \in LayoutOf(c.k)[c.i].min .. LayoutOf(c.k)[c.i].max
        /\ c' = FieldCase(c.k, c.i, v, c.e, "array")
  /\ exp' = Expected(c')

Run2dStep ==
  /\ c.kind = "seed2"
  /\ \E P \in 0..99 : \E e \in Ext(SpecLayout) :
        /\ Run2dStringOK(c.N, c.M, P)
        /\ c' = Mk("spec", [e EXCEPT !.run2d = Run2dOfString(c.N, c.M, P)], "scalar", "", <<c.N, c.M, P>>)
  /\ exp' = Expected(c')

InitReject ==
  \E k \in Kinds : \E i \in DOMAIN LayoutOf(k) : \E v \in OutsideOf(k, LayoutOf(k)[i]) :
       \E e \in Ext(LayoutOf(k)) : \E conv \in Convs3 : c = FieldCaseT(k, i, v, e, conv)

InitMismatch ==
  \/ \E k \in Kinds : \E e \in Ext(LayoutOf(k)) : \E n \in Names(LayoutOf(k)) : c = MkT(k, e, "lenmismatch", n, <<>>)
  \/ \E l \in {1, 5, 1023} : c = MkT("spec", [AllMin(SpecLayout) EXCEPT !.line = l], "lineindex", "", <<>>)

Init == \/ c = Root /\ exp = NoExp
        \/ /\ \/ "boundary" \in Families /\ InitBoundary
              \/ "reject" \in Families /\ InitReject
              \/ "mismatch" \in Families /\ InitMismatch
           /\ exp = Expected(c)
Next == RootStep \/ SweepStep \/ Run2dStep \/ LongStep
IsCall == c.kind \in Kinds

(* spec-level properties *)
ASSUME LayoutWellFormed(ObjLayout) /\ LayoutWellFormed(SpecLayout) /\ ObjBit63Empty /\ SpecCoversAll
C06_RoundTrip == IsCall => RoundTrip(c)
C06_NoStrayBits == IsCall => NoStrayBits(c)
C06_RejectedNeverWrapped == IsCall => RejectedNeverWrapped(c)
C06_ConvIndependent == IsCall /\ c.conv \in {"array", "scalar", "array1"} => ConvIndependent(c)
C06_Run2dString == (IsCall /\ c.str # <<>>) => StringOfRun2d(c.f.run2d) = c.str
C06_UnpackOfExpected == (IsCall /\ ~exp.err) =>
     ExpectedUnpack(c.kind, exp.id) = (IF c.kind = "spec" THEN [c.f EXCEPT !.mjd = @ + MJDOffset] ELSE c.f)
(* arrays of arbitrary length: length and position are irrelevant, the base tuples are in range, *)
(* pairwise distinct and unpack to themselves, one bad element rejects the call, and the form of *)
(* the identifier is irrelevant                                                                  *)
C06_PositionIndependent == (c.kind = "long") =>
     /\ PositionIndependent(c.k, Base(c.k), c.pos)
     /\ exp = ElemOutcome(c.k, Base(c.k)[(c.pos % Period) + 1])
     /\ exp.id = Expected(ElemCall(c.k, ElemAt(Base(c.k), c.pos), "scalar")).id
     /\ ~exp.err /\ IdFormIndependent(c.k, exp.id)
C06_LongSeed == (c.kind = "longseed") =>
     /\ \A j \in 1..Period : /\ InRange(LayoutOf(c.k), c.base[j]) /\ ~exp.per[j].err
                              /\ exp.per[j].u = (IF c.k = "spec" THEN [c.base[j] EXCEPT !.mjd = @ + MJDOffset] ELSE c.base[j])
                              /\ (c.k = "spec") => Run2dOfString(exp.per[j].s[1], exp.per[j].s[2], exp.per[j].s[3]) = c.base[j].run2d
     /\ Cardinality({exp.per[j].id : j \in 1..Period}) = Period
     /\ (c.len < HugeMin) => \A g \in IdForms : \E x \in c.plan : x.form = g
     /\ \A o \in OptsOf(c.k) : \E x \in c.plan : x.opt.lineIndex = o.lineIndex
     /\ \A o \in OptsOf(c.k) : \E x \in c.plan : x.opt.run2dString = o.run2dString
(* the integer type of the array arguments is irrelevant; int64 is always admissible and every *)
(* listed type represents the supplied value                                                   *)
C06_IntFormIndependent == IsCall => IntFormIndependent(c)
C06_FormsFit == (IsCall /\ "forms" \in DOMAIN c) =>
     \A n \in DOMAIN c.f : /\ {"int64"} \subseteq c.forms[n] /\ c.forms[n] \subseteq IntForms
                            /\ (c.f[n] >= 0) => ({"uint64", "uint32"} \subseteq c.forms[n])
                            /\ \A g \in c.forms[n] : TypesAdmissible(c.kind, c.f, [m \in DOMAIN c.f |-> IF m = n THEN g ELSE "int64"])
C06_LongRejected == (c.kind = "longrej") => (exp = ValueError /\ c.pos \in 0 .. (c.len - 1))
=============================================================================
