---------------------------- MODULE MC_Resample ----------------------------
(* Bounded-exhaustive instances for C11.  Every case state is (good pattern(s), output grid)    *)
(* together with what the specification demands of the output inverse variance; the dump is     *)
(* replayed into the real combine1fiber.                                                        *)
(*                                                                                              *)
(* Families                                                                                     *)
(*   "single"  every good-pattern on N pixels x the 16 output grids of Grids(N)                 *)
(*   "infl"    every pattern on NI pixels, each pixel inflated to a block of B real pixels      *)
(*             (realistic spline groups), x the grids InflGrids of Grids(NI*B)                  *)
(*   "pair"    every pair of patterns on NP pixels, second exposure offset by 0, 1/2, 1/3,      *)
(*             x PairGrids (spec-level laws for several exposures)                              *)
(*   "pairinfl" the pairs with code % PairStride = 0 whose exposures both keep >= PairMinGood   *)
(*             good blocks, inflated to blocks of BP real pixels (PairMinGood*BP >= 101 good    *)
(*             pixels per exposure)                                                             *)
(*   "stack"   two exposures of NS >= 105 real pixels whose COVERAGE differs: the second is     *)
(*             displaced by a whole number of pixels (StackOffsets, both signs), either may     *)
(*             come first in the stack; each has isolated zero-weight pixels chosen among its   *)
(*             two first and two last pixels, i.e. in the region only it covers; output grids   *)
(*             span the union of both                                                           *)
(*   "edge"    the lower edge of the stated domain: two exposures of NE real pixels with        *)
(*             EXACTLY 101, 102, 103 (or all NE) good pixels each, in every combination; the    *)
(*             good pixels contiguous at the start, contiguous in the middle, or separated by   *)
(*             isolated zero-weight pixels; second exposure on the same grid or dithered 1/2    *)
(* The pair variants also hold offsets of several pixels and a shorter second exposure that     *)
(* covers only part of the first (spec level; a real 2-D stack has rows of equal length).       *)
EXTENDS Resample, TLC
CONSTANTS N, NI, B, NP, BP, PairStride, PairMinGood, NS, StackOffsets, StackGrids, NE, Families
VARIABLES c, exp

(* values for StackOffsets (a cfg file cannot hold negative numbers) *)
QuickOffsets == {3, -7, 20}
ThoroughOffsets == {3, 7, 20, -3, -7, -20}

(* ---------- patterns ---------- *)
PatOf(n, bits) == [k \in 1 .. n |-> (bits \div (2 ^ (k - 1))) % 2 = 1]
Inflate(good, b) == [r \in 1 .. (Len(good) * b) |-> good[((r - 1) \div b) + 1]]
NGood(good) == Cardinality({k \in DOMAIN good : good[k]})

(* inverse variances used for the interpolation law: a fixed cycle of small rationals *)
(* (integral, so that the same values can also be handed over with an integer dtype) *)
IvCycle == << <<4, 1>>, <<2, 1>>, <<8, 1>>, <<3, 1>>, <<6, 1>> >>
IvOf(good) == [k \in DOMAIN good |-> IF good[k] THEN IvCycle[((k - 1) % 5) + 1] ELSE Zero]

(* ---------- output grids for an input of n pixels ---------- *)
Grid(s, t, cnt) == [start |-> s, step |-> t, count |-> cnt]
Grids(n) == <<
  Grid(Zero, One, n),                                 \*  1 the same grid
  Grid(R(1, 2), One, n),                              \*  2 shifted by 1/2
  Grid(R(1, 3), One, n),                              \*  3 shifted by 1/3
  Grid(R(-3, 1), One, n + 3),                         \*  4 wider on the left
  Grid(Zero, One, n + 3),                             \*  5 wider on the right
  Grid(R(-5, 2), One, n + 6),                         \*  6 wider on both sides, half-pixel shifted
  Grid(R(2, 1), One, n - 4),                          \*  7 narrower
  Grid(Zero, R(2, 1), (n + 1) \div 2),                \*  8 coarser x2
  Grid(R(1, 2), R(3, 1), (n + 2) \div 3),             \*  9 coarser x3
  Grid(Zero, R(1, 2), 2 * n - 1),                     \* 10 finer x2
  Grid(R(n + 2, 1), One, 5),                          \* 11 disjoint
  Grid(R(-2, 3), R(3, 2), n),                         \* 12 coarser x3/2, beyond both ends
  Grid(R(n \div 2, 1), One, 1),                       \* 13 one output pixel on a sample
  Grid(R(2 * (n \div 2) + 1, 2), One, 1),            \* 14 one output pixel half-way
  Grid(R(1, 1000000), One, n),                        \* 15 shifted by 1e-6 pixel: just outside the function's own
  Grid(R(-1, 1000000), One, n) >>                     \* 16   coincidence tolerance (float32 eps = 1.2e-7 pixel)
NGrids == 16
InflGrids == {1, 2, 6, 8, 10, 12}
PairGrids == {1, 2, 6, 8}
(* second exposure of a pair: offset sh, and cut pixels shorter than the first *)
PairVariants == << [sh |-> Zero, cut |-> 0], [sh |-> R(1, 2), cut |-> 0], [sh |-> R(1, 3), cut |-> 0],
                   [sh |-> R(3, 1), cut |-> 0], [sh |-> R(-2, 1), cut |-> 0], [sh |-> One, cut |-> 2] >>
NVariants == 6
NInflVariants == 5            \* a real stack has rows of equal length
(* whole-pixel offsets are applied in blocks: 3 -> 3*(blk \div 4) real pixels *)
VariantShift(s, blk) == IF s <= 3 \/ blk = 1 THEN PairVariants[s].sh
                        ELSE Mul(PairVariants[s].sh, OfInt(blk \div 4))
PairInflGrids == {1, 6}

(* ---------- what the specification demands for a case ---------- *)
(* ps = Positions(g), st = StrictSetP(exps, ps), iv = IvOf(good) or <<>> *)
ExpOf(exps, g, iv, ps, st) ==
     [mz     |-> MZSetP(exps, ps),
      strict |-> st,
      ivx    |-> IF iv = <<>> THEN <<>> ELSE [j \in 1 .. g.count |-> InterpIvar(iv, ps[j - 1])],
      kept   |-> g.count - Cardinality(Grow(st, g.count))]
NoExp == [mz |-> {}, strict |-> {}, ivx |-> <<>>, kept |-> 0]

PairExps(n, a, b, s, blk) == << [good |-> Inflate(PatOf(n, a), blk), sh |-> Zero],
                                [good |-> Inflate(PatOf(n - PairVariants[s].cut, b), blk), sh |-> VariantShift(s, blk)] >>

(* stacks with different coverage: bit s of bits set = slot pixel s has zero weight *)
Slots(n) == << 0, 1, n - 2, n - 1 >>
StackGood(n, bits) == [k \in 1 .. n |-> ~(\E s \in 1 .. 4 : Slots(n)[s] = k - 1 /\ (bits \div (2 ^ (s - 1))) % 2 = 1)]
StackExps(a, b, off) ==
  IF (a + b) % 2 = 0 THEN << [good |-> StackGood(NS, a), sh |-> Zero], [good |-> StackGood(NS, b), sh |-> OfInt(off)] >>
  ELSE << [good |-> StackGood(NS, b), sh |-> OfInt(off)], [good |-> StackGood(NS, a), sh |-> Zero] >>
(* exactly G good pixels out of NE: lay 1 = the first G, lay 2 = G in the middle, lay 3 = isolated holes *)
EdgeCounts == << 101, 102, 103, NE >>
Holes == << 8, 29, 47, 66, 90 >>
EdgeGood(G, lay) ==
  [k \in 1 .. NE |->
     IF lay = 1 THEN k <= G
     ELSE IF lay = 2 THEN k > (NE - G) \div 2 /\ k <= (NE - G) \div 2 + G
     ELSE ~(\E h \in 1 .. (NE - G) : Holes[h] = k - 1)]
EdgeExps(g1, l1, g2, l2, s) == << [good |-> EdgeGood(EdgeCounts[g1], l1), sh |-> Zero],
                                 [good |-> EdgeGood(EdgeCounts[g2], l2), sh |-> IF s = 1 THEN Zero ELSE R(1, 2)] >>
EdgeGrids == {2, 6}
Lo(off) == IF off < 0 THEN off ELSE 0
Span(off) == NS + Abs(off)
StackGridsOf(off) == <<
  Grid(R(2 * Lo(off) - 5, 2), One, Span(off) + 6),              \* half-pixel shifted, wider than the union
  Grid(R(3 * Lo(off) + 1, 3), One, Span(off)),                   \* shifted by 1/3 over the union
  Grid(R(Lo(off), 1), R(3, 4), (4 * (Span(off) - 1)) \div 3 + 1) >>   \* step 3/4: on and between the samples

(* ---------- root -> seeds -> cases, so that all workers share the enumeration ---------- *)
Root == [kind |-> "root"]
Block == 64
Blocks(n) == 0 .. (((2 ^ n) \div Block) - 1)

RootStep ==
  /\ c = Root
  /\ \/ /\ "single" \in Families
        /\ \E g \in 1 .. NGrids : \E blk \in Blocks(N) : c' = [kind |-> "seedS", g |-> g, blk |-> blk]
     \/ /\ "infl" \in Families
        /\ \E g \in InflGrids : \E blk \in Blocks(NI) : c' = [kind |-> "seedI", g |-> g, blk |-> blk]
     \/ /\ "pair" \in Families
        /\ \E a \in 0 .. (2 ^ NP - 1) : \E s \in 1 .. NVariants : c' = [kind |-> "seedP", a |-> a, s |-> s]
     \/ /\ "pairinfl" \in Families
        /\ \E a \in 0 .. (2 ^ NP - 1) : c' = [kind |-> "seedQ", a |-> a]
     \/ /\ "stack" \in Families
        /\ \E a \in 0 .. 15 : \E off \in StackOffsets : c' = [kind |-> "seedT", a |-> a, off |-> off]
     \/ /\ "edge" \in Families
        /\ \E g1 \in 1 .. 4 : \E l1 \in 1 .. 3 : c' = [kind |-> "seedE", g1 |-> g1, l1 |-> l1]
  /\ exp' = NoExp

(* good patterns, grid and expectation are bound by \E over singleton sets so that TLC          *)
(* evaluates each of them exactly once per case                                                 *)
SingleStep ==
  /\ c.kind = "seedS"
  /\ \E pat \in (c.blk * Block) .. (c.blk * Block + Block - 1) :
     \E good \in {PatOf(N, pat)} : \E grid \in {Grids(N)[c.g]} : \E ps \in {Positions(grid)} :
     \E iv \in {IvOf(good)} : \E st \in {StrictSetP(One1(good), ps)} : \E e \in {ExpOf(One1(good), grid, iv, ps, st)} :
        /\ c' = [kind |-> "single", pat |-> pat, g |-> c.g, grid |-> grid, exps |-> One1(good), iv |-> iv]
        /\ exp' = e

InflStep ==
  /\ c.kind = "seedI"
  /\ \E pat \in (c.blk * Block) .. (c.blk * Block + Block - 1) :
     \E good \in {Inflate(PatOf(NI, pat), B)} : \E grid \in {Grids(NI * B)[c.g]} : \E ps \in {Positions(grid)} :
     \E iv \in {IvOf(good)} : \E st \in {StrictSetP(One1(good), ps)} : \E e \in {ExpOf(One1(good), grid, iv, ps, st)} :
        /\ c' = [kind |-> "infl", pat |-> pat, g |-> c.g, grid |-> grid, exps |-> One1(good), iv |-> iv]
        /\ exp' = e

PairStep ==
  /\ c.kind = "seedP"
  /\ \E b \in 0 .. (2 ^ NP - 1) : \E g \in PairGrids :
     \E exps \in {PairExps(NP, c.a, b, c.s, 1)} : \E grid \in {Grids(NP)[g]} : \E ps \in {Positions(grid)} :
     \E st \in {StrictSetP(exps, ps)} : \E e \in {ExpOf(exps, grid, <<>>, ps, st)} :
        /\ c' = [kind |-> "pair", pat |-> c.a, pat2 |-> b, g |-> g, grid |-> grid, exps |-> exps]
        /\ exp' = e

PairInflStep ==
  /\ c.kind = "seedQ"
  /\ NGood(PatOf(NP, c.a)) >= PairMinGood
  /\ \E b \in 0 .. (2 ^ NP - 1) : \E s \in 1 .. NInflVariants : \E g \in PairInflGrids :
        /\ (c.a * (2 ^ NP) + b) % PairStride = 0
        /\ NGood(PatOf(NP, b)) >= PairMinGood
        /\ \E exps \in {PairExps(NP, c.a, b, s, BP)} : \E grid \in {Grids(NP * BP)[g]} : \E ps \in {Positions(grid)} :
           \E st \in {StrictSetP(exps, ps)} : \E e \in {ExpOf(exps, grid, <<>>, ps, st)} :
              /\ c' = [kind |-> "pairinfl", pat |-> c.a, pat2 |-> b, g |-> g, grid |-> grid, exps |-> exps]
              /\ exp' = e

StackStep ==
  /\ c.kind = "seedT"
  /\ \E b \in 0 .. 15 : \E g \in StackGrids :
     \E exps \in {StackExps(c.a, b, c.off)} : \E grid \in {StackGridsOf(c.off)[g]} : \E ps \in {Positions(grid)} :
     \E st \in {StrictSetP(exps, ps)} : \E e \in {ExpOf(exps, grid, <<>>, ps, st)} :
        /\ c' = [kind |-> "stack", pat |-> c.a, pat2 |-> b, g |-> g, off |-> c.off, grid |-> grid, exps |-> exps]
        /\ exp' = e

EdgeStep ==
  /\ c.kind = "seedE"
  /\ \E g2 \in 1 .. 4 : \E l2 \in 1 .. 3 : \E s \in 1 .. 2 : \E g \in EdgeGrids :
     \E exps \in {EdgeExps(c.g1, c.l1, g2, l2, s)} : \E grid \in {Grids(NE)[g]} : \E ps \in {Positions(grid)} :
     \E st \in {StrictSetP(exps, ps)} : \E e \in {ExpOf(exps, grid, <<>>, ps, st)} :
        /\ c' = [kind |-> "edge", pat |-> 10 * EdgeCounts[c.g1] + c.l1, pat2 |-> 10 * EdgeCounts[g2] + l2, g |-> g,
                 ngood |-> << NGood(exps[1].good), NGood(exps[2].good) >>, grid |-> grid, exps |-> exps]
        /\ exp' = e

Init == c = Root /\ exp = NoExp
Next == RootStep \/ SingleStep \/ InflStep \/ PairStep \/ PairInflStep \/ StackStep \/ EdgeStep

(* ---------- views of the current case ---------- *)
IsSingle == c.kind = "single"
IsInfl == c.kind = "infl"
IsPair == c.kind = "pair"
IsPairInfl == c.kind = "pairinfl"
IsStack == c.kind = "stack"
IsEdge == c.kind = "edge"
CGood == c.exps[1].good
CGrid == c.grid
CExps == c.exps

(* ---------- properties of the specification itself ---------- *)
ASSUME PairMinGood * BP >= 101
ASSUME NE >= 104 /\ NE - 5 <= 101 /\ Holes[5] < NE /\ \A g \in EdgeGrids : GridOK(Grids(NE)[g])
ASSUME NS - 4 >= 101 /\ \A off \in StackOffsets : off # 0 /\ \A g \in StackGrids : GridOK(StackGridsOf(off)[g])
ASSUME /\ \A g \in 1 .. NGrids : GridOK(Grids(N)[g])
       /\ \A g \in InflGrids : GridOK(Grids(NI * B)[g])
       /\ \A g \in PairGrids : GridOK(Grids(NP)[g])
       /\ \A g \in PairInflGrids : GridOK(Grids(NP * BP)[g])
ASSUME \A k0 \in 0 .. 6 : \A o1 \in -2 .. 2 : \A o2 \in -2 .. 2 : \A m1 \in -3 .. 3 : \A m2 \in -3 .. 3 :
          /\ ShiftedIndex(k0, o1, 0, o1) = k0
          /\ ShiftedIndex(ShiftedIndex(k0, o1, m1, o2), o2, m2, o1) = ShiftedIndex(k0, o1, m1 + m2, o1)
          /\ ShiftedIndex(k0, o1, m1, o2) + o2 = k0 + o1 - m1

C11_FastEqDef == IsSingle => Law_FastEqDef(CGood, CGrid)
C11_OutsideRange == (IsSingle \/ IsInfl) => Law_OutsideRange(CGood, CGrid, exp.mz)
C11_AllBad == (IsSingle \/ IsInfl) => Law_AllBad(CGood, CGrid, exp.mz)
C11_LenientStrict == IsSingle => Law_LenientStrict(CGood, CGrid, exp.mz, exp.strict)
C11_ModelContains == (IsSingle \/ IsPair) => Law_ModelContains(CGrid, exp.mz, exp.strict)
C11_InteriorKept == (IsSingle \/ IsPair) => Law_InteriorKept(CGrid, exp.strict)
C11_Monotone == IsSingle => Law_Monotone(CGood, CGrid, exp.mz)
C11_InterpBound == IsSingle => (c.iv = IvOf(CGood) /\ Law_InterpBound(c.iv, CGrid, exp.mz))
C11_MultiIntersection == IsPair => Law_MultiIntersection(CExps, CGrid, exp.mz)
C11_MultiShrinks == (IsPair \/ IsStack \/ IsEdge) => Law_MultiShrinks(CExps, CGrid, exp.mz)
(* the dumped expectation is the specification's (guards against an inconsistent MC module) *)
C11_ExpIsSpec == /\ IsSingle => (exp.mz = MZSet(One1(CGood), CGrid) /\ exp.strict = StrictSet(One1(CGood), CGrid))
                 /\ IsPair => exp.mz = MZSet(CExps, CGrid)
                 /\ (IsSingle \/ IsInfl \/ IsPair \/ IsPairInfl \/ IsStack \/ IsEdge) => exp.mz \subseteq exp.strict
(* in an inflated pattern no good pixel is isolated, so both readings coincide *)
(* different coverage: an output pixel in the part only one exposure covers is judged by that   *)
(* exposure alone, and every output pixel beyond the union must be zero                          *)
C11_StackCoverage ==
  IsStack => \A j \in Outs(CGrid) : LET p == Pos(CGrid, j) IN
     /\ (\A e \in DOMAIN CExps : ~InRange(NS, Rel(p, CExps[e].sh))) => j \in exp.mz
     /\ \A e \in DOMAIN CExps :
          (\A f \in DOMAIN CExps \ {e} : ~InRange(NS, Rel(p, CExps[f].sh)))
             => ((j \in exp.mz) = MustBeZero(CExps[e].good, Rel(p, CExps[e].sh)))
(* the edge family sits exactly on the boundary of the stated domain *)
C11_EdgeCounts == IsEdge => /\ c.ngood[1] = c.pat \div 10 /\ c.ngood[2] = c.pat2 \div 10
                            /\ c.ngood[1] >= 101 /\ c.ngood[2] >= 101
C11_InflNoIsolated == (IsInfl \/ IsPairInfl) => exp.mz = exp.strict
=============================================================================
