CONSTANTS
  Families = {"strings", "curated", "elements", "types", "tables", "headers", "witness", "kinds"}
  MaxStr = 4
  MaxCols = 3
INIT Init
NEXT Next
INVARIANT C01_RoundTrip
INVARIANT C01_DomainSharp
CHECK_DEADLOCK FALSE
