-------------------------- MODULE MC_MangleGeom --------------------------
(* Bounded-exhaustive instance of MangleGeom.tla (X06).  Every non-root / non-seed state is  *)
(* one call (or one object with its methods) of the real code, c, together with what the     *)
(* specification demands, exp:                                                                *)
(*   fam "pool"    the point pool (taken from MC_Mangle, not repeated here)                  *)
(*   fam "obj"     one polygon built by a route (keywords | FITS row | copy() | copy          *)
(*                 constructor | no arguments) -> attributes, cmminf, gzeroar, garea, str    *)
(*   fam "alg"     add_caps / polyn -> caps of the result, membership of every pool point    *)
(*   fam "circle"  circle_cap(radius, one pool point) -> x, cm, membership of the pool       *)
(*   fam "used"    is_cap_used(mask, i)                                                      *)
(*   fam "alias"   FITS_polygon item / attribute access                                      *)
(*   fam "single"  _single_polygon(kind of object)                                           *)
(*   fam "plist"   PolygonList(n polygons [, header])                                        *)
(*   fam "circleargs" circle_cap with ill-shaped arguments; "ctorargs" ManglePolygon(x= / cm=) *)
(* Root -> seed -> cases, so that all TLC workers share the work.                            *)
EXTENDS MangleGeom, TLC
CONSTANTS Families, MaxObjCaps, MaxAlgCaps, MaxNew, PoolSize, LawStride
VARIABLES c, exp

M == INSTANCE MC_Mangle WITH Families <- {}, MaxPolyCaps <- 0, MaxWindow <- 0, MaxUseCaps <- 0,
                             WindowNs <- {}, LawStride <- 1
Pts == M!Pts
NP == Len(Pts)
Q(n, d) == IF n = 0 THEN <<0, 1>> ELSE <<n, d>>
V(a, b, cc, d) == << Q(a, d), Q(b, d), Q(cc, d) >>

Xa == V(1, 0, 0, 1)
Ya == V(0, 1, 0, 1)
Za == V(0, 0, 1, 1)
A345 == V(3, 4, 0, 5)
(* caps of the object family: hemispheres on the coordinate axes, a coaxial family on z      *)
(* (nested, complementary, zero-area, full-sphere caps), a coaxial family on a general       *)
(* direction, one unrelated cap                                                               *)
GeomCaps == << MkCap(Za, Q(1, 1)),        MkCap(Za, Q(-1, 1)),       MkCap(Xa, Q(1, 1)),
               MkCap(NegV(Xa), Q(1, 1)),  MkCap(Ya, Q(1, 1)),        MkCap(Ya, Q(-1, 1)),
               MkCap(Za, Q(1, 2)),        MkCap(Za, Q(-1, 2)),       MkCap(Za, Q(3, 2)),
               MkCap(NegV(Za), Q(1, 2)),  MkCap(Za, Q(0, 1)),        MkCap(Za, Q(-2, 1)),
               MkCap(Za, Q(2, 1)),        MkCap(Za, Q(1, 100)),      MkCap(A345, Q(1, 2)),
               MkCap(A345, Q(-1, 2)),     MkCap(NegV(A345), Q(3, 2)), MkCap(V(2, 2, 1, 3), Q(1, 2)),
               MkCap(NegV(Za), Q(-3, 2)) >>
ASSUME \A i \in DOMAIN GeomCaps : M!IsRatVec(GeomCaps[i].x) /\ IsUnit(GeomCaps[i].x) /\ IsRat(GeomCaps[i].cm)
AlgCaps == M!CapPool \o << MkCap(Za, Q(1, 1)), MkCap(Xa, Q(-1, 1)) >>
ASSUME \A i \in DOMAIN AlgCaps : M!IsRatVec(AlgCaps[i].x) /\ IsUnit(AlgCaps[i].x) /\ IsRat(AlgCaps[i].cm)

PolyOf(pool, ix, use) == [caps |-> [j \in DOMAIN ix |-> pool[ix[j]]], use |-> use]
SeqsUpTo(S, n) == UNION {[1..m -> S] : m \in 0..n}
SeqsFrom(S, lo, n) == UNION {[1..m -> S] : m \in lo..n}
Masks(m) == SUBSET (0..(m - 1)) \cup {{m}, 0..m}
Full(m) == 0..(m - 1)

(* ---- keyword sets of the object family: <<>> = keyword absent ---- *)
None == <<>>
KwSets == << [weight |-> None, pixel |-> None, id |-> None, str |-> None],
             [weight |-> << Q(0, 1) >>, pixel |-> <<0>>, id |-> <<0>>, str |-> << Q(0, 1) >>],
             [weight |-> << Q(1, 2) >>, pixel |-> <<20>>, id |-> <<7>>, str |-> << Q(3, 2) >>],
             [weight |-> << Q(2, 1) >>, pixel |-> None, id |-> <<123456>>, str |-> None] >>
FitsKw == {2, 3}                     \* a FITS row has every column
Routes == {"kw", "fits", "copy", "ctor"}

(* ---- outcomes ---- *)
NoExp == [none |-> TRUE]
Attrs(poly, kw, usegiven, route, noid) ==
  [ncaps |-> NCaps(poly), caps |-> poly.caps, use |-> poly.use,
   weight |-> IF kw.weight = None THEN One ELSE kw.weight[1],
   pixel |-> kw.pixel,                                     \* <<>> = default not documented: open
   id |-> IF route = "fits" /\ noid THEN <<-1>> ELSE kw.id,
   str |-> kw.str]                                         \* <<>> = the value of garea()
ObjExp(cc) ==
  [attrs |-> Attrs(cc.poly, cc.kw, cc.usegiven, cc.route, cc.noid),
   cmminf |-> CmMinf(cc.poly), gzeroar |-> ZeroAr(cc.poly), garea |-> Garea(cc.poly),
   dev2zero |-> Dev_ZeroArAnyCap(cc.poly), dev2garea |-> Dev_GareaZeroFromUnusedCap(cc.poly),
   dev6 |-> Dev_CmMinfMissesFullCaps(cc.poly), dev6garea |-> Dev_GareaFromLastCap(cc.poly),
   dev3 |-> Dev_WholeSkyHasNoArrays(cc.poly, cc.base = "noargs" /\ cc.route \in {"copy", "ctor"})]
Member(poly) == LET al == [i \in 1..NP |-> PolyAllowed(poly, Pts[i], 0)] IN
                [in |-> {i \in 1..NP : al[i] = {TRUE}}, out |-> {i \in 1..NP : al[i] = {FALSE}}]
AlgExp(cc) ==
  LET new == IF cc.op = "polyn" THEN << CapN(cc.p2, cc.n, cc.complement) >> ELSE cc.new
      al == [i \in 1..NP |-> IntersectionAllowed(cc.p1, new, Pts[i])]
  IN [caps |-> cc.p1.caps \o new, ncaps |-> NCaps(cc.p1) + Len(new),
      in |-> {i \in 1..NP : al[i] = {TRUE}}, out |-> {i \in 1..NP : al[i] = {FALSE}},
      dev1 |-> Member(Dev_AppendedCapsUnused(cc.p1, new)),
      dev3 |-> Dev_WholeSkyHasNoArrays(cc.p1, cc.p1noargs),
      dev4caps |-> Dev_AppendedTruncated(cc.p1, new)]
CircleExp(cc) ==
  LET al == [i \in 1..NP |-> CircleAllowed(Pts[cc.i], cc.r, Pts[i])] IN
  [x |-> Pts[cc.i], cm |-> CircleCm(cc.r),
   in |-> {i \in 1..NP : al[i] = {TRUE}}, out |-> {i \in 1..NP : al[i] = {FALSE}}]

(* ---- enumeration ---- *)
Root == [fam |-> "root"]
UsedBits == {0, 1, 31, 32, 63, 64}
UsedIs == {0, 1, 2, 30, 31, 32, 33, 62, 63, 64, 65}
AliasKeys == AliasNames \cup Columns \cup {"nosuch", "caps", "area"}
Headers == << <<>>, << <<>> >>, << <<"a">> >>, << <<"snapped", "balkanized">> >> >>   \* option of a sequence of strings

RootStep ==
  /\ c = Root
  /\ \/ "obj" \in Families /\ \E ix \in SeqsUpTo(DOMAIN GeomCaps, MaxObjCaps - 1) : c' = [fam |-> "seedobj", ix |-> ix]
     \/ "alg" \in Families /\ \E ix \in SeqsUpTo(DOMAIN AlgCaps, MaxAlgCaps) : c' = [fam |-> "seedalg", ix |-> ix]
     \/ "circle" \in Families /\ \E r \in ExactRadii : c' = [fam |-> "seedcircle", r |-> r]
     \/ "used" \in Families /\ \E mask \in SUBSET UsedBits : c' = [fam |-> "seedused", mask |-> mask]
     \/ "misc" \in Families /\ c' = [fam |-> "seedmisc"]
     \/ c' = [fam |-> "pool", pts |-> Pts]
  /\ exp' = NoExp

(* all polygons of 0..MaxObjCaps caps, every mask; short polygons in every route and keyword  *)
(* set, the longest ones with route and keyword set rotated over the cases                     *)
ObjCase(ix, use, route, ks, usegiven, noid, base) ==
  [fam |-> "obj", poly |-> PolyOf(GeomCaps, ix, use), route |-> route, kw |-> KwSets[ks], usegiven |-> usegiven,
   noid |-> noid, base |-> base]
Hash(ix, use) == (IF Len(ix) > 0 THEN ix[1] ELSE 0) + 3 * Len(ix) + (IF Len(ix) > 1 THEN 7 * ix[Len(ix)] ELSE 0)
          + (IF Len(ix) > 2 THEN 2 * ix[2] ELSE 0)
ThirdCaps == {1, 3, 6, 7, 8, 10, 11, 13, 16, 18}      \* the third cap of a three-cap polygon: one of each kind
ObjStep ==
  /\ c.fam = "seedobj"
  /\ \E last \in (IF Len(c.ix) >= 2 THEN ThirdCaps ELSE DOMAIN GeomCaps) \cup {0} :
       LET ix == IF last = 0 THEN c.ix ELSE Append(c.ix, last)
           m == Len(ix)
           h == Hash(ix, {})
           rot == m >= 2
       IN \E use \in Masks(m) :
          \E route \in (IF rot THEN {<<"kw", "fits", "copy", "ctor">>[((h + Cardinality(use)) % 4) + 1]} ELSE Routes) :
          \E ks \in (IF rot THEN {IF route = "fits" THEN 2 + (h % 2) ELSE (h % 4) + 1}
                     ELSE IF route = "fits" THEN FitsKw ELSE 1..4) :
          \E usegiven \in (IF use = Full(m) /\ route # "fits" THEN BOOLEAN ELSE {TRUE}) :
          \E noid \in (IF route = "fits" /\ ks = 3 THEN BOOLEAN ELSE {FALSE}) :
            /\ (route = "fits" => m >= 1)
            /\ c' = ObjCase(ix, use, route, ks, usegiven, noid, "kw")
  /\ exp' = ObjExp(c')
(* the whole-sky polygon made without arguments, and its copies *)
SkyStep ==
  /\ c.fam = "seedobj" /\ c.ix = <<>>
  /\ \E route \in {"noargs", "copy", "ctor"} :
       c' = [fam |-> "obj", poly |-> [caps |-> <<>>, use |-> {}], route |-> route,
             kw |-> [weight |-> None, pixel |-> None, id |-> None, str |-> None], usegiven |-> TRUE,
             noid |-> FALSE, base |-> "noargs"]
  /\ exp' = ObjExp(c')

AlgStep ==
  /\ c.fam = "seedalg"
  /\ \E use \in SUBSET Full(Len(c.ix)) : \E noargs \in (IF c.ix = <<>> THEN BOOLEAN ELSE {FALSE}) :
       LET p1 == PolyOf(AlgCaps, c.ix, use) IN
       \/ \E k \in DOMAIN AlgCaps : \E complement \in BOOLEAN : \E two \in (IF Len(c.ix) >= 2 THEN {k % 2 = 0} ELSE BOOLEAN) :
             c' = [fam |-> "alg", op |-> "polyn", p1 |-> p1, p1noargs |-> noargs,
                   p2 |-> IF two THEN PolyOf(AlgCaps, << ((k + 2) % Len(AlgCaps)) + 1, k >>, {0})
                          ELSE PolyOf(AlgCaps, <<k>>, IF complement THEN {} ELSE {0}),
                   n |-> IF two THEN 1 ELSE 0, complement |-> complement, new |-> <<>>]
       \/ \E nx \in SeqsUpTo(DOMAIN AlgCaps, IF Len(c.ix) <= 1 THEN MaxNew ELSE 1) :
             c' = [fam |-> "alg", op |-> "add_caps", p1 |-> p1, p1noargs |-> noargs,
                   p2 |-> [caps |-> <<>>, use |-> {}], n |-> 0, complement |-> FALSE,
                   new |-> [j \in DOMAIN nx |-> AlgCaps[nx[j]]]]
  /\ exp' = AlgExp(c')

CircleStep ==
  /\ c.fam = "seedcircle"
  /\ \E i \in 1..NP : c' = [fam |-> "circle", r |-> c.r, i |-> i]
  /\ exp' = CircleExp(c')

UsedStep ==
  /\ c.fam = "seedused"
  /\ \E i \in UsedIs : c' = [fam |-> "used", mask |-> c.mask, i |-> i]
  /\ exp' = [val |-> CapUsed(c'.mask, c'.i)]

MiscStep ==
  /\ c.fam = "seedmisc"
  /\ \/ \E key \in AliasKeys : \E how \in {"item", "attr"} :
          c' = [fam |-> "alias", key |-> key, how |-> how] /\ exp' = Lookup(key, how)
     \/ \E kind \in SingleKinds : c' = [fam |-> "single", kind |-> kind] /\ exp' = [out |-> Single(kind)]
     \/ \E kind \in CtorArgKinds : c' = [fam |-> "ctorargs", kind |-> kind] /\ exp' = [out |-> CtorArgs(kind)]
     \/ \E kind \in CircleArgKinds : c' = [fam |-> "circleargs", kind |-> kind] /\ exp' = [out |-> CircleArgs(kind)]
     \/ \E n \in 0..2 : \E h \in DOMAIN Headers :
          /\ c' = [fam |-> "plist", n |-> n, header |-> Headers[h]]
          /\ exp' = [len |-> n, header |-> IF Headers[h] = <<>> THEN <<>> ELSE Headers[h][1]]

Init == c = Root /\ exp = NoExp
Next == RootStep \/ ObjStep \/ SkyStep \/ AlgStep \/ CircleStep \/ UsedStep \/ MiscStep

(* ---- spec-level laws, one invariant each ---- *)
LawPts == {i \in 1..NP : i % LawStride = 1 % LawStride}
IsObj == c.fam = "obj"
IsAlg == c.fam = "alg"
IsCircle == c.fam = "circle"
AlgNew == IF c.op = "polyn" THEN << CapN(c.p2, c.n, c.complement) >> ELSE c.new
LawCaps == {GeomCaps[1], GeomCaps[3], GeomCaps[6], GeomCaps[7], GeomCaps[8], GeomCaps[10], GeomCaps[14], GeomCaps[15]}
X06_SingleCapArea == IsObj => SingleCapArea(c.poly)
X06_DirectionIrrelevant == IsObj => DirectionIrrelevant(c.poly)
X06_AreaBounds == IsObj => AreaBounds(c.poly)
X06_ZeroArIsZero == IsObj => ZeroArIsZero(c.poly)
X06_UnusedCapsIrrelevant == IsObj => UnusedCapsIrrelevant(c.poly)
X06_SplitAdditive == IsObj => \A cap \in LawCaps : SplitAdditive(c.poly, cap)
X06_Monotone == IsObj => \A cap \in LawCaps : Monotone(c.poly, cap)
X06_InteriorPoint == IsObj => \A i \in LawPts : InteriorPointPositiveArea(c.poly, Pts[i])
X06_CmMinfLaws == IsObj => CmMinfLaws(c.poly)
X06_GareaShape == IsObj => /\ exp.garea.kind \in {"exact", "incomplete", "open"}
                           /\ exp.garea.kind = "exact" => exp.garea.known
                           /\ (exp.gzeroar /\ exp.garea.kind # "open") => (exp.garea.kind = "exact" /\ exp.garea.area = Zero)
                           /\ exp.gzeroar => exp.dev2zero
ASSUME X06_KnownAreas ==    \* the text-book values: sphere, hemisphere, lune of two orthogonal planes, octant, band
  /\ ExactArea(PolyOf(GeomCaps, <<1>>, {0})).area = Q(2, 1)
  /\ ExactArea(PolyOf(GeomCaps, <<1, 3>>, {0, 1})).area = Q(1, 1)
  /\ ExactArea(PolyOf(GeomCaps, <<1, 3, 5>>, {0, 1, 2})).area = Q(1, 2)
  /\ ExactArea(PolyOf(GeomCaps, <<3, 4>>, {0, 1})).area = Q(0, 1)
  /\ ExactArea(PolyOf(GeomCaps, <<7, 9>>, {0, 1})).area = Q(1, 1)
  /\ ExactArea(PolyOf(GeomCaps, <<8, 9>>, {0, 1})).area = Q(2, 1)
  /\ ExactArea(PolyOf(GeomCaps, <<7, 10>>, {0, 1})).area = Q(0, 1)
  /\ ExactArea(PolyOf(GeomCaps, <<15, 17>>, {0, 1})).area = Q(0, 1)
  /\ ExactArea(PolyOf(GeomCaps, <<16, 17>>, {0, 1})).area = Q(3, 1)
  /\ ExactArea(PolyOf(GeomCaps, <<9, 3, 6>>, {0, 1, 2})).area = Q(3, 4)
  /\ ~ExactArea(PolyOf(GeomCaps, <<7, 15>>, {0, 1})).known
  /\ Garea([caps |-> <<>>, use |-> {}]).area = Q(4, 1)
X06_AddCapsIsIntersection == IsAlg => \A i \in LawPts : AddCapsIsIntersection(c.p1, AlgNew, Pts[i])
X06_PolyNComplement == (IsAlg /\ c.op = "polyn") => \A i \in LawPts : PolyNComplementPartitions(c.p1, c.p2, c.n, Pts[i])
X06_AlgExpConsistent == IsAlg => /\ exp.in \cap exp.out = {}
                                 /\ exp.in \subseteq Member(c.p1).in
                                 /\ Member(c.p1).out \subseteq exp.out
                                 /\ Len(exp.caps) = exp.ncaps
X06_CircleIsCap == IsCircle => \A i \in 1..NP : CircleIsCap(Pts[c.i], c.r, Pts[i])
X06_CircleCentre == IsCircle => /\ (c.r > 0 => c.i \in exp.in)
                                /\ (c.r = 180 => exp.out = {})
                                /\ (c.r = 0 => exp.in = {})
=============================================================================
