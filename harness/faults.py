"""Fault injection and event recording for entry points that touch process-wide state (C20).

The entry point under test runs in this process with every collaborator it reaches through its
module namespace replaced by a *counting proxy* (`Recorder.call`).  The k-th collaborator call can
be made to raise; every call is recorded together with a snapshot of the observed environment
variables, so that one run yields (a) the final environment to compare with the specification's
state and (b) an event list for Trace_EnvProtocol.

Nothing here knows what the right outcome is; it only drives and observes.
"""
import builtins
import contextlib
import os

import numpy as np

ABSENT = '<absent>'            # spec/EnvProtocol.tla: Absent
_MISSING = object()
_REAL_ENVIRON = os.environ
_REAL_OS = os

EXC = {'OSError': OSError, 'KeyError': KeyError, 'ValueError': ValueError, 'RuntimeError': RuntimeError}


class Recorder:
    """Counts collaborator calls, injects one fault, records events."""

    def __init__(self, variables, fault_at=0, fault_kind=None, fault_at2=0):
        self.vars = tuple(variables)
        self.fault_at = fault_at
        self.fault_kind = fault_kind
        self.fault_at2 = fault_at2          # optional second fault (hits clean-up code of a handler)
        self.count = 0
        self.events = []
        self.injected_at = 0

    def snap(self):
        return {v: _REAL_ENVIRON.get(v, ABSENT) for v in self.vars}

    def call(self, name, var, real, *a, **kw):
        """One collaborator call.  `var` is the variable name for environment lookups, '' otherwise."""
        self.count += 1
        ev = {'ev': 'call', 'name': name, 'var': var, 'fails': False, 'env': self.snap()}
        self.events.append(ev)
        if self.count == self.fault_at or self.count == self.fault_at2:
            ev['fails'] = True
            if not self.injected_at:
                self.injected_at = self.count
            raise EXC[self.fault_kind]('injected fault at collaborator call #%d (%s%s)' % (
                self.count, name, '[%s]' % var if var else ''))
        try:
            return real(*a, **kw)
        except KeyError:
            if name != 'environ':       # a lookup of an absent variable is an answer, not a fault;
                ev['fails'] = True      # whether it is fatal is the specification's business
            raise
        except Exception:
            ev['fails'] = True
            raise

    def counted(self, name, real):
        def proxy(*a, **kw):
            return self.call(name, '', real, *a, **kw)
        proxy.__name__ = getattr(real, '__name__', name)
        return proxy


class EnvProxy:
    """Stands for os.environ inside the module under test.  Lookups are collaborator calls
    (countable, can fail); writes go straight through to the real os.environ."""

    def __init__(self, rec):
        self._rec = rec

    # ---- lookups
    def __getitem__(self, key):
        return self._rec.call('environ', key, _REAL_ENVIRON.__getitem__, key)

    def get(self, key, default=None):
        return self._rec.call('environ', key, _REAL_ENVIRON.get, key, default)

    def __contains__(self, key):
        return self._rec.call('environ', key, _REAL_ENVIRON.__contains__, key)

    # ---- writes
    def __setitem__(self, key, value):
        _REAL_ENVIRON[key] = value

    def __delitem__(self, key):
        del _REAL_ENVIRON[key]

    def pop(self, key, *default):
        return _REAL_ENVIRON.pop(key, *default)

    def setdefault(self, key, default):
        return _REAL_ENVIRON.setdefault(key, default)

    def update(self, *a, **kw):
        return _REAL_ENVIRON.update(*a, **kw)

    def clear(self):
        return _REAL_ENVIRON.clear()

    def __getattr__(self, name):            # keys, items, copy, ...
        return getattr(_REAL_ENVIRON, name)

    def __iter__(self):
        return iter(_REAL_ENVIRON)

    def __len__(self):
        return len(_REAL_ENVIRON)


class Delegate:
    """Object whose listed attributes are overridden and whose other attributes come from `real`."""

    def __init__(self, real, **over):
        object.__setattr__(self, '_real', real)
        object.__setattr__(self, '_over', over)

    def __getattr__(self, name):
        over = object.__getattribute__(self, '_over')
        if name in over:
            return over[name]
        return getattr(object.__getattribute__(self, '_real'), name)


def os_proxy(rec, exists=None, remove=None):
    """A stand-in for the `os` module: environ -> EnvProxy; path.exists, remove -> counted."""
    path = Delegate(_REAL_OS.path, exists=rec.counted('os.path.exists', exists or _REAL_OS.path.exists))
    over = {'environ': EnvProxy(rec), 'path': path,
            'remove': rec.counted('os.remove', remove or _REAL_OS.remove),
            'getenv': lambda key, default=None: rec.call('environ', key, _REAL_ENVIRON.get, key, default),
            'putenv': lambda key, value: _REAL_ENVIRON.__setitem__(key, value),
            'unsetenv': lambda key: _REAL_ENVIRON.pop(key, None)}
    return Delegate(_REAL_OS, **over)


@contextlib.contextmanager
def patched(triples):
    """setattr(obj, attr, value) for every triple, undone on exit (also when the body raises)."""
    olds = []
    try:
        for obj, attr, val in triples:
            olds.append((obj, attr, getattr(obj, '__dict__', {}).get(attr, _MISSING)))
            setattr(obj, attr, val)
        yield
    finally:
        for obj, attr, old in reversed(olds):
            if old is _MISSING:
                try:
                    delattr(obj, attr)
                except AttributeError:
                    pass
            else:
                setattr(obj, attr, old)


BASE_ENV = {'PATH': '/usr/bin:/bin', 'HOME': '/nonexistent', 'LANG': 'C', 'VERIF_UNRELATED': 'unrelated value',
            'VERIF_UNRELATED_EMPTY': ''}


def run(rec, initial, thunk):
    """Run thunk() in an environment consisting of BASE_ENV plus `initial` (var -> value or ABSENT).
    Appends the enter and return/raise events.  The harness process's own environment is put back
    afterwards whatever happens.  Returns the outcome record."""
    mine = dict(_REAL_ENVIRON)
    try:
        _REAL_ENVIRON.clear()
        _REAL_ENVIRON.update(BASE_ENV)
        for var, val in initial.items():
            if val != ABSENT:
                _REAL_ENVIRON[var] = val
        before = dict(_REAL_ENVIRON)
        rec.events.append({'ev': 'enter', 'name': '', 'var': '', 'fails': False, 'env': rec.snap()})
        exc = ''
        try:
            thunk()
            how = 'return'
        except Exception as ex:               # noqa: the entry point may raise anything
            how = 'raise'
            exc = '%s: %s' % (type(ex).__name__, str(ex)[:160])
        after = dict(_REAL_ENVIRON)
        strays = sorted(n for n in set(before) | set(after)
                        if n not in rec.vars and before.get(n, ABSENT) != after.get(n, ABSENT))
        final = rec.snap()
        rec.events.append({'ev': how, 'name': '', 'var': '', 'fails': False, 'env': final, 'strays': strays})
        return {'how': how, 'exc': exc, 'env': final, 'strays': strays, 'calls': rec.count,
                'injected_at': rec.injected_at}
    finally:
        _REAL_ENVIRON.clear()
        _REAL_ENVIRON.update(mine)


def profile(events, touched, initial):
    """Abstract a fault-free recorded run into the data the specification needs about the entry
    point's shape: the ordered collaborator calls and, per touched variable, how many calls precede
    its first visible change."""
    calls = [e for e in events if e['ev'] == 'call']
    steps = [{'name': e['name'], 'var': e['var']} for e in calls]
    mut_at = {}
    for t in touched:
        n = len(calls) + 1                     # never seen changed while a collaborator ran
        for j, e in enumerate(calls):
            if e['env'][t] != initial[t]:
                n = j
                break
        mut_at[t] = n
    return steps, mut_at


# --------------------------------------------------------------------------------------------
# Entry point 1: pydl.photoop.window.window_score
# --------------------------------------------------------------------------------------------
def make_flist(path, n=6):
    """A small but real window_flist.fits (the repo tests fake it with MagicMock; a real file lets
    astropy's own open/update/close/writeto run)."""
    from astropy.io import fits
    cols = [fits.Column(name='RUN', format='J', array=np.arange(n) + 94),
            fits.Column(name='SCORE', format='E', array=np.zeros(n, dtype=np.float32))]
    fits.HDUList([fits.PrimaryHDU(), fits.BinTableHDU.from_columns(cols)]).writeto(path, overwrite=True)


def window_thunk(rec, rescore, resolve_dir):
    """Returns (thunk, patches) for window_score(rescore=...).  fits.open is astropy's (counted), the
    returned HDUList's writeto/close are counted, sdss_score is a cheap fake (the real one reads the
    whole survey)."""
    import pydl.photoop.window as mod
    from astropy.io import fits as real_fits

    def fits_open(*a, **kw):
        h = real_fits.open(*a, **kw)
        h.writeto = rec.counted('HDUList.writeto', h.writeto)
        h.close = rec.counted('HDUList.close', h.close)
        return h

    def sdss_score(flist, *a, **kw):
        return np.linspace(0.0, 1.0, len(flist[1].data))

    triples = [(mod, 'os', os_proxy(rec)),
               (mod, 'fits', Delegate(real_fits, open=rec.counted('fits.open', fits_open))),
               (mod, 'sdss_score', rec.counted('sdss_score', sdss_score))]

    def thunk():
        out = os.path.join(resolve_dir, 'window_flist_rescore.fits')
        if os.path.exists(out):
            os.remove(out)
        with patched(triples):
            mod.window_score(rescore=rescore)
    return thunk


# --------------------------------------------------------------------------------------------
# Entry point 2: pydl.pydlspec2d.spec1d.template_input
# --------------------------------------------------------------------------------------------
PAR_TEMPLATE = """#
# C20 harness parameter file
#
object {object}
method {method}
wavemin 1850
wavemax 10000
snmax 100
niter 3
nkeep 4
minuse 2
aesthetics mean
run2d {run2d}
run1d {run1d}
{extra}
typedef struct {{
    int plate;
    int mjd;
    int fiberid;
    double {zcol};
}} EIGENOBJ;

EIGENOBJ 3587 55182 186 0.35
EIGENOBJ 3587 55182 220 0.45
EIGENOBJ 3588 55184 208 0.78
EIGENOBJ 3588 55184 236 0.59
EIGENOBJ 3589 55186 82 0.12
"""
NOBJ = 5
NPIX = 24


def write_par(path, obj='gal', method='pca', run2d='v5_7_0', run1d='v5_7_1', drop=(), replace=None, table=True):
    """Write a template_input parameter file.  drop: keywords to leave out; replace: {keyword: text};
    table=False leaves the EIGENOBJ table out (malformed-file faults are made with real files)."""
    extra = 'epsilon -1.0\nnonnegative 0\n' if method == 'hmf' else ''
    text = PAR_TEMPLATE.format(object=obj, method=method, run2d=run2d, run1d=run1d, extra=extra,
                               zcol='cz' if obj == 'star' else 'zfit')
    lines = []
    for ln in text.split('\n'):
        key = ln.split(' ')[0]
        if key in drop:
            continue
        if replace and key in replace:
            ln = '%s %s' % (key, replace[key])
        if not table and (ln.startswith('EIGENOBJ') or ln.startswith('typedef') or ln.startswith('    ') or ln.startswith('}')):
            continue
        lines.append(ln)
    with open(path, 'w') as fh:
        fh.write('\n'.join(lines))
    return path


class _Ax:
    def __getattr__(self, name):
        return lambda *a, **kw: None


class _Fig:
    def __init__(self, rec):
        self.savefig = rec.counted('Figure.savefig', lambda *a, **kw: None)


def template_thunk(rec, inputfile, dumpfile, flux=False, missing_fiber=False, usemask=True):
    """Returns the thunk for template_input(inputfile, dumpfile, flux).  Heavy stages are cheap
    fakes returning well-formed small arrays; light ones (yanny, wavevector, get_juldate, pickle,
    astropy HDU construction) are the real thing; everything is counted."""
    import pickle
    import pydl.goddard.astro as astro
    import pydl.pydlspec2d.spec1d as mod
    import pydl.pydlutils.image as image
    import pydl.pydlutils.math as pmath
    import pydl.pydlutils.yanny as yannymod
    from astropy.io import fits as real_fits

    loglam = 3.5 + 1.0e-4 * np.arange(NPIX)

    def readspec(plate, **kw):
        n = len(np.atleast_1d(plate))
        fid = np.arange(n) + 1
        if missing_fiber:
            fid[1] = 0
        return {'flux': np.ones((n, NPIX)), 'invvar': np.ones((n, NPIX)),
                'andmask': np.zeros((n, NPIX), dtype=np.int32), 'ormask': np.zeros((n, NPIX), dtype=np.int32),
                'loglam': np.tile(loglam, (n, 1)), 'plugmap': {'FIBERID': fid}}

    def skymask(invvar, andmask, ormask=None, **kw):
        return invvar.copy()

    def preprocess_spectra(flux, ivar, loglam=None, zfit=None, newloglam=None, **kw):
        nl = loglam[0, :] if newloglam is None or len(newloglam) < 2 else np.asarray(newloglam)[:NPIX]
        if len(nl) < 2:
            nl = loglam[0, :]
        return (np.ones((flux.shape[0], len(nl))), np.ones((flux.shape[0], len(nl))), nl)

    def _solution(newflux):
        n, npix = newflux.shape
        s = {'flux': np.ones((4, npix)), 'acoeff': np.ones((n, 4)) + np.arange(4)}
        if usemask:
            um = np.full((npix,), n, dtype=np.int64)
            um[:3] = 0
            s['usemask'] = um
        return s

    def pca_solve(newflux, newivar, **kw):
        return _solution(newflux)

    def template_qso(metadata, newflux, newivar, verbose=False):
        return _solution(newflux)

    def template_star(metadata, newloglam, newflux, newivar, slist, outfile, verbose=False):
        return {'flux': np.ones((4, newflux.shape[1])), 'namearr': ['A', 'F', 'G', 'K']}

    class HMF:
        def __init__(self, newflux, newivar, **kw):
            self._f = newflux
            self.solve = rec.counted('HMF.solve', lambda: _solution(self._f))

    def hdulist(hdus):
        h = real_fits.HDUList(hdus)
        h.writeto = rec.counted('HDUList.writeto', lambda *a, **kw: None)
        return h

    def subplots(*a, **kw):
        return _Fig(rec), _Ax()

    real_yanny_init = yannymod.yanny.__init__

    def yanny_init(self, *a, **kw):         # the class itself must stay in place (it calls super(yanny, self))
        return rec.call('yanny', '', real_yanny_init, self, *a, **kw)

    c = rec.counted
    plt = Delegate(object(), subplots=c('plt.subplots', subplots), close=c('plt.close', lambda *a, **kw: None))
    fitsp = Delegate(real_fits, PrimaryHDU=c('fits.PrimaryHDU', real_fits.PrimaryHDU), HDUList=hdulist,
                     open=c('fits.open', real_fits.open))
    triples = [(mod, 'os', os_proxy(rec, remove=lambda p: None)),
               (mod, 'plt', plt), (mod, 'fits', fitsp),
               (mod, 'open', c('open', builtins.open)),
               (mod, 'readspec', c('readspec', readspec)), (mod, 'skymask', c('skymask', skymask)),
               (mod, 'wavevector', c('wavevector', mod.wavevector)),
               (mod, 'preprocess_spectra', c('preprocess_spectra', preprocess_spectra)),
               (mod, 'pca_solve', c('pca_solve', pca_solve)), (mod, 'HMF', c('HMF', HMF)),
               (mod, 'template_qso', c('template_qso', template_qso)),
               (mod, 'template_star', c('template_star', template_star)),
               (mod, 'plot_eig', c('plot_eig', lambda *a, **kw: None)),
               (yannymod.yanny, '__init__', yanny_init),
               (astro, 'get_juldate', c('get_juldate', astro.get_juldate)),
               (pmath, 'djs_median', c('djs_median', pmath.djs_median)),
               (image, 'djs_maskinterp', c('djs_maskinterp', image.djs_maskinterp)),
               (pickle, 'load', c('pickle.load', pickle.load)), (pickle, 'dump', c('pickle.dump', pickle.dump))]
    level = mod.log.level

    def thunk():
        try:
            mod.log.setLevel('CRITICAL')      # thousands of runs: keep the console for verdicts
            with patched(triples):
                mod.template_input(inputfile, dumpfile, flux=flux)
        finally:
            mod.log.setLevel(level)
    return thunk
