"""Apalache obligations for a property's unbounded (inductive) part.

`discharge(ctx, module, runs, key, note)` runs `apalache-mc check` once per obligation (in parallel: each run uses about
two cores) on apalache/<module>.tla.  An obligation is (name, [apalache arguments], must_hold).  An obligation that must
hold and is refuted, a negative control that is not refuted, or a run without a verdict is a failure of the machinery
(the specification is wrong, not pydl): core.MachineryError, exit 2.  Results go to ctx.cov[key]."""
import os
import shutil
import subprocess
from concurrent.futures import ThreadPoolExecutor

from . import core


def _one(spec, out, name, args, timeout):
    cmd = ['apalache-mc', 'check'] + list(args) + ['--out-dir=' + out, spec]
    try:
        p = subprocess.run(cmd, stdout=subprocess.PIPE, stderr=subprocess.STDOUT, text=True, timeout=timeout)
    except (OSError, subprocess.TimeoutExpired) as ex:
        return name, None, 'apalache-mc failed to run: %r' % (ex,)
    if 'The outcome is: NoError' in p.stdout:
        return name, True, ''
    if 'The outcome is: Error' in p.stdout:
        return name, False, ''
    return name, None, p.stdout[-1500:]


def discharge(ctx, module, runs, key, note, timeout=1500):
    spec = os.path.join(core.VERIF, 'apalache', module + '.tla')
    base = os.path.join(ctx.scratch, 'apalache_' + module)
    with ThreadPoolExecutor(max_workers=len(runs)) as ex:
        futs = [ex.submit(_one, spec, os.path.join(base, str(i)), name, args, timeout)
                for i, (name, args, _must) in enumerate(runs)]
        verdicts = [f.result() for f in futs]
    shutil.rmtree(base, ignore_errors=True)
    results = []
    for (name, args, must_hold), (_n, ok, msg) in zip(runs, verdicts):
        if ok is None:
            raise core.MachineryError('apalache-mc gave no verdict for %s: %s' % (name, msg))
        if must_hold and not ok:
            raise core.MachineryError('Apalache refuted the obligation %s (apalache/%s.tla)' % (name, module))
        if not must_hold and ok:
            raise core.MachineryError('Apalache did not refute the negative control %s (apalache/%s.tla)' % (name, module))
        results.append({'obligation': name, 'verdict': 'holds' if ok else 'refuted (as required)'})
    ctx.cov[key] = {'module': 'apalache/%s.tla' % module, 'note': note,
                    'obligations': sum(1 for r in runs if r[2]), 'negative_controls_refuted': sum(1 for r in runs if not r[2]),
                    'results': results,
                    'checker_cmd': 'apalache-mc check --init=... --next=... --inv=... --length=0|1 apalache/%s.tla' % module}
    return results
