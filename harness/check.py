"""bin/check entry point: dispatch to harness/props/<id>.py, write evidence, exit 0/1/2."""
import argparse
import importlib
import os
import sys
import traceback

from . import core


def main():
    ap = argparse.ArgumentParser()
    ap.add_argument('pid')
    ap.add_argument('--tier', default=os.environ.get('VERIF_TIER', 'quick'), choices=['quick', 'thorough'])
    ap.add_argument('--replay', default=None)
    a = ap.parse_args()
    seed = int(os.environ.get('VERIF_SEED', '20260928'))
    pid = a.pid.upper()
    ctx = core.Ctx(pid, a.tier, seed, a.replay)
    try:
        core.import_pydl()
        mod = importlib.import_module('harness.props.' + pid.lower())
        if a.replay and hasattr(mod, 'replay'):
            import json
            with open(a.replay) as fh:
                mod.replay(ctx, json.load(fh)['case'])
        else:
            mod.run(ctx)
        rc = ctx.finish()
    except core.MachineryError as ex:
        print('MACHINERY-ERROR %s: %s' % (pid, ex))
        rc = 2
    except Exception:
        traceback.print_exc()
        print('MACHINERY-ERROR %s: unexpected exception in harness' % pid)
        rc = 2
    import shutil
    shutil.rmtree(ctx.scratch, ignore_errors=True)
    sys.stdout.flush()
    os._exit(rc)


if __name__ == '__main__':
    main()
