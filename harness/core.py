"""Common machinery: TLC runner, check context, findings, evidence.

Every property check is a module harness/props/<id>.py with `run(ctx)`.
"""
import hashlib
import json
import os
import re
import shutil
import subprocess
import sys
import tempfile
import time

VERIF = os.path.dirname(os.path.dirname(os.path.abspath(__file__)))
SPEC_DIR = os.path.join(VERIF, 'spec')
MC_DIR = os.path.join(VERIF, 'mc')
TRACE_DIR = os.path.join(VERIF, 'trace')
PYDL_SRC = os.environ.get('PYDL_SRC', '/repo')
NCPU = int(os.environ.get('VERIF_WORKERS', str(os.cpu_count() or 4)))


class MachineryError(Exception):
    """The harness itself failed (TLC crash, parse error): exit code 2, never a VIOLATION."""


class TLCResult(dict):
    pass


_RE_STATES = re.compile(r'(\d+) states generated, (\d+) distinct states found')
_RE_DEPTH = re.compile(r'The depth of the complete state graph search is (\d+)')
_RE_COV = re.compile(r'^<(\w+) line (\d+), col \d+ to line \d+, col \d+ of module (\w+)>: (\d+):(\d+)', re.M)
_RE_INV = re.compile(r'Error: Invariant (\w+) is violated')
_RE_PROP = re.compile(r'Error: (?:Action|Temporal) property (\w+)? ?(?:is|was) violated')


def run_tlc(spec, cfg, scratch, workers=None, dump=False, simulate=None, depth=None,
            seed=None, timeout=900, env=None, extra=(), coverage=False, expect_violation=False,
            dfid=None, jvm_props=()):
    """Run TLC on module `spec` (a .tla path) with config `cfg`.  All module directories
    (spec/, mc/, trace/) are on the library path.  Returns TLCResult with keys: generated,
    distinct, depth, stdout, dump (path or None), coverage {action: (taken, distinct)},
    violated (name or None), ok.
    """
    workers = workers or NCPU
    meta = tempfile.mkdtemp(prefix='meta', dir=scratch)
    cmd = ['java', '-XX:+UseParallelGC', '-Xmx12g', '-Xss64m',
           '-DTLA-Library=' + os.pathsep.join([SPEC_DIR, MC_DIR, TRACE_DIR])]
    cmd += list(jvm_props)
    cmd += ['-cp', '/opt/veriftools/tla/tla2tools.jar:/opt/veriftools/tla/CommunityModules-deps.jar',
            'tlc2.TLC', '-workers', str(workers), '-metadir', meta, '-noGenerateSpecTE',
            '-config', cfg]
    dump_path = None
    if dump:
        dump_path = os.path.join(scratch, os.path.basename(spec).replace('.tla', '') + '_%d' % (time.time_ns() % 10**9))
        cmd += ['-dump', dump_path]
        dump_path += '.dump'
    if coverage:
        cmd += ['-coverage', '1']
    if simulate:
        cmd += ['-simulate', simulate]
    if depth:
        cmd += ['-depth', str(depth)]
    if seed is not None:
        cmd += ['-seed', str(seed)]
    if dfid:
        cmd += ['-dfid', str(dfid)]
    cmd += list(extra)
    cmd += [spec]
    e = dict(os.environ)
    e.pop('JAVA_TOOL_OPTIONS', None)
    if env:
        e.update(env)
    t0 = time.time()
    try:
        p = subprocess.run(cmd, cwd=os.path.dirname(spec), env=e, stdout=subprocess.PIPE,
                           stderr=subprocess.STDOUT, timeout=timeout, text=True, errors='replace')
        out = p.stdout
        rc = p.returncode
    except subprocess.TimeoutExpired as ex:
        out = (ex.stdout or b'').decode('utf8', 'replace') if isinstance(ex.stdout, bytes) else (ex.stdout or '')
        rc = -9
        subprocess.run(['pkill', '-f', meta], check=False)
    finally:
        shutil.rmtree(meta, ignore_errors=True)
    r = TLCResult(stdout=out, rc=rc, wall=time.time() - t0, dump=dump_path)
    m = None
    for m in _RE_STATES.finditer(out):
        pass
    r['generated'] = int(m.group(1)) if m else 0
    r['distinct'] = int(m.group(2)) if m else 0
    m = _RE_DEPTH.search(out)
    r['depth'] = int(m.group(1)) if m else 0
    cov = {}
    for m in _RE_COV.finditer(out):
        cov[m.group(1)] = (int(m.group(4)), int(m.group(5)))
    r['coverage'] = cov
    mi = _RE_INV.search(out)
    mp = _RE_PROP.search(out)
    r['violated'] = mi.group(1) if mi else (mp.group(1) or 'property' if mp else None)
    r['timeout'] = rc == -9
    finished = 'Model checking completed. No error has been found.' in out or \
        (simulate and rc in (0,) ) or (rc == -9 and simulate)
    r['ok'] = bool(finished) and r['violated'] is None
    if not r['ok'] and r['violated'] is None and not expect_violation:
        # neither a clean finish nor a property violation: machinery problem
        if not (simulate and rc == -9):
            raise MachineryError('TLC failed on %s (rc=%s):\n%s' % (spec, rc, out[-4000:]))
    return r


def sany(path):
    import shutil
    import tempfile
    tmp = tempfile.mkdtemp(prefix='sany_')      # SANY unpacks its standard modules into java.io.tmpdir and leaves them there
    try:
        p = subprocess.run(['java', '-Djava.io.tmpdir=' + tmp, '-DTLA-Library=' + os.pathsep.join([SPEC_DIR, MC_DIR, TRACE_DIR]),
                            '-cp', '/opt/veriftools/tla/tla2tools.jar:/opt/veriftools/tla/CommunityModules-deps.jar',
                            'tla2sany.SANY', path], cwd=os.path.dirname(path), stdout=subprocess.PIPE,
                           stderr=subprocess.STDOUT, text=True)
    finally:
        shutil.rmtree(tmp, ignore_errors=True)
    ok = p.returncode == 0 and 'Semantic errors' not in p.stdout and '*** Errors' not in p.stdout \
        and 'Parse Error' not in p.stdout and 'Fatal errors' not in p.stdout
    return ok, p.stdout


def load_findings():
    path = os.path.join(VERIF, 'known_findings.json')
    if not os.path.exists(path):
        return []
    with open(path) as fh:
        return json.load(fh).get('findings', [])


class Ctx:
    def __init__(self, pid, tier, seed, replay=None):
        self.pid = pid
        self.tier = tier
        self.seed = seed
        self.replay = replay
        self.t0 = time.time()
        base = os.environ.get('VERIF_SCRATCH') or tempfile.gettempdir()
        self.scratch = tempfile.mkdtemp(prefix='verif_%s_' % pid, dir=base)
        self.violations = []
        self.known_hits = {}
        self.findings = [f for f in load_findings() if f.get('property') == pid]
        self.cov = {'states': 0, 'transitions': 0, 'traces_validated_against_impl': 0,
                    'evaluations': 0, 'samples': [], 'tlc_runs': [], 'parts': {}}
        self.nontrivial = set()
        self.assumptions = []
        self.level = None
        self.rule = ''
        self.exhaustive = None
        self.explanation = None

    @property
    def quick(self):
        return self.tier == 'quick'

    # ---- TLC -------------------------------------------------------------
    def tlc(self, module, cfg=None, **kw):
        """module: file name relative to mc/ or trace/ or absolute."""
        spec = module if os.path.isabs(module) else self._find(module)
        cfgp = cfg if (cfg and os.path.isabs(cfg)) else self._find(cfg or os.path.basename(spec).replace('.tla', '.cfg'))
        count = kw.pop('count', True)
        label = kw.pop('label', os.path.basename(cfgp))
        must_hold = kw.pop('must_hold', True)
        r = run_tlc(spec, cfgp, self.scratch, **kw)
        if count:
            self.cov['states'] += r['distinct']
            self.cov['transitions'] += r['generated']
        self.cov['tlc_runs'].append({'cfg': label, 'distinct': r['distinct'], 'generated': r['generated'],
                                     'depth': r['depth'], 'wall_s': round(r['wall'], 1),
                                     'violated': r['violated'],
                                     'zero_coverage_actions': sorted(a for a, (t, d) in r['coverage'].items() if t == 0)})
        if must_hold and r['violated']:
            raise MachineryError('spec-level property %s violated in %s:\n%s' % (r['violated'], label, r['stdout'][-3000:]))
        return r

    def _find(self, name):
        for d in (MC_DIR, TRACE_DIR, SPEC_DIR):
            p = os.path.join(d, name)
            if os.path.exists(p):
                return p
        raise MachineryError('no such spec/config file: %s' % name)

    # ---- accounting ------------------------------------------------------
    def evaluated(self, n=1, part=None):
        self.cov['evaluations'] += n
        if part:
            self.cov['parts'][part] = self.cov['parts'].get(part, 0) + n

    def validated(self, n=1):
        self.cov['traces_validated_against_impl'] += n

    def nontriv(self, key):
        self.nontrivial.add(key if isinstance(key, (str, int, tuple)) else repr(key))

    def sample(self, s, limit=6):
        if len(self.cov['samples']) < limit:
            self.cov['samples'].append(s)

    # ---- verdicts --------------------------------------------------------
    def violation(self, case, finding=None):
        """Report one failing case.  `finding` is the id of the deviation that explains it
        exactly (decided by the caller using the spec's deviation operator), or None."""
        if finding:
            for f in self.findings:
                if f.get('id') == finding and f.get('status') == 'known':
                    self.known_hits.setdefault(finding, []).append(case)
                    return False
        blob = json.dumps(case, sort_keys=True, default=repr)
        h = hashlib.sha1(blob.encode()).hexdigest()[:12]
        d = os.path.join(VERIF, 'replays', self.pid)
        os.makedirs(d, exist_ok=True)
        path = os.path.join(d, h + '.json')
        with open(path, 'w') as fh:
            json.dump({'property': self.pid, 'case': case, 'unexplained_by': [f.get('id') for f in self.findings]},
                      fh, indent=1, sort_keys=True, default=repr)
        if len(self.violations) < 25:
            print('VIOLATION property=%s replay=%s' % (self.pid, path), flush=True)
            brief = case.get('what') if isinstance(case, dict) else None
            if brief:
                print('  ' + str(brief)[:300], flush=True)
        self.violations.append(path)
        return True

    def finish(self):
        for fid, cases in self.known_hits.items():
            f = [x for x in self.findings if x['id'] == fid][0]
            print('KNOWN-FINDING: property=%s %s %s (%d cases this run)' % (self.pid, fid, f.get('what', ''), len(cases)))
        cov = self.cov
        cov['distinct_nontrivial'] = len(self.nontrivial)
        cov['rule'] = self.rule
        if self.exhaustive is not None:
            cov['exhaustive'] = self.exhaustive
        if self.explanation:
            cov['explanation'] = self.explanation
        cov['known_findings_hit'] = {k: len(v) for k, v in self.known_hits.items()}
        if not cov['samples']:
            cov['samples'] = ['(no sample recorded)']
        ev = {'property_id': self.pid, 'tier': self.tier, 'seed': self.seed, 'level': self.level or 'model_checking',
              'coverage': cov, 'assumptions': self.assumptions, 'wall_s': round(time.time() - self.t0, 2),
              'violations': len(self.violations)}
        os.makedirs(os.path.join(VERIF, 'evidence'), exist_ok=True)
        with open(os.path.join(VERIF, 'evidence', self.pid + '.json'), 'w') as fh:
            json.dump(ev, fh, indent=1, default=repr)
        shutil.rmtree(self.scratch, ignore_errors=True)
        print('%s tier=%s seed=%d: states=%d transitions=%d impl_cases=%d evaluations=%d violations=%d wall=%.1fs' % (
            self.pid, self.tier, self.seed, cov['states'], cov['transitions'], cov['traces_validated_against_impl'],
            cov['evaluations'], len(self.violations), time.time() - self.t0))
        return 1 if self.violations else 0


def import_pydl():
    """Import pydl from PYDL_SRC and assert that is where it came from."""
    sys.dont_write_bytecode = True
    if PYDL_SRC not in sys.path:
        sys.path.insert(0, PYDL_SRC)
    import pydl
    here = os.path.realpath(os.path.dirname(pydl.__file__))
    if not here.startswith(os.path.realpath(PYDL_SRC)):
        raise MachineryError('pydl imported from %s, expected under %s' % (here, PYDL_SRC))
    return pydl


def write_json(path, obj):
    with open(path, 'w') as fh:
        json.dump(obj, fh)
    return path


def iter_states(r, lazy=(), keep=None):
    from . import tlaval
    if not r.get('dump') or not os.path.exists(r['dump']):
        raise MachineryError('TLC wrote no dump')
    for st in tlaval.iter_dump(r['dump'], lazy=lazy, keep=keep):
        yield st
    try:
        os.remove(r['dump'])
    except OSError:
        pass


def binding_selftest(ctx, module, corrupted, what, label=None, extra_env=None):
    """Non-vacuity of a Trace_* judge: `corrupted` are records the real code did NOT produce (accepted records with one
    field falsified by the caller).  Every one of them must be rejected; an accepted one means the trace specification
    constrains nothing there, which is a failure of the machinery (exit 2), never a verdict about pydl."""
    if not corrupted:
        raise MachineryError('binding self-test of %s (%s): nothing to corrupt' % (module, what))
    bad = validate_records(ctx, module, corrupted, label=(label or module) + ' self-test', extra_env=extra_env)
    missed = [k for k in range(len(corrupted)) if k not in bad]
    ctx.cov['parts']['selftest_' + what] = {'corrupted_records': len(corrupted), 'rejected': len(bad)}
    if missed:
        raise MachineryError('binding self-test of %s (%s): %d of %d falsified records were accepted, e.g. %r'
                             % (module, what, len(missed), len(corrupted), corrupted[missed[0]]))
    return len(bad)


def validate_records(ctx, module, records, label=None, chunk=4000, extra_env=None):
    """Code -> spec: hand recorded calls to a Trace_* module whose Init ranges over the records
    (variables i, ok, why).  Returns {index (0-based): why} for the records the spec rejects.
    Each record is one observed call of the real code; TLC evaluates the spec's verdict."""
    bad = {}
    for base in range(0, len(records), chunk):
        part = records[base:base + chunk]
        path = os.path.join(ctx.scratch, 'trace_%s_%d.json' % (module, base))
        write_json(path, part)
        env = {'VERIF_TRACE': path}
        if extra_env:
            env.update(extra_env)
        r = ctx.tlc(module + '.tla', module + '.cfg', dump=True, env=env, count=False,
                    label=(label or module) + '[%d:%d]' % (base, base + len(part)))
        seen = 0
        for st in iter_states(r):
            seen += 1
            if not st['ok']:
                bad[base + st['i'] - 1] = st.get('why', '')
        if seen != len(part):
            raise MachineryError('%s judged %d of %d records' % (module, seen, len(part)))
        os.remove(path)
    return bad
