"""Parser for TLA+ values as printed by TLC (state dumps, simulation traces, error traces).

Mapping to Python:
  integer -> int            TRUE/FALSE -> bool        "str" -> str
  <<a, b>> -> tuple         {a, b} -> frozenset       [f |-> v, ...] -> dict (str keys)
  (k :> v @@ ...) -> dict   model value / identifier -> str prefixed with nothing (as is)
  a..b -> frozenset(range)
"""
import re

_TOKEN = re.compile(r'''
    \s*(?:
      (?P<int>-?\d+)
     |(?P<str>"(?:[^"\\]|\\.)*")
     |(?P<sym><<|>>|\|->|:>|@@|\.\.|[\[\]{}(),])
     |(?P<id>[A-Za-z_][A-Za-z0-9_!]*)
    )''', re.X)

_ESC = {'\\"': '"', '\\\\': '\\', '\\n': '\n', '\\t': '\t', '\\r': '\r', '\\f': '\f'}


def _unescape(s):
    return re.sub(r'\\.', lambda m: _ESC.get(m.group(0), m.group(0)[1]), s)


def tokenize(text):
    pos = 0
    n = len(text)
    out = []
    while pos < n:
        m = _TOKEN.match(text, pos)
        if not m:
            if text[pos:].strip() == '':
                break
            raise ValueError('cannot tokenize TLA+ value at %r' % text[pos:pos + 40])
        pos = m.end()
        k = m.lastgroup
        v = m.group(k)
        if k == 'int':
            out.append(('int', int(v)))
        elif k == 'str':
            out.append(('str', _unescape(v[1:-1])))
        elif k == 'sym':
            out.append((v, v))
        else:
            out.append(('id', v))
    return out


class _P:
    def __init__(self, toks):
        self.t = toks
        self.i = 0

    def peek(self):
        return self.t[self.i][0] if self.i < len(self.t) else None

    def next(self):
        tok = self.t[self.i]
        self.i += 1
        return tok

    def expect(self, k):
        tok = self.next()
        if tok[0] != k:
            raise ValueError('expected %s got %r' % (k, tok))
        return tok

    def value(self):
        v = self.atom()
        if self.peek() == '..':
            self.next()
            hi = self.atom()
            return frozenset(range(v, hi + 1))
        return v

    def atom(self):
        k, v = self.next()
        if k == 'int' or k == 'str':
            return v
        if k == 'id':
            if v == 'TRUE':
                return True
            if v == 'FALSE':
                return False
            return v
        if k == '<<':
            items = []
            if self.peek() == '>>':
                self.next()
                return ()
            while True:
                items.append(self.value())
                k2, _ = self.next()
                if k2 == '>>':
                    return tuple(items)
                if k2 != ',':
                    raise ValueError('bad tuple')
        if k == '{':
            items = []
            if self.peek() == '}':
                self.next()
                return frozenset()
            while True:
                items.append(_hashable(self.value()))
                k2, _ = self.next()
                if k2 == '}':
                    return frozenset(items)
                if k2 != ',':
                    raise ValueError('bad set')
        if k == '[':
            d = {}
            if self.peek() == ']':
                self.next()
                return d
            while True:
                name = self.next()
                self.expect('|->')
                d[name[1]] = self.value()
                k2, _ = self.next()
                if k2 == ']':
                    return d
                if k2 != ',':
                    raise ValueError('bad record')
        if k == '(':
            d = {}
            while True:
                key = _hashable(self.value())
                self.expect(':>')
                d[key] = self.value()
                k2, _ = self.next()
                if k2 == ')':
                    return d
                if k2 != '@@':
                    raise ValueError('bad function')
        raise ValueError('unexpected token %r' % (k,))


def _hashable(v):
    if isinstance(v, dict):
        return tuple(sorted(((k, _hashable(x)) for k, x in v.items()), key=repr))
    if isinstance(v, tuple):
        return tuple(_hashable(x) for x in v)
    return v


def parse_value(text):
    p = _P(tokenize(text))
    v = p.value()
    if p.i != len(p.t):
        raise ValueError('trailing tokens in %r' % text[:80])
    return v


_STATE_HDR = re.compile(r'^State (\d+):')
_CONJ = re.compile(r'^/\\ ([A-Za-z_][A-Za-z0-9_]*) = (.*)$', re.S)


def iter_dump(path, lazy=(), keep=None):
    """Yield one dict {var: value} per state of a `tlc -dump` file.
    lazy/keep: the variables named in `lazy` are parsed only for states for which keep(partial state) is true (others
    are skipped entirely) - long character sequences dominate the parsing time of the yanny dumps."""
    cur = None
    buf = []

    def flush():
        if cur is None:
            return None
        st = {}
        # conjuncts may span several lines; split on lines starting with '/\ '
        chunks = []
        for line in buf:
            if line.startswith('/\\ '):
                chunks.append(line)
            elif chunks:
                chunks[-1] += '\n' + line
        later = []
        for c in chunks:
            m = _CONJ.match(c)
            if not m:
                raise ValueError('bad conjunct %r' % c[:80])
            if m.group(1) in lazy:
                later.append(m)
                continue
            st[m.group(1)] = parse_value(m.group(2))
        if later:
            if keep is not None and not keep(st):
                return False
            for m in later:
                st[m.group(1)] = parse_value(m.group(2))
        return st

    with open(path) as fh:
        for line in fh:
            line = line.rstrip('\n')
            m = _STATE_HDR.match(line)
            if m:
                st = flush()
                if st is not None and st is not False:
                    yield st
                cur = int(m.group(1))
                buf = []
            elif line.strip():
                buf.append(line)
    st = flush()
    if st is not None and st is not False:
        yield st


_SIM_STATE = re.compile(r'^STATE_(\d+) ==\s*$')
_SIM_ACT = re.compile(r'^\\\* <(\w+)')


def parse_sim_trace(path):
    """Parse one behaviour written by `tlc -simulate file=...`: list of (action_name, state)."""
    out = []
    act = None
    cur = None
    with open(path) as fh:
        lines = fh.read().split('\n')
    chunks = []
    for line in lines:
        m = _SIM_ACT.match(line)
        if m:
            act = m.group(1)
            continue
        if _SIM_STATE.match(line):
            if cur is not None:
                out.append(cur)
            cur = (act, [])
            continue
        if line.startswith('====') or line.startswith('----'):
            if cur is not None:
                out.append(cur)
                cur = None
            continue
        if cur is not None and line.strip():
            cur[1].append(line)
    if cur is not None:
        out.append(cur)
    res = []
    for act, buf in out:
        chunks = []
        for line in buf:
            if line.startswith('/\\ '):
                chunks.append(line)
            elif chunks:
                chunks[-1] += '\n' + line
        st = {}
        for c in chunks:
            m = _CONJ.match(c)
            if m:
                st[m.group(1)] = parse_value(m.group(2))
        res.append((act, st))
    return res


def to_tla(v):
    """Python value -> TLA+ literal text (inverse of parse_value for the JSON-free path)."""
    if isinstance(v, bool):
        return 'TRUE' if v else 'FALSE'
    if isinstance(v, int):
        return str(v)
    if isinstance(v, str):
        return '"' + v.replace('\\', '\\\\').replace('"', '\\"') + '"'
    if isinstance(v, (tuple, list)):
        return '<<' + ', '.join(to_tla(x) for x in v) + '>>'
    if isinstance(v, (set, frozenset)):
        return '{' + ', '.join(to_tla(x) for x in sorted(v, key=repr)) + '}'
    if isinstance(v, dict):
        if all(isinstance(k, str) and re.match(r'^[A-Za-z_]\w*$', k) for k in v) and v:
            return '[' + ', '.join('%s |-> %s' % (k, to_tla(x)) for k, x in v.items()) + ']'
        if not v:
            return '<<>>'
        return '(' + ' @@ '.join('%s :> %s' % (to_tla(k), to_tla(x)) for k, x in v.items()) + ')'
    raise TypeError('cannot render %r' % (v,))


if __name__ == '__main__':
    import sys
    for st in iter_dump(sys.argv[1]):
        print(st)
