"""bin/setup: SANY-parse all modules, self-test tlaval, confirm pydl importable from /repo."""
import glob
import os
import sys
from concurrent.futures import ThreadPoolExecutor

from . import core, tlaval


def main():
    bad = 0
    mods = sorted(glob.glob(os.path.join(core.SPEC_DIR, '*.tla')) + glob.glob(os.path.join(core.MC_DIR, '*.tla')) +
                  glob.glob(os.path.join(core.TRACE_DIR, '*.tla')))
    with ThreadPoolExecutor(8) as ex:
        for path, (ok, out) in zip(mods, ex.map(core.sany, mods)):
            print('SANY %-40s %s' % (os.path.relpath(path, core.VERIF), 'ok' if ok else 'FAILED'))
            if not ok:
                bad += 1
                print(out[-1500:])
    v = tlaval.parse_value('[a |-> <<1, {2, 3}>>, b |-> (1 :> "x" @@ 5 :> "y\\"z"), c |-> TRUE, d |-> 2..4]')
    assert v == {'a': (1, frozenset({2, 3})), 'b': {1: 'x', 5: 'y"z'}, 'c': True, 'd': frozenset({2, 3, 4})}, v
    assert tlaval.parse_value(tlaval.to_tla({'a': (1, 2), 'b': 'q"'})) == {'a': (1, 2), 'b': 'q"'}
    sys.path.insert(0, core.VERIF)
    core.import_pydl()
    print('setup: %d modules, %d failed' % (len(mods), bad))
    sys.exit(1 if bad else 0)


if __name__ == '__main__':
    main()
