"""Regenerate MANIFEST.json from the table below:  /venv/bin/python -m harness.manifest"""
import json
import os

VERIF = os.path.dirname(os.path.dirname(os.path.abspath(__file__)))
ALL = ['C%02d' % i for i in range(1, 21)]

CHECKS = {
    'C01': dict(
        category='model_checking', design='DESIGN.md section 4 C01, Appendix A',
        technique='TLA+ spec of the format (Yanny: WriteDoc, SpecParse, Canon); TLC enumerates document families and checks SpecParse(WriteDoc(d))=Canon(d) plus '
                  'necessity witnesses for each excluded text class; every document written through pydl\'s three writer entry points and read back (compared with TLC\'s Canon and '
                  'bit for bit with the arrays written); the real writer\'s text is parsed by SpecParse in TLC (Trace_YannyRead) and must mean the document',
        text='Bounded-exhaustive over structure and character classes: all scalar strings of length <=3 (4 thorough) over {a, blank, tab, #, ;, {, }}, all element pairs of length <=2, '
             'all column lists of length <=2 (3) over 13 column kinds x 0..2 rows, table-name sets with substring/column-name collisions, header values of length <=3; '
             'supported/unsupported dtype kinds; numeric fidelity by value classes and seeded random bit patterns (sampled).',
        note='Trusted: TLC, character-list abstraction, numpy bit views. Numbers are opaque tokens in the spec, so float<->text fidelity is decided by the harness on bit patterns.'),
    'C02': dict(
        category='model_checking', design='DESIGN.md section 4 C02, Appendix A',
        technique='TLA+ spec of the parameter-file format (Yanny: reference reader SpecParse, Canon, Render* state machine); TLC enumerates renderings of '
                  'literal documents per style-dimension group and checks SpecParse(text)=Canon(doc); every complete rendering is read by pydl (path/text/binary/raw) '
                  'and compared with TLC\'s Canon; fixture files and re-layouts are parsed by SpecParse in TLC (Trace_YannyRead) and compared with pydl\'s result',
        text='Bounded-exhaustive per dimension group (cell quoting styles x name case x padding; line styles incl. CRLF, tabs, continuation, trailing comments, noise lines; '
             'typedef styles incl. one-line and <n>; all admissible item interleavings) over 5 literal documents, plus TLC simulation of the full product in thorough; '
             'the product of all dimensions is sampled, not exhausted.',
        note='Trusted: TLC, the character-list abstraction, the comparison of numeric cells by value of their token. The reading of the format is DESIGN.md Appendix A '
             '(the sdss.org specification is not available offline). Known finding D-C02-4 is reported, not suppressed.'),
    'C03': dict(
        category='model_checking', design='DESIGN.md section 4 C03',
        technique='TLA+ state machine (YannyFile: one action per call and outcome over files + object + history) model-checked by TLC with invariants Coherent/ModelCoherent and action '
                  'properties PrefixPreserved/NoClobber/NoCreateOnAppend/RefusalsChangeNothing; every TLC history replayed on real yanny objects and files; recorded random histories validated event by event by Trace_YannyFile',
        text='All histories of up to 3 (4 thorough) calls from {write-new, write-over-existing, write-no-name, append rows/pairs/mixed/empty, append-to-missing, external delete, re-read} over 2 files and 2 tables '
             '(one with a string column that needs quoting, one with an array column), normal and raw mode, lists and record arrays, upper/lower-case keys; two negative-control configurations must be refuted; '
             'random real histories of 4-12 calls are accepted only if each event is explained by one action with exactly the recorded post-state; corrupted/dropped events are shown to be rejected.',
        note='Trusted: TLC; the projection of object/files in c03.py (row = table + integer id, other cells checked against the id; comment runs collapsed to one token; byte-prefix measured on the real bytes).'),
    'C06': dict(
        category='model_checking', design='DESIGN.md section 4 C06',
        technique='TLA+ spec (IdLayout) of both bit layouts; TLC enumerates per-field sweeps/boundaries/rejections; '
                  'every TLC state replayed into the real functions; recorded random calls judged by Trace_IdLayout in TLC; '
                  'the layout laws for ALL in-range field tuples discharged symbolically by Apalache (apalache/IdLayoutArith.tla)',
        text='Bounded-exhaustive: every value of every field (others at both extremes), all boundary/one-hot patterns, all '
             'just-out-of-range values, all vN_M_P strings, in scalar/array/length-1/string conventions, compared bit for bit '
             'with the TLA+ Pack/Unpack; plus seeded random tuples judged by the spec. Joint variation of all fields is sampled in the binding to the code; '
             'at the specification level it is exhaustive (Apalache, unbounded integers: fits in 64 bits, round trip, injectivity for every tuple).',
        note='Trusted: TLC, the 20-line bit-set abstraction (int <-> set of bit positions). Values >= 2^31 are not representable in TLC and are not exercised.'),
    'C07': dict(
        category='model_checking', design='DESIGN.md section 4 C07',
        technique='TLA+ state machine (Maskbits: Load/Flagval/Flagname/Flagexist over a cache) with 12 invariants model-checked by TLC; every TLC '
                  'behaviour replayed against real .par files + sdss_flag*; recorded multi-load histories validated event by event by Trace_Maskbits',
        text='Bounded-exhaustive over maskbits files (every injective assignment of 3 labels to bit positions incl. 0/31/32/62/63, second group, aliases, '
             'row orders, case variants), every label subset/order/case, every value over defined+undefined bits, every existence query; load/reload histories; '
             'plus seeded random files (up to 8 groups x 64 labels) whose real call histories TLC accepts or rejects action by action.',
        note='Trusted: TLC, the .par renderer in c07.py, bit-set abstraction of uint64. File-side names upper case (as sdssMaskbits.par); repeated labels in one query not asserted.'),
    'C12': dict(
        category='model_checking', design='DESIGN.md section 4 C12',
        technique='TLA+ spec (Mangle: caps over exact rational unit vectors, polygon/window membership, SetUseCaps, three storage forms as data; 14 laws) enumerated by TLC; every TLC state replayed into '
                  'is_in_cap/is_in_polygon/is_in_window (in-memory, FITS raw, FITS converted, .ply, window_read balkans) and set_use_caps; recorded random rational geometry judged by Trace_Mangle',
        text='Bounded-exhaustive over a pool of 62 rational unit vectors (incl. points whose float self-dot exceeds 1) x 13 cm values: every cap, polygons of 0..2 (3) caps from a 10-cap pool with every use-mask '
             '(incl. bits beyond ncaps) and ncaps argument, windows of 1..2 (3) polygons in five storage routes, every in-precondition index list with duplicate / negative-duplicate / same-centre caps and all flags. '
             'Membership is decided exactly (rational margins far above rounding); exact boundary points are left undecided as the statement allows.',
        note='Trusted: TLC, the rational->float concretisation (normalised vectors), astropy FITS writing of the polygon tables from TLC\'s own data.'),
    'C14': dict(
        category='model_checking', design='DESIGN.md section 4 C14',
        technique='TLA+ spec (IdlBuiltins over exact rationals, every function phrased twice and TLC checks the phrasings agree, 39 laws); TLC enumerates arrays/widths/shapes; '
                  'every TLC state replayed into pydl.smooth/median/uniq/rebin; recorded random calls judged by Trace_IdlBuiltins',
        text='Bounded-exhaustive: all arrays over 4 values up to length 5 (7 thorough) x all widths x edge flag, all 3x3 (3x4) images, all sorted arrays and sorting permutations, '
             'all rebin shapes over dims {1,2,3,4,6} to rank 2 (3) with every integral target, both modes, rejection targets and the inexact-reciprocal factor family; exact rational comparison.',
        note='Trusted: TLC, Fraction(float) abstraction with 1e-12 (float64) tolerance. Integer-dtype rebin values are only demanded for sample=True (upstream documents integer arithmetic as not IDL-compatible).'),
    'C16': dict(
        category='model_checking', design='DESIGN.md section 4 C16',
        technique='TLA+ spec (ReadSpec: direct statement Specified(req) and the procedure Group/ReadFile/Append/Reorder as actions, SpecAppend transcribed; 14 invariants incl. Run(req)=Specified(req)) model-checked by TLC; '
                  'every final TLC state executed by the real readspec on a synthetic FITS tree written from TLC\'s own file contents; recorded random readspec/spec_append calls judged by Trace_ReadSpec',
        text='Bounded-exhaustive: every request vector of length <=3 (4 thorough) over 4 plate-MJD files x 3 fibres in 8 calling conventions, tree-location family, all-fibre calls, all spec_append shapes <=2x3 with shifts; '
             'random request vectors up to length 30 on a 9-file tree. Cell values encode (file, fibre, hdu, pixel), so row identity, no-shift, zero-pad and loglam are compared exactly.',
        note='Trusted: TLC, astropy FITS writing of the synthetic tree, value-encoding of cell identity. Intermediate states of readspec are observed only through its spec_append calls.'),
    'C17': dict(
        category='model_checking', design='DESIGN.md section 4 C17',
        technique='TLA+ spec (Reject: djs_reject set algebra, maskinterp over rationals, aesthetics, reflect median, skymask dilation; 41 laws) enumerated by TLC; '
                  'every TLC case replayed into the real functions in all calling conventions; recorded random calls (reject chains fed back until qdone) judged by Trace_Reject',
        text='Bounded-exhaustive: every (inmask, prev, violator sets, sticky, grow 0..3) for n<=4 (5-6 partially), thresholds on/around every limit, every mask for 1-3-D interpolation on every axis, '
             'every ivar zero pattern x 4 aesthetics methods, medians n<=7, skymask over flag patterns x ngrow x int16/int32/int64/uint64.',
        note='Trusted: TLC, exact abstraction of masks as position sets. Where the statement leaves the grow neighbourhood of inmask-excluded points open the spec accepts both readings. maxrej/group options outside the statement.'),
    'C18': dict(
        category='other', design='DESIGN.md section 4 C18, section 1 (no reals in TLA+)',
        technique='TLA+ spec (SkyGeom: stripe table, exact anchor points of the mu/nu rotation, exact-separation families over dyadic coordinates, 18 laws) enumerated by TLC and every case replayed into '
                  'gcirc / SDSSMuNu transforms / stripe_to_* / angles<->vectors; laws over recorded call histories (symmetry, range, never-NaN, agreement with an independent longdouble vector formula, '
                  'units agreement, round trip, isometry, nu=0 great circle) judged by TLC on harness-measured integer discrepancies with minimum instance counts',
        text='The spec decides the discrete part exactly (which stripes, which anchor images, which separations are exactly known, which law fires with which tolerance, non-vacuity counts); '
             'every closeness judgement is a float comparison made by the harness and handed to TLC as a scaled integer. That is why the level is "other" and not model_checking.',
        note='Trusted: TLC; numpy longdouble chord/atan2 oracle (error ~5e-8 relative at 1 micro-arcsec); position tolerances 1e-9 deg (1e-5 deg within 0.1 deg of an output pole) are harness choices. '
             'Two corners where IEEE doubles cannot reach relative 1e-6 from rounded radians are excluded by the spec predicate Resolvable and only checked for NaN/range/symmetry.'),
    'C19': dict(
        category='other', design='DESIGN.md section 4 C19, section 1 (no reals in TLA+)',
        technique='TLA+ spec (FluxConv: input-kind dispatch and 2000 A guard as an exact function over kinds x element patterns, AB offsets as integers in milli-mag, 10 laws) enumerated by TLC and every case '
                  'replayed into airtovac/vactoair/sdssflux2ab; laws over recorded call histories (inverse pair, vacuum>air, kind/unit invariance, input kept, filter_thru linear/constant/min-max/mask-independent) '
                  'judged by TLC on harness-measured integer discrepancies with minimum instance counts',
        text='The spec decides the discrete part exactly (answer form, which elements must be returned unchanged, array = map of scalar, which law fires, offsets in milli-mag, non-vacuity counts); '
             'every closeness judgement (1e-6 A for the inverses, harness-chosen 1e-9 relative for filter_thru and 1e-8 mag for sdssflux2ab where the statement gives none) is a float comparison made by the harness.',
        note='Trusted: TLC; the float classification and |x-y| measurements in c19.py. At exactly 2000 A both readings are accepted; float64 only.'),
    'C20': dict(
        category='fault_enumeration', design='DESIGN.md section 4 C20',
        technique='TLA+ state machine (EnvProtocol: save/mutate/steps-with-faults/restore) model-checked by TLC for every fault position and initial '
                  'environment; every terminal TLC state replayed as a fault injection into the real window_score/template_input; recorded event traces validated by Trace_EnvProtocol',
        text='Every failure point is enumerated, not sampled: the collaborator call sequence is recorded from fault-free runs of the real entry points, '
             'TLC explores an exception at every call k x every initial state of the touched variables x exception kind, and each terminal state is replayed '
             'against the real function with os.environ compared before/after; a negative-control config (restore on success only) must be refuted by TLC. '
             'In addition Apalache discharges an inductive invariant of the protocol for ANY number of collaborator calls (apalache/EnvProtocolInd.tla: 3 obligations, 1 negative control).',
        note='Trusted: the counting proxies in harness/faults.py (collaborators replaced in the module namespace; heavy stages are cheap fakes), '
             'so faults inside the real heavy stages are represented by the stage call raising. No double faults, no BaseException-only exceptions.'),
    'C04': dict(
        category='model_checking', design='DESIGN.md section 4 C04',
        technique='TLA+ spec (SphereMatch: Unlimited(result) and the greedy machine Consider/SkipBorder over a given closer-than relation with ranks and guard band; ChunkHash design model of the spatial hash with wrap and guard, with two negative controls TLC must refute) model-checked by TLC; every finished greedy behaviour run on the real spherematch with gcirc replaced by the rank table; every hash state run on the real chunks.assign/getbounds/get; real spherematch calls judged by Trace_SphereMatch against an independent longdouble oracle',
        text='Model-checked: the selection logic for every relation/ranking/ties with n1<=3, n2<=2 (3), maxmatch 0..2 (3), and the flat-lattice hash for ring<=16. Geometric completeness on the sphere is explored, not exhausted: edge-aimed sets (edges read from the real chunks object), points just beyond margin/cosDecMin, pole clamp, RA seam, polar caps, chains, lattices on chunk edges, all-sky, permutations, chunk sizes 1.01..10 x L and default, match lengths 1 arcsec..30 deg.',
        note='Trusted: TLC; the longdouble chord/atan2 oracle with guard band (1e-9 relative / 1e-12 deg: pairs inside it may be present or absent, ties in either order). Calls whose chunk grid would exceed 40,000 cells are skipped.'),
    'C05': dict(
        category='model_checking', design='DESIGN.md section 4 C05',
        technique="TLA+ spec (FoF: components by the chain relation; groups.__init__ and chunks.friendsoffriends transcribed as step functions/actions; 16 invariants incl. mapGroups[i]<=i) model-checked over all graphs x chunk covers; every (graph, cover) replayed through the real chunks.friendsoffriends/groups/renumbering; real spheregroup runs judged by Trace_FoF against the spec's components",
        text='Bounded-exhaustive: all graphs on 2..5 points x covers of up to 3 (5 for tiny n) chunks satisfying the margin assumption, plus a deep family of 5-chunk covers; real spheregroup on chains across chunks, seam clusters, polar caps (incl. Dec=+-90), lattices, all-sky, permutations and chunk sizes with links from an independent longdouble oracle (guard band; TLC tries every resolution of borderline pairs).',
        note='Trusted: TLC; the longdouble chord/atan2 separation oracle; the subclass that sets the chunk layout to the cover for replay. The order in which next[] visits members is left open as in the statement.'),
    'C08': dict(
        category='model_checking', design='DESIGN.md section 4 C08',
        technique='TLA+ spec (BSplineBasis over exact rationals: knot construction per option, Cox-de Boor defined twice and TLC checks agreement, evaluation bookkeeping; 10 laws) enumerated by TLC; every case replayed into bspline(...), value(), intrv(), bsplvn(); recorded random constructor/evaluation calls on dyadic grids judged by Trace_BSplineBasis',
        text='Bounded-exhaustive: orders 1..6 x every increasing integer breakpoint set within 0..4 (0..6) x half/third-integer points in every order, repeated breakpoints, arbitrary stored knot vectors, option sweeps (bkspace, nbkpts, everyn 1..N+1, all 128 placed subsets) on grids/reversed/shuffled/clustered/tied data; values compared to 1e-10, knots to 1e-6 relative (float32 storage).',
        note="Trusted: TLC; dyadic-rational concretisation (exact in float). Random non-dyadic floats are outside TLC's 32-bit integers and are not exercised. A point on a breakpoint may take the value of either neighbouring cell (open in the statement for order 1)."),
    'C09': dict(
        category='model_checking', design='DESIGN.md section 4 C09',
        technique='TLA+ spec (BSplineFit: banded Cholesky from exact integer factors with the band-storage mapping, tiny-fit optimum by Cramer over rationals, polynomial reproduction, failure-as-status machine FitOK/FitDrop/FitFail) model-checked by TLC; every case/machine state replayed into cholesky_band/cholesky_solve/bspline.fit; recorded fit/iterfit histories validated event by event; float law instances (lstsq agreement, zero-weight invariance, linearity) judged by TLC on measured discrepancies',
        text='Bounded-exhaustive for the discrete parts: integer factors n<=3 fully (4..8 sampled by formula), bandwidth 1..6 with indefinite/non-finite variants; fits with <=3 coefficients; support patterns over <=5 cells x orders 1..4. Optimality beyond 3 coefficients and on float data is exploration (independent dense lstsq).',
        note='Trusted: TLC; numpy.linalg.lstsq as independent solver for the float law instances (tolerance 2e-6, measured <=1e-9). Where detection of too-few-data happens at rounding level any documented status is accepted but coefficients must be finite.'),
    'C10': dict(
        category='model_checking', design='DESIGN.md section 4 C10',
        technique="TLA+ state machine (IterFit: Sort/Fit/Reject/LoopOrExit/Unsort/Return with an oracle for residuals; 11 laws, two-run composition for permutation invariance) model-checked by TLC; every finished TLC behaviour executed on the real iterfit+djs_reject with bspline.fit replaced by that behaviour's oracle; real iterfit runs recorded through proxies and validated event by event by Trace_IterFit",
        text="Exhaustive for n<=3 (5 in chains/pairs): every caller order, weighted subset, maxiter, limit pair and step-by-step oracle answer; real runs on 60-400 points with outliers, zero/negative weights, ties, orders 2-4, all breakpoint options, each in 4 caller orders, with an independent lstsq over the harness's own Cox-de Boor basis supplying the residual oracle (guard band) and the final-curve comparison.",
        note='Trusted: TLC; the recording proxies; the independent solver for residual classes and for "returned curve equals the fit to the last fitted set" (harness-evaluated numeric relation, tolerance 1e-3 sigma).'),
    'C11': dict(
        category='model_checking', design='DESIGN.md section 4 C11',
        technique='TLA+ spec (Resample over exact rationals: MustBeZero by bracketing, InterpIvar, LocalMax, growth model, redshift index; 12 laws) enumerated by TLC; every case realised on a real log-lambda grid and run through combine1fiber; recorded realistic spectra judged by Trace_Resample (zero-set containment, interpolation, law instances for identity/constant/scaling/redshift as scaled integers)',
        text='Bounded-exhaustive for the zero-set/finite/shape/interpolated-ivar claims: all 1024 (4096) good-patterns x 14 output grids, inflated x10 and two-exposure families; the numeric laws (identity to interpolation accuracy, constant, scaling, redshift shift) are harness-measured and judged by TLC against thresholds stated in the spec.',
        note='Trusted: TLC; the rational<->grid concretisation (equal rationals give bit-identical floats). An output pixel exactly on an isolated good input pixel is accepted either way (the literal bracket reading would flag behaviour no maintainer would change).'),
    'C13': dict(
        category='model_checking', design='DESIGN.md section 4 C13',
        technique='TLA+ spec (TraceSetPoly over exact rationals: each basis defined three ways and TLC checks agreement, fit by weighted normal equations, fixed coefficients, xnorm with the BOSS jump, default grid; 22 laws) enumerated by TLC; every case replayed into flegendre/fchebyshev/fpoly/fchebyshev_split, func_fit, TraceSet/xy2traceset/traceset2xy in several calling conventions; recorded random calls judged by Trace_TraceSetPoly (exact kinds + lstsq law instances)',
        text='Bounded-exhaustive: every (basis, order<=12, abscissa with denominator<=8) that fits 32 bits; fits over 6 abscissa sets x coefficient vectors {-2..2}^nc, all fixed masks, all zero-weight subsets, inexact data; trace-set layouts with per-trace ranges and 6 jump kinds. General weighted least squares on float data is exploration (numpy lstsq).',
        note='Trusted: TLC; Fraction comparison at 1e-9 (float64) / 1e-4 (float32); numpy.polynomial vandermonde + lstsq as independent solver for the float law instances.'),
    'C15': dict(
        category='model_checking', design='DESIGN.md section 4 C15',
        technique='TLA+ spec (LinSolve: exact WLS by Cramer over rationals with 9 laws, exact scatter-matrix laws for pcomp, exact alternating HMF updates on tiny integer data, HMF protocol machine with chi-square non-increase as action property) model-checked by TLC; every state replayed into computechi2/pcomp/HMF.astep/gstep; recorded computechi2/pcomp/pca_solve calls and HMF traces (stepped and full iterate runs, same-seed twins) judged by Trace_LinSolve',
        text="Exhaustive for small integer systems (N<=5, M<=3, zero weights, three calling conventions) with exact rational comparison; HMF/pca_solve/pcomp identities on realistic float matrices are harness-measured scaled integers judged by the spec's laws (gradient vanishes, chi-square never increases, unit rms, seed determinism, inputs untouched, projections, eigenvalue order, use-mask).",
        note='Trusted: TLC; float->rational abstraction with denominator<=1e4 for recorded calls. Exact HMF chains stop after two updates (32-bit integers); longer iterations are covered by float traces only. ctx.assumptions lists the harness-evaluated sub-claims.'),
}

PENDING_REASON = 'check not built yet in this round (planned in DESIGN.md section 4); not claimed until its spec, replay and evidence exist'


def main():
    checks = []
    for pid in ALL:
        if pid not in CHECKS:
            continue
        c = CHECKS[pid]
        checks.append({
            'property_id': pid,
            'quick_cmd': 'bin/check %s --tier quick' % pid,
            'thorough_cmd': 'bin/check %s --tier thorough' % pid,
            'evidence_file': 'evidence/%s.json' % pid,
            'replay_cmd_template': 'bin/check %s --replay {path}' % pid,
            'engine': 'tlc',
            'level_claimed': {'category': c['category'], 'text': c['text'], 'design_ref': c['design']},
            'level_note': c['note'],
            'technique': c['technique'],
        })
    m = {
        'version': 1,
        'setup_cmd': 'bin/setup',
        'hooks': {
            'guard': 'PYDL_VERIF',
            'enable': 'bin/check exports PYDL_VERIF=1; pydl is pure Python imported from /repo (editable), nothing to rebuild',
            'baseline_off_cmd': 'cd /repo && env -u PYDL_VERIF /venv/bin/python -m pytest -ra -q -p no:cacheprovider --timeout=900 --continue-on-collection-errors',
            'source_commits': [],
            'add_only': True,
        },
        'engines': [{'name': 'tlc', 'path': '/opt/veriftools/tla/tla2tools.jar',
                     'serves_properties': sorted(CHECKS),
                     'kind_free_text': 'explicit TLA+ specification (spec/*.tla) model-checked by TLC (mc/*.cfg); '
                                       'TLC-generated states/behaviours replayed into pydl and recorded pydl executions validated by TLC (trace/*.tla)'}],
        'checks': checks,
        'notes': 'See DESIGN.md. known_findings.json lists genuine defects (fixed ones with their fix: commit).',
        'not_applicable': [{'property_id': p, 'reason': NA.get(p, PENDING_REASON)} for p in ALL if p not in CHECKS],
    }
    with open(os.path.join(VERIF, 'MANIFEST.json'), 'w') as fh:
        json.dump(m, fh, indent=1)
    print('MANIFEST.json: %d checks, %d not_applicable' % (len(checks), len(m['not_applicable'])))


NA = {}

if __name__ == '__main__':
    main()
