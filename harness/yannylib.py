"""Abstraction / concretisation for the yanny specs (C01-C03): text <-> list of characters,
pydl yanny object -> the shape of Yanny!SpecParse's result, and the comparison of the two."""
import math
import struct

import numpy as np

INT_BASES = {'short': 'i2', 'int': 'i4', 'long': 'i8'}
FLT_BASES = {'float': 'f4', 'double': 'f8'}


def chars(s):
    return list(s)


def text(cs):
    return ''.join(cs)


def same_float(a, b, width):
    """bit-identical in the declared width (NaN == NaN)."""
    if width == 4:
        pa, pb = struct.pack('<f', np.float32(a)), struct.pack('<f', np.float32(b))
    else:
        pa, pb = struct.pack('<d', float(a)), struct.pack('<d', float(b))
    if math.isnan(float(a)) and math.isnan(float(b)):
        return True
    return pa == pb


def cell_equal(base, spec_cell, real_cell, is_enum):
    """spec_cell: tuple of chars (scalar) ; real_cell: python/numpy scalar or bytes/str."""
    s = text(spec_cell)
    if base in INT_BASES:
        try:
            r = real_cell
            if isinstance(r, bytes):
                r = r.decode('ascii')
            if isinstance(r, (float, np.floating)) and r != int(r):
                return False          # a fractional value in an integer column
            return int(s) == int(r)   # exact: 64-bit values are not passed through a double
        except (ValueError, OverflowError):
            return False
    if base in FLT_BASES:
        try:
            return same_float(float(s), real_cell, 4 if base == 'float' else 8)
        except ValueError:
            return False
    if isinstance(real_cell, bytes):
        real_cell = real_cell.decode('ascii')
    return s == str(real_cell)


def compare(res, par, raw=False, check_pairs=True):
    """res: SpecParse result (python form of the TLC value); par: a pydl yanny object.
    Returns a list of human-readable differences (empty = equal).  Total: an object in a state
    that cannot even be inspected (ragged columns, missing keys) is a difference, not a crash."""
    try:
        return _compare(res, par, raw, check_pairs)
    except Exception as ex:  # noqa
        return ['object cannot be inspected: %s: %s' % (type(ex).__name__, str(ex)[:150])]


def _compare(res, par, raw=False, check_pairs=True):
    diffs = []
    if check_pairs:
        want = [(text(k), text(v)) for k, v in res['pairs']]
        # a repeated key keeps its first position and takes the last value (dictionary semantics)
        merged = {}
        for k, v in want:
            merged[k] = v
        got = [(k, str(par[k])) for k in par.pairs()]
        if got != list(merged.items()):
            diffs.append('pairs: spec %r, real %r' % (list(merged.items()), got))
    if check_pairs:
        # Yanny!PairDict: new_dict_from_pairs() = keys in first-occurrence order, last value wins
        nd = par.new_dict_from_pairs()
        if [(k, str(v)) for k, v in nd.items()] != list(merged.items()):
            diffs.append('new_dict_from_pairs: spec %r real %r' % (list(merged.items()), list(nd.items())))
    tabs = list(res['tables'])
    names = [text(t['name']) for t in tabs]
    if list(par.tables()) != names:
        diffs.append('tables: spec %r, real %r' % (names, list(par.tables())))
        return diffs
    enum_names = {text(e['name']) for e in res['enums']}
    for t in tabs:
        name = text(t['name'])
        cols = list(t['cols'])
        cnames = [text(c['name']) for c in cols]
        if list(par.columns(name)) != cnames:
            diffs.append('%s columns: spec %r, real %r' % (name, cnames, list(par.columns(name))))
            continue
        nrows = len(t['rows'])
        try:
            size = par.size(name)
        except Exception as ex:  # noqa
            diffs.append('%s size() raised %r' % (name, ex))
            continue
        if size != nrows:
            diffs.append('%s rows: spec %d, real %d' % (name, nrows, size))
            continue
        data = par[name]
        for ci, c in enumerate(cols):
            cn = cnames[ci]
            base = text(c['base'])
            is_enum = base in enum_names
            alen = c['alen']
            # declared type as the object reports it
            if par.basetype(name, cn) != base:
                diffs.append('%s.%s base type: spec %s, real %s' % (name, cn, base, par.basetype(name, cn)))
            if bool(par.isarray(name, cn)) != (alen > 0) or (alen > 0 and par.array_length(name, cn) != alen):
                diffs.append('%s.%s array-ness/length differs (spec alen=%d)' % (name, cn, alen))
            if not raw:
                dt = data.dtype[cn]
                sub = dt.subdtype
                bdt = sub[0] if sub else dt
                shape = sub[1] if sub else ()
                if shape != ((alen,) if alen > 0 else ()):
                    diffs.append('%s.%s shape: spec %r real %r' % (name, cn, alen, shape))
                if base in INT_BASES or base in FLT_BASES:
                    exp = np.dtype(INT_BASES.get(base) or FLT_BASES.get(base))
                    if bdt != exp:
                        diffs.append('%s.%s dtype: spec %s real %s' % (name, cn, exp, bdt))
                elif base == 'char':
                    w = t['width'][ci]
                    if bdt.kind != 'S' or (bdt.itemsize != w and not (w == 0 and bdt.itemsize <= 1)):
                        diffs.append('%s.%s char width: spec %d real %s' % (name, cn, w, bdt))
                elif bdt.kind != 'S':
                    diffs.append('%s.%s enum column dtype %s' % (name, cn, bdt))
            col = data[cn]
            # Yanny!RowOf / ListOfDicts: the accessors agree with the table itself
            if ci == 0:
                if par.row(name, -1) != [] or par.row(name, nrows) != []:
                    diffs.append('%s row() out of range is not empty' % name)
                lod = par.list_of_dicts(name)
                if len(lod) != nrows or any(list(d.keys()) != cnames for d in lod):
                    diffs.append('%s list_of_dicts() shape: %d rows, keys %r' % (name, len(lod), [list(d.keys()) for d in lod[:1]]))
                for ri in range(nrows):
                    rw = par.row(name, ri)
                    if len(rw) != len(cols):
                        diffs.append('%s row(%d) has %d cells' % (name, ri, len(rw)))
                        continue
                    for cj, cc in enumerate(cols):
                        bj = text(cc['base'])
                        scj = t['rows'][ri][cj]
                        okj = (len(scj) == len(rw[cj]) and all(cell_equal(bj, a, b, False) for a, b in zip(scj, rw[cj]))) \
                            if cc['alen'] > 0 else cell_equal(bj, scj, rw[cj], False)
                        if not okj:
                            diffs.append('%s row(%d)[%d]: spec %r real %r' % (name, ri, cj, scj, rw[cj]))
            for ri in range(nrows):
                sc = t['rows'][ri][ci]
                rc = col[ri]
                if raw and alen == 0 and isinstance(rc, (list, np.ndarray)):
                    diffs.append('%s.%s[%d] raw scalar is a sequence' % (name, cn, ri))
                    continue
                if alen > 0:
                    ok = len(sc) == len(rc) and all(cell_equal(base, a, b, is_enum) for a, b in zip(sc, rc))
                    if raw and not isinstance(rc, list):
                        ok = False
                else:
                    ok = cell_equal(base, sc, rc, is_enum)
                if not ok:
                    diffs.append('%s.%s[%d]: spec %r real %r' % (name, cn, ri,
                                 [text(x) for x in sc] if alen > 0 else text(sc), rc))
    return diffs


def num_equal(base, a, b):
    """a, b: token texts of one numeric cell."""
    if base in INT_BASES:
        try:
            return int(a) == int(b)
        except ValueError:
            return False
    try:
        return same_float(float(a), float(b), 4 if base == 'float' else 8)
    except ValueError:
        return False


def compare_res(want, got, check_pairs=True):
    """Both arguments are SpecParse-shaped values produced by TLC (want = Canon(doc), got = SpecParse(text
    the real writer produced)).  Strings must be equal, numeric tokens equal by value."""
    diffs = []
    if check_pairs and [(text(k), text(v)) for k, v in want['pairs']] != [(text(k), text(v)) for k, v in got['pairs']]:
        diffs.append('pairs: want %r got %r' % ([(text(k), text(v)) for k, v in want['pairs']], [(text(k), text(v)) for k, v in got['pairs']]))
    wn = [text(t['name']) for t in want['tables']]
    gn = [text(t['name']) for t in got['tables']]
    if wn != gn:
        return diffs + ['tables: want %r got %r' % (wn, gn)]
    # a declaration repeated verbatim (one per enum column) declares the same type: compare as sets
    if {(text(e['name']), tuple(text(l) for l in e['labels'])) for e in want['enums']} != \
            {(text(e['name']), tuple(text(l) for l in e['labels'])) for e in got['enums']}:
        diffs.append('enum definitions differ')
    for tw, tg in zip(want['tables'], got['tables']):
        name = text(tw['name'])
        cw = [(text(c['name']), text(c['base']), c['alen']) for c in tw['cols']]
        cg = [(text(c['name']), text(c['base']), c['alen']) for c in tg['cols']]
        if cw != cg:
            diffs.append('%s columns: want %r got %r' % (name, cw, cg))
            continue
        if tuple(tw['width']) != tuple(tg['width']):
            diffs.append('%s char widths: want %r got %r' % (name, tuple(tw['width']), tuple(tg['width'])))
        if len(tw['rows']) != len(tg['rows']):
            diffs.append('%s rows: want %d got %d' % (name, len(tw['rows']), len(tg['rows'])))
            continue
        for ri, (rw, rg) in enumerate(zip(tw['rows'], tg['rows'])):
            for ci, (cname, base, alen) in enumerate(cw):
                a, b = rw[ci], rg[ci]
                numeric = base in INT_BASES or base in FLT_BASES
                if alen > 0:
                    ok = len(a) == len(b) and all((num_equal(base, text(x), text(y)) if numeric else text(x) == text(y))
                                                  for x, y in zip(a, b))
                else:
                    ok = num_equal(base, text(a), text(b)) if numeric else text(a) == text(b)
                if not ok:
                    diffs.append('%s.%s[%d]: want %r got %r' % (name, cname, ri, a, b))
    return diffs


def typed_header_value(t):
    """Concretise a header value text as the Python object whose str() is exactly that text, when there is one
    (0, 0.0, -0.0, False, None, True, ints, floats); otherwise the text itself.  The property demands that the value
    read back equals the text form of what was supplied."""
    for obj in (False, True, None):
        if str(obj) == t:
            return obj
    for conv in (int, float):
        try:
            obj = conv(t)
        except ValueError:
            continue
        if str(obj) == t:
            return obj
    return t


def doc_to_arrays(doc, unicode_strings=False):
    """Concretise a spec document: one numpy record array per struct (+ enums dict, header dict, names)."""
    from collections import OrderedDict
    enum_defs = {text(e['name']): [text(l) for l in e['labels']] for e in doc['enums']}
    names, arrays, enums = [], [], {}
    for si, s in enumerate(doc['structs']):
        dt = []
        for c in s['cols']:
            base = text(c['base'])
            cn = text(c['name'])
            if base in INT_BASES:
                b = INT_BASES[base]
            elif base in FLT_BASES:
                b = FLT_BASES[base]
            elif base == 'char':
                b = '%s%d' % ('U' if unicode_strings else 'S', max(c['clen'], 1))
            else:
                b = '%s%d' % ('U' if unicode_strings else 'S', max(len(l) for l in enum_defs[base]))
                enums[cn] = (base, tuple(enum_defs[base]))
            dt.append((cn, b, (c['alen'],)) if c['alen'] > 0 else (cn, b))
        rows = [r['cells'] for r in doc['rows'] if r['t'] == si + 1]
        arr = np.zeros((len(rows),), dtype=np.dtype(dt))
        for ri, cells in enumerate(rows):
            for ci, c in enumerate(s['cols']):
                base = text(c['base'])
                cn = text(c['name'])
                conv = (lambda x: int(text(x))) if base in INT_BASES else \
                    (lambda x: float(text(x))) if base in FLT_BASES else \
                    ((lambda x: text(x)) if unicode_strings else (lambda x: text(x).encode('ascii')))
                if c['alen'] > 0:
                    arr[cn][ri] = [conv(x) for x in cells[ci]]
                else:
                    arr[cn][ri] = conv(cells[ci])
        names.append(text(s['name']))
        arrays.append(arr)
    hdr = OrderedDict((text(k), typed_header_value(text(v))) for k, v in doc['pairs'])
    return names, arrays, (enums or None), (hdr or None)


# ---- binding self-test: a falsified expectation must be reported ---------------------------------

def _thaw(v):
    if isinstance(v, dict):
        return {k: _thaw(x) for k, x in v.items()}
    if isinstance(v, (tuple, list)):
        return [_thaw(x) for x in v]
    return v


def _bump(cell):
    """A different cell text: last character replaced by another digit / letter (cells are character sequences)."""
    cell = list(cell)
    if not cell:
        return ['x']
    last = cell[-1]
    cell[-1] = '7' if last != '7' else '3'
    return cell


def falsify(res, mode):
    """Return a copy of a SpecParse/Canon value that differs from `res` in one place, or None when the mode does not
    apply (e.g. no rows).  Modes: 0 pair value, 1 drop the last row, 2 one cell, 3 a column name, 4 an extra pair."""
    r = _thaw(res)
    tabs = r['tables']
    if mode == 0:
        if not r['pairs']:
            return None
        r['pairs'][-1][1] = _bump(r['pairs'][-1][1])
    elif mode == 1:
        t = [t for t in tabs if t['rows']]
        if not t:
            return None
        t[-1]['rows'].pop()
    elif mode == 2:
        t = [t for t in tabs if t['rows'] and t['cols']]
        if not t:
            return None
        t = t[0]
        ci = len(t['cols']) - 1
        cell = t['rows'][0][ci]
        if t['cols'][ci]['alen'] > 0:
            if not cell:
                return None
            cell[0] = _bump(cell[0])
        else:
            t['rows'][0][ci] = _bump(cell)
    elif mode == 3:
        t = [t for t in tabs if t['cols']]
        if not t:
            return None
        t[0]['cols'][0]['name'] = list(t[0]['cols'][0]['name']) + ['q']
    else:
        r['pairs'].append([['z', 'z', 'q'], ['1']])
    return r


def comparator_selftest(ctx, accepted, reader, what, limit=60):
    """accepted: [(text, expected value)] the comparison found equal.  Each is re-read with the expectation falsified
    in one place; a falsified expectation that still compares equal means the comparison is vacuous there: exit 2."""
    from . import core
    tried = missed = 0
    for k, (txt, res) in enumerate(accepted[:limit]):
        bad = falsify(res, k % 5)
        if bad is None:
            continue
        par = reader(txt)
        tried += 1
        if not compare(bad, par):
            missed += 1
            example = (k % 5, txt[:200])
    ctx.cov['parts']['selftest_' + what] = {'falsified_expectations': tried, 'reported': tried - missed}
    if tried < 5:
        raise core.MachineryError('comparator self-test (%s): only %d falsified expectations' % (what, tried))
    if missed:
        raise core.MachineryError('comparator self-test (%s): %d of %d falsified expectations compared equal, e.g. mode %d text %r'
                                  % (what, missed, tried, example[0], example[1]))
