"""Abstraction / concretisation for the yanny specs (C01-C03): text <-> list of characters,
pydl yanny object -> the shape of Yanny!SpecParse's result, and the comparison of the two."""
import math
import struct

import numpy as np

INT_BASES = {'short': 'i2', 'int': 'i4', 'long': 'i8'}
FLT_BASES = {'float': 'f4', 'double': 'f8'}


def chars(s):
    return list(s)


def text(cs):
    return ''.join(cs)


def same_float(a, b, width):
    """bit-identical in the declared width (NaN == NaN)."""
    if width == 4:
        pa, pb = struct.pack('<f', np.float32(a)), struct.pack('<f', np.float32(b))
    else:
        pa, pb = struct.pack('<d', float(a)), struct.pack('<d', float(b))
    if math.isnan(float(a)) and math.isnan(float(b)):
        return True
    return pa == pb


def cell_equal(base, spec_cell, real_cell, is_enum):
    """spec_cell: tuple of chars (scalar) ; real_cell: python/numpy scalar or bytes/str."""
    s = text(spec_cell)
    if base in INT_BASES:
        try:
            return int(s) == int(real_cell) and float(real_cell) == int(real_cell)
        except (ValueError, OverflowError):
            return False
    if base in FLT_BASES:
        try:
            return same_float(float(s), real_cell, 4 if base == 'float' else 8)
        except ValueError:
            return False
    if isinstance(real_cell, bytes):
        real_cell = real_cell.decode('ascii')
    return s == str(real_cell)


def compare(res, par, raw=False, check_pairs=True):
    """res: SpecParse result (python form of the TLC value); par: a pydl yanny object.
    Returns a list of human-readable differences (empty = equal)."""
    diffs = []
    if check_pairs:
        want = [(text(k), text(v)) for k, v in res['pairs']]
        # a repeated key keeps its first position and takes the last value (dictionary semantics)
        merged = {}
        for k, v in want:
            merged[k] = v
        got = [(k, str(par[k])) for k in par.pairs()]
        if got != list(merged.items()):
            diffs.append('pairs: spec %r, real %r' % (list(merged.items()), got))
    tabs = list(res['tables'])
    names = [text(t['name']) for t in tabs]
    if list(par.tables()) != names:
        diffs.append('tables: spec %r, real %r' % (names, list(par.tables())))
        return diffs
    enum_names = {text(e['name']) for e in res['enums']}
    for t in tabs:
        name = text(t['name'])
        cols = list(t['cols'])
        cnames = [text(c['name']) for c in cols]
        if list(par.columns(name)) != cnames:
            diffs.append('%s columns: spec %r, real %r' % (name, cnames, list(par.columns(name))))
            continue
        nrows = len(t['rows'])
        try:
            size = par.size(name)
        except Exception as ex:  # noqa
            diffs.append('%s size() raised %r' % (name, ex))
            continue
        if size != nrows:
            diffs.append('%s rows: spec %d, real %d' % (name, nrows, size))
            continue
        data = par[name]
        for ci, c in enumerate(cols):
            cn = cnames[ci]
            base = text(c['base'])
            is_enum = base in enum_names
            alen = c['alen']
            # declared type as the object reports it
            if par.basetype(name, cn) != base:
                diffs.append('%s.%s base type: spec %s, real %s' % (name, cn, base, par.basetype(name, cn)))
            if bool(par.isarray(name, cn)) != (alen > 0) or (alen > 0 and par.array_length(name, cn) != alen):
                diffs.append('%s.%s array-ness/length differs (spec alen=%d)' % (name, cn, alen))
            if not raw:
                dt = data.dtype[cn]
                sub = dt.subdtype
                bdt = sub[0] if sub else dt
                shape = sub[1] if sub else ()
                if shape != ((alen,) if alen > 0 else ()):
                    diffs.append('%s.%s shape: spec %r real %r' % (name, cn, alen, shape))
                if base in INT_BASES or base in FLT_BASES:
                    exp = np.dtype(INT_BASES.get(base) or FLT_BASES.get(base))
                    if bdt != exp:
                        diffs.append('%s.%s dtype: spec %s real %s' % (name, cn, exp, bdt))
                elif base == 'char':
                    w = t['width'][ci]
                    if bdt.kind != 'S' or (bdt.itemsize != w and not (w == 0 and bdt.itemsize <= 1)):
                        diffs.append('%s.%s char width: spec %d real %s' % (name, cn, w, bdt))
                elif bdt.kind != 'S':
                    diffs.append('%s.%s enum column dtype %s' % (name, cn, bdt))
            col = data[cn]
            for ri in range(nrows):
                sc = t['rows'][ri][ci]
                rc = col[ri]
                if raw and alen == 0 and isinstance(rc, (list, np.ndarray)):
                    diffs.append('%s.%s[%d] raw scalar is a sequence' % (name, cn, ri))
                    continue
                if alen > 0:
                    ok = len(sc) == len(rc) and all(cell_equal(base, a, b, is_enum) for a, b in zip(sc, rc))
                    if raw and not isinstance(rc, list):
                        ok = False
                else:
                    ok = cell_equal(base, sc, rc, is_enum)
                if not ok:
                    diffs.append('%s.%s[%d]: spec %r real %r' % (name, cn, ri,
                                 [text(x) for x in sc] if alen > 0 else text(sc), rc))
    return diffs
