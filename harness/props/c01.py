"""C01 - tables and header pairs written to a parameter file read back unchanged.
Spec: spec/Yanny.tla; MC: mc/MC_YannyDoc (document families, SpecParse(WriteDoc(d)) = Canon(d), witnesses);
code -> spec: the text the REAL writer put on disk is parsed by the reference reader in TLC (Trace_YannyRead)."""
import os
import random
import struct

import numpy as np

from .. import core
from .. import tlaval
from .. import yannylib as Y

_registered = [False]


def register_table_io():
    if _registered[0]:
        return
    from astropy.table import Table
    from astropy.io.registry import register_identifier, register_reader, register_writer
    from pydl.pydlutils.yanny import is_yanny, read_table_yanny, write_table_yanny
    for fn, args in ((register_identifier, ('yanny', Table, is_yanny)), (register_reader, ('yanny', Table, read_table_yanny)),
                     (register_writer, ('yanny', Table, write_table_yanny))):
        try:
            fn(*args)
        except Exception:  # already registered
            pass
    _registered[0] = True


def arrays_identical(a, b):
    """Same dtype layout (kinds, widths, shapes, names) and bit-identical content (NaN == NaN)."""
    if a.dtype.names != b.dtype.names or len(a) != len(b):
        return 'names/length differ: %r/%d vs %r/%d' % (a.dtype.names, len(a), b.dtype.names, len(b))
    for n in a.dtype.names:
        da, db = a.dtype[n], b.dtype[n]
        ba = da.subdtype[0] if da.subdtype else da
        if ba.kind == 'U':
            # text columns given as str (numpy 'U', what astropy Tables hold): the file format has one string type, so
            # they read back as bytes of the same width IN CHARACTERS and the same text
            want = np.dtype((('S%d' % (ba.itemsize // 4)), da.subdtype[1])) if da.subdtype else np.dtype('S%d' % (ba.itemsize // 4))
            if db != want:
                return 'column %s: wrote %s, read %s (expected %s)' % (n, da, db, want)
            if not np.all(np.char.encode(np.asarray(a[n]), 'ascii') == np.asarray(b[n])):
                return 'column %s values differ: wrote %r read %r' % (n, a[n].tolist(), b[n].tolist())
            continue
        if da != db:
            return 'column %s dtype %s vs %s' % (n, da, db)
        x, y = np.asarray(a[n]), np.asarray(b[n])
        base = da.subdtype[0] if da.subdtype else da
        if base.kind == 'f':
            u = {4: np.uint32, 8: np.uint64}[base.itemsize]
            xb, yb = x.view(u), y.view(u)
            same = (xb == yb) | (np.isnan(x) & np.isnan(y))
        else:
            same = (x == y)
        if not np.all(same):
            return 'column %s values differ: wrote %r read %r' % (n, x.tolist(), y.tolist())
    return None


def write_and_read(ctx, st, texts, tag):
    """Write one spec document through the real writers, read back through the real readers."""
    from pydl.pydlutils.yanny import yanny, write_ndarray_to_yanny, write_table_yanny, read_table_yanny
    from astropy.table import Table
    doc, canon = st['doc'], st['canon']
    # every third document hands its text columns over as str ('U') instead of bytes ('S'): same values, same file
    uni = tag.isdigit() and int(tag) % 3 == 1
    names, arrays, enums, hdr = Y.doc_to_arrays(doc, unicode_strings=uni)
    problems = []
    path = os.path.join(ctx.scratch, 'w_%s.par' % tag)
    if os.path.exists(path):
        os.remove(path)
    try:
        par0 = write_ndarray_to_yanny(path, arrays if len(arrays) != 1 else arrays[0], structnames=names if len(names) != 1 else names[0],
                                      enums=enums, hdr=hdr)
    except Exception as ex:
        return ['write_ndarray_to_yanny raised %s: %s' % (type(ex).__name__, str(ex)[:150])], None
    ctx.evaluated(1, 'write_ndarray')
    with open(path, newline='') as fh:
        txt = fh.read()
    texts.append((txt, canon, 'ndarray writer, %s' % tag))
    for label, par in (('returned object', par0), ('fresh read', None)):
        try:
            p = par if par is not None else yanny(path)
            d = Y.compare(canon, p)
        except Exception as ex:
            d = ['reader raised %s: %s' % (type(ex).__name__, str(ex)[:150])]
        if d:
            problems.append('%s: %s' % (label, '; '.join(d[:3])))
    # what was read must also be bit-identical to the arrays that were written (not only to their text)
    try:
        p = yanny(path)
        for n, a in zip(names, arrays):
            back = np.asarray(p[n.upper()])
            why = arrays_identical(a, back) if len(a) or len(back) else (None if a.dtype.names == back.dtype.names else 'zero-row columns differ')
            if why and not enums:
                problems.append('round trip of %s: %s' % (n, why))
    except Exception as ex:
        problems.append('reader raised %s' % ex)
    # astropy Table entry points (single table, no enum columns)
    if len(arrays) == 1 and not enums:
        register_table_io()
        t = Table(arrays[0])
        if hdr:
            t.meta = dict(hdr)
        for way in ('function', 'registry'):
            p2 = os.path.join(ctx.scratch, 't_%s_%s.par' % (tag, way))
            if os.path.exists(p2):
                os.remove(p2)
            try:
                if way == 'function':
                    write_table_yanny(t, p2, tablename=names[0])
                    t2 = read_table_yanny(p2, tablename=names[0])
                else:
                    t.write(p2, format='yanny', tablename=names[0])
                    t2 = Table.read(p2, format='yanny', tablename=names[0])
                ctx.evaluated(1, 'table_' + way)
                d = Y.compare(canon, yanny(p2))
                if d:
                    problems.append('Table %s writer: %s' % (way, '; '.join(d[:3])))
                why = arrays_identical(arrays[0], np.asarray(t2.as_array()))
                if why:
                    problems.append('Table %s round trip: %s' % (way, why))
                want_meta = {k: str(v) for k, v in hdr.items()} if hdr else {}
                if {k: str(v) for k, v in t2.meta.items()} != want_meta:
                    problems.append('Table %s meta: wrote %r read %r' % (way, want_meta, dict(t2.meta)))
                if way == 'function':
                    with open(p2, newline='') as fh:
                        texts.append((fh.read(), canon, 'Table writer, %s' % tag))
            except Exception as ex:
                problems.append('Table %s entry point raised %s: %s' % (way, type(ex).__name__, str(ex)[:150]))
            if os.path.exists(p2):
                os.remove(p2)
    os.remove(path)
    return problems, txt


KIND_DTYPES = {'i2': 'i2', 'i4': 'i4', 'i8': 'i8', 'f4': 'f4', 'f8': 'f8', 'S': 'S5', 'i1': 'i1', 'u1': 'u1', 'u2': 'u2',
               'u4': 'u4', 'u8': 'u8', 'b1': '?', 'f2': 'f2', 'c8': 'c8', 'c16': 'c16'}


def kind_case(ctx, kind, expect_ok):
    """Unsupported scalar column types must be refused with an exception and leave no file."""
    from pydl.pydlutils.yanny import write_ndarray_to_yanny
    out = []
    for shape in ((), (2,)):
        dt = np.dtype([('a', 'i4'), ('x', KIND_DTYPES[kind], shape)] if shape else [('a', 'i4'), ('x', KIND_DTYPES[kind])])
        arr = np.zeros((2,), dtype=dt)
        path = os.path.join(ctx.scratch, 'k_%s_%d.par' % (kind, len(shape)))
        if os.path.exists(path):
            os.remove(path)
        try:
            write_ndarray_to_yanny(path, arr, structnames='K')
            raised = None
        except Exception as ex:
            raised = type(ex).__name__
        ctx.evaluated(1, 'kinds')
        exists = os.path.exists(path)
        if expect_ok and raised:
            out.append('supported type %s%s refused: %s' % (kind, shape, raised))
        if not expect_ok and not raised:
            out.append('unsupported type %s%s was written without an exception' % (kind, shape))
        if not expect_ok and exists:
            out.append('unsupported type %s%s left a file behind' % (kind, shape))
        if exists:
            os.remove(path)
    return out


def extreme_tables(rng, n):
    """Numeric value classes (the spec treats numbers as opaque tokens; fidelity of the number <-> text
    conversion is decided here on the bits)."""
    f4 = [0.0, -0.0, np.inf, -np.inf, np.nan, 1e-45, -1e-45, 1.17549435e-38, 3.4028235e38, -3.4028235e38, 1 / 3, 0.1, 16777217.0,
          1.0000001, 9.999999e-5, 123456.79]
    f8 = [0.0, -0.0, np.inf, -np.inf, np.nan, 5e-324, -5e-324, 2.2250738585072014e-308, 1.7976931348623157e308, 1 / 3, 0.1,
          9007199254740993.0, 1.0000000000000002, 1e-5, 1e16, 123456789.12345679, 1e22, 1e23]
    for _ in range(n):
        f4.append(struct.unpack('<f', struct.pack('<I', rng.getrandbits(32)))[0])
        f8.append(struct.unpack('<d', struct.pack('<Q', rng.getrandbits(64)))[0])
    i2 = [0, 1, -1, 32767, -32768]
    i4 = [0, 1, -1, 2**31 - 1, -2**31]
    i8 = [0, 1, -1, 2**63 - 1, -2**63]
    m = max(len(f4), len(f8))
    dt = np.dtype([('h', 'i2'), ('i', 'i4'), ('l', 'i8'), ('f', 'f4'), ('d', 'f8'), ('fa', 'f4', (2,)), ('la', 'i8', (2,)), ('s', 'S6')])
    a = np.zeros((m,), dtype=dt)
    with np.errstate(all='ignore'):
        for k in range(m):
            a['h'][k] = i2[k % len(i2)]
            a['i'][k] = i4[k % len(i4)]
            a['l'][k] = i8[k % len(i8)]
            a['f'][k] = np.float32(f4[k % len(f4)])
            a['d'][k] = f8[k % len(f8)]
            a['fa'][k] = [np.float32(f4[(k + 1) % len(f4)]), np.float32(f4[(k + 5) % len(f4)])]
            a['la'][k] = [i8[(k + 1) % len(i8)], i8[(k + 3) % len(i8)]]
            a['s'][k] = [b'', b'a b', b'#x', b'q;', b'a{}b', b'\ttab'][k % 6]
    return a


def run(ctx):
    ctx.level = 'model_checking'
    ctx.rule = ('every state of MC_YannyDoc is one document (family: strings / elements / types / tables / headers / witness / kinds) with Canon(doc) '
                'computed by TLC; each is written by write_ndarray_to_yanny (and the two Table entry points), read back, compared with Canon and bit for bit '
                'with the arrays written; the writer\'s text is parsed by SpecParse in TLC and must equal Canon; non-trivial = distinct document')
    ctx.assumptions = ['numbers are opaque tokens in the spec: float/int <-> text fidelity is decided by the harness on bit patterns (value classes + seeded random bit patterns)',
                       'header values are supplied as str; domain of header values per DESIGN.md Appendix A']
    rng = random.Random(ctx.seed)
    cfg = 'MC_YannyDoc_quick.cfg' if ctx.quick else 'MC_YannyDoc_thorough.cfg'
    r = ctx.tlc('MC_YannyDoc.tla', cfg, dump=True, timeout=1500)
    texts = []
    n = 0
    fams = {}
    for st in core.iter_states(r):
        n += 1
        fam = st['fam']
        fams[fam] = fams.get(fam, 0) + 1
        if fam == 'kinds':
            for p in kind_case(ctx, st['kind'], st['expectOK']):
                ctx.violation({'what': p, 'kind': st['kind']})
            ctx.validated()
            continue
        if fam == 'witness':
            continue      # outside the guarantee: only the spec-level necessity (C01_DomainSharp) is checked
        ctx.nontriv(n)
        problems, txt = write_and_read(ctx, st, texts, str(n))
        ctx.validated()
        if n % 400 == 1:
            ctx.sample({'family': fam, 'text_written_by_pydl': txt})
        if problems:
            ctx.violation({'what': '%s document: %s' % (fam, problems[0][:400]), 'family': fam, 'problems': problems,
                           'doc_tla': tlaval.to_tla(st['doc']), 'canon_tla': tlaval.to_tla(st['canon']), 'text': txt})
    ctx.cov['parts'].update({'docs_' + k: v for k, v in fams.items()})
    # ---- numeric value classes ---------------------------------------------------------------
    from pydl.pydlutils.yanny import yanny, write_ndarray_to_yanny
    a = extreme_tables(rng, 40 if ctx.quick else 2000)
    path = os.path.join(ctx.scratch, 'extreme.par')
    try:
        write_ndarray_to_yanny(path, a, structnames='XT', hdr={'note': 'extreme values', 'n': len(a), 'x': 1.5})
        back = np.asarray(yanny(path)['XT'])
        why = arrays_identical(a, back)
        hd = yanny(path)
        if (str(hd['note']), str(hd['n']), str(hd['x'])) != ('extreme values', str(len(a)), '1.5'):
            why = why or 'header values: %r' % [(k, hd[k]) for k in hd.pairs()]
    except Exception as ex:
        why = 'raised %s: %s' % (type(ex).__name__, str(ex)[:200])
    ctx.evaluated(len(a), 'numeric_classes')
    ctx.validated(len(a))
    if why:
        ctx.violation({'what': 'numeric value classes: ' + why[:400]})
    else:
        with open(path, newline='') as fh:
            xt = fh.read()
        # the writer's text for a slice of the extreme table also goes through the reference reader
        lines = xt.split('\n')
        keep = [l for l in lines if not l.startswith('XT ')] + [l for l in lines if l.startswith('XT ')][:40]
        texts.append(('\n'.join(keep), None, 'extreme values (structure only)'))
    # ---- code -> spec: the real writer's text judged by the reference reader ----------------------
    recs = [Y.chars(t) for t, _, _ in texts]
    bad = 0
    for base in range(0, len(recs), 1500):
        part = recs[base:base + 1500]
        p = core.write_json(os.path.join(ctx.scratch, 'wtext.json'), part)
        rr = ctx.tlc('Trace_YannyRead.tla', 'Trace_YannyRead.cfg', dump=True, env={'VERIF_TRACE': p}, count=False,
                     label='Trace_YannyRead writer texts [%d:%d]' % (base, base + len(part)), timeout=1500)
        seen = 0
        for st in core.iter_states(rr):
            seen += 1
            txt, canon, label = texts[base + st['i'] - 1]
            ctx.evaluated(1, 'writer_text_parsed_by_spec')
            if canon is None:
                if len(st['res']['tables']) != 1 or len(st['res']['tables'][0]['rows']) != 40:
                    ctx.violation({'what': 'extreme-value text does not parse to one table of 40 rows in the spec', 'text': txt})
                continue
            d = Y.compare_res(canon, st['res'])
            if d:
                bad += 1
                ctx.violation({'what': 'text written by pydl (%s) does not mean the document: %s' % (label, '; '.join(d[:3])[:300]),
                               'text': txt, 'differences': d})
        if seen != len(part):
            raise core.MachineryError('Trace_YannyRead judged %d of %d texts' % (seen, len(part)))
    ctx.cov['parts']['writer_texts_judged'] = len(recs)
    # ---- binding self-test: a falsified Canon must be reported by both comparisons ----------------
    acc = [(t, c) for t, c, _ in texts if c is not None and not Y.compare(c, _read(ctx, t))]
    rng.shuffle(acc)
    Y.comparator_selftest(ctx, acc, lambda t: _read(ctx, t), 'written_documents')
    tried = missed = 0
    for k, (t, c) in enumerate(acc[:60]):
        f = Y.falsify(c, k % 5)
        if f is None:
            continue
        tried += 1
        if not Y.compare_res(f, c):
            missed += 1
    ctx.cov['parts']['selftest_compare_res'] = {'falsified_expectations': tried, 'reported': tried - missed}
    if missed or tried < 5:
        raise core.MachineryError('compare_res self-test: %d of %d falsified values compared equal' % (missed, tried))
    ctx.exhaustive = True


def _read(ctx, txt):
    from pydl.pydlutils.yanny import yanny
    path = os.path.join(ctx.scratch, 'selftest.par')
    with open(path, 'w', newline='') as fh:
        fh.write(txt)
    try:
        return yanny(path)
    finally:
        os.remove(path)


def replay(ctx, case):
    """Re-run one failing document (stored as TLA+ text) through the real writers/readers."""
    ctx.level = 'model_checking'
    ctx.rule = 'single replayed document'
    ctx.nontriv('a'); ctx.nontriv('b')
    if 'doc_tla' not in case:
        print('this replay file has no document (kind/numeric case):', case.get('what'))
        ctx.evaluated(1)
        return
    st = {'doc': tlaval.parse_value(case['doc_tla']), 'canon': tlaval.parse_value(case['canon_tla'])}
    texts = []
    problems, txt = write_and_read(ctx, st, texts, 'replay')
    print('text written:\n%s\nproblems: %s' % (txt, problems or 'none'))
    if problems:
        ctx.violation({'what': problems[0][:300], 'problems': problems, 'doc_tla': case['doc_tla'], 'canon_tla': case['canon_tla'], 'text': txt})
