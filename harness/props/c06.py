"""C06 - objID / specObjID packing.  Spec: spec/IdLayout.tla; MC: mc/MC_IdLayout; Trace: trace/Trace_IdLayout."""
import os
import random
import re

import numpy as np

from .. import core

OBJ = ['skyversion', 'rerun', 'run', 'camcol', 'firstfield', 'field', 'object']
SPEC = ['plate', 'fiber', 'mjd', 'run2d', 'line']
RANGES = {'obj': {'skyversion': (0, 15), 'rerun': (0, 2047), 'run': (0, 65535), 'camcol': (1, 6),
                  'firstfield': (0, 1), 'field': (0, 4095), 'object': (0, 65535)},
          'spec': {'plate': (0, 16383), 'fiber': (0, 4095), 'mjd': (0, 16383), 'run2d': (0, 16383), 'line': (0, 1023)}}


def bits_to_int(bits):
    v = 0
    for b in bits:
        v |= 1 << b
    return v


def int_to_bits(v):
    v = int(v) & (2**64 - 1)
    return [b for b in range(64) if (v >> b) & 1]


def call_obj(f, wrap):
    from pydl.pydlutils.sdss import sdss_objid
    w = wrap
    return sdss_objid(w(f['run']), w(f['camcol']), w(f['field']), w(f['object']), rerun=w(f['rerun']),
                      skyversion=w(f['skyversion']), firstfield=w(f['firstfield']))


def call_spec(f, wrap, run2d=None, **kw):
    from pydl.pydlutils.sdss import sdss_specobjid
    w = wrap
    line = {} if (f['line'] == 0 and wrap is int and 'line' not in kw) else {'line': w(f['line'])}
    line.update(kw)
    # the caller supplies the TRUE mjd in every convention
    return sdss_specobjid(w(f['plate']), w(f['fiber']), w(f['mjd'] + 50000),
                          run2d if run2d is not None else w(f['run2d']), **line)


def outcome(fn):
    try:
        r = fn()
    except ValueError:
        return {'err': True, 'id': [], 'exc': 'ValueError'}
    except Exception as ex:  # any other exception is a wrong outcome
        return {'err': True, 'id': [], 'exc': type(ex).__name__ + ': ' + str(ex)[:100]}
    r = np.asarray(r)
    if r.shape != (1,):
        return {'err': False, 'id': [], 'exc': 'shape %r' % (r.shape,)}
    if r.dtype.kind not in 'iu' or r.dtype.itemsize != 8:
        return {'err': False, 'id': int_to_bits(int(r[0])), 'exc': 'dtype %s' % r.dtype}
    return {'err': False, 'id': int_to_bits(int(r[0])), 'exc': None}


def unwrap(kind, idint, as_string=False, variant=0):
    """variant (specObjID only): bit 0 = specLineIndex (the low bits come back in the column 'index' instead of 'line'),
    bit 1 = run2d in the vN_M_P form instead of the integer form; the keywords are exercised in every combination."""
    from pydl.photoop.photoobj import unwrap_objid
    from pydl.pydlutils.sdss import unwrap_specobjid
    if kind == 'obj':
        a = np.array([idint], dtype=np.int64)
        if as_string:
            a = a.astype(str)
        u = unwrap_objid(a)
        return {'skyversion': int(u.skyversion[0]), 'rerun': int(u.rerun[0]), 'run': int(u.run[0]),
                'camcol': int(u.camcol[0]), 'firstfield': int(u.firstfield[0]), 'field': int(u.frame[0]),
                'object': int(u.id[0])}
    a = np.array([idint], dtype=np.uint64)
    if as_string:
        a = a.astype(str)
    line_index = bool(variant & 1)
    as_int = not (variant & 2)
    u = unwrap_specobjid(a, run2d_integer=as_int, specLineIndex=line_index)
    low = u['index'] if line_index else u['line']
    if as_int:
        r2 = int(u.run2d[0])
    else:
        # documented relation of the two forms (IdLayout!Run2dOfString): vN_M_P <-> (N-5)*10000 + M*100 + P
        m = re.match(r'^v(\d+)_(\d+)_(\d+)$', str(u.run2d[0]))
        r2 = (int(m.group(1)) - 5) * 10000 + int(m.group(2)) * 100 + int(m.group(3)) if m else -1
    if ('line' in u.dtype.names) == line_index or ('index' in u.dtype.names) != line_index:
        return {'exc': 'columns %r with specLineIndex=%r' % (u.dtype.names, line_index)}
    return {'plate': int(u.plate[0]), 'fiber': int(u.fiber[0]), 'mjd': int(u.mjd[0]), 'run2d': r2,
            'line': int(low[0])}


def arr1(v):
    return np.array([v], dtype=np.int64)


def run_case(c):
    """Execute one spec call c on the real code; return the observed outcome record."""
    kind, f, conv = c['kind'], c['f'], c['conv']
    call = call_obj if kind == 'obj' else call_spec
    if conv == 'scalar':
        if c['str']:
            N, M, P = c['str']
            return outcome(lambda: call_spec(f, int, run2d='v%d_%d_%d' % (N, M, P)))
        return outcome(lambda: call(f, int))
    if conv == 'array1':
        return outcome(lambda: call(f, arr1))
    if conv == 'array':
        # the case is the middle element of arrays of length 3 whose other elements are in range
        lo = {n: RANGES[kind][n][0] for n in f}
        def arr3(name):
            return lambda v: np.array([lo[name], v, lo[name]], dtype=np.int64)
        def go():
            if kind == 'obj':
                from pydl.pydlutils.sdss import sdss_objid
                r = sdss_objid(arr3('run')(f['run']), arr3('camcol')(f['camcol']), arr3('field')(f['field']),
                               arr3('object')(f['object']), rerun=arr3('rerun')(f['rerun']),
                               skyversion=arr3('skyversion')(f['skyversion']), firstfield=arr3('firstfield')(f['firstfield']))
            else:
                from pydl.pydlutils.sdss import sdss_specobjid
                r = sdss_specobjid(arr3('plate')(f['plate']), arr3('fiber')(f['fiber']), arr3('mjd')(f['mjd']) + 50000,
                                   arr3('run2d')(f['run2d']), line=arr3('line')(f['line']))
            r = np.asarray(r)
            if r.shape != (3,):
                raise core.MachineryError('array call returned shape %r' % (r.shape,))
            return r[1:2]
        return outcome(go)
    if conv == 'lenmismatch':
        which = c['which']
        return outcome(lambda: _mismatch(kind, f, which))
    if conv == 'lineindex':
        return outcome(lambda: call_spec(f, arr1, index=arr1(f['line'])))
    raise core.MachineryError('unknown conv ' + conv)


def _mismatch(kind, f, which):
    names = OBJ if kind == 'obj' else SPEC
    vals = {n: (np.array([f[n], f[n]], dtype=np.int64) if n == which else arr1(f[n])) for n in names}
    if kind == 'obj':
        from pydl.pydlutils.sdss import sdss_objid
        return sdss_objid(vals['run'], vals['camcol'], vals['field'], vals['object'], rerun=vals['rerun'],
                          skyversion=vals['skyversion'], firstfield=vals['firstfield'])
    from pydl.pydlutils.sdss import sdss_specobjid
    return sdss_specobjid(vals['plate'], vals['fiber'], vals['mjd'] + 50000, vals['run2d'], line=vals['line'])


def run2d_arrays(ctx, cases):
    """vN_M_P decoding on ARRAYS of identifiers: blocks of the enumerated cases in dump order, reversed, and with the
    first element repeated at the end (equal first and last run2d, different ones between)."""
    from pydl.pydlutils.sdss import unwrap_specobjid
    if len(cases) < 3:
        return
    for start in range(0, len(cases) - 2, 5):
        block = cases[start:start + 5]
        for variant in ('asis', 'wrap', 'reversed+wrap'):
            b = list(block)
            if variant.startswith('reversed'):
                b = b[::-1]
            if variant.endswith('wrap'):
                b = b + [b[0]]
            ids = np.array([bits_to_int(e['id']) for _, e in b], dtype=np.uint64)
            want = ['v%d_%d_%d' % tuple(c['str']) for c, _ in b]
            ctx.evaluated(1, 'run2d_arrays')
            ctx.validated()
            for as_string in (False, True):
                try:
                    got = [str(x) for x in unwrap_specobjid(ids.astype(str) if as_string else ids).run2d]
                except Exception as ex:
                    got = ['%s: %s' % (type(ex).__name__, ex)]
                if got != want:
                    ctx.violation({'what': 'unwrap_specobjid on an array of %d ids (%s, %s): run2d strings %r, specified %r' % (
                        len(b), variant, 'decimal strings' if as_string else 'uint64', got, want),
                        'first_call': b[0][0], 'ids': [int(x) for x in ids], 'expected_run2d': want})
                    return


def vector_replay(ctx, kind, cases):
    """All in-range "array" cases of one kind in a single vectorised call; element-wise comparison."""
    names = OBJ if kind == 'obj' else SPEC
    cols = {n: np.array([c['f'][n] for c, _ in cases], dtype=np.int64) for n in names}
    want = [bits_to_int(e['id']) for _, e in cases]
    try:
        if kind == 'obj':
            from pydl.pydlutils.sdss import sdss_objid
            got = sdss_objid(cols['run'], cols['camcol'], cols['field'], cols['object'], rerun=cols['rerun'],
                             skyversion=cols['skyversion'], firstfield=cols['firstfield'])
        else:
            from pydl.pydlutils.sdss import sdss_specobjid
            got = sdss_specobjid(cols['plate'], cols['fiber'], cols['mjd'] + 50000, cols['run2d'], line=cols['line'])
    except Exception as ex:
        return None, '%s: %s' % (type(ex).__name__, ex)
    got_int = [int(x) & (2**64 - 1) for x in got]
    bad = [k for k in range(len(cases)) if got_int[k] != want[k]]
    # unpack the whole vector as integers (native and byte-swapped) and as decimal strings
    from pydl.photoop.photoobj import unwrap_objid
    from pydl.pydlutils.sdss import unwrap_specobjid
    for as_string in (False, True, 'swapped'):
        try:
            if kind == 'obj':
                a = np.array(want, dtype=np.uint64).astype(np.int64)
                if as_string == 'swapped':
                    a = a.astype(a.dtype.newbyteorder())       # same values, other byte order (as read from FITS)
                u = unwrap_objid(a.astype(str) if as_string is True else a)
                ucols = {'skyversion': u.skyversion, 'rerun': u.rerun, 'run': u.run, 'camcol': u.camcol,
                         'firstfield': u.firstfield, 'field': u.frame, 'object': u.id}
            else:
                a = np.array(want, dtype=np.uint64)
                if as_string == 'swapped':
                    a = a.astype(a.dtype.newbyteorder())
                u = unwrap_specobjid(a.astype(str) if as_string is True else a, run2d_integer=True)
                ucols = {'plate': u.plate, 'fiber': u.fiber, 'mjd': u.mjd - 50000, 'run2d': u.run2d, 'line': u.line}
        except Exception as ex:
            return None, 'unwrap(%s): %s: %s' % (as_string if as_string == 'swapped' else ('str' if as_string else 'int'), type(ex).__name__, ex)
        for n in names:
            neq = np.nonzero(np.asarray(ucols[n]).astype(np.int64) != cols[n])[0]
            bad.extend(int(k) for k in neq)
    return sorted(set(bad)), None


def classify(c, exp, obs):
    """Name the known deviation that explains this mismatch exactly, if any (spec: Dev_* operators)."""
    if c['kind'] == 'spec' and c['conv'] in ('array', 'array1') and not exp['err'] and obs.get('exc') == 'ValueError':
        return 'D-C06-1'
    return None


def run(ctx):
    ctx.level = 'model_checking'
    ctx.rule = ('every state of MC_IdLayout is one call (kind, field tuple, calling convention); non-trivial = distinct '
                '(kind, field tuple) with at least one field off its minimum; recorded calls = seeded random/adversarial '
                'tuples judged by Trace_IdLayout')
    ctx.assumptions = ['TLC 32-bit integers: field values above 2^20 are only exercised in the recorded direction (< 2^31)',
                       'abstraction: 64-bit id <-> set of bit positions (int_to_bits)']
    cfg = 'MC_IdLayout_quick.cfg' if ctx.quick else 'MC_IdLayout_thorough.cfg'
    r = ctx.tlc('MC_IdLayout.tla', cfg, dump=True, timeout=1500)
    vec = {'obj': [], 'spec': []}
    r2cases = []
    n = 0
    for st in core.iter_states(r):
        c, exp = st['c'], st['exp']
        if c['kind'] not in ('obj', 'spec'):
            continue
        n += 1
        exp = {'err': exp['err'], 'id': sorted(exp['id'])}
        c['str'] = list(c['str'])
        if any(v != RANGES[c['kind']][k][0] for k, v in c['f'].items()):
            ctx.nontriv((c['kind'], tuple(sorted(c['f'].items()))))
        if not exp['err'] and bits_to_int(exp['id']) != arith_id(c['kind'], c['f']):
            raise core.MachineryError('IdLayout.tla (bit sets) and IdLayoutArith.tla (arithmetic) disagree on %r' % (c,))
        if c['str'] and not exp['err']:
            r2cases.append((c, exp))
        if c['conv'] == 'array' and not exp['err']:
            vec[c['kind']].append((c, exp))
            if not ctx.quick and n % 40:
                continue          # thorough: the big sweeps go through the vectorised path; every 40th also singly
        obs = run_case(c)
        ctx.evaluated(1, c['conv'])
        ctx.validated()
        good = (obs['err'] == exp['err'] and obs['id'] == exp['id'] and
                (obs['exc'] in (None, 'ValueError')))
        if good and not exp['err']:
            idint = bits_to_int(exp['id'])
            for as_string in (False, True):
                try:
                    u = unwrap(c['kind'], idint, as_string, variant=(n + 2 * as_string) % 4)
                except Exception as ex:
                    u = {'exc': repr(ex)}
                w = dict(c['f'])
                if c['kind'] == 'spec':
                    w['mjd'] += 50000
                if u != w:
                    good = False
                    obs = dict(obs, unwrapped=u, unwrap_as_string=as_string, unwrap_variant=(n + 2 * as_string) % 4)
            if c['str'] and good:
                from pydl.pydlutils.sdss import unwrap_specobjid
                s = unwrap_specobjid(np.array([idint], dtype=np.uint64)).run2d[0]
                if s != 'v%d_%d_%d' % tuple(c['str']):
                    good = False
                    obs = dict(obs, run2d_string=str(s))
        if n % 500 == 1:
            ctx.sample({'call': c, 'expected': exp, 'observed': obs})
        if not good:
            ctx.violation({'what': 'call %s(%s, conv=%s) expected %s observed %s' % (c['kind'], c['f'], c['conv'], exp, obs),
                           'call': c, 'expected': exp, 'observed': obs}, finding=classify(c, exp, obs))
    run2d_arrays(ctx, r2cases)
    for kind in ('obj', 'spec'):
        if not vec[kind]:
            continue
        bad, err = vector_replay(ctx, kind, vec[kind])
        ctx.evaluated(len(vec[kind]), 'vectorised-' + kind)
        ctx.validated(len(vec[kind]))
        if err is not None:
            c, exp = vec[kind][0]
            obs = {'exc': err.split(':')[0]}
            ctx.violation({'what': 'vectorised %s call over %d in-range tuples raised %s' % (kind, len(vec[kind]), err),
                           'first_call': c}, finding=classify(c, exp, obs))
        else:
            for k in bad[:20]:
                c, exp = vec[kind][k]
                ctx.violation({'what': 'vectorised %s element differs: %s' % (kind, c['f']), 'call': c, 'expected': exp})
    # ---- code -> spec: recorded calls judged by the specification --------------------------
    rng = random.Random(ctx.seed)
    recs = []
    nrec = 1500 if ctx.quick else 12000
    for k in range(nrec):
        kind = rng.choice(['obj', 'spec'])
        f = {}
        for nme, (lo, hi) in RANGES[kind].items():
            p = rng.random()
            if p < 0.80:
                f[nme] = rng.randint(lo, hi)
            elif p < 0.88:
                f[nme] = rng.choice([lo, hi, lo + 1, hi - 1])
            elif p < 0.94:
                f[nme] = rng.choice([lo - 1, hi + 1, -1, -rng.randint(1, 2**30)])
            else:
                f[nme] = rng.choice([hi + 1 + rng.randint(0, 2**20), 2**30 + rng.randint(0, 2**30 - 1), 2 * (hi + 1) - 1])
        if kind == 'spec':
            f['mjd'] = max(f['mjd'], -50000 + 1) if f['mjd'] < -40000 else f['mjd']
        conv = rng.choice(['scalar', 'array1', 'array'])
        c = {'kind': kind, 'f': f, 'conv': conv, 'which': '', 'str': []}
        obs = run_case(c)
        rec = {'kind': kind, 'f': f, 'conv': conv, 'ret': {'err': obs['err'], 'id': obs['id']}, 'exc': obs['exc'] or ''}
        if not obs['err']:
            try:
                u = unwrap(kind, bits_to_int(obs['id']), as_string=bool(k % 2), variant=(k // 2) % 4)
            except Exception as ex:
                u = {'exc': repr(ex)}
            rec['unwrapped'] = u
        else:
            rec['unwrapped'] = {}
        recs.append(rec)
        if all(lo <= f[nme] <= hi for nme, (lo, hi) in RANGES[kind].items()):
            ctx.nontriv((kind, tuple(sorted(f.items()))))
    bad = core.validate_records(ctx, 'Trace_IdLayout', recs)
    ctx.evaluated(len(recs), 'recorded')
    ctx.validated(len(recs))
    for k, rec in enumerate(recs):
        if rec['exc'] not in ('', 'ValueError') and k not in bad:
            bad[k] = 'exception ' + rec['exc']
    for k in sorted(bad):
        rec = recs[k]
        c = {'kind': rec['kind'], 'conv': rec['conv']}
        ctx.violation({'what': 'recorded call rejected by Trace_IdLayout (%s): %s' % (bad[k], rec), 'record': rec},
                      finding=classify(c, {'err': False}, {'exc': rec['exc']}))
    ctx.sample({'recorded_call': recs[0]})
    # ---- binding self-test: falsified observations must be rejected by the same judge ----------
    import copy
    fals = []
    for k, rec in enumerate(recs):
        if k in bad or rec['ret']['err'] or len(fals) >= 240:
            continue
        r2 = copy.deepcopy(rec)
        m = len(fals) % 3
        if m == 0:                      # one bit of the returned id flipped
            b = (k * 7) % 64
            ids = set(r2['ret']['id'])
            ids.symmetric_difference_update({b})
            r2['ret']['id'] = sorted(ids)
            r2['unwrapped'] = {}
        elif m == 1:                    # an in-range call reported as an error
            r2['ret'] = {'err': True, 'id': []}
            r2['unwrapped'] = {}
        else:                           # the unwrapped fields do not give back the packed ones
            if not isinstance(r2['unwrapped'], dict) or not r2['unwrapped'] or 'exc' in r2['unwrapped']:
                continue
            nme = sorted(r2['unwrapped'])[k % len(r2['unwrapped'])]
            r2['unwrapped'][nme] += 1
        fals.append(r2)
    core.binding_selftest(ctx, 'Trace_IdLayout', fals, 'recorded_calls')
    apalache_all_tuples(ctx)
    ctx.exhaustive = not ctx.quick


SHIFT = {'obj': {'skyversion': 59, 'rerun': 48, 'run': 32, 'camcol': 29, 'firstfield': 28, 'field': 16, 'object': 0},
         'spec': {'plate': 50, 'fiber': 38, 'mjd': 24, 'run2d': 10, 'line': 0}}


def arith_id(kind, f):
    """The identifier as apalache/IdLayoutArith.tla writes it (sum of field * 2^lowest bit)."""
    return sum(int(v) << SHIFT[kind][k] for k, v in f.items())


def apalache_all_tuples(ctx):
    """Unbounded part: the layout laws for EVERY in-range field tuple (apalache/IdLayoutArith.tla), plus a negative
    control that must be refuted.  The arithmetic rendering is tied to the bit-set rendering of IdLayout.tla by
    comparing arith_id with TLC's bit sets on every enumerated in-range case (done by the caller)."""
    import shutil
    import subprocess
    spec = os.path.join(core.VERIF, 'apalache', 'IdLayoutArith.tla')
    out = os.path.join(ctx.scratch, 'apalache')
    results = []
    for name, inv, must_hold in (('layout laws for all in-range tuples', 'Inv', True),
                                 ('negative control: overlapping camcol/firstfield', 'NegativeControl', False)):
        cmd = ['apalache-mc', 'check', '--init=Init', '--next=Next', '--inv=' + inv, '--length=0', '--out-dir=' + out, spec]
        try:
            p = subprocess.run(cmd, stdout=subprocess.PIPE, stderr=subprocess.STDOUT, text=True, timeout=900)
        except (OSError, subprocess.TimeoutExpired) as ex:
            raise core.MachineryError('apalache-mc failed to run: %r' % (ex,))
        ok = 'The outcome is: NoError' in p.stdout
        err = 'The outcome is: Error' in p.stdout
        if not (ok or err):
            raise core.MachineryError('apalache-mc gave no verdict for %s:\n%s' % (name, p.stdout[-1500:]))
        if must_hold and not ok:
            raise core.MachineryError('Apalache refuted: %s' % name)
        if not must_hold and not err:
            raise core.MachineryError('Apalache did not refute the %s' % name)
        results.append({'obligation': name, 'verdict': 'holds' if ok else 'refuted (as required)'})
    shutil.rmtree(out, ignore_errors=True)
    ctx.cov['apalache_all_tuples'] = {'module': 'apalache/IdLayoutArith.tla',
                                      'laws': ['ObjFits', 'SpecFits', 'ObjRoundTrip', 'SpecRoundTrip', 'ObjInjective', 'SpecInjective',
                                               'OverflowCollides', 'Run2dString'],
                                      'domain': 'every in-range field tuple of both layouts (unbounded integers, length-0 check)',
                                      'results': results}


def replay(ctx, case):
    """bin/check C06 --replay <file>: re-execute the single failing call of a replay file."""
    ctx.level = 'model_checking'
    ctx.rule = 'single replayed case'
    c = case.get('call') or case.get('first_call')
    if c is None and 'record' in case:
        r = case['record']
        c = {'kind': r['kind'], 'f': r['f'], 'conv': r['conv'], 'which': '', 'str': []}
    obs = run_case(c)
    print('replayed call:', c, '\nobserved:', obs, '\nexpected:', case.get('expected'))
    ctx.evaluated(1)
    ctx.nontriv('a'); ctx.nontriv('b')
    exp = case.get('expected')
    if exp is not None and (obs['err'] != exp['err'] or obs['id'] != exp['id'] or obs['exc'] not in (None, 'ValueError')):
        ctx.violation(case)
