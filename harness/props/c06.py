"""C06 - objID / specObjID packing.  Spec: spec/IdLayout.tla; MC: mc/MC_IdLayout; Trace: trace/Trace_IdLayout."""
import os
import random
import re

import numpy as np

from .. import core

OBJ = ['skyversion', 'rerun', 'run', 'camcol', 'firstfield', 'field', 'object']
SPEC = ['plate', 'fiber', 'mjd', 'run2d', 'line']
RANGES = {'obj': {'skyversion': (0, 15), 'rerun': (0, 2047), 'run': (0, 65535), 'camcol': (1, 6),
                  'firstfield': (0, 1), 'field': (0, 4095), 'object': (0, 65535)},
          'spec': {'plate': (0, 16383), 'fiber': (0, 4095), 'mjd': (0, 16383), 'run2d': (0, 16383), 'line': (0, 1023)}}


def bits_to_int(bits):
    v = 0
    for b in bits:
        v |= 1 << b
    return v


def int_to_bits(v):
    v = int(v) & (2**64 - 1)
    return [b for b in range(64) if (v >> b) & 1]


def call_obj(f, wrap):
    from pydl.pydlutils.sdss import sdss_objid
    w = wrap
    return sdss_objid(w(f['run']), w(f['camcol']), w(f['field']), w(f['object']), rerun=w(f['rerun']),
                      skyversion=w(f['skyversion']), firstfield=w(f['firstfield']))


def call_spec(f, wrap, run2d=None, **kw):
    from pydl.pydlutils.sdss import sdss_specobjid
    w = wrap
    line = {} if (f['line'] == 0 and wrap is int and 'line' not in kw) else {'line': w(f['line'])}
    line.update(kw)
    # the caller supplies the TRUE mjd in every convention
    return sdss_specobjid(w(f['plate']), w(f['fiber']), w(f['mjd'] + 50000),
                          run2d if run2d is not None else w(f['run2d']), **line)


def outcome(fn):
    try:
        r = fn()
    except ValueError:
        return {'err': True, 'id': [], 'exc': 'ValueError'}
    except Exception as ex:  # any other exception is a wrong outcome
        return {'err': True, 'id': [], 'exc': type(ex).__name__ + ': ' + str(ex)[:100]}
    r = np.asarray(r)
    if r.shape != (1,):
        return {'err': False, 'id': [], 'exc': 'shape %r' % (r.shape,)}
    if r.dtype.kind not in 'iu' or r.dtype.itemsize != 8:
        return {'err': False, 'id': int_to_bits(int(r[0])), 'exc': 'dtype %s' % r.dtype}
    return {'err': False, 'id': int_to_bits(int(r[0])), 'exc': None}


# concretisation of IdLayout!IdForms: the SAME identifier values in each representation the documentation admits
# ("an array containing 64-bit integers or strings"); the keys must be exactly the specification's set (checked in run()).
FORMS = {'int': lambda a: a,
         'swapped': lambda a: a.astype(a.dtype.newbyteorder()),          # as read from FITS
         'ustr': lambda a: a.astype(str),                                 # decimal text strings
         'bstr': lambda a: a.astype(str).astype('S')}                     # decimal byte strings (FITS string column)
FORM_ORDER = ('int', 'ustr', 'bstr', 'swapped')


def unwrap(kind, idint, form='int', variant=0):
    """Unpack ONE identifier handed over as a one-element array in the given form."""
    return unwrap_at(kind, np.array([idint], dtype=np.int64 if kind == 'obj' else np.uint64), form, variant, [0])[0]


def unwrap_at(kind, ids, form, variant, positions):
    """Unpack the array ids (int64 for objID, uint64 for specObjID) in ONE call and abstract the elements at `positions`.
    variant (specObjID only): bit 0 = specLineIndex (the low bits come back in the column 'index' instead of 'line'),
    bit 1 = run2d in the vN_M_P form instead of the integer form; the keywords are exercised in every combination.
    form: one of IdLayout!IdForms (FORMS)."""
    from pydl.photoop.photoobj import unwrap_objid
    from pydl.pydlutils.sdss import unwrap_specobjid
    a = FORMS[form](ids)
    if kind == 'obj':
        u = unwrap_objid(a)
        return [{'skyversion': int(u.skyversion[p]), 'rerun': int(u.rerun[p]), 'run': int(u.run[p]),
                 'camcol': int(u.camcol[p]), 'firstfield': int(u.firstfield[p]), 'field': int(u.frame[p]),
                 'object': int(u.id[p])} for p in positions]
    line_index = bool(variant & 1)
    as_int = not (variant & 2)
    u = unwrap_specobjid(a, run2d_integer=as_int, specLineIndex=line_index)
    if ('line' in u.dtype.names) == line_index or ('index' in u.dtype.names) != line_index:
        return [{'exc': 'columns %r with specLineIndex=%r' % (u.dtype.names, line_index)} for p in positions]
    low = u['index'] if line_index else u['line']
    out = []
    for p in positions:
        if as_int:
            r2 = int(u.run2d[p])
        else:
            # documented relation of the two forms (IdLayout!Run2dOfString): vN_M_P <-> (N-5)*10000 + M*100 + P
            m = re.match(r'^v(\d+)_(\d+)_(\d+)$', str(u.run2d[p]))
            r2 = (int(m.group(1)) - 5) * 10000 + int(m.group(2)) * 100 + int(m.group(3)) if m else -1
        out.append({'plate': int(u.plate[p]), 'fiber': int(u.fiber[p]), 'mjd': int(u.mjd[p]), 'run2d': r2,
                    'line': int(low[p])})
    return out


def arr1(v):
    return np.array([v], dtype=np.int64)


# IdLayout!IntForms are NumPy's own type names; the order only fixes the rotation
INT_ORDER = ('int64', 'int32', 'int16', 'uint16', 'uint8', 'int8', 'uint32', 'uint64')


def typed_col(kind, nm, vals, g):
    """The values of one argument as an array of the integer type g, as the caller supplies them (true MJD)."""
    off = 50000 if (kind, nm) == ('spec', 'mjd') else 0
    try:
        return np.array([int(v) + off for v in vals], dtype=np.dtype(g))
    except OverflowError:
        raise core.MachineryError('IdLayout!FitsForm admits %s for %s = %r, NumPy does not' % (g, nm, vals))


def rotate_types(c, n):
    """Assignments of integer types to the arguments of the enumerated call c (number n in the dump), out of the types the
    specification lists as admissible for each value (c.forms): every type admissible for ALL arguments given to all of
    them (int64 is the plain call, already made), and one assignment with a different type for each argument, rotating."""
    names = OBJ if c['kind'] == 'obj' else SPEC
    adm = {nm: [g for g in INT_ORDER if g in c['forms'][nm]] for nm in names}
    common = [g for g in INT_ORDER[1:] if all(g in adm[nm] for nm in names)]
    mixed = {nm: adm[nm][(n + 3 * j) % len(adm[nm])] for j, nm in enumerate(names)}
    return [{nm: g for nm in names} for g in common] + [mixed]


def run_typed(c, types):
    """The array conventions with the arguments in the integer types `types` (name -> IdLayout!IntForms)."""
    kind, f, conv = c['kind'], c['f'], c['conv']
    names = OBJ if kind == 'obj' else SPEC
    if conv == 'array1':
        cols = {nm: typed_col(kind, nm, [f[nm]], types[nm]) for nm in names}
        return outcome(lambda: pack_cols(kind, cols, true_mjd=True))
    if conv != 'array':
        raise core.MachineryError('typed call with conv ' + conv)
    cols = {nm: typed_col(kind, nm, [RANGES[kind][nm][0], f[nm], RANGES[kind][nm][0]], types[nm]) for nm in names}

    def go():
        r = np.asarray(pack_cols(kind, cols, true_mjd=True))
        if r.shape != (3,):
            raise core.MachineryError('array call returned shape %r' % (r.shape,))
        return r[1:2]
    return outcome(go)


def run_case(c):
    """Execute one spec call c on the real code; return the observed outcome record."""
    kind, f, conv = c['kind'], c['f'], c['conv']
    if c.get('types') and conv in ('array', 'array1'):
        return run_typed(c, c['types'])
    call = call_obj if kind == 'obj' else call_spec
    if conv == 'scalar':
        if c['str']:
            N, M, P = c['str']
            return outcome(lambda: call_spec(f, int, run2d='v%d_%d_%d' % (N, M, P)))
        return outcome(lambda: call(f, int))
    if conv == 'array1':
        return outcome(lambda: call(f, arr1))
    if conv == 'array':
        # the case is the middle element of arrays of length 3 whose other elements are in range
        lo = {n: RANGES[kind][n][0] for n in f}
        def arr3(name):
            return lambda v: np.array([lo[name], v, lo[name]], dtype=np.int64)
        def go():
            if kind == 'obj':
                from pydl.pydlutils.sdss import sdss_objid
                r = sdss_objid(arr3('run')(f['run']), arr3('camcol')(f['camcol']), arr3('field')(f['field']),
                               arr3('object')(f['object']), rerun=arr3('rerun')(f['rerun']),
                               skyversion=arr3('skyversion')(f['skyversion']), firstfield=arr3('firstfield')(f['firstfield']))
            else:
                from pydl.pydlutils.sdss import sdss_specobjid
                r = sdss_specobjid(arr3('plate')(f['plate']), arr3('fiber')(f['fiber']), arr3('mjd')(f['mjd']) + 50000,
                                   arr3('run2d')(f['run2d']), line=arr3('line')(f['line']))
            r = np.asarray(r)
            if r.shape != (3,):
                raise core.MachineryError('array call returned shape %r' % (r.shape,))
            return r[1:2]
        return outcome(go)
    if conv == 'lenmismatch':
        which = c['which']
        return outcome(lambda: _mismatch(kind, f, which))
    if conv == 'lineindex':
        return outcome(lambda: call_spec(f, arr1, index=arr1(f['line'])))
    raise core.MachineryError('unknown conv ' + conv)


def _mismatch(kind, f, which):
    names = OBJ if kind == 'obj' else SPEC
    vals = {n: (np.array([f[n], f[n]], dtype=np.int64) if n == which else arr1(f[n])) for n in names}
    if kind == 'obj':
        from pydl.pydlutils.sdss import sdss_objid
        return sdss_objid(vals['run'], vals['camcol'], vals['field'], vals['object'], rerun=vals['rerun'],
                          skyversion=vals['skyversion'], firstfield=vals['firstfield'])
    from pydl.pydlutils.sdss import sdss_specobjid
    return sdss_specobjid(vals['plate'], vals['fiber'], vals['mjd'] + 50000, vals['run2d'], line=vals['line'])


def run2d_arrays(ctx, cases):
    """vN_M_P decoding on ARRAYS of identifiers: blocks of the enumerated cases in dump order, reversed, and with the
    first element repeated at the end (equal first and last run2d, different ones between)."""
    from pydl.pydlutils.sdss import unwrap_specobjid
    if len(cases) < 3:
        return
    for start in range(0, len(cases) - 2, 5):
        block = cases[start:start + 5]
        for variant in ('asis', 'wrap', 'reversed+wrap'):
            b = list(block)
            if variant.startswith('reversed'):
                b = b[::-1]
            if variant.endswith('wrap'):
                b = b + [b[0]]
            ids = np.array([bits_to_int(e['id']) for _, e in b], dtype=np.uint64)
            want = ['v%d_%d_%d' % tuple(c['str']) for c, _ in b]
            ctx.evaluated(1, 'run2d_arrays')
            ctx.validated()
            for as_string in (False, True):
                try:
                    got = [str(x) for x in unwrap_specobjid(ids.astype(str) if as_string else ids).run2d]
                except Exception as ex:
                    got = ['%s: %s' % (type(ex).__name__, ex)]
                if got != want:
                    ctx.violation({'what': 'unwrap_specobjid on an array of %d ids (%s, %s): run2d strings %r, specified %r' % (
                        len(b), variant, 'decimal strings' if as_string else 'uint64', got, want),
                        'first_call': b[0][0], 'ids': [int(x) for x in ids], 'expected_run2d': want})
                    return


def vector_replay(ctx, kind, cases):
    """All in-range "array" cases of one kind in a single vectorised call; element-wise comparison."""
    names = OBJ if kind == 'obj' else SPEC
    cols = {n: np.array([c['f'][n] for c, _ in cases], dtype=np.int64) for n in names}
    want = [bits_to_int(e['id']) for _, e in cases]
    try:
        if kind == 'obj':
            from pydl.pydlutils.sdss import sdss_objid
            got = sdss_objid(cols['run'], cols['camcol'], cols['field'], cols['object'], rerun=cols['rerun'],
                             skyversion=cols['skyversion'], firstfield=cols['firstfield'])
        else:
            from pydl.pydlutils.sdss import sdss_specobjid
            got = sdss_specobjid(cols['plate'], cols['fiber'], cols['mjd'] + 50000, cols['run2d'], line=cols['line'])
    except Exception as ex:
        return None, '%s: %s' % (type(ex).__name__, ex)
    got_int = [int(x) & (2**64 - 1) for x in got]
    bad = [k for k in range(len(cases)) if got_int[k] != want[k]]
    # unpack the whole vector in every identifier form of the specification (IdLayout!IdForms)
    from pydl.photoop.photoobj import unwrap_objid
    from pydl.pydlutils.sdss import unwrap_specobjid
    for form in FORM_ORDER:
        try:
            if kind == 'obj':
                a = FORMS[form](np.array(want, dtype=np.uint64).astype(np.int64))
                u = unwrap_objid(a)
                ucols = {'skyversion': u.skyversion, 'rerun': u.rerun, 'run': u.run, 'camcol': u.camcol,
                         'firstfield': u.firstfield, 'field': u.frame, 'object': u.id}
            else:
                a = FORMS[form](np.array(want, dtype=np.uint64))
                u = unwrap_specobjid(a, run2d_integer=True)
                ucols = {'plate': u.plate, 'fiber': u.fiber, 'mjd': u.mjd - 50000, 'run2d': u.run2d, 'line': u.line}
        except Exception as ex:
            return None, 'unwrap(%s): %s: %s' % (form, type(ex).__name__, ex)
        for n in names:
            neq = np.nonzero(np.asarray(ucols[n]).astype(np.int64) != cols[n])[0]
            bad.extend(int(k) for k in neq)
    return sorted(set(bad)), None


def pack_cols(kind, cols, true_mjd=False):
    if kind == 'obj':
        from pydl.pydlutils.sdss import sdss_objid
        return sdss_objid(cols['run'], cols['camcol'], cols['field'], cols['object'], rerun=cols['rerun'],
                          skyversion=cols['skyversion'], firstfield=cols['firstfield'])
    from pydl.pydlutils.sdss import sdss_specobjid
    # the caller supplies the TRUE mjd in every convention
    return sdss_specobjid(cols['plate'], cols['fiber'], cols['mjd'] if true_mjd else cols['mjd'] + 50000, cols['run2d'],
                          line=cols['line'])


UCOL = {'obj': {'skyversion': 'skyversion', 'rerun': 'rerun', 'run': 'run', 'camcol': 'camcol', 'firstfield': 'firstfield',
                'field': 'frame', 'object': 'id'},
        'spec': {'plate': 'plate', 'fiber': 'fiber', 'mjd': 'mjd', 'run2d': 'run2d', 'line': 'line'}}


def long_arrays(ctx, seeds, probes, rejects, all_forms=True):
    """Arrays of ARBITRARY length (MC_IdLayout families long / longq).  A seed state (kind, n) carries the base tuples, the
    outcome TLC specifies for each of them and the plan of (identifier form, unwrap keywords); the array of length n is the
    base repeated cyclically (IdLayout!ElemAt, concretised by numpy.resize).  Packing and unpacking the whole array must give,
    at EVERY position, the outcome of the element alone; the probe states (kind, n, p) carry TLC's outcome for position p of
    that array and are compared directly (and tie the tiling done here to ElemAt); the reject states put one out-of-range
    element at a probe position."""
    from pydl.photoop.photoobj import unwrap_objid
    from pydl.pydlutils.sdss import unwrap_specobjid
    forms_seen = set()
    for (kind, n) in sorted(seeds):
        c, exp = seeds[(kind, n)]
        names = OBJ if kind == 'obj' else SPEC
        base, per = c['base'], exp['per']

        def tile(vals, dtype=None):
            return np.resize(np.array(vals, dtype=dtype), n)       # element p = vals[p % len(vals)]
        cols = {nm: tile([b[nm] for b in base], np.int64) for nm in names}
        want_id = tile([bits_to_int(e['id']) for e in per], np.uint64)
        want_u = {nm: tile([e['u'][nm] for e in per], np.int64) for nm in names}
        want_s = tile(['v%d_%d_%d' % tuple(e['s']) for e in per]) if kind == 'spec' else None
        pr = sorted(probes.get((kind, n), []), key=lambda t: t[0]['pos'])
        if not pr:
            raise core.MachineryError('no probe states for the array (%s, %d)' % (kind, n))
        for pc, pe in pr:                                            # the tiling here is IdLayout!ElemAt
            p = pc['pos']
            if (int(want_id[p]) != bits_to_int(pe['id']) or any(int(want_u[nm][p]) != pe['u'][nm] for nm in names) or
                    (kind == 'spec' and want_s[p] != 'v%d_%d_%d' % tuple(pe['s']))):
                raise core.MachineryError('tiling of the base tuples disagrees with IdLayout!ElemAt at %r' % (pc,))
        ctx.nontriv(('long', kind, n))

        def report(what, pos, got, want, types=None, finding=None):
            call = {'kind': kind, 'f': {nm: int(cols[nm][pos]) for nm in names}, 'conv': 'array', 'which': '', 'str': []}
            if types:
                call['types'] = types
            ctx.violation({'what': '%s array of %d elements, %s: position %d gives %s, specified %s (the packed tuple: %s)' % (
                kind, n, what, pos, got, want, call['f']), 'long': {'kind': kind, 'len': n, 'pos': int(pos)}, 'call': call,
                'expected': {'err': False, 'id': int_to_bits(int(want_id[pos]))}}, finding=finding)
        # ---- pack the whole array in one call: int64 arguments, then every other integer type of the specification for
        # the arguments whose column it can represent (seed.forms = IdLayout!FormsOf over the base tuples)
        for g in INT_ORDER:
            types = {nm: (g if g in c['forms'][nm] else 'int64') for nm in names}
            if g != 'int64' and set(types.values()) == {'int64'}:
                continue
            tcols = {nm: tile(typed_col(kind, nm, [b[nm] for b in base], types[nm])) for nm in names}
            pack_what = 'packed from %s arguments' % ('int64' if g == 'int64' else str(types))
            long_pack(ctx, kind, n, tcols, want_id, pr, report, pack_what, types)
        # ---- unpack the whole array, every (form, keywords) combination of the plan
        for x in sorted(c['plan'], key=repr):
            x = dict(x)
            form, opt = x['form'], dict(x['opt'])
            forms_seen.add(form)
            if form not in FORMS:
                raise core.MachineryError('IdLayout!IdForms has the form %r the harness cannot concretise' % form)
            what = 'unpacked from %s%s' % (form, (' (specLineIndex=%r, run2d_integer=%r)' % (opt['lineIndex'], not opt['run2dString']))
                                           if kind == 'spec' else '')
            ctx.evaluated(1, 'long-unwrap')
            ctx.validated()
            a = FORMS[form](want_id.astype(np.int64) if kind == 'obj' else want_id)
            try:
                if kind == 'obj':
                    u = unwrap_objid(a)
                else:
                    u = unwrap_specobjid(a, run2d_integer=not opt['run2dString'], specLineIndex=opt['lineIndex'])
            except Exception as ex:
                report(what, 0, '%s: %s' % (type(ex).__name__, str(ex)[:100]), {nm: int(want_u[nm][0]) for nm in names})
                continue
            if u.shape != (n,):
                report(what, 0, 'shape %r' % (u.shape,), 'shape (%d,)' % n)
                continue
            colmap = dict(UCOL[kind])
            if kind == 'spec':
                colmap['line'] = opt['lowcol']
                if sorted(u.dtype.names) != sorted(colmap.values()):
                    report(what, 0, 'columns %r' % (u.dtype.names,), 'columns %r' % (sorted(colmap.values()),))
                    continue
            badpos = set()
            for nm in names:
                g = np.asarray(u[colmap[nm]])
                if kind == 'spec' and nm == 'run2d' and opt['run2dString']:
                    neq = np.flatnonzero(g.astype(str) != want_s)
                else:
                    neq = np.flatnonzero(g.astype(np.int64) != want_u[nm]) if g.dtype.kind in 'iu' else np.arange(n)
                badpos.update(neq.tolist())
            if badpos:
                at = [pc['pos'] for pc, _ in pr if pc['pos'] in badpos]
                k = at[0] if at else min(badpos)
                gotk = {nm: (str(u[colmap[nm]][k]) if u[colmap[nm]].dtype.kind in 'US' else int(u[colmap[nm]][k])) for nm in names}
                wantk = {nm: int(want_u[nm][k]) for nm in names}
                if kind == 'spec' and opt['run2dString']:
                    wantk['run2d'] = str(want_s[k])
                report(what + ' (%d positions differ)' % len(badpos), k, gotk, wantk)
    if seeds and all_forms and forms_seen != set(FORMS):
        raise core.MachineryError('identifier forms driven %r, IdLayout!IdForms concretised here %r' % (sorted(forms_seen), sorted(FORMS)))
    long_rejects(ctx, seeds, rejects)


def long_pack(ctx, kind, n, cols, want_id, pr, report, what, types):
    """One packing call on the whole array of length n (columns already in their integer types, true MJD)."""
    ctx.evaluated(1, 'long-pack')
    ctx.validated()
    fid = classify({'kind': kind, 'conv': 'array', 'types': types}, {'err': False}, {})
    try:
        got = np.asarray(pack_cols(kind, cols, true_mjd=True))
    except Exception as ex:
        report(what, 0, '%s: %s' % (type(ex).__name__, str(ex)[:100]), int(want_id[0]), types, fid)
        return
    if got.shape != (n,) or got.dtype.kind not in 'iu' or got.dtype.itemsize != 8:
        report(what, 0, 'shape %r dtype %s' % (got.shape, got.dtype), 'shape (%d,) 64-bit integer' % n, types, fid)
        return
    neq = np.flatnonzero(got.astype(np.uint64) != want_id)
    if neq.size:
        bad = set(neq.tolist())
        at = [pc['pos'] for pc, _ in pr if pc['pos'] in bad]
        k = at[0] if at else int(neq[0])
        report('%s (%d positions differ)' % (what, neq.size), k, int(got[k]) & (2**64 - 1), int(want_id[k]), types, fid)


def long_rejects(ctx, seeds, rejects):
    # ---- one out-of-range element at a probe position of a long array rejects the call
    tiled = {}
    for c, exp in rejects:
        kind, n, p = c['k'], c['len'], c['pos']
        names = OBJ if kind == 'obj' else SPEC
        if (kind, n) not in seeds:
            raise core.MachineryError('reject state without its seed: %r' % (c,))
        if (kind, n) not in tiled:
            tiled.clear()
            tiled[(kind, n)] = {nm: np.resize(np.array([b[nm] for b in seeds[(kind, n)][0]['base']], dtype=np.int64), n) for nm in names}
        cols = tiled[(kind, n)]
        keep = {nm: cols[nm][p] for nm in names}
        for nm in names:
            cols[nm][p] = c['t'][nm]
        try:
            obs = outcome(lambda: np.asarray(pack_cols(kind, cols))[p:p + 1])
        finally:
            for nm in names:
                cols[nm][p] = keep[nm]
        ctx.evaluated(1, 'long-reject')
        ctx.validated()
        if not (obs['err'] == exp['err'] and obs['exc'] == 'ValueError'):
            ctx.violation({'what': '%s array of %d elements whose element %d is %s (%s out of range): expected ValueError, observed %s' % (
                kind, n, p, c['t'], c['which'], obs), 'long': {'kind': kind, 'len': n, 'pos': p, 'reject': True},
                'call': {'kind': kind, 'f': c['t'], 'conv': 'array', 'which': '', 'str': []}, 'expected': {'err': True, 'id': []}})


def random_type(rng, kind, nm, vals):
    """A random integer type that represents the supplied values (NumPy decides; Trace_IdLayout!TypesOK re-judges it)."""
    g = rng.choice(INT_ORDER)
    off = 50000 if (kind, nm) == ('spec', 'mjd') else 0
    try:
        np.array([int(v) + off for v in vals] + [off + 1], dtype=np.dtype(g))     # ... and a true MJD > 50000 at all
    except OverflowError:
        return 'int64'
    return g


def recorded_long_arrays(ctx, rng):
    """code -> spec on LONG arrays: n random in-range tuples are packed in one call and unpacked in one call (random
    identifier form and keywords); the elements at the first, last, power-of-two and random positions are recorded and
    judged by Trace_IdLayout like any other call (the specification declares length and position irrelevant)."""
    recs = []
    for kind in ('obj', 'spec'):
        for rep in range(1 if ctx.quick else 3):
            n = rng.randint(2**16 + 2, 2**17 + 2**15) if rep == 0 else rng.randint(2**17, 2**21 + 2**10)
            g = np.random.default_rng(rng.getrandbits(32))
            cols = {nm: g.integers(lo, hi + 1, n) for nm, (lo, hi) in RANGES[kind].items()}
            types = {nm: random_type(rng, kind, nm, RANGES[kind][nm]) for nm in cols}
            tcols = {nm: (cols[nm] + (50000 if (kind, nm) == ('spec', 'mjd') else 0)).astype(np.dtype(types[nm])) for nm in cols}
            form, variant = rng.choice(FORM_ORDER), rng.randrange(4)
            pos = sorted({0, n - 1} | {q for k in range(1, 22) for q in (2**k - 1, 2**k, 2**k + 1) if q < n} |
                         {rng.randrange(n) for _ in range(120)})
            ids = u = None
            try:
                ids = np.asarray(pack_cols(kind, tcols, true_mjd=True))
                if ids.shape != (n,) or ids.dtype.kind not in 'iu' or ids.dtype.itemsize != 8:
                    exc = 'shape %r dtype %s' % (ids.shape, ids.dtype)
                    ids = None
                else:
                    exc = ''
            except Exception as ex:
                exc = type(ex).__name__ if isinstance(ex, ValueError) else '%s: %s' % (type(ex).__name__, str(ex)[:100])
            if ids is not None:
                try:
                    u = unwrap_at(kind, ids.astype(np.int64 if kind == 'obj' else np.uint64), form, variant, pos)
                except Exception as ex:
                    u = [{'exc': repr(ex)[:200]}] * len(pos)
            for k, p in enumerate(pos):
                f = {nm: int(cols[nm][p]) for nm in cols}
                recs.append({'kind': kind, 'f': f, 'conv': 'array',
                             'ret': {'err': ids is None, 'id': int_to_bits(int(ids[p])) if ids is not None else []},
                             'exc': exc, 'unwrapped': u[k] if u is not None else {}, 'form': form, 'len': n, 'pos': p,
                             'types': types})
                ctx.nontriv((kind, tuple(sorted(f.items()))))
    return recs


def classify(c, exp, obs):
    """Name the known deviation that explains this mismatch exactly, if any (spec: Dev_* operators)."""
    if c['kind'] == 'spec' and c['conv'] in ('array', 'array1') and not exp['err'] and obs.get('exc') == 'ValueError':
        return 'D-C06-1'
    # IdLayout!Dev_ObjNarrowTypeApplies
    if (c['kind'] == 'obj' and c['conv'] in ('array', 'array1') and not exp['err'] and
            any(g != 'int64' for g in (c.get('types') or {}).values())):
        return 'D-C06-2'
    # IdLayout!Dev_Uint16MjdWraps
    if (c['kind'] == 'spec' and c['conv'] in ('array', 'array1') and exp['err'] and not obs.get('err', True) and
            (c.get('types') or {}).get('mjd') == 'uint16'):
        return 'D-C06-3'
    return None


def run(ctx):
    ctx.level = 'model_checking'
    ctx.rule = ('every state of MC_IdLayout is one call (kind, field tuple, calling convention); non-trivial = distinct '
                '(kind, field tuple) with at least one field off its minimum; recorded calls = seeded random/adversarial '
                'tuples judged by Trace_IdLayout')
    ctx.assumptions = ['TLC 32-bit integers: field values above 2^20 are only exercised in the recorded direction (< 2^31)',
                       'abstraction: 64-bit id <-> set of bit positions (int_to_bits)']
    cfg = 'MC_IdLayout_quick.cfg' if ctx.quick else 'MC_IdLayout_thorough.cfg'
    r = ctx.tlc('MC_IdLayout.tla', cfg, dump=True, timeout=1500)
    vec = {'obj': [], 'spec': []}
    r2cases = []
    seeds, probes, rejects = {}, {}, []
    types_seen = set()
    n = 0
    for st in core.iter_states(r):
        c, exp = st['c'], st['exp']
        if c['kind'] == 'longseed':
            seeds[(c['k'], c['len'])] = (c, exp)
        elif c['kind'] == 'long':
            probes.setdefault((c['k'], c['len']), []).append((c, exp))
        elif c['kind'] == 'longrej':
            rejects.append((c, exp))
        if c['kind'] not in ('obj', 'spec'):
            continue
        n += 1
        exp = {'err': exp['err'], 'id': sorted(exp['id'])}
        c['str'] = list(c['str'])
        if any(v != RANGES[c['kind']][k][0] for k, v in c['f'].items()):
            ctx.nontriv((c['kind'], tuple(sorted(c['f'].items()))))
        if not exp['err'] and bits_to_int(exp['id']) != arith_id(c['kind'], c['f']):
            raise core.MachineryError('IdLayout.tla (bit sets) and IdLayoutArith.tla (arithmetic) disagree on %r' % (c,))
        if c['str'] and not exp['err']:
            r2cases.append((c, exp))
        if c['conv'] == 'array' and not exp['err']:
            vec[c['kind']].append((c, exp))
            if not ctx.quick and n % 40 and 'forms' not in c:
                continue          # thorough: the big sweeps go through the vectorised path; every 40th also singly
        obs = run_case(c)
        ctx.evaluated(1, c['conv'])
        ctx.validated()
        good = (obs['err'] == exp['err'] and obs['id'] == exp['id'] and
                (obs['exc'] in (None, 'ValueError')))
        if good and not exp['err']:
            idint = bits_to_int(exp['id'])
            # the integer form and one string form always, the remaining two forms in rotation; keywords in rotation
            for fk, form in enumerate(('int', ('ustr', 'bstr')[n % 2], ('swapped', 'bstr', 'ustr')[n % 3])):
                variant = (n + 2 * fk + fk // 2) % 4
                try:
                    u = unwrap(c['kind'], idint, form, variant=variant)
                except Exception as ex:
                    u = {'exc': repr(ex)}
                w = dict(c['f'])
                if c['kind'] == 'spec':
                    w['mjd'] += 50000
                if u != w:
                    good = False
                    obs = dict(obs, unwrapped=u, unwrap_form=form, unwrap_variant=variant)
            if c['str'] and good:
                from pydl.pydlutils.sdss import unwrap_specobjid
                s = unwrap_specobjid(np.array([idint], dtype=np.uint64)).run2d[0]
                if s != 'v%d_%d_%d' % tuple(c['str']):
                    good = False
                    obs = dict(obs, run2d_string=str(s))
        forms = c.pop('forms', None)
        if n % 500 == 1:
            ctx.sample({'call': c, 'expected': exp, 'observed': obs})
        if not good:
            ctx.violation({'what': 'call %s(%s, conv=%s) expected %s observed %s' % (c['kind'], c['f'], c['conv'], exp, obs),
                           'call': c, 'expected': exp, 'observed': obs}, finding=classify(c, exp, obs))
        if forms is not None and c['conv'] in ('array', 'array1'):
            # the same call with the arguments in other integer types: TLC's outcome for the same VALUES (IntFormIndependent)
            for types in rotate_types(dict(c, forms=forms), n):
                ct = dict(c, types=types)
                obs = run_case(ct)
                ctx.evaluated(1, 'typed-' + c['conv'])
                ctx.validated()
                types_seen.update(types.values())
                if not (obs['err'] == exp['err'] and obs['id'] == exp['id'] and obs['exc'] in (None, 'ValueError')):
                    ctx.violation({'what': 'call %s(%s, conv=%s, argument types %s) expected %s observed %s' % (
                        c['kind'], c['f'], c['conv'], types, exp, obs), 'call': ct, 'expected': exp, 'observed': obs},
                        finding=classify(ct, exp, obs))
    if types_seen != set(INT_ORDER):
        raise core.MachineryError('integer types driven %r, concretised here %r' % (sorted(types_seen), sorted(INT_ORDER)))
    run2d_arrays(ctx, r2cases)
    rejects.sort(key=lambda t: (t[0]['k'], t[0]['len'], t[0]['pos'], t[0]['which'], sorted(t[0]['t'].items())))
    long_arrays(ctx, seeds, probes, rejects)
    for kind in ('obj', 'spec'):
        if not vec[kind]:
            continue
        bad, err = vector_replay(ctx, kind, vec[kind])
        ctx.evaluated(len(vec[kind]), 'vectorised-' + kind)
        ctx.validated(len(vec[kind]))
        if err is not None:
            c, exp = vec[kind][0]
            obs = {'exc': err.split(':')[0]}
            ctx.violation({'what': 'vectorised %s call over %d in-range tuples raised %s' % (kind, len(vec[kind]), err),
                           'first_call': c}, finding=classify(c, exp, obs))
        else:
            for k in bad[:20]:
                c, exp = vec[kind][k]
                ctx.violation({'what': 'vectorised %s element differs: %s' % (kind, c['f']), 'call': c, 'expected': exp})
    # ---- code -> spec: recorded calls judged by the specification --------------------------
    rng = random.Random(ctx.seed)
    recs = []
    nrec = 1500 if ctx.quick else 12000
    for k in range(nrec):
        kind = rng.choice(['obj', 'spec'])
        f = {}
        for nme, (lo, hi) in RANGES[kind].items():
            p = rng.random()
            if p < 0.80:
                f[nme] = rng.randint(lo, hi)
            elif p < 0.88:
                f[nme] = rng.choice([lo, hi, lo + 1, hi - 1])
            elif p < 0.94:
                f[nme] = rng.choice([lo - 1, hi + 1, -1, -rng.randint(1, 2**30)])
            else:
                f[nme] = rng.choice([hi + 1 + rng.randint(0, 2**20), 2**30 + rng.randint(0, 2**30 - 1), 2 * (hi + 1) - 1])
        if kind == 'spec':
            f['mjd'] = max(f['mjd'], -50000 + 1) if f['mjd'] < -40000 else f['mjd']
        conv = rng.choice(['scalar', 'array1', 'array'])
        c = {'kind': kind, 'f': f, 'conv': conv, 'which': '', 'str': []}
        if conv == 'scalar':
            types = {nme: 'python' for nme in f}
        else:
            types = {nme: random_type(rng, kind, nme, [v]) for nme, v in f.items()}
            c['types'] = types
        obs = run_case(c)
        rec = {'kind': kind, 'f': f, 'conv': conv, 'ret': {'err': obs['err'], 'id': obs['id']}, 'exc': obs['exc'] or '',
               'types': types}
        if not obs['err']:
            try:
                u = unwrap(kind, bits_to_int(obs['id']), FORM_ORDER[k % 4], variant=(k // 4) % 4)
            except Exception as ex:
                u = {'exc': repr(ex)}
            rec['unwrapped'] = u
        else:
            rec['unwrapped'] = {}
        rec.update(form=FORM_ORDER[k % 4], len={'scalar': 1, 'array1': 1, 'array': 3}[conv], pos=1 if conv == 'array' else 0)
        recs.append(rec)
        if all(lo <= f[nme] <= hi for nme, (lo, hi) in RANGES[kind].items()):
            ctx.nontriv((kind, tuple(sorted(f.items()))))
    recs.extend(recorded_long_arrays(ctx, rng))
    bad = core.validate_records(ctx, 'Trace_IdLayout', recs)
    ctx.evaluated(len(recs), 'recorded')
    ctx.validated(len(recs))
    for k, rec in enumerate(recs):
        if rec['exc'] not in ('', 'ValueError') and k not in bad:
            bad[k] = 'exception ' + rec['exc']
    for k in sorted(bad):
        rec = recs[k]
        c = {'kind': rec['kind'], 'conv': rec['conv'], 'types': rec['types']}
        ctx.violation({'what': 'recorded call rejected by Trace_IdLayout (%s): %s' % (bad[k], rec), 'record': rec},
                      finding=classify(c, {'err': not all(lo <= rec['f'][nme] <= hi for nme, (lo, hi) in RANGES[rec['kind']].items())},
                                       {'exc': rec['exc'], 'err': rec['ret']['err']}))
    ctx.sample({'recorded_call': recs[0]})
    # ---- binding self-test: falsified observations must be rejected by the same judge ----------
    import copy
    fals = []
    for k, rec in enumerate(recs):
        if k in bad or rec['ret']['err'] or len(fals) >= 240:
            continue
        r2 = copy.deepcopy(rec)
        m = len(fals) % 3
        if m == 0:                      # one bit of the returned id flipped
            b = (k * 7) % 64
            ids = set(r2['ret']['id'])
            ids.symmetric_difference_update({b})
            r2['ret']['id'] = sorted(ids)
            r2['unwrapped'] = {}
        elif m == 1:                    # an in-range call reported as an error
            r2['ret'] = {'err': True, 'id': []}
            r2['unwrapped'] = {}
        else:                           # the unwrapped fields do not give back the packed ones
            if not isinstance(r2['unwrapped'], dict) or not r2['unwrapped'] or 'exc' in r2['unwrapped']:
                continue
            nme = sorted(r2['unwrapped'])[k % len(r2['unwrapped'])]
            r2['unwrapped'][nme] += 1
        fals.append(r2)
    core.binding_selftest(ctx, 'Trace_IdLayout', fals, 'recorded_calls')
    apalache_all_tuples(ctx)
    ctx.exhaustive = not ctx.quick


SHIFT = {'obj': {'skyversion': 59, 'rerun': 48, 'run': 32, 'camcol': 29, 'firstfield': 28, 'field': 16, 'object': 0},
         'spec': {'plate': 50, 'fiber': 38, 'mjd': 24, 'run2d': 10, 'line': 0}}


def arith_id(kind, f):
    """The identifier as apalache/IdLayoutArith.tla writes it (sum of field * 2^lowest bit)."""
    return sum(int(v) << SHIFT[kind][k] for k, v in f.items())


def apalache_all_tuples(ctx):
    """Unbounded part: the layout laws for EVERY in-range field tuple (apalache/IdLayoutArith.tla), plus a negative
    control that must be refuted.  The arithmetic rendering is tied to the bit-set rendering of IdLayout.tla by
    comparing arith_id with TLC's bit sets on every enumerated in-range case (done by the caller)."""
    import shutil
    import subprocess
    spec = os.path.join(core.VERIF, 'apalache', 'IdLayoutArith.tla')
    out = os.path.join(ctx.scratch, 'apalache')
    results = []
    for name, inv, must_hold in (('layout laws for all in-range tuples', 'Inv', True),
                                 ('negative control: overlapping camcol/firstfield', 'NegativeControl', False)):
        cmd = ['apalache-mc', 'check', '--init=Init', '--next=Next', '--inv=' + inv, '--length=0', '--out-dir=' + out, spec]
        try:
            p = subprocess.run(cmd, stdout=subprocess.PIPE, stderr=subprocess.STDOUT, text=True, timeout=900)
        except (OSError, subprocess.TimeoutExpired) as ex:
            raise core.MachineryError('apalache-mc failed to run: %r' % (ex,))
        ok = 'The outcome is: NoError' in p.stdout
        err = 'The outcome is: Error' in p.stdout
        if not (ok or err):
            raise core.MachineryError('apalache-mc gave no verdict for %s:\n%s' % (name, p.stdout[-1500:]))
        if must_hold and not ok:
            raise core.MachineryError('Apalache refuted: %s' % name)
        if not must_hold and not err:
            raise core.MachineryError('Apalache did not refute the %s' % name)
        results.append({'obligation': name, 'verdict': 'holds' if ok else 'refuted (as required)'})
    shutil.rmtree(out, ignore_errors=True)
    ctx.cov['apalache_all_tuples'] = {'module': 'apalache/IdLayoutArith.tla',
                                      'laws': ['ObjFits', 'SpecFits', 'ObjRoundTrip', 'SpecRoundTrip', 'ObjInjective', 'SpecInjective',
                                               'OverflowCollides', 'Run2dString'],
                                      'domain': 'every in-range field tuple of both layouts (unbounded integers, length-0 check)',
                                      'results': results}


def replay(ctx, case):
    """bin/check C06 --replay <file>: re-execute the single failing call of a replay file."""
    ctx.level = 'model_checking'
    ctx.rule = 'single replayed case'
    if 'long' in case:
        # a position of a long array: re-enumerate that array's states (seed, probes, rejects) and drive it again
        lg = case['long']
        for cfg in ('MC_IdLayout_quick.cfg', 'MC_IdLayout_thorough.cfg'):
            r = ctx.tlc('MC_IdLayout.tla', cfg, dump=True, timeout=1500)
            seeds, probes, rejects = {}, {}, []
            for st in core.iter_states(r):
                c, exp = st['c'], st['exp']
                if c['kind'] not in ('longseed', 'long', 'longrej') or (c['k'], c['len']) != (lg['kind'], lg['len']):
                    continue
                if c['kind'] == 'longseed':
                    seeds[(c['k'], c['len'])] = (c, exp)
                elif c['kind'] == 'long':
                    probes.setdefault((c['k'], c['len']), []).append((c, exp))
                elif lg.get('reject') and (c['pos'], c['t']) == (lg['pos'], case['call']['f']):
                    rejects.append((c, exp))
            if seeds:
                break
        if not seeds:
            raise core.MachineryError('no enumerated array (%s, %d)' % (lg['kind'], lg['len']))
        long_arrays(ctx, seeds, probes, rejects, all_forms=False)
        ctx.nontriv('a'); ctx.nontriv('b')
        return
    c = case.get('call') or case.get('first_call')
    if c is None and 'record' in case:
        r = case['record']
        c = {'kind': r['kind'], 'f': r['f'], 'conv': r['conv'], 'which': '', 'str': []}
        if r['conv'] != 'scalar' and r.get('types'):
            c['types'] = r['types']
    obs = run_case(c)
    print('replayed call:', c, '\nobserved:', obs, '\nexpected:', case.get('expected'))
    ctx.evaluated(1)
    ctx.nontriv('a'); ctx.nontriv('b')
    exp = case.get('expected')
    if exp is not None and (obs['err'] != exp['err'] or obs['id'] != exp['id'] or obs['exc'] not in (None, 'ValueError')):
        ctx.violation(case)
