"""C04 - spherematch returns exactly the pairs closer than the match length.
Spec: spec/SphereMatch.tla (Unlimited, the greedy machine Consider / SkipBorder, GreedyResult, ChunkHash design model);
MC: mc/MC_SphereMatch (modes "greedy" and "hash" + two negative controls); Trace: trace/Trace_SphereMatch.

spec -> code: (a) every finished behaviour of the greedy machine TLC generates (problem = list sizes, maxmatch, which
              pairs are close / in the guard band, distance ranks with ties; behaviour = tie order and guard-band pairs
              skipped) is executed on the REAL spherematch; only the distance function gcirc is replaced by the ranks
              of that problem.  The returned pair sequence must be one of the sequences TLC produced for that problem.
              (b) every state of the hash design model (ring x band of cells, margin, point) is executed on the REAL
              chunks.assign / chunks.getbounds / chunks.get on a flat lattice; the cells that receive the point must
              contain the cells TLC says are needed, once each, and nothing beyond the cells TLC allows.
code -> spec: real spherematch on point sets aimed at the mechanism (chunk edges read from the real chunks object,
              RA 0/360 seam, polar caps, chains, edge lattices, all-sky, clusters, duplicates), match lengths 1 arcsec
              .. 30 deg, chunk sizes 1.01 .. 10 x match length and the default, maxmatch 0..3, every set also permuted.
              The "closer than L" relation, the guard band and the distance ranks come from the independent oracle below
              (unit-vector chord and atan2(|a x b|, a.b) in numpy longdouble); TLC judges every call (Trace_SphereMatch:
              Unlimited for maxmatch = 0, the greedy machine for maxmatch > 0).
Python only concretises (ranks -> a distance table, lattice -> degrees), abstracts (arrays -> pair sequences, flags) and
measures separations.
"""
import math
import os
import random
import re

import numpy as np

from .. import core

LD = np.longdouble
REL = 1e-9            # guard band / distance agreement: relative
ABS = 1e-12           # ... absolute, degrees
MAXCELLS = 40000      # the real chunks object allocates one list per cell: keep calls affordable
MAXREPORT = 12
MAXGREEDY = 300       # candidate pairs in a recorded call with maxmatch > 0
MAXGREEDY_QUICK = 120


# ---------------------------------------------------------------------------------------------
# independent oracle
def oracle_sep(ra1, dec1, ra2, dec2):
    """Separations (deg) of all pairs by two independent formulas in extended precision."""
    d2r = np.arctan(LD(1)) * 4 / LD(180)

    def uv(ra, dec):
        ra = np.asarray(ra, dtype=LD) * d2r
        dec = np.asarray(dec, dtype=LD) * d2r
        return np.stack([np.cos(dec) * np.cos(ra), np.cos(dec) * np.sin(ra), np.sin(dec)], axis=-1)
    a = uv(ra1, dec1)[:, None, :]
    b = uv(ra2, dec2)[None, :, :]
    chord = np.sqrt(((a - b) ** 2).sum(-1))
    s1 = 2 * np.arcsin(np.minimum(chord / 2, LD(1))) / d2r
    cr = np.stack([a[..., 1] * b[..., 2] - a[..., 2] * b[..., 1],
                   a[..., 2] * b[..., 0] - a[..., 0] * b[..., 2],
                   a[..., 0] * b[..., 1] - a[..., 1] * b[..., 0]], axis=-1)
    s2 = np.arctan2(np.sqrt((cr ** 2).sum(-1)), (a * b).sum(-1)) / d2r
    return s1, s2


def oracle(ra1, dec1, ra2, dec2, L):
    """near / border pair lists (0-based), rank of every candidate, the two separation tables."""
    s1, s2 = oracle_sep(ra1, dec1, ra2, dec2)
    tol = REL * L + ABS
    lo = np.minimum(s1, s2)
    hi = np.maximum(s1, s2)
    near = hi < L - tol
    far = lo > L + tol
    cand = ~far
    ii, kk = np.nonzero(cand)
    mid = ((s1 + s2) / 2)[ii, kk]
    unc = (hi - lo)[ii, kk]
    order = np.argsort(mid, kind='stable')
    rank = {}
    r = 0
    prev = None
    for a in order:
        s = mid[a]
        if prev is not None and s - prev[0] > 4 * (REL * float(s) + ABS) + float(unc[a]) + prev[1]:
            r += 1
        rank[(int(ii[a]), int(kk[a]))] = r
        prev = (s, float(unc[a]))
    nearp = [(int(i), int(k)) for i, k in zip(ii, kk) if near[i, k]]
    borderp = [(int(i), int(k)) for i, k in zip(ii, kk) if not near[i, k]]
    ordered = [(int(ii[a]), int(kk[a])) for a in order]
    return {'near': nearp, 'border': borderp, 'rank': rank, 'order': ordered, 's1': s1, 's2': s2}


# ---------------------------------------------------------------------------------------------
# geometry helpers for the drivers (not part of any verdict)
def norm_ra(ra):
    ra = np.mod(np.asarray(ra, dtype=float), 360.0)
    ra[ra >= 360.0] = 0.0
    return ra


def dest(ra, dec, bearing, dist):
    """Point at angular distance dist (deg) from (ra, dec) along bearing (deg, 0 = north, 90 = east)."""
    r, d, b, s = map(math.radians, (ra, dec, bearing, dist))
    sd = math.sin(d) * math.cos(s) + math.cos(d) * math.sin(s) * math.cos(b)
    sd = max(-1.0, min(1.0, sd))
    d2 = math.asin(sd)
    y = math.sin(b) * math.sin(s) * math.cos(d)
    x = math.cos(s) - math.sin(d) * sd
    r2 = r + math.atan2(y, x)
    return math.degrees(r2) % 360.0, math.degrees(d2)


def ra_offset_for(dec, dist):
    """RA difference (deg) of two points at the same declination separated by dist; None if impossible."""
    v = math.sin(math.radians(dist) / 2) / math.cos(math.radians(dec))
    if v >= 1:
        return None
    return math.degrees(2 * math.asin(v))


def est_cells(ra1, dec1, cs):
    dr = float(np.ptp(dec1))
    ra = np.sort(np.asarray(ra1, dtype=float))
    gaps = np.diff(np.concatenate([ra, [ra[0] + 360.0]]))
    rr = 360.0 - float(gaps.max())
    c = max(0.02, math.cos(math.radians(min(89.0, float(np.abs(dec1).max()) + cs))))
    return (dr / cs + 3) * (min(360.0, rr + 3 * cs / c) / cs + 3)


def real_chunks(ra1, dec1, cs):
    from pydl.pydlutils.spheregroup import chunks
    return chunks(np.asarray(ra1, dtype=float), np.asarray(dec1, dtype=float), cs)


def chunk_size(L, cs):
    return cs if cs is not None else max(4.0 * L, 0.1)


# ---------------------------------------------------------------------------------------------
# drivers: point sets aimed at the mechanism
class Gen:
    def __init__(self, seed, quick):
        self.rng = random.Random(seed)
        self.quick = quick
        self.nmax = 40 if quick else 70

    def frame(self, ra0, dec0, wra, wdec):
        """Four first-list points that fix the extent of the chunk grid."""
        c = math.cos(math.radians(min(89.5, abs(dec0) + wdec)))
        pts = [(ra0 - wra / c, dec0 - wdec), (ra0 + wra / c, dec0 - wdec), (ra0 - wra / c, dec0 + wdec), (ra0 + wra / c, dec0 + wdec)]
        return [(p[0] % 360.0, max(-89.9, min(89.9, p[1]))) for p in pts]

    def pick_dec(self, L, room):
        rng = self.rng
        while True:
            d = rng.choice([0.0, 20.0, 40.0, 52.5, 60.0, 70.0, 75.0, 80.0, 84.0, 87.0]) * rng.choice([-1, 1]) + rng.uniform(-1, 1)
            if abs(d) + room < 89.5:
                return d
            if room > 60:
                return 0.0

    def inner_edge(self, c, i):
        """An RA cell boundary of slice i strictly inside the RA range of the first list (rotated frame), so that
        first-list points put next to it do not change the grid; None if there is none."""
        pad = 1e-6 * (c.raMax - c.raMin)
        js = [j for j in range(1, c.nRa[i]) if c.raMin + pad < float(c.raBounds[i][j]) < c.raMax - pad]
        return self.rng.choice(js) if js else None

    def edges(self, L, cs, only=None, dec0=None):
        """Pairs straddling RA and declination edges of the real chunk grid (edges read from chunks, read-only)."""
        rng = self.rng
        csz = chunk_size(L, cs)
        wdec = csz * rng.uniform(0.6, 1.6)
        if dec0 is None:
            dec0 = self.pick_dec(L, wdec + 2 * L)
        ra0 = rng.choice([rng.uniform(0, 360), rng.uniform(-2, 2) * csz, 180.0])
        f = self.frame(ra0, dec0, csz * rng.uniform(0.6, 1.6), wdec)
        ra1 = [p[0] for p in f]
        dec1 = [p[1] for p in f]
        ra2, dec2 = [], []
        try:
            c = real_chunks(norm_ra(ra1), dec1, csz)
        except Exception:
            return norm_ra(ra1), np.array(dec1), norm_ra([ra0]), np.array([dec0]), 'edges-noframe'
        dmin, dmax = min(dec1), max(dec1)
        want = self.nmax - 4
        tries = 0
        while len(ra1) < want and tries < 200:
            tries += 1
            i = rng.randrange(c.nDec)
            lo, hi = float(c.decBounds[i]), float(c.decBounds[i + 1])
            lo2, hi2 = max(lo, dmin), min(hi, dmax)
            if hi2 <= lo2:
                continue
            kind = only or rng.choice(['ra', 'ra-margin', 'ra-margin', 'ra-top', 'dec', 'corner'])
            delta = rng.choice([1e-7, 1e-5, 1e-3, 0.01, 0.1, 0.4])
            d = L * (1 - delta)
            eps = rng.choice([0.0, 1e-9, 1e-6, 1e-3, 0.05]) * L
            if kind == 'ra-margin':
                # the mechanism itself: second-list point just beyond margin/cosDecMin (read from the real object) of
                # the edge, first-list point just inside the edge near the slice boundary of largest |dec|
                if c.nRa[i] < 2:
                    continue
                j = self.inner_edge(c, i)
                if j is None:
                    continue
                e = (float(c.raBounds[i][j]) - c.raOffset) % 360.0
                frac = rng.choice([1e-9, 1e-6, 1e-4, 1e-3])
                dq = hi2 - frac * (hi2 - lo2) if abs(hi) > abs(lo) else lo2 + frac * (hi2 - lo2)
                side = rng.choice([-1, 1])
                epsq = rng.choice([0.0, 1e-9, 1e-6]) * L
                rq = (e - side * epsq / math.cos(math.radians(dq))) % 360.0
                dalpha = L / float(c.cosDecMin(i)) * (1 + rng.choice([1e-9, 1e-6, 1e-4, 1e-3, 1e-2]))
                rp = (e + side * dalpha) % 360.0
                best = None
                mid, half = dq, L
                for _ in range(4):              # declination of the second point that brings it closest
                    grid = [mid + (step - 20) / 20.0 * half for step in range(41)]
                    grid = [v for v in grid if abs(v) < 89.95]
                    if not grid:
                        break
                    sv = oracle_sep([rq], [dq], [rp] * len(grid), grid)[0][0]
                    a = int(np.argmin(sv))
                    if best is None or float(sv[a]) < best[0]:
                        best = (float(sv[a]), grid[a])
                    mid, half = best[1], half / 10.0
                if best is None or best[0] >= L * (1 - 1e-8):
                    continue
                dp = best[1]
            elif kind == 'ra-reach':
                # second-list point just inside the true RA reach asin(sin L / cosDecMin) of the edge (the margin the
                # code must honour whatever the numeric type L is given in)
                if c.nRa[i] < 2:
                    continue
                cd = float(c.cosDecMin(i))
                if math.sin(math.radians(L)) >= cd:
                    continue
                reach = math.degrees(math.asin(math.sin(math.radians(L)) / cd))
                if not (dmin <= (hi if abs(hi) > abs(lo) else lo) <= dmax):
                    continue            # the slice boundary of largest |dec| must be reachable by a first-list point
                j = self.inner_edge(c, i)
                if j is None:
                    continue
                e = (float(c.raBounds[i][j]) - c.raOffset) % 360.0
                frac = rng.choice([1e-10, 1e-9])
                dq = hi2 - frac * (hi2 - lo2) if abs(hi) > abs(lo) else lo2 + frac * (hi2 - lo2)
                side = rng.choice([-1, 1])
                rq = (e - side * rng.choice([0.0, 1e-10]) * L / math.cos(math.radians(dq))) % 360.0
                rp = (e + side * reach * (1 - rng.choice([3e-8, 1e-6, 1e-4, 2e-4, 1e-3]))) % 360.0
                best = None
                mid, half = dq, L
                for _ in range(7):
                    grid = [mid + (step - 20) / 20.0 * half for step in range(41)]
                    grid = [v for v in grid if abs(v) < 89.95]
                    if not grid:
                        break
                    sv = oracle_sep([rq], [dq], [rp] * len(grid), grid)[0][0]
                    a = int(np.argmin(sv))
                    if best is None or float(sv[a]) < best[0]:
                        best = (float(sv[a]), grid[a])
                    mid, half = best[1], half / 10.0
                if best is None or best[0] >= L * (1 - 1e-8):
                    continue
                dp = best[1]
            elif kind in ('ra', 'ra-top', 'corner'):
                if c.nRa[i] < 2:
                    continue
                j = self.inner_edge(c, i)
                if j is None:
                    continue
                e = (float(c.raBounds[i][j]) - c.raOffset) % 360.0
                if kind == 'ra-top':      # at the slice boundary of largest |dec|: the widest RA reach
                    dq = hi2 - rng.choice([1e-9, 1e-4, 0.01]) * (hi2 - lo2) if abs(hi) > abs(lo) else lo2 + rng.choice([1e-9, 1e-4, 0.01]) * (hi2 - lo2)
                elif kind == 'corner':
                    dq = rng.choice([lo2 + eps, hi2 - eps])
                else:
                    dq = rng.uniform(lo2, hi2)
                cq = math.cos(math.radians(dq))
                side = rng.choice([-1, 1])
                rq = (e - side * eps / cq) % 360.0            # first-list point just on one side of the edge
                if kind == 'corner':
                    bearing = rng.uniform(0, 360)
                else:
                    bearing = rng.choice([90.0 * side, 90.0 * side + rng.uniform(-25, 25), 90.0 * side + rng.uniform(-80, 80)])
                if rng.random() < 0.5 and kind != 'corner':
                    off = ra_offset_for(dq, d)                 # same declination: the widest RA offset for the distance
                    if off is None:
                        continue
                    rp, dp = (rq + side * off) % 360.0, dq
                else:
                    rp, dp = dest(rq, dq, bearing % 360.0, d)
            else:
                j = rng.randrange(c.nRa[i])
                rlo, rhi = float(c.raBounds[i][j]), float(c.raBounds[i][j + 1])
                rq = (rng.uniform(rlo, rhi) - c.raOffset) % 360.0
                up = rng.choice([True, False])
                dq = (hi2 - eps) if up else (lo2 + eps)
                rp, dp = dest(rq, dq, (0.0 if up else 180.0) + rng.choice([0.0, rng.uniform(-60, 60)]), d)
            if not (dmin <= dq <= dmax) or abs(dp) >= 89.95:
                continue
            ra1.append(rq)
            dec1.append(dq)
            ra2.append(rp)
            dec2.append(dp)
        if not ra2:
            ra2, dec2 = [ra0 % 360.0], [dec0]
        return norm_ra(ra1), np.array(dec1), norm_ra(ra2), np.array(dec2), 'edges' if only is None else 'edges-' + only

    def decspan(self, L, cs, allsky=False):
        """Pairs separated in declination across one and two slice boundaries of a pole-clipped grid.  Where the
        padded declination range of the first list runs past a pole the same number of slices is squeezed into a
        shorter range (slice height down to about half the chunk size), so a margin below the chunk size can span
        two slices.  Boundaries are read from the real chunks object; chunk sizes 1.01 .. 2 x L."""
        rng = self.rng
        sgn = rng.choice([-1, 1])
        if allsky:
            n = rng.randint(6, 14)
            dec1 = [sgn * rng.uniform(86.0, 89.5), -sgn * rng.uniform(84.0, 89.5)] + \
                   [math.degrees(math.asin(rng.uniform(-0.98, 0.98))) for _ in range(n)]
            ra1 = [rng.uniform(0, 360) for _ in dec1]
        else:
            top = rng.choice([89.9, 89.0, 88.0, 90.0 - 0.3 * cs])
            top = max(top, 90.0 - 1.4 * cs)                    # close enough to the pole for the grid to be clipped
            span = rng.choice([0.3, 1.2, 2.5, 4.8]) * cs
            low = max(top - span, -60.0)
            dec1 = [sgn * top, sgn * low] + [sgn * rng.uniform(low, top) for _ in range(rng.randint(1, 3))]
            ra0 = rng.uniform(0, 360)
            ra1 = [ra0 + rng.choice([0.0, rng.uniform(-60, 60), rng.uniform(0, 360)]) for _ in dec1]
        ra1 = list(norm_ra(ra1))
        try:
            c = real_chunks(ra1, dec1, cs)
        except Exception:
            return norm_ra(ra1), np.array(dec1), norm_ra([ra1[0]]), np.array([dec1[0] - sgn * 0.5 * L]), 'decspan-noframe'
        dmin, dmax = min(dec1), max(dec1)
        ra2, dec2 = [], []
        tries = 0
        while len(ra1) < self.nmax and tries < 300:
            tries += 1
            i = rng.randrange(c.nDec)
            lo, hi = float(c.decBounds[i]), float(c.decBounds[i + 1])
            up = rng.choice([True, False])
            eps = rng.choice([1e-9, 1e-6, 1e-3, 0.02, 0.2]) * (hi - lo)
            dq = (hi - eps) if up else (lo + eps)                # first-list point just inside slice i
            if not (dmin <= dq <= dmax):
                continue
            d = L * rng.choice([0.9, 0.95, 0.99, 0.999, 0.9999])  # second-list point across one or two boundaries
            rq = rng.uniform(0, 360)
            rp, dp = dest(rq, dq, (0.0 if up else 180.0) + rng.choice([0.0, 0.0, rng.uniform(-8, 8)]), d)
            if abs(dp) >= 89.999:
                continue
            ra1.append(rq)
            dec1.append(dq)
            ra2.append(rp)
            dec2.append(dp)
        if not ra2:
            ra2, dec2 = [ra1[0]], [dec1[0] - sgn * 0.5 * L]
        return norm_ra(ra1), np.array(dec1), norm_ra(ra2), np.array(dec2), 'decspan-allsky' if allsky else 'decspan'

    def seamsweep(self, target):
        """Systematic seam sweep: a first list that goes all round the RA circle at one declination, chunk size
        chosen (and read back from the real chunks object, adjusted until it matches) so that the slice holding the
        data has exactly `target` RA chunks; first-list points within eps of RA = 0 on both sides (and of the seam of
        the rotated frame, RA = 360 - raOffset), second-list partners just across.  Returns None if the chunk count
        cannot be reached."""
        rng = self.rng
        found = None
        for dec0 in (rng.choice([0.0, 25.0, -40.0, 55.0, -64.0, 64.0, 72.0]), 0.0, 25.0, -40.0):
            c0 = math.cos(math.radians(dec0))
            cs = c0 * 360.0 / (target - 2.5)
            if dec0 != 0.0 and abs(dec0) + 0.75 * cs > 80.0:
                continue
            iso = [30.0 * k for k in range(12)]
            other = rng.choice([60.0, 120.0, 180.0, 240.0, 300.0])
            epss = [1e-9, 1e-6, 1e-3, 0.02, 0.2]
            small = large = None
            for _ in range(80):
                L = min(30.0, cs / rng.choice([1.2, 2.0, 4.0]))
                ra1 = list(iso)
                for e in epss:
                    w = e * L / c0
                    ra1 += [w, 360.0 - w, other + w, other - w]
                ra1 = norm_ra(ra1)
                dec1 = np.full(len(ra1), dec0)
                if est_cells(ra1, dec1, cs) > MAXCELLS:
                    break
                try:
                    c = real_chunks(ra1, dec1, cs)
                    rc, dc = c.get(math.fmod(ra1[1] + c.raOffset, 360.0), dec0)
                except Exception:
                    break
                n = c.nRa[dc]
                if n == target:
                    found = (c, dc, L, ra1, dec1)
                    break
                # nRa = 3 + floor(cosDecMin * raRange / chunk size) decreases with the chunk size: bracket and bisect
                if n > target:
                    small = cs
                else:
                    large = cs
                if small is not None and large is not None:
                    cs = 0.5 * (small + large)
                else:
                    cs *= (max(n, 3) - 2.5) / (target - 2.5) * (1.01 if n > target else 0.99)
            if found:
                break
        if not found:
            return None
        c, dc, L, ra1, dec1 = found
        full = float(c.raBounds[dc][c.nRa[dc]] - c.raBounds[dc][0]) > 359.0
        seams = [0.0, (360.0 - c.raOffset) % 360.0]
        ra2, dec2 = [], []
        for seam in seams:
            for e in epss:
                for side in (-1, 1):
                    d = L * rng.choice([0.3, 0.7, 0.95, 0.999])
                    off = ra_offset_for(dec0, d)
                    if off is None:
                        continue
                    # partner of the first-list point at seam + side*e*L/c0: on the other side of the seam
                    ra2.append(seam + side * e * L / c0 - side * off)
                    dec2.append(dec0)
        return norm_ra(ra1), dec1, norm_ra(ra2), np.array(dec2), L, cs, ('seamsweep' if full else 'seamsweep-open')

    def intgrid(self, idx, L):
        """Integer-degree coordinates (so that every coordinate list can be handed over in an integer dtype):
        across the RA 0/360 seam, next to either pole, all-sky, clusters below RA 256 (uint8), equatorial chains."""
        rng = self.rng
        kind = ['seam', 'npole', 'spole', 'allsky', 'allsky-north', 'cluster8', 'chain', 'seam-north'][idx % 8]
        n1, n2 = rng.randint(2, min(self.nmax, 30)), rng.randint(1, min(self.nmax, 30))
        Li = max(1, int(L))

        def g(n):
            if kind in ('seam', 'seam-north'):
                d0 = rng.randint(0, 60) if kind == 'seam-north' else rng.randint(-60, 60)
                return [rng.randint(-3 * Li, 3 * Li) % 360 for _ in range(n)], [d0 + rng.randint(0, 2 * Li) for _ in range(n)]
            if kind in ('npole', 'spole'):
                sg = 1 if kind == 'npole' else -1
                return [rng.randrange(360) for _ in range(n)], [sg * (89 - rng.randint(0, 2 * Li)) for _ in range(n)]
            if kind == 'allsky':
                return [rng.randrange(360) for _ in range(n)], [rng.randint(-89, 89) for _ in range(n)]
            if kind == 'allsky-north':
                return [rng.randrange(360) for _ in range(n)], [rng.randint(0, 89) for _ in range(n)]
            if kind == 'cluster8':
                r0, d0 = rng.randint(0, 200), rng.randint(0, 50)
                return [min(255, r0 + rng.randint(0, 4 * Li)) for _ in range(n)], [d0 + rng.randint(0, 3 * Li) for _ in range(n)]
            r0 = rng.choice([0, 350, rng.randrange(360)])
            return [(r0 + rng.randint(0, n) * max(1, Li - 1)) % 360 for _ in range(n)], [rng.choice([0, 0, 1, -1]) for _ in range(n)]
        ra1, dec1 = g(n1)
        ra2, dec2 = g(n2)
        clip = lambda v: [max(-89, min(89, x)) for x in v]
        return (np.array(ra1, dtype=float), np.array(clip(dec1), dtype=float), np.array(ra2, dtype=float),
                np.array(clip(dec2), dtype=float), 'intgrid-' + kind)

    def polecap(self, L, cs):
        """A few points, one of them close to the north pole: the declination grid is clamped at +90."""
        rng = self.rng
        n1 = rng.randint(2, 4)
        dec1 = np.array([round(rng.uniform(-85, 85), 3) for _ in range(n1 - 1)] + [rng.choice([89.5, 89.0, 88.0, 89.9])])
        ra1 = norm_ra([rng.uniform(0, 360) for _ in range(n1)])
        ra2 = norm_ra([ra1[-1] + rng.uniform(-30, 30), ra1[0]])
        dec2 = np.array([dec1[-1] - 0.4 * L, dec1[0] + 0.5 * L])
        return ra1, dec1, ra2, dec2, 'polecap'

    def seam(self, L, cs):
        rng = self.rng
        n1, n2 = rng.randint(2, self.nmax), rng.randint(1, self.nmax)
        dec0 = self.pick_dec(L, 4 * L)
        w = rng.choice([1.0, 2.0, 4.0]) * L

        def g(n):
            dec = np.array([min(89.9, max(-89.9, dec0 + rng.uniform(-w, w))) for _ in range(n)])
            ra = np.array([rng.uniform(-w, w) for _ in range(n)]) / np.cos(np.radians(dec))
            return norm_ra(ra), dec
        ra1, dec1 = g(n1)
        ra2, dec2 = g(n2)
        # exact seam values
        ra1[0] = 0.0
        if n2 > 1:
            ra2[0] = 0.0
            ra2[1] = np.nextafter(360.0, 0.0)
        return ra1, dec1, ra2, dec2, 'seam'

    def polar(self, L, cs):
        rng = self.rng
        n1, n2 = rng.randint(2, self.nmax), rng.randint(1, self.nmax)
        sgn = rng.choice([-1, 1])
        w = rng.choice([0.5, 1.5, 3.0]) * L

        def g(n):
            r = np.array([rng.choice([1e-6, 1e-3, 1.0]) * rng.uniform(0, w) + 1e-9 for _ in range(n)])
            dec = sgn * np.minimum(89.999999999, 90.0 - r)
            ra = np.array([rng.choice([rng.uniform(0, 360), 0.0, 90.0, 180.0, 270.0]) for _ in range(n)])
            return norm_ra(ra), dec
        ra1, dec1 = g(n1)
        ra2, dec2 = g(n2)
        return ra1, dec1, ra2, dec2, 'polar'

    def chain(self, L, cs):
        rng = self.rng
        n = rng.randint(4, self.nmax)
        step = L * rng.choice([0.5, 0.9, 0.999, 1.001, 1.3])
        ra, dec = rng.choice([0.0, 359.0, rng.uniform(0, 360)]), self.pick_dec(L, 2 * L)
        bearing = rng.choice([90.0, 0.0, 45.0, rng.uniform(0, 360)])
        pts = []
        for _ in range(n):
            pts.append((ra, dec))
            ra, dec = dest(ra, dec, bearing, step)
            if abs(dec) > 89.9:
                break
        if len(pts) < 2:
            pts.append(((pts[0][0] + 1.0) % 360.0, pts[0][1]))
        p2 = [dest(r, d, bearing + rng.choice([0.0, 90.0]), step * rng.choice([0.5, 0.25, 1.0])) for r, d in pts]
        p2 = [p for p in p2 if abs(p[1]) < 89.9] or [pts[0]]
        return (norm_ra([p[0] for p in pts]), np.array([p[1] for p in pts]),
                norm_ra([p[0] for p in p2]), np.array([p[1] for p in p2]), 'chain')

    def lattice(self, L, cs):
        """Points exactly on the edges of the real chunk grid and at fractions of the cell size."""
        rng = self.rng
        csz = chunk_size(L, cs)
        dec0 = self.pick_dec(L, 3 * csz)
        ra0 = rng.choice([rng.uniform(0, 360), 0.0, 180.0])
        f = self.frame(ra0, dec0, csz * 1.3, csz * 1.3)
        ra1 = [p[0] for p in f]
        dec1 = [p[1] for p in f]
        try:
            c = real_chunks(norm_ra(ra1), dec1, csz)
        except Exception:
            return norm_ra(ra1), np.array(dec1), norm_ra([ra0]), np.array([dec0]), 'lattice-noframe'
        dmin, dmax = min(dec1), max(dec1)
        pts = []
        for i in range(c.nDec):
            for fr in (0.0, 0.5):
                d = float(c.decBounds[i]) + fr * float(c.decBounds[i + 1] - c.decBounds[i])
                if not (dmin <= d <= dmax):
                    continue
                for j in range(c.nRa[i] + 1):
                    for fr2 in (0.0, 0.5):
                        if j == c.nRa[i] and fr2 > 0:
                            continue
                        r = float(c.raBounds[i][j]) + (fr2 * float(c.raBounds[i][j + 1] - c.raBounds[i][j]) if j < c.nRa[i] else 0.0)
                        pts.append(((r - c.raOffset) % 360.0, d))
        rng.shuffle(pts)
        inside = []
        for r, d in pts:
            # keep the extent of the grid: only points inside the frame's RA range
            rr = (r - (ra0 - 180.0)) % 360.0
            lo = (min((p[0] - (ra0 - 180.0)) % 360.0 for p in f), max((p[0] - (ra0 - 180.0)) % 360.0 for p in f))
            if lo[0] <= rr <= lo[1]:
                inside.append((r, d))
        inside = inside[:self.nmax - 4]
        ra1 += [p[0] for p in inside]
        dec1 += [p[1] for p in inside]
        shift = rng.choice([0.0, 0.7, 0.999, 1.001]) * L
        bearing = rng.choice([0.0, 90.0, 270.0, 45.0])
        p2 = [dest(r, d, bearing, shift) if shift else (r, d) for r, d in inside] or [(ra0 % 360.0, dec0)]
        p2 = [p for p in p2 if abs(p[1]) < 89.9] or [(ra0 % 360.0, dec0)]
        return norm_ra(ra1), np.array(dec1), norm_ra([p[0] for p in p2]), np.array([p[1] for p in p2]), 'lattice'

    def allsky(self, L, cs):
        rng = self.rng
        nmax = self.nmax if self.quick else rng.choice([self.nmax, 150, 300])
        n1, n2 = rng.randint(2, nmax), rng.randint(1, nmax)

        def g(n):
            ra = np.array([rng.uniform(0, 360) for _ in range(n)])
            dec = np.degrees(np.arcsin(np.array([rng.uniform(-1, 1) for _ in range(n)])))
            return norm_ra(ra), np.clip(dec, -89.999, 89.999)
        ra1, dec1 = g(n1)
        ra2, dec2 = g(n2)
        return ra1, dec1, ra2, dec2, 'allsky'

    def cluster(self, L, cs):
        rng = self.rng
        n1, n2 = rng.randint(2, self.nmax), rng.randint(1, self.nmax)
        w = rng.choice([0.7, 1.5, 3.0]) * L
        dec0 = self.pick_dec(L, 4 * w)
        ra0 = rng.uniform(0, 360)

        def g(n):
            dec = np.clip(np.array([dec0 + rng.gauss(0, w) for _ in range(n)]), -89.9, 89.9)
            ra = ra0 + np.array([rng.gauss(0, w) for _ in range(n)]) / np.cos(np.radians(dec))
            return norm_ra(ra), dec
        ra1, dec1 = g(n1)
        ra2, dec2 = g(n2)
        # duplicates and ties: copies of first-list points in the second list, repeated points
        for _ in range(rng.randint(0, 4)):
            a, b = rng.randrange(n1), rng.randrange(n2)
            ra2[b], dec2[b] = ra1[a], dec1[a]
        if n2 > 2 and rng.random() < 0.5:
            ra2[1], dec2[1] = ra2[0], dec2[0]
        if n1 > 2 and rng.random() < 0.5:
            ra1[1], dec1[1] = ra1[0], dec1[0]
        return ra1, dec1, ra2, dec2, 'cluster'

    def highdec(self, L, cs):
        """Spread in RA at high declination, second list reaching over the pole side."""
        rng = self.rng
        n1, n2 = rng.randint(2, self.nmax), rng.randint(1, self.nmax)
        sgn = rng.choice([-1, 1])
        top = rng.uniform(0.2, 6.0) * L
        if top > 40:
            top = rng.uniform(1, 40)
        ra0 = rng.uniform(0, 360)
        wra = rng.choice([20.0, 90.0, 180.0])

        def g(n):
            dec = sgn * np.array([min(89.999, 90.0 - rng.uniform(0.05, 1.0) * top) for _ in range(n)])
            ra = np.array([ra0 + rng.uniform(-wra, wra) for _ in range(n)])
            return norm_ra(ra), dec
        ra1, dec1 = g(n1)
        ra2, dec2 = g(n2)
        return ra1, dec1, ra2, dec2, 'highdec'


LENGTHS = [1.0 / 3600.0, 10.0 / 3600.0, 0.01, 0.1, 1.0, 3.0, 10.0, 30.0]
CHUNKF = [1.01, 1.1, 1.5, 2.0, 4.0, 10.0, None]


def make_calls(ctx):
    """The list of real calls: dicts ra1, dec1, ra2, dec2, L, cs, k, tag, group (permutation group id)."""
    g = Gen(ctx.seed, ctx.quick)
    rng = g.rng
    drivers = [g.edges, g.edges, g.edges, g.seam, g.polar, g.chain, g.lattice, g.allsky, g.cluster, g.highdec]
    nsets = 44 if ctx.quick else 300
    calls = []
    # anchors: the two mechanisms suspected in DESIGN.md section 6, aimed at directly (maxmatch = 0, default chunk size first)
    anchors = [(1.0, 52.5, None), (3.0, 70.0, None), (0.1, 80.0, 4.0), (10.0, 40.0, 2.0)]
    if not ctx.quick:
        anchors += [(L, d, f) for L in (0.5, 2.0, 5.0) for d in (-30.0, 45.0, 60.0, -75.0) for f in (None, 1.5)]
    sid = -1
    for L, d0, f in anchors:
        cs = None if f is None else f * L
        ra1, dec1, ra2, dec2, tag = g.edges(L, cs, only='ra-margin', dec0=d0)
        calls.append({'set': sid, 'tag': tag, 'ra1': ra1, 'dec1': dec1, 'ra2': ra2, 'dec2': dec2, 'L': L, 'cs': cs, 'k': 0, 'perm': None})
        sid -= 1
    for _ in range(80 if ctx.quick else 500):
        L = rng.choice([0.5, 1.0, 2.0])
        ra1, dec1, ra2, dec2, tag = g.polecap(L, None)
        calls.append({'set': sid, 'tag': tag, 'ra1': ra1, 'dec1': dec1, 'ra2': ra2, 'dec2': dec2, 'L': L,
                      'cs': rng.choice([None, 4.0 * L, 2.5 * L]), 'k': 0, 'perm': None})
        sid -= 1
    # declination reach over squeezed slices (pole-clipped grids, chunk size 1.01 .. 2 x match length, both hemispheres)
    spans = [(9.0, 10.0 / 9.0, False), (20.0, 1.05, True), (3.0, 1.01, False), (1.0, 1.3, False), (10.0, 1.6, True), (5.0, 2.0, False)]
    if not ctx.quick:
        spans += [(L, f, a) for L in (0.5, 2.0, 6.0, 15.0, 25.0) for f in (1.01, 1.1, 1.3, 1.6, 2.0) for a in (False, True)
                  if not (a and L < 5.0)]
    for L, f, a in spans:
        for rep in range(1 if ctx.quick else 2):
            cs = f * L
            ra1, dec1, ra2, dec2, tag = g.decspan(L, cs, allsky=a)
            if est_cells(ra1, dec1, cs) > MAXCELLS:
                continue
            perm = (rng.sample(range(len(ra1)), len(ra1)), rng.sample(range(len(ra2)), len(ra2)))
            for k, pm in ((0, None), (0, perm), (rng.choice([1, 2]), None)):
                calls.append({'set': sid, 'tag': tag + ('+perm' if pm else ''), 'ra1': ra1, 'dec1': dec1, 'ra2': ra2, 'dec2': dec2,
                              'L': L, 'cs': cs, 'k': k, 'perm': pm})
            sid -= 1
    # numeric type as a dimension: integer-degree sets handed over as float64 and in the integer forms that fit
    # (rotated by case number), scalars as Python int / numpy integer scalars / 0-d arrays
    ncase = 0
    for idx in range(40 if ctx.quick else 160):
        Li = [1, 2, 3, 5, 8, 10, 17, 20, 30][idx % 9]
        ra1, dec1, ra2, dec2, tag = g.intgrid(idx, Li)
        L = float(Li) if idx % 3 else Li + 0.5
        cs = [None, float(2 * Li + 1), float(4 * Li), float(Li + 1)][(idx // 3) % 4]
        if est_cells(ra1, dec1, chunk_size(L, cs)) > MAXCELLS:
            continue
        base = {'set': sid, 'ra1': ra1, 'dec1': dec1, 'ra2': ra2, 'dec2': dec2, 'L': L, 'cs': cs, 'perm': None}
        calls.append(dict(base, tag=tag, k=0))
        fits = [f for f in COORD_FORMS if all(coord_form(a, f) is not None for a in (ra1, dec1, ra2, dec2))]
        for rep in range(3 if ctx.quick else 4):
            cf = fits[ncase % len(fits)]
            which = [(0, 1, 2, 3), (0, 1), (2, 3), (1, 3), (0, 2)][(ncase // len(fits)) % 5]
            sf = SCALAR_FORMS[ncase % len(SCALAR_FORMS)]
            forms = {'coords': [cf if j in which else 'float64' for j in range(4)],
                     'scalars': [sf if rep != 1 else None, sf, SCALAR_FORMS[(ncase + rep) % len(SCALAR_FORMS)]]}
            calls.append(dict(base, tag=tag + '+typed', k=[0, rng.choice([1, 2]), 0, 3][rep], forms=forms))
            ncase += 1
        sid -= 1
    # the RA reach of the margin with the match length given as a short numpy integer (float16 / float32 inside numpy)
    for Li, sf in ([(17, 'uint8'), (12, 'uint8'), (30, 'zerodim-uint8'), (5, 'int16'), (20, 'uint16'), (8, 'uint8')] +
                   ([] if ctx.quick else [(Li, sf) for Li in (3, 11, 15, 19, 23, 27) for sf in ('uint8', 'int16', 'pyint', 'int32')])):
        cs = float([2 * Li, 4 * Li, Li + 3][Li % 3])
        ra1, dec1, ra2, dec2, tag = g.edges(float(Li), cs, only='ra-reach', dec0=rng.choice([30.0, -35.0, 45.0]))
        if est_cells(ra1, dec1, cs) > MAXCELLS:
            continue
        base = {'set': sid, 'ra1': ra1, 'dec1': dec1, 'ra2': ra2, 'dec2': dec2, 'L': float(Li), 'cs': cs, 'perm': None, 'k': 0}
        calls.append(dict(base, tag=tag))
        calls.append(dict(base, tag=tag + '+typed', forms={'coords': ['float64'] * 4, 'scalars': [sf, sf if cs == int(cs) else None, 'pyint']}))
        sid -= 1
    # seam sweep: every RA chunk count of the slice holding the data (nRa >= 3 by construction of the grid)
    for target in range(3, 61 if ctx.quick else 401):
        got = g.seamsweep(target)
        if got is None:
            continue
        ra1, dec1, ra2, dec2, L, cs, tag = got
        perm = (rng.sample(range(len(ra1)), len(ra1)), rng.sample(range(len(ra2)), len(ra2)))
        for k, pm in ((0, None), (0, perm), (1, None)):
            calls.append({'set': sid, 'tag': tag + ('+perm' if pm else ''), 'ra1': ra1, 'dec1': dec1, 'ra2': ra2, 'dec2': dec2,
                          'L': L, 'cs': cs, 'k': k, 'perm': pm, 'nra': target})
        sid -= 1
    for s in range(nsets):
        drv = drivers[s % len(drivers)]
        L = LENGTHS[(s // len(drivers) + s) % len(LENGTHS)] if rng.random() < 0.7 else min(30.0, rng.choice(LENGTHS) * rng.uniform(0.5, 1.5))
        if drv == g.allsky and L < 3.0:
            L = rng.choice([3.0, 10.0, 30.0])
        if drv in (g.polar, g.highdec) and L > 10.0:
            L = rng.choice([1.0, 3.0, 10.0])
        f0 = rng.choice(CHUNKF)
        cs0 = None if f0 is None else f0 * L
        ra1, dec1, ra2, dec2, tag = drv(L, cs0)
        if len(ra1) < 2 or len(ra2) < 1:
            continue
        # chunk sizes for this set: the one it was aimed at, plus others
        fs = [f0] + rng.sample([f for f in CHUNKF if f != f0], 1 if ctx.quick else 2)
        ks = [0] + rng.sample([1, 2, 3], 1 if ctx.quick else 2)
        perm1 = list(range(len(ra1)))
        perm2 = list(range(len(ra2)))
        rng.shuffle(perm1)
        rng.shuffle(perm2)
        for f in fs:
            cs = None if f is None else f * L
            if est_cells(ra1, dec1, chunk_size(L, cs)) > MAXCELLS:
                continue
            for k in ks:
                if f != f0 and k != 0 and rng.random() < 0.5:
                    continue
                calls.append({'set': s, 'tag': tag, 'ra1': ra1, 'dec1': dec1, 'ra2': ra2, 'dec2': dec2, 'L': L, 'cs': cs,
                              'k': k, 'perm': None})
                if f == f0 or k == 0:
                    calls.append({'set': s, 'tag': tag + '+perm', 'ra1': ra1, 'dec1': dec1, 'ra2': ra2, 'dec2': dec2,
                                  'L': L, 'cs': cs, 'k': k, 'perm': (perm1, perm2)})
    return calls


# ---------------------------------------------------------------------------------------------
# one real call -> one trace for Trace_SphereMatch
# numeric forms of the arguments (the same VALUES; the verdict never depends on the form: SphereMatch!CoordForms,
# ScalarForms).  Coordinate arrays: a numpy integer dtype when all values are integral and fit; scalars: Python int,
# numpy integer scalars, 0-d arrays.
COORD_FORMS = ['int64', 'int32', 'int16', 'uint16', 'uint8']
SCALAR_FORMS = ['pyint', 'int64', 'int32', 'int16', 'uint16', 'uint8', 'zerodim-int64', 'zerodim-uint8', 'zerodim-float']


def coord_form(a, form):
    """Array a (float64, integral values) in the given form, or None if the values do not fit."""
    if form in (None, 'float64'):
        return a
    a = np.asarray(a, dtype=float)
    if a.size and (np.any(a != np.round(a)) or a.min() < np.iinfo(form).min or a.max() > np.iinfo(form).max):
        return None
    return a.astype(form)


def scalar_form(v, form):
    if form in (None, 'float') or v is None:
        return v
    if form == 'zerodim-float':
        return np.array(float(v))
    if float(v) != int(v):
        return v
    v = int(v)
    if form == 'pyint':
        return v
    if form.startswith('zerodim-'):
        dt = form.split('-')[1]
        return np.array(v, dtype=dt) if 0 <= v <= np.iinfo(dt).max else v
    return np.dtype(form).type(v) if np.iinfo(form).min <= v <= np.iinfo(form).max else v


def run_real(call):
    """Execute the real spherematch.  The pairs are mapped back through the permutation (if any)."""
    from pydl.pydlutils.spheregroup import spherematch
    ra1, dec1, ra2, dec2 = (np.asarray(call[x], dtype=float) for x in ('ra1', 'dec1', 'ra2', 'dec2'))
    forms = call.get('forms')
    if forms:
        arrs = [coord_form(a, f) for a, f in zip((ra1, dec1, ra2, dec2), forms['coords'])]
        if any(a is None for a in arrs):
            return {'exc': 'harness: values do not fit the form %r' % (forms,)}
        ra1, dec1, ra2, dec2 = arrs
        Lv, csv, kv = (scalar_form(v, f) for v, f in zip((call['L'], call['cs'], call['k']), forms['scalars']))
    else:
        Lv, csv, kv = call['L'], call['cs'], call['k']
    if call['perm'] is not None:
        p1, p2 = (np.asarray(p, dtype=int) for p in call['perm'])
        a1, d1, a2, d2 = ra1[p1], dec1[p1], ra2[p2], dec2[p2]
    else:
        p1 = p2 = None
        a1, d1, a2, d2 = ra1, dec1, ra2, dec2
    try:
        m1, m2, d = spherematch(a1, d1, a2, d2, Lv, chunksize=csv, maxmatch=kv)
    except Exception as ex:
        return {'exc': '%s: %s' % (type(ex).__name__, str(ex)[:160])}
    m1 = np.asarray(m1)
    m2 = np.asarray(m2)
    d = np.asarray(d, dtype=float)
    if not (m1.ndim == m2.ndim == d.ndim == 1 and m1.size == m2.size == d.size):
        return {'exc': 'malformed result: shapes %r %r %r' % (m1.shape, m2.shape, d.shape)}
    i1 = [int(v) for v in m1]
    i2 = [int(v) for v in m2]
    if any(v != w for v, w in zip(i1, m1)) or any(v != w for v, w in zip(i2, m2)):
        return {'exc': 'malformed result: non-integer indices'}
    if p1 is not None:
        ok = all(0 <= v < len(p1) for v in i1) and all(0 <= v < len(p2) for v in i2)
        if ok:
            i1 = [int(p1[v]) for v in i1]
            i2 = [int(p2[v]) for v in i2]
    return {'exc': None, 'pairs': list(zip(i1, i2)), 'dist': d}


def build_trace(call, orc, res, thin=None):
    n1, n2 = len(call['ra1']), len(call['ra2'])
    rk = {}
    for (i, k), r in orc['rank'].items():
        rk.setdefault(str(i + 1), {})[str(k + 1)] = r
    t = {'n1': n1, 'n2': n2, 'k': call['k'],
         'near': [[i + 1, k + 1] for i, k in orc['near']], 'border': [[i + 1, k + 1] for i, k in orc['border']],
         'rk': rk, 'order': [[i + 1, k + 1] for i, k in orc['order']],
         'thin': [[i + 1, k + 1] for i, k in (thin or [])],
         'coords': [str(f or 'float64') for f in (call.get('forms') or {}).get('coords', ['float64'] * 4)],
         'scalars': [str(f or 'float') for f in (call.get('forms') or {}).get('scalars', ['float'] * 3)]}
    if res['exc'] is not None:
        t.update(ret=[], exc=True, dok=True, dsorted=True)
        return t
    dok = True
    worst = None
    s1, s2 = orc['s1'], orc['s2']
    for (i, k), d in zip(res['pairs'], res['dist']):
        if not (0 <= i < n1 and 0 <= k < n2):
            continue            # the spec rejects the pair itself (not a candidate)
        tol = REL * float(s1[i, k]) + ABS
        e = min(abs(LD(d) - s1[i, k]), abs(LD(d) - s2[i, k]))
        if not e <= tol:        # also catches NaN
            dok = False
            worst = (i, k, float(d), float(s1[i, k]))
    dsorted = bool(np.all(np.diff(res['dist']) >= 0)) if len(res['dist']) > 1 else True
    t.update(ret=[[min(max(i, -1), 2**30) + 1, min(max(k, -1), 2**30) + 1] for i, k in res['pairs']], exc=False, dok=dok, dsorted=dsorted)
    if worst:
        t['_worst'] = worst
    return t


_INIT = re.compile(r'<<"C04INIT", (\d+), (\d+), "([^"]*)">>')
_POS = re.compile(r'<<"C04POS", (\d+), (\d+), (TRUE|FALSE)>>')


def judge(ctx, traces, label, dev=None):
    """TLC's verdict on every trace: {index: why} for the rejected ones."""
    bad = {}
    batch, size, base = [], 0, 0
    batches = []
    for t in traces:
        w = len(t['order']) + len(t['ret']) + 10
        if batch and (size + w > 400000 or len(batch) >= 2500):
            batches.append((base, batch))
            base += len(batch)
            batch, size = [], 0
        batch.append({k: v for k, v in t.items() if not k.startswith('_')})
        size += w
    if batch:
        batches.append((base, batch))
    for base, batch in batches:
        path = os.path.join(ctx.scratch, 'c04_traces_%d.json' % base)
        core.write_json(path, batch)
        env = {'VERIF_TRACE': path}
        if dev:
            env['VERIF_DEV'] = dev
        r = ctx.tlc('Trace_SphereMatch.tla', 'Trace_SphereMatch.cfg', env=env, count=False,
                    label='%s[%d:%d]' % (label, base, base + len(batch)), timeout=1500)
        os.remove(path)
        init, far, done = {}, {}, set()
        for m in _INIT.finditer(r['stdout']):
            init[int(m.group(1))] = (int(m.group(2)), m.group(3))
        for m in _POS.finditer(r['stdout']):
            t, p, dn = int(m.group(1)), int(m.group(2)), m.group(3) == 'TRUE'
            far[t] = max(far.get(t, 1), p)
            if dn and p == len(batch[t - 1]['ret']) + 1:
                done.add(t)
        if len(init) != len(batch):
            raise core.MachineryError('Trace_SphereMatch started %d of %d traces\n%s' % (len(init), len(batch), r['stdout'][-2000:]))
        for t in range(1, len(batch) + 1):
            tr = batch[t - 1]
            pos0, why = init[t]
            machine = tr['k'] > 0 and not dev and not tr['exc'] and tr['dok'] and tr['dsorted']
            if not machine:
                if pos0 == 0:
                    bad[base + t - 1] = why or 'rejected'
                continue
            accepted = (t in done) or (not tr['order'] and not tr['ret'])
            # the statement's characterisation (GreedyResult, evaluated by TLC) and the machine must agree
            if accepted != (why == ''):
                raise core.MachineryError('Trace_SphereMatch: machine %s but GreedyResult says %r (trace %d of %s)'
                                          % ('accepts' if accepted else 'rejects', why, t, label))
            if not accepted:
                p = far.get(t, 1)
                nxt = tr['ret'][p - 1] if p <= len(tr['ret']) else None
                bad[base + t - 1] = 'not a greedy selection: the machine explains %d of %d returned pairs%s' % (
                    p - 1, len(tr['ret']), (', cannot accept %r next' % (nxt,)) if nxt else ', pairs left that must be accepted')
    return bad


# ---------------------------------------------------------------------------------------------
# deviation D-C04-2: measured on the real chunks object, read-only
def thin_pairs(call, missing):
    """Of the missing pairs (0-based, original order), those whose second-list point lies in another cell than the
    first-list point and beyond margin/cosDecMin in RA from that cell (while getbounds itself does not fail)."""
    from pydl.pydlutils import PydlutilsException
    L = call['L']
    try:
        c = real_chunks(call['ra1'], call['dec1'], chunk_size(L, call['cs']))
    except Exception:
        return []
    out = []
    for i, k in missing:
        try:
            rq = math.fmod(call['ra1'][i] + c.raOffset, 360.0)
            rc, dc = c.get(rq, call['dec1'][i])
            rp = math.fmod(call['ra2'][k] + c.raOffset, 360.0)
            lo_, hi_, dlo, dhi = c.getbounds(rp, call['dec2'][k], L)
        except PydlutilsException:
            continue
        except Exception:
            continue
        if not (dlo <= dc <= dhi) or rc < 0:
            continue
        lo, hi = float(c.raBounds[dc][rc]), float(c.raBounds[dc][rc + 1])
        if lo <= rp < hi:
            continue
        full = float(c.raBounds[dc][c.nRa[dc]] - c.raBounds[dc][0]) >= 360.0
        cand = [lo - rp, rp - hi]
        if full:
            cand += [lo - rp + 360.0, rp - hi + 360.0, lo - rp - 360.0, rp - hi - 360.0]
        dra = min(v for v in cand if v >= 0) if any(v >= 0 for v in cand) else None
        if dra is None:
            continue
        # the cell next to the looked-up one, across the seam at most one cell away (what the code reaches)
        if dra * float(c.cosDecMin(dc)) >= L and dra < (hi - lo):
            out.append((i, k))
    return out


def classify_exc(msg):
    if msg and 'cosDecMin' in msg and 'not positive' in msg:
        return 'D-C04-1'
    return None


# ---------------------------------------------------------------------------------------------
# spec -> code (a): the greedy machine's finished behaviours on the real selection code
RANK_L = 30.0          # match length of the selection replay; all its points lie within 6 degrees of each other
RANK_UNIT = 3.0        # a pair of rank r is 3 r degrees apart, a pair that is not close 60 degrees


class RankTable:
    """Drop-in for gcirc during the selection replay: same signature, any broadcastable argument shapes, all three
    `units`.  For a (first-list point, second-list point) of the problem, recognised by their coordinate VALUES in
    either argument order, it returns the separation that realises the problem's rank; for anything else the true
    formula (the real gcirc).  The points themselves all lie within 6 degrees of each other, far less than the match
    length, so whatever spatial index the implementation uses has to ask for the separation of every pair."""
    RA0, STEP = 180.0, 2.0          # integral coordinates: they can be handed over in any integer dtype

    def __init__(self, n1, n2, close, real):
        self.n1, self.n2, self.close, self.real = n1, n2, close, real      # close: {(i, j) 1-based: rank}
        self.ra1 = self.RA0 + self.STEP * np.arange(n1)
        self.ra2 = self.RA0 + self.STEP * (np.arange(n2) + 0.5)
        self.asked = set()
        self.table = np.full((n1 + 1, n2 + 1), 60.0)
        for (i, j), r in close.items():
            self.table[i, j] = RANK_UNIT * r

    def __call__(self, ra1, dec1, ra2, dec2, units=2):
        true = self.real(ra1, dec1, ra2, dec2, units=units)
        scale = {0: np.rad2deg(1.0), 1: 15.0, 2: 1.0}[units]
        a, d1, b, d2 = np.broadcast_arrays(np.asarray(ra1, dtype=float) * scale, np.asarray(dec1, dtype=float) * (scale if units == 0 else 1.0),
                                           np.asarray(ra2, dtype=float) * scale, np.asarray(dec2, dtype=float) * (scale if units == 0 else 1.0))
        ka, kb = (a - self.RA0) / self.STEP, (b - self.RA0) / self.STEP
        ok = (np.abs(d1) < 1e-9) & (np.abs(d2) < 1e-9)

        def index(k, n, half):
            v = k - (0.5 if half else 0.0)
            iv = np.round(v)
            good = (np.abs(v - iv) < 1e-9) & (iv >= 0) & (iv < n)
            return np.where(good, iv, -1).astype(int) + 1        # 0 = not a point of that list
        i1, j2 = index(ka, self.n1, False), index(kb, self.n2, True)       # (first list, second list)
        i2, j1 = index(kb, self.n1, False), index(ka, self.n2, True)       # arguments exchanged
        fwd = ok & (i1 > 0) & (j2 > 0)
        bwd = ok & (i2 > 0) & (j1 > 0) & ~fwd
        ii = np.where(fwd, i1, np.where(bwd, i2, 0))
        jj = np.where(fwd, j2, np.where(bwd, j1, 0))
        for x, y in zip(ii[ii > 0].ravel().tolist(), jj[ii > 0].ravel().tolist()):
            self.asked.add((x, y))
        deg = self.table[ii, jj]
        scripted = np.deg2rad(deg) if units == 0 else deg * 3600.0
        out = np.where(ii > 0, scripted, true)
        return out if out.ndim else out[()]


def in_harness(tb):
    """Does the traceback pass through this file (an exception of the harness's own stand-in / hand-built object)?"""
    while tb is not None:
        if os.path.abspath(tb.tb_frame.f_code.co_filename) == os.path.abspath(__file__) and \
                tb.tb_frame.f_code.co_name not in ('run_ranked', 'run_hash', 'run_real'):
            return True
        tb = tb.tb_next
    return False


def run_ranked(n1, n2, close, k, form=0):
    """form: case number; selects the numeric form of the coordinate lists and of matchlength / chunksize / maxmatch
    (0 = float64 arrays, Python float / int scalars)."""
    import pydl.pydlutils.spheregroup as sg
    saved = sg.gcirc
    tab = RankTable(n1, n2, close, saved)
    sg.gcirc = tab
    cf = ([None] + COORD_FORMS)[form % (len(COORD_FORMS) + 1)]
    sf = ([None] + SCALAR_FORMS)[(form // 2) % (len(SCALAR_FORMS) + 1)]
    which = [(0, 1, 2, 3), (0, 1), (2, 3), (1, 3)][(form // 6) % 4]
    arrs = [coord_form(a, cf if j in which else None) for j, a in enumerate((tab.ra1, np.zeros(n1), tab.ra2, np.zeros(n2)))]
    try:
        m1, m2, d = sg.spherematch(arrs[0], arrs[1], arrs[2], arrs[3], scalar_form(RANK_L, sf),
                                   chunksize=scalar_form(120.0, sf) if form % 3 else None,
                                   maxmatch=scalar_form(k, sf if sf != 'zerodim-float' else None))
    except Exception as ex:
        if in_harness(ex.__traceback__):
            raise core.MachineryError('the stand-in for gcirc failed (%s: %s): not evidence about the property' % (type(ex).__name__, ex))
        return {'exc': '%s: %s' % (type(ex).__name__, ex)}
    finally:
        sg.gcirc = saved
    if len(tab.asked) != n1 * n2:
        # the implementation did not obtain every separation through spheregroup.gcirc: the scripted ranks were not (all)
        # seen, so this case says nothing - neither a violation nor a pass (the recorded direction judges the real geometry)
        return {'exc': None, 'uncontrolled': '%d of %d pairs' % (len(tab.asked), n1 * n2)}
    out = tuple((int(a) + 1, int(b) + 1) for a, b in zip(m1, m2))
    return {'exc': None, 'out': out, 'dist': [float(x) for x in d]}


def replay_greedy(ctx, cfg):
    r = ctx.tlc('MC_SphereMatch.tla', cfg, dump=True, timeout=1500)
    groups = {}
    for st in core.iter_states(r):
        P = st['prob']
        if st['h'] != {'kind': 'none'} or P['n1'] == 0:
            continue
        if st['seen'] != (P['near'] | P['border']):
            continue
        rank = P['rank'] if isinstance(P['rank'], dict) else {}
        key = (P['n1'], P['n2'], P['k'], tuple(sorted(rank.items())), tuple(sorted(P['border'])), tuple(sorted(st['skipped'])))
        groups.setdefault(key, set()).add(tuple(tuple(p) for p in st['out']))
    if not groups:
        raise core.MachineryError('MC_SphereMatch (%s) produced no finished behaviour' % cfg)
    nbad = nrep = nskip = 0
    for key in sorted(groups):
        n1, n2, k, rank, border, skipped = key
        close = {p: rk for p, rk in rank if p not in skipped}
        nrep += 1
        obs = run_ranked(n1, n2, close, k, form=nrep)
        if obs.get('uncontrolled'):
            nskip += 1
            continue
        ctx.evaluated(1, 'greedy-replay')
        ctx.validated()
        if len(close) >= 2:
            ctx.nontriv(('greedy', key))
        good = obs['exc'] is None and obs['out'] in groups[key] and \
            all(abs(d - RANK_UNIT * close[p]) < 1e-9 for p, d in zip(obs['out'], obs['dist']))
        if len(ctx.cov['samples']) < 2 and len(close) >= 3:
            ctx.sample({'problem': {'n1': n1, 'n2': n2, 'k': k, 'rank': [[list(p), rk] for p, rk in rank], 'skipped': [list(p) for p in skipped]},
                        'tlc_outputs': sorted([list(map(list, o)) for o in groups[key]])[:4], 'observed': obs})
        if not good:
            nbad += 1
            if nbad <= MAXREPORT:
                if obs['exc'] is None and obs['out'] in groups[key]:
                    how = 'pairs %s with distances %s (%g x rank expected)' % (obs['out'], obs['dist'], RANK_UNIT)
                else:
                    how = '%s, the machine produces %s' % (obs.get('out', obs['exc']), sorted(groups[key])[:3])
                ctx.violation({'what': 'selection: n1=%d n2=%d maxmatch=%d ranks=%s skipped=%s: real spherematch returned %s'
                                       % (n1, n2, k, dict(rank), list(skipped), how),
                               'kind': 'greedy', 'n1': n1, 'n2': n2, 'k': k, 'rank': [[list(p), rk] for p, rk in rank],
                               'skipped': [list(p) for p in skipped], 'form': nrep, 'expected_any_of': sorted([list(map(list, o)) for o in groups[key]]),
                               'observed': obs})
    if nskip:
        ctx.cov['parts']['greedy-replay-uncontrolled'] = nskip
        ctx.assumptions.append('selection replay: in %d of %d cases the implementation did not ask spheregroup.gcirc for every pair, '
                               'so the scripted ranks were not in force; those cases were not judged' % (nskip, len(groups)))
        print('note: selection replay not in control of the separations in %d of %d cases' % (nskip, len(groups)), flush=True)
    return len(groups)


# ---------------------------------------------------------------------------------------------
# spec -> code (b): the hash design model on the real chunks.assign / getbounds / get
# what an object built by the public constructor consists of (instance attributes / methods the lattice replay relies on)
CHUNK_ATTRS = {'minSize', 'nDec', 'decBounds', 'raRange', 'raOffset', 'raMin', 'raMax', 'raBounds', 'nRa', 'chunkList', 'nChunkMax'}


def lattice_supported():
    """The lattice replay lays a real chunks object over a flat lattice by setting its attributes.  That is only
    meaningful if an object built by the public constructor consists of exactly the attributes set here (no cached
    per-slice quantities) and has the cosDecMin(i) method that is made flat.  Returns '' or the reason why not."""
    from pydl.pydlutils.spheregroup import chunks
    try:
        c0 = chunks(np.array([10.0, 20.0, 15.0]), np.array([0.0, 1.0, 0.5]), 4.0)
    except Exception as ex:
        return 'constructor failed on plain data: %s' % ex
    extra = set(vars(c0)) - CHUNK_ATTRS
    missing = CHUNK_ATTRS - set(vars(c0))
    if extra or missing:
        return 'constructor-built object has other attributes (extra %s, missing %s)' % (sorted(extra), sorted(missing))
    if not all(callable(getattr(c0, m, None)) for m in ('cosDecMin', 'assign', 'get', 'getbounds')):
        return 'methods cosDecMin / assign / get / getbounds not all present'
    return ''


def lattice_chunks(g):
    """A real chunks object laid over the model's lattice: ring = 0..360 in nc cells, flat (cos = 1)."""
    from pydl.pydlutils.spheregroup import chunks
    nc, nb, s, hb = g['nc'], g['nb'], g['s'], g['h']
    u = 360.0 / (nc * s)
    c = chunks.__new__(chunks)
    c.minSize = s * u
    c.nDec = nb
    c.decBounds = np.arange(nb + 1, dtype='d') * (hb * u)      # slices hb <= s high (squeezed at a pole)
    c.nRa = [nc] * nb
    c.raBounds = [360.0 * np.arange(nc + 1, dtype='d') / float(nc) for _ in range(nb)]
    c.raOffset = 0.0
    c.raMin, c.raMax, c.raRange = 0.0, 360.0, 360.0
    c.chunkList = [[list() for _ in range(nc)] for _ in range(nb)]
    c.nChunkMax = 0
    c.cosDecMin = lambda i: 1.0
    return c, u


_LOOK = {}


def run_hash(g, p, points):
    """Enter point p (index 0) with the real assign; look every lattice point up with the real get."""
    c, u = lattice_chunks(g)
    try:
        c.assign(np.array([p[0] * u]), np.array([p[1] * u]), g['m'] * u)
    except AttributeError as ex:
        # an attribute the hand-built object does not have: a failure of the construction, not of the property
        raise core.MachineryError('lattice replay: hand-built chunks object is incomplete (%s)' % ex)
    except Exception as ex:
        if in_harness(ex.__traceback__):
            raise core.MachineryError('lattice replay: harness stand-in failed (%s: %s)' % (type(ex).__name__, ex))
        return {'exc': '%s: %s' % (type(ex).__name__, ex)}
    count = {}
    for b in range(c.nDec):
        for a in range(c.nRa[b]):
            if c.chunkList[b][a]:
                count[(a, b)] = len(c.chunkList[b][a])
    key = (g['nc'], g['nb'], g['s'], g['h'])        # get() does not depend on the point entered
    if key not in _LOOK:
        look = {}
        for q in points:
            try:
                look[q] = tuple(int(v) for v in c.get(q[0] * u, q[1] * u))
            except Exception as ex:
                return {'exc': 'get: %s: %s' % (type(ex).__name__, ex)}
        _LOOK[key] = look
    return {'exc': None, 'count': count, 'look': _LOOK[key]}


def replay_hash(ctx, cfg):
    why_not = lattice_supported()
    if why_not:
        # spec-level laws are still checked; the binding of the hash to the code is then the aimed drivers only
        ctx.tlc('MC_SphereMatch.tla', cfg, timeout=900)
        ctx.cov['parts']['hash-replay-skipped'] = why_not
        ctx.assumptions.append('hash lattice replay NOT run on this tree: ' + why_not)
        print('note: hash lattice replay skipped: ' + why_not, flush=True)
        return 0, 0
    r = ctx.tlc('MC_SphereMatch.tla', cfg, dump=True, timeout=900)
    n = nrun = nbad = 0
    for st in core.iter_states(r):
        h = st['h']
        if h.get('kind') != 'hash':
            continue
        n += 1
        g = h['g']
        u = 360.0 / (g['nc'] * g['s'])
        if g['m'] * u > 80.0:
            continue        # a "margin" of 90 degrees or more has no flat counterpart on the sphere
        nrun += 1
        p = tuple(h['p'])
        pts = [(x, y) for x in range(g['nc'] * g['s']) for y in range(g['nb'] * g['h'])]
        obs = run_hash(g, p, pts)
        ctx.evaluated(1, 'hash-replay')
        ctx.validated()
        if len(h['cells']) > 1:
            ctx.nontriv(('hash', g['nc'], g['nb'], g['s'], g['h'], g['m'], p))
        why = None
        if obs['exc']:
            why = obs['exc']
        else:
            cells = set(obs['count'])
            if not (set(map(tuple, h['need'])) <= cells):
                why = 'cells %s needed, entered in %s' % (sorted(map(tuple, h['need'])), sorted(cells))
            elif not (cells <= set(map(tuple, h['allow']))):
                why = 'entered in %s, beyond the margin (allowed %s)' % (sorted(cells), sorted(map(tuple, h['allow'])))
            elif any(v != 1 for v in obs['count'].values()):
                why = 'entered more than once: %s' % obs['count']
            else:
                wrong = [q for q in pts if obs['look'][q] != (q[0] // g['s'], q[1] // g['h'])]
                if wrong:
                    why = 'get() looks %s up in %s' % (wrong[0], obs['look'][wrong[0]])
        if nrun % 2000 == 1:
            ctx.sample({'hash_case': {'g': g, 'p': p, 'tlc_cells': sorted(map(tuple, h['cells']))}, 'observed_cells': sorted(obs.get('count', {}))})
        if why:
            nbad += 1
            if nbad <= MAXREPORT:
                ctx.violation({'what': 'hash: geometry %s point %s: %s' % (g, p, why), 'kind': 'hash', 'g': g, 'p': list(p),
                               'need': sorted(map(list, h['need'])), 'allow': sorted(map(list, h['allow']))})
    if not nrun:
        raise core.MachineryError('MC_SphereMatch (%s): no hash case replayed' % cfg)
    return n, nrun


def negative_control(ctx, cfg, inv):
    r = ctx.tlc('MC_SphereMatch.tla', cfg, must_hold=False, expect_violation=True, count=False, timeout=600)
    if r['violated'] != inv:
        raise core.MachineryError('negative control %s: TLC was expected to refute %s, got %r' % (cfg, inv, r['violated']))


# ---------------------------------------------------------------------------------------------
def describe(call):
    f = call.get('forms')
    return 'spherematch(n1=%d, n2=%d, L=%.9g, chunksize=%s, maxmatch=%d%s) [%s, set %d]' % (
        len(call['ra1']), len(call['ra2']), call['L'], ('%.9g' % call['cs']) if call['cs'] is not None else 'None',
        call['k'], (', forms: ra1/dec1/ra2/dec2 %s, L/chunksize/maxmatch %s' % ('/'.join(str(x) for x in f['coords']),
                                                                             '/'.join(str(x) for x in f['scalars']))) if f else '',
        call['tag'], call['set'])


def case_of(call, why, extra=None):
    c = {'what': '%s: %s' % (describe(call), why), 'kind': 'call',
         'ra1': [float(v) for v in call['ra1']], 'dec1': [float(v) for v in call['dec1']],
         'ra2': [float(v) for v in call['ra2']], 'dec2': [float(v) for v in call['dec2']],
         'L': call['L'], 'cs': call['cs'], 'k': call['k'], 'perm': [list(map(int, p)) for p in call['perm']] if call['perm'] else None,
         'tag': call['tag'], 'set': call['set'], 'forms': call.get('forms')}
    if extra:
        c.update(extra)
    return c


def minimal_pair(call, orc, res):
    """For a missing pair: a reduced problem (one second-list point, first list shrunk greedily while the pair stays
    missing) as a one-line repro.  Only for the report; no verdict depends on it."""
    from pydl.pydlutils.spheregroup import spherematch
    got = set(res['pairs']) if res['exc'] is None else set()
    ra1, dec1 = np.asarray(call['ra1'], dtype=float), np.asarray(call['dec1'], dtype=float)
    if len(ra1) > 80:
        return None

    forms = call.get('forms') or {'coords': [None] * 4, 'scalars': [None] * 3}
    Lv, csv = scalar_form(call['L'], forms['scalars'][0]), scalar_form(call['cs'], forms['scalars'][1])

    def missed(sel, k):
        arrs = [coord_form(a, f) for a, f in zip((ra1[sel], dec1[sel], np.array([call['ra2'][k]]), np.array([call['dec2'][k]])),
                                                 forms['coords'])]
        try:
            m1, m2, d = spherematch(arrs[0], arrs[1], arrs[2], arrs[3], Lv, chunksize=csv, maxmatch=0)
        except Exception:
            return False
        return not any(int(x) == 0 for x in m1)
    for i, k in [p for p in orc['near'] if p not in got][:3]:
        sel = [i] + [j for j in range(len(ra1)) if j != i]
        if not missed(sel, k):
            continue
        changed = True
        while changed and len(sel) > 2:
            changed = False
            for j in list(sel[1:]):
                if len(sel) <= 2:
                    break
                trial = [x for x in sel if x != j]
                if missed(trial, k):
                    sel = trial
                    changed = True
        return 'spherematch(np.array(%r), np.array(%r), np.array(%r), np.array(%r), %r, chunksize=%r, maxmatch=0)%s misses (0, 0), separation %.12g' % (
            ra1[sel].tolist(), dec1[sel].tolist(), [float(call['ra2'][k])], [float(call['dec2'][k])], Lv, csv,
            (' [coordinate dtypes %s]' % '/'.join(str(f or 'float64') for f in forms['coords'])) if call.get('forms') else '',
            float(orc['s1'][i, k]))
    return None


def falsify(t, m):
    """One observed field of an accepted trace falsified beyond tolerance (method m); None if not applicable."""
    t = {k: (list(v) if isinstance(v, list) else v) for k, v in t.items() if not k.startswith('_')}
    ret = [list(p) for p in t['ret']]
    near = {tuple(p) for p in t['near']}
    cand = near | {tuple(p) for p in t['border']}
    rank = lambda p: t['rk'][str(p[0])][str(p[1])]
    if m == 0:          # a returned pair below the match length dropped (maxmatch = 0) / everything dropped (maxmatch > 0)
        if t['k'] == 0:
            idx = [a for a, p in enumerate(ret) if tuple(p) in near]
            if not idx:
                return None
            del ret[idx[len(idx) // 2]]
        else:
            if not near or not ret:
                return None
            ret = []
    elif m == 1:        # a pair above the match length added
        far = [(i, j) for i in range(1, t['n1'] + 1) for j in range(1, t['n2'] + 1) if (i, j) not in cand][:1]
        if not far:
            return None
        ret.append(list(far[0]))
    elif m == 2:        # a pair returned twice
        if not ret:
            return None
        ret.insert(len(ret) // 2, list(ret[len(ret) // 2]))
    elif m == 3:        # two pairs of different separation exchanged
        idx = [a for a in range(len(ret) - 1) if tuple(ret[a]) in cand and tuple(ret[a + 1]) in cand and rank(ret[a]) != rank(ret[a + 1])]
        if not idx:
            return None
        a = idx[len(idx) // 2]
        ret[a], ret[a + 1] = ret[a + 1], ret[a]
    elif m == 4:        # a returned distance that is not the separation of its pair
        if not ret:
            return None
        t['dok'] = False
    else:               # the distance array not sorted
        if len(ret) < 2:
            return None
        t['dsorted'] = False
    t['ret'] = ret
    return t


def binding_selftest(ctx, traces, bad):
    """Non-vacuity of Trace_SphereMatch: accepted traces with ONE observed field falsified must all be rejected."""
    good = [t for a, t in enumerate(traces) if a not in bad and not t['exc'] and len(t['order']) <= 150]
    good = [t for t in good if t['k'] == 0][:150] + [t for t in good if t['k'] > 0][:150]
    good = [good[(7 * a) % len(good)] for a in range(len(good))] if len(good) % 7 else good
    fals, kinds = [], {}
    for a, t in enumerate(good):
        if len(fals) >= 240:
            break
        f = falsify(t, a % 6)
        if f is not None:
            fals.append(f)
            kinds[a % 6] = kinds.get(a % 6, 0) + 1
    if len(fals) < 20:
        raise core.MachineryError('binding self-test of Trace_SphereMatch: only %d traces to falsify' % len(fals))
    rej = judge(ctx, fals, 'Trace_SphereMatch self-test')
    ctx.cov['parts']['selftest_recorded_calls'] = {'corrupted_records': len(fals), 'rejected': len(rej),
                                                   'by_kind(drop,extra,twice,order,distance,unsorted)': [kinds.get(m, 0) for m in range(6)],
                                                   'maxmatch>0': sum(1 for f in fals if f['k'] > 0)}
    missed = [a for a in range(len(fals)) if a not in rej]
    if missed:
        raise core.MachineryError('binding self-test of Trace_SphereMatch: %d of %d falsified traces were accepted, e.g. %r'
                                  % (len(missed), len(fals), {k: v for k, v in fals[missed[0]].items() if k in ('n1', 'n2', 'k', 'ret', 'near', 'border', 'dok', 'dsorted')}))


def check_calls(ctx, calls, label, selftest=False):
    """Run the real calls, let TLC judge them, report the rejected ones."""
    traces, meta = [], []
    orc_cache = {}
    for call in calls:
        key = (call['set'], call['L'])
        if key not in orc_cache:
            orc_cache[key] = oracle(call['ra1'], call['dec1'], call['ra2'], call['dec2'], call['L'])
        orc = orc_cache[key]
        if call['k'] > 0 and len(orc['order']) > (MAXGREEDY_QUICK if ctx.quick else MAXGREEDY):
            continue        # the machine replays one candidate pair per step: keep traces of maxmatch > 0 affordable
        res = run_real(call)
        t = build_trace(call, orc, res)
        traces.append(t)
        meta.append((call, orc, res))
        ctx.evaluated(1, call['tag'].split('+')[0])
        ctx.validated()
        if orc['near']:
            ctx.nontriv((call['set'], call['cs'], call['k'], call['perm'] is not None))
    bad = judge(ctx, traces, label)
    for idx in sorted(bad):
        call, orc, res = meta[idx]
        why = bad[idx]
        finding = None
        extra = {}
        if res['exc'] is not None:
            why = 'raised ' + res['exc']
            finding = classify_exc(res['exc'])
        elif traces[idx].get('_worst'):
            extra['distance'] = traces[idx]['_worst']
        else:
            got = set(res['pairs'])
            missing = [p for p in orc['near'] if p not in got]
            extra['missing'] = [list(p) + [float(orc['s1'][p])] for p in missing[:10]]
            extra['extra'] = [list(p) for p in res['pairs'] if p not in orc['rank']][:10]
            if missing:
                one = minimal_pair(call, orc, res) if len(ctx.violations) + len(ctx.known_hits) < MAXREPORT else None
                if one:
                    extra['repro'] = one
                    why += '; ' + one
                thin = thin_pairs(call, missing)
                if thin:
                    # does the named deviation explain this result exactly?  (TLC decides: Dev_ThinRaMargin)
                    t2 = build_trace(call, orc, res, thin=thin)
                    if not judge(ctx, [t2], label + '-dev', dev='D-C04-2'):
                        finding = 'D-C04-2'
                        extra['thin'] = [list(p) for p in thin]
        ctx.violation(case_of(call, why, extra), finding=finding)
    if selftest:
        binding_selftest(ctx, traces, bad)
    return len(bad)


def run(ctx):
    ctx.level = 'model_checking'
    ctx.rule = ('greedy: every state of MC_SphereMatch is a stage of the selection on one problem (sizes, maxmatch, close / '
                'guard-band pairs, ranks with ties); finished states are replayed (non-trivial = problem with >= 2 candidate '
                'pairs); hash: one state per (geometry, point), non-trivial = point entered in more than one cell; recorded '
                'calls: one real spherematch call each (non-trivial = at least one pair closer than the match length, keyed by '
                'point set, chunk size, maxmatch, permutation)')
    ctx.assumptions = [
        'the "closer than L" relation, guard band (relative 1e-9, absolute 1e-12 deg) and distance ranks are inputs of the '
        'specification, computed by the harness oracle (chord and atan2 formulas in numpy longdouble, independent of gcirc)',
        'model_checking covers the selection logic given the relation (all relations on <= 3 x 3 points, <= 5 candidate pairs, '
        'ranks with ties, maxmatch 0..2(3)) and the flat-lattice hash design; the geometric completeness of the hash on the '
        'sphere is explored by aimed and random point sets (sampled, not exhaustive)',
        'greedy replay: spheregroup.gcirc is replaced by a drop-in (any broadcast shapes, true formula for other points) that gives the pairs of the problem the separations of their ranks; all points lie within 6 deg, match length 30 deg; if the implementation does not consult it for every pair the run is a machinery error, not a violation',
        'hash replay: lattice cases with margin * 360/ring <= 80 deg only (a flat margin >= 90 deg has no counterpart on the sphere)',
        'calls whose chunk grid would exceed %d cells are not made (the real chunks object allocates every cell)' % MAXCELLS,
        'the hash design model is exact integer arithmetic: it cannot show floating-point rounding of the cell boundaries '
        '(e.g. a last RA boundary of 359.99999999999994); that is covered on the real code by the seam sweep, which realises '
        'every RA chunk count 3..60 (quick) / 3..400 (thorough) of an all-round slice (read back from the real chunks object) '
        'with pairs just across RA = 0; chunk counts 1 (polar slice) and 2 (never produced by chunks.__init__) are not swept',
        'numeric type: integer-degree point sets (seam, both poles, all-sky, RA < 256 clusters, equatorial chains) are '
        'submitted as float64 and as int64/int32/int16/uint16/uint8 lists (as the values fit; all four lists, one list, or '
        'declinations only), matchlength/chunksize/maxmatch as Python int, numpy integer scalars and 0-d arrays; the TLC '
        'selection cases are replayed on integral coordinates in the same rotating forms; unsigned lists cannot hold '
        'negative declinations, so southern sets are covered by the signed dtypes only',
        'calls with maxmatch > 0 are recorded only when the oracle finds <= %d (quick: %d) candidate pairs (one machine step per pair)' % (MAXGREEDY, MAXGREEDY_QUICK)]
    # ---- spec level + spec -> code
    replay_greedy(ctx, 'MC_SphereMatch_quick.cfg' if ctx.quick else 'MC_SphereMatch_cases_thorough.cfg')
    if not ctx.quick:
        ctx.tlc('MC_SphereMatch.tla', 'MC_SphereMatch_thorough.cfg', timeout=2400)
    replay_hash(ctx, 'MC_SphereMatch_hash_quick.cfg' if ctx.quick else 'MC_SphereMatch_hash_thorough.cfg')
    negative_control(ctx, 'MC_SphereMatch_hash_nowrap.cfg', 'C04_HashComplete')
    negative_control(ctx, 'MC_SphereMatch_hash_noguard.cfg', 'C04_HashOnce')
    negative_control(ctx, 'MC_SphereMatch_hash_onestep.cfg', 'C04_HashComplete')
    # ---- code -> spec
    calls = make_calls(ctx)
    check_calls(ctx, calls, 'Trace_SphereMatch', selftest=True)
    if calls:
        c = calls[0]
        ctx.sample({'recorded_call': describe(c)})
    ctx.exhaustive = False


def replay(ctx, case):
    """bin/check C04 --replay <file>: re-execute the single failing case of a replay file."""
    ctx.level = 'model_checking'
    ctx.rule = 'single replayed case'
    ctx.nontriv('a')
    ctx.nontriv('b')
    ctx.evaluated(1)
    kind = case.get('kind')
    if kind == 'greedy':
        close = {tuple(p): rk for p, rk in case['rank'] if list(p) not in case['skipped']}
        obs = run_ranked(case['n1'], case['n2'], close, case['k'], form=case.get('form', 0))
        print('replayed selection problem; observed:', obs, '\nexpected any of:', case['expected_any_of'])
        if obs.get('uncontrolled'):
            return
        if obs['exc'] is not None or [list(p) for p in obs['out']] not in case['expected_any_of']:
            ctx.violation(case)
        return
    if kind == 'hash':
        g = case['g']
        pts = [(x, y) for x in range(g['nc'] * g['s']) for y in range(g['nb'] * g['h'])]
        obs = run_hash(g, tuple(case['p']), pts)
        print('replayed hash case; observed cells:', obs.get('count', obs['exc']), '\nneeded:', case['need'], 'allowed:', case['allow'])
        cells = set(obs.get('count', {}))
        if obs['exc'] or not set(map(tuple, case['need'])) <= cells or not cells <= set(map(tuple, case['allow'])) \
                or any(v != 1 for v in obs['count'].values()):
            ctx.violation(case)
        return
    call = {'ra1': np.array(case['ra1']), 'dec1': np.array(case['dec1']), 'ra2': np.array(case['ra2']), 'dec2': np.array(case['dec2']),
            'L': case['L'], 'cs': case['cs'], 'k': case['k'], 'perm': tuple(case['perm']) if case.get('perm') else None,
            'tag': case.get('tag', 'replay'), 'set': case.get('set', 0), 'forms': case.get('forms')}
    n = check_calls(ctx, [call], 'Trace_SphereMatch-replay')
    print('replayed %s: %s' % (describe(call), 'rejected by the specification' if n else 'accepted'))
