"""X09 - spectral template input: template_metadata (the parameter file and its validation), template_input (the
orchestration over its collaborators) and template_input_main (the console script).

Spec: spec/Templates.tla; MC: mc/MC_Templates; judge: trace/Trace_Templates.  Environment isolation, patching and the
outcome record come from harness/faults.py (the C20 machinery); the restore-on-every-path property itself is C20's.

spec -> code: every case state of MC_Templates (abstract parameter file + environment on entry / template_input
  scenario / command line) is materialised - a real yanny parameter file, real dump files, collaborators replaced by
  recording stand-ins that return small arrays of known provenance - executed on the real function, abstracted, and
  judged by TLC (Trace_Templates: the same operators MetaExpect / RunExpect / MainExpect).
code -> spec: seeded random cases outside the enumerated families (any number of wrong keywords, other spellings of
  numbers, random grids, tables and command lines) go the same way.
TLC never sees a float: it hands back the exact numbers (aux: rationals, decimals m * 10^e) and Python compares the
observed floats with them (fractions.Fraction, a few ulp where a quotient is involved).
Python only concretises (characters -> file text, rationals -> arrays of a dtype / memory layout, pieces -> argv) and
abstracts (arrays -> provenance tokens, exceptions -> kind + named keyword, paths -> home-relative).
"""
import contextlib
import copy
import decimal
import io
import json
import logging
import os
import pickle
import random
import re
import sys
from fractions import Fraction

import numpy as np

from .. import core, faults

ABSENT = faults.ABSENT
VARS = ('RUN2D', 'RUN1D', 'VERIF_BYSTANDER')
TEXTKEYS = ['object', 'method', 'aesthetics', 'run2d', 'run1d']
FLOATKEYS = ['wavemin', 'wavemax', 'snmax']
INTKEYS = ['niter', 'nkeep', 'minuse']
HMFKEYS = ['nonnegative', 'epsilon']
ALLKEYS = TEXTKEYS + FLOATKEYS + INTKEYS + HMFKEYS
ORIG = ['orig_run2d', 'orig_run1d']
SAMPLE_ORDER = ['object', 'method', 'wavemin', 'wavemax', 'snmax', 'niter', 'nkeep', 'minuse', 'aesthetics', 'run2d',
                'run1d', 'epsilon', 'nonnegative']
CHECK_ORDER = ['object', 'method', 'aesthetics', 'run2d', 'run1d', 'wavemin', 'wavemax', 'snmax', 'niter', 'nkeep',
               'minuse', 'nonnegative', 'epsilon']
FLOW_NAMES = ('template_metadata', 'readspec', 'skymask', 'wavevector', 'preprocess_spectra', 'template_qso',
              'template_star', 'pca_solve', 'HMF', 'HMF.solve')
BADINT = -987654
FINDINGS = {'D-X09-1': 'fewer than four templates (nkeep < 4): IndexError in the eigenvalue-ratio figures before the FITS file is written'}
CHUNK = 6000


def S(chars):
    return ''.join(chars)


def jsonable(v):
    if isinstance(v, dict):
        return {k: jsonable(x) for k, x in v.items()}
    if isinstance(v, (tuple, list)):
        return [jsonable(x) for x in v]
    if isinstance(v, (set, frozenset)):
        return sorted((jsonable(x) for x in v), key=repr)
    return v


def frac(q):
    return Fraction(int(q[0]), int(q[1]))


def dec_value(d):
    return Fraction(int(d['m'])) * Fraction(10) ** int(d['e'])


def dec_text(q):
    """An exact decimal rendering of a rational whose denominator has only the factors 2 and 5."""
    q = Fraction(q)
    with decimal.localcontext() as cx:
        cx.prec = 60
        d = decimal.Decimal(q.numerator) / decimal.Decimal(q.denominator)
    if Fraction(d) != q:
        raise core.MachineryError('no finite decimal for %s' % q)
    s = format(d, 'f')
    if '.' in s:
        s = s.rstrip('0').rstrip('.')
    return s or '0'


# ----------------------------------------------------------------------------------------------
# the parameter file as text
# ----------------------------------------------------------------------------------------------
def render_par(f, style):
    """Abstract parameter file -> yanny text.  style rotates what the specification declares irrelevant: the order
    of the keywords, the white space between keyword and value, trailing comments, where the table stands."""
    order = [SAMPLE_ORDER, CHECK_ORDER, SAMPLE_ORDER[::-1], CHECK_ORDER[::-1]][style % 4]
    sep = [' ', '\t', '    ', ' \t '][(style // 4) % 4]
    comment = (style // 16) % 3 == 1
    table_first = (style // 48) % 2 == 1
    lines = ['#', '# X09 harness parameter file (style %d)' % style, '#']
    for k in order:
        p = f['pairs'][k]
        if not p['there']:
            continue
        v = S(p['txt'])
        ln = k + (sep + v if v != '' else '')
        if comment and v != '':
            ln += '   # the %s.' % {'object': 'type', 'method': 'way'}.get(k, 'value')
        lines.append(ln)
        if style % 5 == 0:
            lines.append('')
    tbl = f['tbl']
    tl = []
    if tbl['there']:
        tl = ['', 'typedef struct {', '    int plate;', '    int mjd;', '    int fiberid;']
        if tbl['zcol'] in ('zfit', 'both'):
            tl.append('    double zfit;')
        if tbl['zcol'] in ('cz', 'both'):
            tl.append('    double cz;')
        if tbl['cls']:
            tl += ['    char class[4];', '    char subclass[4];']
        tl += ['} EIGENOBJ;', '']
        for n, r in enumerate(tbl['rows']):
            cells = ['EIGENOBJ', str(r['plate']), str(r['mjd']), str(r['fiberid'])]
            if tbl['zcol'] in ('zfit', 'both'):
                z = dec_text(frac(r['z']))
                cells.append(z if (style + n) % 3 else ('%se0' % z))
            if tbl['zcol'] in ('cz', 'both'):
                cells.append(dec_text(frac(r['cz'])))
            if tbl['cls']:
                cells += [r['cls'], r['sub']]
            tl.append((' ' if style % 2 else '  ').join(cells))
    lines = (lines[:3] + tl + [''] + lines[3:]) if table_first else (lines + tl)
    return '\n'.join(lines) + '\n'


def opt(value):
    return {'there': False, 'txt': []} if value == ABSENT else {'there': True, 'txt': list(value)}


def initial_env(env0, extra=None):
    e = {'VERIF_BYSTANDER': 'b'}
    for v in ('RUN2D', 'RUN1D'):
        e[v] = S(env0[v]['txt']) if env0[v]['there'] else ABSENT
    if extra:
        e.update(extra)
    return e


def named_keys(msg):
    return [k for k in ALLKEYS + ['EIGENOBJ'] if re.search(r'(?<![A-Za-z0-9_])%s(?![A-Za-z0-9_])' % k, msg)]


def mval(v, nums, key):
    """A metadata value -> the specification's value record (floats go to nums)."""
    if isinstance(v, (bool, np.bool_)):
        return {'t': 'b', 's': [], 'm': 0, 'b': bool(v)}
    if isinstance(v, (int, np.integer)):
        return {'t': 'i', 's': [], 'm': int(v), 'b': False} if abs(int(v)) < 2**31 else {'t': 'other', 's': [], 'm': 0, 'b': False}
    if isinstance(v, (float, np.floating)):
        nums[key] = float(v)
        return {'t': 'f', 's': [], 'm': 0, 'b': False}
    if isinstance(v, str):
        return {'t': 's', 's': list(v), 'm': 0, 'b': False}
    if v is None:
        return {'t': 'none', 's': [], 'm': 0, 'b': False}
    return {'t': 'other', 's': [], 'm': 0, 'b': False}


@contextlib.contextmanager
def quiet(mod):
    """No log output, and the log level put back (verbose=True leaves it at DEBUG)."""
    level = mod.log.level
    logging.disable(logging.CRITICAL)
    try:
        yield
    finally:
        logging.disable(logging.NOTSET)
        mod.log.setLevel(level)


class World:
    def __init__(self, ctx):
        self.dir = os.path.join(ctx.scratch, 'x09')
        os.makedirs(self.dir, exist_ok=True)
        self.par = os.path.join(self.dir, 'in.par')
        self.nopar = os.path.join(self.dir, 'no', 'such', 'file.par')
        self.dump = os.path.join(self.dir, 'dump.pkl')

    def write_par(self, c, style):
        if os.path.exists(self.par):
            os.remove(self.par)
        if c.get('exists', True):
            with open(self.par, 'w') as fh:
                fh.write(render_par(c['file'], style))
            return self.par
        return self.nopar


# ----------------------------------------------------------------------------------------------
# template_metadata
# ----------------------------------------------------------------------------------------------
def abstract_slist(slist, nums):
    cols, rows = [], []
    try:
        cols = [str(n) for n in slist.dtype.names]
        z, cz = [], []
        for r in slist:
            row = {'plate': BADINT, 'mjd': BADINT, 'fiberid': BADINT, 'cls': '', 'sub': ''}
            for k in ('plate', 'mjd', 'fiberid'):
                if k in cols and np.issubdtype(slist.dtype[k], np.integer):
                    row[k] = int(r[k])
            for k, kk in (('class', 'cls'), ('subclass', 'sub')):
                if k in cols:
                    v = r[k]
                    row[kk] = v.decode() if isinstance(v, bytes) else str(v)
            if 'zfit' in cols:
                z.append(float(r['zfit']))
            if 'cz' in cols:
                cz.append(float(r['cz']))
            rows.append(row)
        nums['z'], nums['cz'] = z, cz
    except Exception as ex:                 # not a table at all
        cols, rows = ['?' + type(ex).__name__], []
    return cols, rows


def run_meta(world, c, style):
    import pydl.pydlspec2d.spec1d as mod
    path = world.write_par(c, style)
    rec = faults.Recorder(VARS)
    box = {}
    verbose = (style // 7) % 4 == 3

    def thunk():
        with quiet(mod):
            try:
                box['ret'] = mod.template_metadata(path, verbose=True) if verbose else mod.template_metadata(path)
            except Exception as ex:
                box['exc'] = ex
                raise
    out = faults.run(rec, initial_env(c['env0']), thunk)
    nums = {}
    obs = {'how': out['how'], 'exc': '', 'named': [], 'meta': {k: {'t': 'absent', 's': [], 'm': 0, 'b': False} for k in ALLKEYS + ORIG},
           'cols': [], 'rows': [], 'env': {v: opt(out['env'][v]) for v in ('RUN2D', 'RUN1D')}, 'strays': list(out['strays'])}
    if out['env']['VERIF_BYSTANDER'] != 'b':
        obs['strays'].append('VERIF_BYSTANDER')
    if 'exc' in box:
        obs['exc'] = type(box['exc']).__name__
        obs['named'] = named_keys(str(box['exc']))
        obs['msg'] = str(box['exc'])[:200]
    else:
        ret = box.get('ret')
        if isinstance(ret, tuple) and len(ret) == 2 and isinstance(ret[1], dict):
            slist, md = ret
            for k in ALLKEYS + ORIG:
                if k in md:
                    obs['meta'][k] = mval(md[k], nums, k)
            obs['cols'], obs['rows'] = abstract_slist(slist, nums)
        else:
            obs['cols'] = ['?not a (slist, metadata) pair']
    return obs, nums


def close(got, want, rel=0.0):
    """got (float) against the exact value want (Fraction)."""
    if got is None or got != got or got in (float('inf'), float('-inf')):
        return False
    if rel == 0.0:
        return float(want) == got
    return abs(Fraction(got) - want) <= Fraction(rel) * max(abs(want), Fraction(1, 10**30))


def meta_numbers(c, aux, obs, nums):
    """The float-valued metadata and the float columns of slist against the exact values."""
    if obs['how'] != 'return':
        return ''
    for k, e in aux['meta'].items():
        if e['t'] == 'f' and obs['meta'][k]['t'] == 'f' and not close(nums.get(k), dec_value(e)):
            return 'M4: metadata value of %s: %r is not the number written (%s)' % (k, nums.get(k), dec_value(e))
    tbl = c['file']['tbl']
    if tbl['there'] and len(obs['rows']) == len(tbl['rows']):
        for col, key in (('zfit', 'z'), ('cz', 'cz')):
            if col in obs['cols']:
                for r, got in zip(tbl['rows'], nums.get(key, [])):
                    if not close(got, frac(r[key])):
                        return 'M6: slist.%s holds %r, the file says %s' % (col, got, frac(r[key]))
    return ''


# ----------------------------------------------------------------------------------------------
# template_input: recording stand-ins
# ----------------------------------------------------------------------------------------------
LAYOUTS = ('C', 'F', 'strided', 'swapped', 'readonly')


def mk(values, dtype, layout):
    a = np.array(values, dtype=np.float64).astype(dtype)
    if layout == 'F':
        a = np.asfortranarray(a)
    elif layout == 'strided':
        big = np.zeros(tuple(2 * s for s in a.shape), dtype=dtype)
        big[tuple(slice(None, None, 2) for _ in a.shape)] = a
        a = big[tuple(slice(None, None, 2) for _ in a.shape)]
    elif layout == 'swapped':
        a = a.astype(np.dtype(dtype).newbyteorder())
    elif layout == 'readonly':
        a.setflags(write=False)
    return a


def ints(x):
    if x is None:
        return []
    a = np.atleast_1d(np.asarray(x))
    if a.ndim != 1 or not np.issubdtype(a.dtype, np.integer):
        return [BADINT]
    return [int(v) for v in a]


def one_int(x):
    return int(x) if isinstance(x, (int, np.integer)) and not isinstance(x, (bool, np.bool_)) and abs(int(x)) < 2**31 else BADINT


class _Ax:
    def __init__(self, sink):
        self._sink = sink

    def __getattr__(self, name):
        def method(*a, **kw):
            self._sink.append(a)
        return method


class Stage:
    """One template_input run: the stand-ins, what they recorded, and the abstraction of it."""

    def __init__(self, world, c, rep, rec):
        self.world, self.c, self.rep, self.rec = world, c, rep, rec
        self.calls, self.nums, self.reg = [], {}, []
        self.date_calls, self.date_before, self.date_args = 0, True, False
        self.figs, self.axcalls, self.writes, self.ploteig = [], [], [], []
        self.md = self.slist = None
        rows = c['file']['tbl']['rows']
        self.n = len(rows)
        self.npix = len(c['F'][0])
        fd, vd = rep['fdtype'], rep['vdtype']
        n, npix = self.n, self.npix
        F = [[float(frac(q)) for q in row] for row in c['F']]
        V = [[float(frac(q)) for q in row] for row in c['V']]
        nr = len(F)
        self.flux = self.register(('rs', 'flux'), mk(F, fd, rep['flayout']))
        self.invvar = self.register(('rs', 'invvar'), mk(np.array(V) + 1000.0, vd, 'C'))
        self.andmask = self.register(('rs', 'andmask'), (np.arange(nr * npix, dtype=np.int32).reshape(nr, npix) % 11) * 16)
        self.ormask = self.register(('rs', 'ormask'), self.andmask + 7)
        ll = [[3.5 + i / 64.0 + j * float(frac(c['dl'][i])) for j in range(npix)] for i in range(nr)]
        self.loglam = self.register(('rs', 'loglam'), mk(ll, rep['ldtype'], rep['llayout']))
        self.register(('rs', 'loglam[0]'), np.array(self.loglam[0, :]))
        self.V = V
        self.wvout = self.register(('wv', 'out'), 3.25 + 0.03125 * np.arange(7.0) ** 2)
        npp = 6
        self.pp = (self.register(('pp', 'newflux'), 1.0 + np.arange(nr * npp, dtype=np.float64).reshape(nr, npp) ** 2 / 8.0),
                   self.register(('pp', 'newivar'), 0.5 + (np.arange(nr * npp, dtype=np.float64).reshape(nr, npp) % 5)),
                   self.register(('pp', 'newloglam'), 3.0 + 0.0625 * np.arange(npp) ** 2))
        nd, npd = int(c['ndump']), 7
        self.dumped = {'newflux': self.register(('dump', 'newflux'), 2.0 + np.arange(nd * npd, dtype=np.float64).reshape(nd, npd) ** 2 / 16.0),
                       'newivar': self.register(('dump', 'newivar'), 0.25 + (np.arange(nd * npd, dtype=np.float64).reshape(nd, npd) % 3)),
                       'newloglam': self.register(('dump', 'newloglam'), 3.125 + 0.015625 * np.arange(npd) ** 2)}
        self.dump_bytes = None
        self.sol = None
        mu = c['file']['pairs']['minuse']
        self.minuse = int(S(mu['txt'])) if mu['there'] and re.match(r'^[+-]?[0-9]{1,8}$', S(mu['txt'])) else 0

    def register(self, tok, a):
        self.reg.append((tok, np.array(a, dtype=np.float64)))
        return a

    def tok(self, x):
        if isinstance(x, np.ndarray):
            for t, a in self.reg:
                if a.shape == x.shape and np.array_equal(a, np.asarray(x, dtype=np.float64)):
                    return list(t)
            return ['?', 'array%s' % (x.shape,)]
        return ['?', type(x).__name__]

    def call(self, name, a):
        self.calls.append({'name': name, 'a': a})

    def use_date(self):
        if self.date_calls == 0:
            self.date_before = False

    # ---- the stand-ins
    def patches(self, inputfile):
        import pydl.goddard.astro as astro
        import pydl.pydlspec2d.spec1d as mod
        from astropy.io import fits as real_fits
        st = self
        c = self.c
        real_meta = mod.template_metadata

        def template_metadata(*a, **kw):
            arg = a[0] if a else kw.get('inputfile')
            st.call('template_metadata', {'file': 'IN' if arg == inputfile else '?'})
            st.slist, st.md = real_meta(*a, **kw)
            return st.slist, st.md

        def get_juldate(seconds=None):
            st.date_calls += 1
            if seconds is not None:
                st.date_args = True
            jd = float(frac(c['jd']))
            return np.float64(jd) if st.rep['jdkind'] == 'np' else jd

        def readspec(platein, mjd=None, fiber=None, **kw):
            env = st.rec.snap()
            st.call('readspec', {'plate': ints(platein), 'mjd': ints(mjd), 'fiber': ints(fiber), 'align': bool(kw.get('align', False)),
                                 'run2d': list(env['RUN2D']) if env['RUN2D'] != ABSENT else ['<', 'a', 'b', 's', 'e', 'n', 't', '>'],
                                 'run1d': list(env['RUN1D']) if env['RUN1D'] != ABSENT else ['<', 'a', 'b', 's', 'e', 'n', 't', '>']})
            fid = np.array(c['fib'], dtype=np.int32)
            if st.rep['plugmap'] == 'recarray':
                pm = np.zeros(len(fid), dtype=[('FIBERID', 'i4'), ('OBJTYPE', 'S8')]).view(np.recarray)
                pm['FIBERID'] = fid
            else:
                pm = {'FIBERID': fid}
            return {'flux': st.flux, 'invvar': st.invvar, 'andmask': st.andmask, 'ormask': st.ormask, 'loglam': st.loglam,
                    'plugmap': pm}

        def skymask(invvar, andmask, ormask=None, ngrow=2):
            st.call('skymask', {'invvar': st.tok(invvar), 'andmask': st.tok(andmask), 'ormask': st.tok(ormask)})
            return mk(st.V, st.rep['vdtype'], st.rep['vlayout'])

        def wavevector(minfullwave, maxfullwave, zeropoint=3.5, binsz=1.0e-4, wavemin=None):
            st.call('wavevector', {'lo': 'num', 'hi': 'num', 'binsz': 'num'})
            st.nums['wv'] = (minfullwave, maxfullwave, binsz)
            return st.wvout

        def preprocess_spectra(flux, ivar, loglam=None, zfit=None, aesthetics='mean', newloglam=None, wavemin=None,
                               wavemax=None, verbose=False):
            st.call('preprocess_spectra', {'flux': st.tok(flux), 'ivar': 'num', 'loglam': st.tok(loglam), 'zfit': 'num',
                                           'newloglam': st.tok(newloglam), 'aesthetics': list(aesthetics) if isinstance(aesthetics, str) else ['?'],
                                           'verbose': bool(verbose)})
            st.nums['ivar'] = np.array(ivar, copy=True)
            st.nums['single'] = any(np.asarray(x).dtype.itemsize < 8 for x in (flux, ivar))
            st.nums['zfit'] = None if zfit is None else [float(z) for z in np.atleast_1d(zfit)]
            return st.pp

        def solution(newflux, k):
            # what the real solvers return for k templates: eigenspectra (k, npix), coefficients (nobj, k)
            n, npix = newflux.shape
            k = k if 1 <= k <= 64 else 4
            st.sol = st.register(('sol', 'flux'), 0.5 + np.arange(k * npix, dtype=np.float64).reshape(k, npix) ** 2 / 32.0)
            s = {'flux': st.sol, 'acoeff': 1.0 + np.arange(n * k, dtype=np.float64).reshape(n, k)}
            if c['um']:                         # every pixel used by enough spectra: nothing to fill in
                s['usemask'] = np.full((npix,), st.minuse + n + 1, dtype=np.int64)
            return s

        def pca_solve(newflux, newivar, maxiter=0, niter=10, nkeep=3, nreturn=None, verbose=False):
            st.call('pca_solve', {'newflux': st.tok(newflux), 'newivar': st.tok(newivar), 'niter': one_int(niter),
                                  'nkeep': one_int(nkeep), 'verbose': bool(verbose)})
            return solution(newflux, one_int(nkeep))

        class HMF:
            def __init__(self, spectra, invvar, K=4, n_iter=None, seed=None, nonnegative=False, epsilon=None, verbose=False):
                name = 'HMF' if isinstance(nonnegative, (bool, np.bool_)) else 'HMF(nonnegative is not a bool)'
                st.call(name, {'newflux': st.tok(spectra), 'newivar': st.tok(invvar), 'K': one_int(K), 'n_iter': one_int(n_iter),
                               'nonnegative': bool(nonnegative), 'epsilon': 'num', 'verbose': bool(verbose)})
                st.nums['eps'] = epsilon
                self._f, self._k = spectra, one_int(K)

            def solve(self):
                st.call('HMF.solve', {'none': True})
                return solution(self._f, self._k)

        def template_qso(metadata, newflux, newivar, verbose=False):
            st.call('template_qso', {'metadata': 'meta' if metadata is st.md else '?', 'newflux': st.tok(newflux),
                                     'newivar': st.tok(newivar), 'verbose': bool(verbose)})
            return solution(newflux, one_int(metadata.get('nkeep')) if isinstance(metadata, dict) else 4)

        def template_star(metadata, newloglam, newflux, newivar, slist, outfile, verbose=False):
            st.use_date()
            st.call('template_star', {'metadata': 'meta' if metadata is st.md else '?', 'newloglam': st.tok(newloglam),
                                      'newflux': st.tok(newflux), 'newivar': st.tok(newivar),
                                      'slist': 'slist' if slist is st.slist else '?', 'outfile': str(outfile), 'verbose': bool(verbose)})
            st.sol = st.register(('sol', 'flux'), 0.75 + np.arange(4 * newflux.shape[1], dtype=np.float64).reshape(4, -1) ** 2 / 32.0)
            return {'flux': st.sol, 'namearr': ['A', 'F', 'G', 'K']}

        class Fig:
            def __init__(self, sink):
                self._sink = sink

            def savefig(self, name, *a, **kw):
                st.use_date()
                st.figs.append(str(name))

            def __getattr__(self, name):
                return lambda *a, **kw: None

        def subplots(*a, **kw):
            return Fig(st.axcalls), _Ax(st.axcalls)

        class HDUList:
            def __init__(self, hdus):
                self.hdus = list(hdus)

            def writeto(self, name, *a, **kw):
                st.use_date()
                st.writes.append((str(name), self.hdus))

        def plot_eig(filename, *a, **kw):
            st.use_date()
            st.ploteig.append(str(filename))

        plt = faults.Delegate(object(), subplots=subplots, close=lambda *a, **kw: None)
        fitsp = faults.Delegate(real_fits, HDUList=HDUList)
        return [(mod, 'template_metadata', template_metadata), (astro, 'get_juldate', get_juldate),
                (mod, 'readspec', readspec), (mod, 'skymask', skymask), (mod, 'wavevector', wavevector),
                (mod, 'preprocess_spectra', preprocess_spectra), (mod, 'pca_solve', pca_solve), (mod, 'HMF', HMF),
                (mod, 'template_qso', template_qso), (mod, 'template_star', template_star),
                (mod, 'plt', plt), (mod, 'fits', fitsp), (mod, 'plot_eig', plot_eig)]

    # ---- abstraction of what was written
    def fits_record(self, inputfile):
        if not self.writes:
            return {'name': ''}
        if len(self.writes) > 1:
            return {'name': 'written %d times' % len(self.writes)}
        name, hdus = self.writes[0]
        rec = {'name': name, 'data': ['?', ''], 'OBJECT': '', 'RUN2D': [], 'RUN1D': [], 'FILENAME': '?', 'METHOD': [], 'hmf': False,
               'NONNEG': False, 'EPSILON': 'num', 'plate': [], 'mjd': [], 'fiberid': [], 'zname': '?', 'zvals': 'num'}
        try:
            h = hdus[0].header
            rec['data'] = self.tok(np.asarray(hdus[0].data))
            rec['OBJECT'] = str(h.get('OBJECT', ''))
            rec['RUN2D'] = list(str(h.get('RUN2D', '')))
            rec['RUN1D'] = list(str(h.get('RUN1D', '')))
            rec['FILENAME'] = 'IN' if h.get('FILENAME') == inputfile else '?'
            rec['METHOD'] = list(str(h.get('METHOD', '')))
            rec['hmf'] = 'NONNEG' in h and 'EPSILON' in h
            if ('NONNEG' in h) != ('EPSILON' in h):
                rec['OBJECT'] += ' (only one of NONNEG / EPSILON)'
            if rec['hmf']:
                rec['NONNEG'] = h['NONNEG'] is True
                self.nums['EPSILON'] = h['EPSILON']
            t = hdus[1].data
            names = [n.lower() for n in t.dtype.names]
            for k in ('plate', 'mjd', 'fiberid'):
                rec[k] = ints(np.asarray(t[k])) if k in names else [BADINT]
            zn = [n for n in names if n not in ('plate', 'mjd', 'fiberid')]
            rec['zname'] = zn[0] if len(zn) == 1 else '?' + ','.join(zn)
            if len(zn) == 1:
                self.nums['zvals'] = [float(v) for v in t[zn[0]]]
        except Exception as ex:
            rec['OBJECT'] = '?' + type(ex).__name__ + ': ' + str(ex)[:60]
        return rec

    def plotted_rows(self):
        src = None
        for t, a in self.reg:
            if t == (('dump', 'newflux') if self.c['dump'] else ('pp', 'newflux')):
                src = a
        rows = set()
        if src is None:
            return []
        for args in self.axcalls:
            for y in args:
                if isinstance(y, np.ndarray) and y.shape == (src.shape[1],):
                    for l in range(src.shape[0]):
                        d = np.asarray(y, dtype=np.float64) - src[l]
                        if np.allclose(d, d[0], rtol=0, atol=1e-9):
                            rows.add(l + 1)
        return sorted(rows)

    def dump_after(self):
        path = self.world.dump
        if self.c['dump']:
            if not os.path.exists(path):
                return 'removed'
            with open(path, 'rb') as fh:
                return 'kept' if fh.read() == self.dump_bytes else 'changed'
        if not os.path.exists(path):
            return 'absent'
        try:
            with open(path, 'rb') as fh:
                d = pickle.load(fh)
            if sorted(d) == ['newflux', 'newivar', 'newloglam'] and all(self.tok(d[k]) == ['pp', k] for k in d):
                return 'written'
            return 'written with other contents'
        except Exception as ex:
            return 'unreadable (%s)' % type(ex).__name__


def pick_rep(n):
    dt = [np.float32, np.float64]
    return {'fdtype': dt[n % 2], 'vdtype': dt[(n // 2) % 2], 'ldtype': dt[(n // 4) % 2],
            'flayout': LAYOUTS[n % 5], 'vlayout': LAYOUTS[(n // 5) % 4], 'llayout': LAYOUTS[(n // 3) % 5],
            'plugmap': ('dict', 'recarray')[(n // 7) % 2], 'jdkind': ('py', 'np')[(n // 11) % 2], 'n': n}


def clip_reps():
    reps = []
    n = 0
    for fd in (np.float32, np.float64):
        for vd in (np.float32, np.float64):
            for lay in range(4):
                reps.append({'fdtype': fd, 'vdtype': vd, 'ldtype': (np.float32, np.float64)[lay % 2],
                             'flayout': LAYOUTS[(lay + n) % 5], 'vlayout': LAYOUTS[lay], 'llayout': LAYOUTS[(lay + 1) % 5],
                             'plugmap': ('dict', 'recarray')[lay % 2], 'jdkind': 'py', 'n': 1000 + n})
                n += 1
    return reps


def rep_json(rep):
    return {k: (np.dtype(v).name if k.endswith('dtype') else v) for k, v in rep.items()}


def rep_from_json(d):
    return {k: (np.dtype(v).type if k.endswith('dtype') else v) for k, v in d.items()}


def run_input(world, c, rep, style):
    import pydl.pydlspec2d.spec1d as mod
    inputfile = world.write_par(c, style)
    rec = faults.Recorder(VARS)
    st = Stage(world, c, rep, rec)
    if os.path.exists(world.dump):
        os.remove(world.dump)
    if c['dump']:
        with open(world.dump, 'wb') as fh:
            pickle.dump(st.dumped, fh)
        with open(world.dump, 'rb') as fh:
            st.dump_bytes = fh.read()
    box = {}
    triples = st.patches(inputfile)
    kept = {k: np.array(getattr(st, k), copy=True) for k in ('flux', 'invvar', 'andmask', 'ormask', 'loglam')}

    def thunk():
        with quiet(mod):
            with faults.patched(triples):
                try:
                    if style % 2:
                        box['ret'] = mod.template_input(inputfile, world.dump, flux=c['flux'], verbose=c['verbose'])
                    else:
                        box['ret'] = mod.template_input(inputfile, world.dump, c['flux'], c['verbose'])
                except Exception as ex:
                    box['exc'] = ex
                    raise
    out = faults.run(rec, initial_env(c['env0']), thunk)
    obs = {'how': out['how'], 'exc': '', 'n': -1, 'named': [], 'msg': '',
           'flow': [cl for cl in st.calls if cl['name'].split('(')[0] in FLOW_NAMES],
           'date': {'count': st.date_calls, 'before': st.date_before and not st.date_args},
           'dumpAfter': st.dump_after(), 'fits': st.fits_record(inputfile), 'plotEig': list(st.ploteig),
           'figsOK': True, 'nfigs': len(st.figs), 'rows': st.plotted_rows(), 'strays': list(out['strays'])}
    if out['env']['VERIF_BYSTANDER'] != 'b':
        obs['strays'].append('VERIF_BYSTANDER')
    for k, a in kept.items():            # what readspec returned is the caller's: it must not be modified
        if not np.array_equal(a, getattr(st, k)):
            obs['strays'].append('readspec result %s was modified' % k)
    if 'exc' in box:
        msg = str(box['exc'])
        obs['exc'] = type(box['exc']).__name__
        obs['msg'] = msg[:200]
        obs['named'] = named_keys(msg)
        m = re.search(r'\d+', msg)
        if m and len(m.group(0)) < 9:
            obs['n'] = int(m.group(0))
    elif box.get('ret') is not None:
        obs['how'] = 'return of %s' % type(box['ret']).__name__
    fname = obs['fits']['name']
    base = fname[:-5] if fname.endswith('.fits') else None
    names = st.figs
    obs['figsOK'] = (base is not None and all(n.startswith(base + '.') and n != fname for n in names)
                     and len(set(names)) == len(names)) if (names or fname) else True
    return obs, st.nums


def run_numbers(c, aux, obs, nums):
    """The floats handed to the collaborators against the exact values TLC computed."""
    eps32 = float(np.finfo(np.float32).eps)
    if aux['ivar'] and 'ivar' in nums:
        got = nums['ivar']
        want = aux['ivar']
        if got.shape != (len(want), len(want[0])):
            return 'T4: preprocess_spectra got an inverse variance of shape %r' % (got.shape,)
        rel = 4 * (eps32 if nums.get('single') else 2.3e-16)        # the quotient is formed in the narrower of the two types
        for i, row in enumerate(want):
            for j, q in enumerate(row):
                if not close(float(got[i, j]), frac(q), rel=rel):
                    return ('T4: S/N clipping: flux %s, ivar %s, snmax %s -> preprocess_spectra got ivar[%d,%d] = %r, specified %s'
                            % (frac(c['F'][i][j]), frac(c['V'][i][j]), S(c['file']['pairs']['snmax']['txt']), i, j, float(got[i, j]), frac(q)))
    if aux['zfit'] and 'zfit' in nums:
        got = nums['zfit']
        if got is None or len(got) != len(aux['zfit']):
            return 'T4: zfit handed to preprocess_spectra has the wrong length'
        for k, q in enumerate(aux['zfit']):
            if not close(got[k], frac(q), rel=1e-14):
                return 'T4: zfit[%d] = %r, specified %s' % (k, got[k], frac(q))
    if aux['wv'] and 'wv' in nums:
        w = aux['wv'][0]
        lo, hi, binsz = nums['wv']
        for name, x, d in (('log10 wavemin', lo, w['lo']), ('log10 wavemax', hi, w['hi'])):
            try:
                ok = close(10.0 ** float(x), dec_value(d), rel=1e-12)
            except Exception:
                ok = False
            if not ok:
                return 'T4: wavevector got %r for %s of %s' % (x, name, dec_value(d))
        try:
            ok = close(float(binsz), frac(w['binsz']), rel=1e-12)
        except Exception:
            ok = False
        if not ok:
            return 'T4: wavevector got binsz=%r, the pixel spacing of the first spectrum is %s' % (binsz, frac(w['binsz']))
    if aux['eps'] and 'eps' in nums:
        e = nums['eps']
        if not (isinstance(e, (float, np.floating)) and close(float(e), dec_value(aux['eps'][0]))):
            return 'T5: HMF got epsilon=%r, the file says %s' % (e, dec_value(aux['eps'][0]))
    if aux['fits']:
        f = aux['fits'][0]
        if obs['fits'].get('hmf'):
            e = nums.get('EPSILON')
            if not (isinstance(e, (float, np.floating)) and close(float(e), dec_value(f['EPSILON']))):
                return 'T6: EPSILON in the header is %r, the file says %s' % (e, dec_value(f['EPSILON']))
        got = nums.get('zvals')
        if got is None or len(got) != len(f['zvals']) or any(not close(g, frac(q)) for g, q in zip(got, f['zvals'])):
            return 'T6: the redshift column of the INPUT_SPECTRA table is %r, specified %s' % (got, [str(frac(q)) for q in f['zvals']])
    return ''


# ----------------------------------------------------------------------------------------------
# template_input_main
# ----------------------------------------------------------------------------------------------
def run_main(c):
    import pydl.pydlspec2d.spec1d as mod
    home = c['home']
    argv = ['compute_templates'] + [S(a) for a in c['args']]
    calls = []

    def template_input(*a, **kw):
        calls.append((a, kw))
    rec = faults.Recorder(VARS)
    res = {'status': 'return', 'code': -1}
    out_txt, err_txt = io.StringIO(), io.StringIO()

    def thunk():
        saved = sys.argv
        sys.argv = list(argv)
        try:
            with quiet(mod), faults.patched([(mod, 'template_input', template_input)]):
                with contextlib.redirect_stdout(out_txt), contextlib.redirect_stderr(err_txt):
                    try:
                        rc = mod.template_input_main()
                        res['code'] = int(rc) if isinstance(rc, (int, np.integer)) and not isinstance(rc, bool) else -1
                    except SystemExit as ex:
                        res['status'] = 'exit'
                        res['code'] = 0 if ex.code is None else (int(ex.code) if isinstance(ex.code, int) else 1)
        finally:
            sys.argv = saved
    out = faults.run(rec, {'HOME': home, 'VERIF_BYSTANDER': 'b', 'RUN2D': ABSENT, 'RUN1D': ABSENT}, thunk)
    if out['how'] == 'raise':
        res['status'] = 'raise'
    nopath = {'home': False, 's': ''}
    obs = {'status': res['status'], 'code': res['code'], 'ncalls': len(calls), 'in': nopath, 'dump': nopath, 'flux': False,
           'verbose': False, 'usage': False, 'exc': out['exc']}

    def path(p):
        if not isinstance(p, str):
            return {'home': False, 's': '?' + type(p).__name__}
        return {'home': True, 's': p[len(home):]} if p.startswith(home) else {'home': False, 's': p}
    if len(calls) == 1:
        a, kw = calls[0]
        names = ['inputfile', 'dumpfile', 'flux', 'verbose']
        b = dict(zip(names, a))
        b.update(kw)
        obs['in'], obs['dump'] = path(b.get('inputfile')), path(b.get('dumpfile'))
        fl, vb = b.get('flux', False), b.get('verbose', False)
        if not isinstance(fl, bool) or not isinstance(vb, bool) or set(b) - set(names):
            obs['status'] = 'odd arguments %r' % (b,)
        obs['flux'], obs['verbose'] = bool(fl), bool(vb)
    text = out_txt.getvalue() + err_txt.getvalue()
    obs['usage'] = all(w in text for w in ('-d', '--dump', '-F', '--flux', '-f', '--file', '-v', '--verbose', '-h'))
    return obs, {}


# ----------------------------------------------------------------------------------------------
# the judge
# ----------------------------------------------------------------------------------------------
def judge(ctx, recs, label):
    """[(why, aux)] for the records [{'c':, 'obs':}], by Trace_Templates."""
    res = [None] * len(recs)
    for base in range(0, len(recs), CHUNK):
        part = recs[base:base + CHUNK]
        path = os.path.join(ctx.scratch, 'x09_trace_%d.json' % base)
        core.write_json(path, jsonable(part))
        r = ctx.tlc('Trace_Templates.tla', 'Trace_Templates.cfg', dump=True, env={'VERIF_TRACE': path}, count=False,
                    label='%s[%d:%d]' % (label, base, base + len(part)), timeout=1500)
        seen = 0
        for s in core.iter_states(r):
            if s['i'] <= 0:
                continue
            seen += 1
            res[base + s['i'] - 1] = (s['why'], s['aux'])
        if seen != len(part):
            raise core.MachineryError('Trace_Templates judged %d of %d records' % (seen, len(part)))
        os.remove(path)
    return res


def execute(world, c, rep, style):
    if c['fam'] == 'meta':
        return run_meta(world, c, style)
    if c['fam'] == 'run':
        return run_input(world, c, rep, style)
    return run_main(c)


def numbers(c, aux, obs, nums):
    if c['fam'] == 'meta':
        return meta_numbers(c, aux, obs, nums)
    if c['fam'] == 'run':
        return run_numbers(c, aux, obs, nums)
    return ''


def brief(c):
    if c['fam'] == 'meta':
        f = c['file']
        gone = [k for k in ALLKEYS if not f['pairs'][k]['there']]
        vals = {k: S(f['pairs'][k]['txt']) for k in ALLKEYS if f['pairs'][k]['there']}
        return 'template_metadata: %s%s%s, entered with RUN2D=%s RUN1D=%s' % (
            vals if c['exists'] else 'no such file', (' without ' + ','.join(gone)) if gone else '',
            '' if f['tbl']['there'] else ' (no EIGENOBJ table)',
            S(c['env0']['RUN2D']['txt']) if c['env0']['RUN2D']['there'] else '<unset>',
            S(c['env0']['RUN1D']['txt']) if c['env0']['RUN1D']['there'] else '<unset>')
    if c['fam'] == 'run':
        p = c['file']['pairs']
        return 'template_input: object %s method %s, %d spectra, dump file %s, flux=%s verbose=%s, plugmap FIBERID %s, snmax %s' % (
            S(p['object']['txt']) if p['object']['there'] else '<missing>', S(p['method']['txt']) if p['method']['there'] else '<missing>',
            len(c['file']['tbl']['rows']), 'exists (%d spectra)' % c['ndump'] if c['dump'] else 'absent', c['flux'], c['verbose'],
            list(c['fib']), S(p['snmax']['txt']))
    return 'compute_templates %s (HOME=%s)' % (' '.join(S(a) for a in c['args']), c['home'])


class Reporter:
    """Failing cases grouped by (family, reason) so that one cause does not become thousands of replay files."""

    def __init__(self, ctx):
        self.ctx, self.groups = ctx, {}

    def add(self, c, rep, style, obs, why, direction, finding):
        key = (c['fam'], re.sub(r'[0-9]+', '#', why)[:70], finding)
        g = self.groups.setdefault(key, {'n': 0, 'first': None})
        g['n'] += 1
        if g['first'] is None or g['n'] <= 3:
            case = {'what': '%s: %s [%s]' % (brief(c), why, direction), 'c': jsonable(c), 'rep': rep_json(rep) if rep else None,
                    'style': style, 'observed': jsonable({k: v for k, v in obs.items()}), 'why': why}
            if g['first'] is None:
                g['first'] = case
            self.ctx.violation(case, finding=finding)

    def finish(self):
        for (fam, why, finding), g in sorted(self.groups.items(), key=repr):
            if g['n'] > 3:
                print('  ... %d cases in all: %s / %s%s' % (g['n'], fam, why, ' (%s)' % finding if finding else ''), flush=True)
        self.ctx.cov['parts']['failing_groups'] = {'%s: %s' % (k[0], k[1]): g['n'] for k, g in self.groups.items()}


def classify(c, obs, why):
    """The id of the named deviation that explains this failure exactly, if any (spec: Dev_* operators)."""
    if c['fam'] == 'run' and why.startswith('T6: the call must return') and obs['exc'] == 'IndexError':
        p = c['file']['pairs']
        nk = S(p['nkeep']['txt'])
        if (re.match(r'^[+]?[0-9]+$', nk) and int(nk) < 4 and S(p['object']['txt']) in ('gal', 'qso')
                and obs['fits'] == {'name': ''} and not obs['plotEig'] and obs['dumpAfter'] in ('kept', 'written')):
            return 'D-X09-1'          # Dev_RatioPlotsNeedFourTemplates: everything up to the solver as specified, nothing written
    return None


def process(ctx, world, batch, reporter, direction, notes):
    """batch: [(c, rep, style)] -> run, judge, compare numbers, report."""
    import time
    done = []
    t0 = time.time()
    for c, rep, style in batch:
        obs, nums = execute(world, c, rep, style)
        done.append((c, rep, style, obs, nums))
    t1 = time.time()
    verdicts = judge(ctx, [{'c': c, 'obs': {k: v for k, v in obs.items() if k not in ('msg', 'exc_text')}} for c, _, _, obs, _ in done],
                     'Trace_Templates(%s)' % direction)
    ph = ctx.cov['parts'].setdefault('phase_wall_s', {'real_runs': 0.0, 'judging': 0.0})
    ph['real_runs'] = round(ph['real_runs'] + t1 - t0, 1)
    ph['judging'] = round(ph['judging'] + time.time() - t1, 1)
    if os.environ.get('X09_DEBUG'):
        print('process %s: %d cases, run %.1fs judge %.1fs' % (direction, len(batch), t1 - t0, time.time() - t1), flush=True)
    good = []
    for (c, rep, style, obs, nums), (why, aux) in zip(done, verdicts):
        if not why:
            why = numbers(c, aux, obs, nums)
        ctx.evaluated(1, '%s:%s' % (direction, c['fam']))
        ctx.validated()
        if why:
            reporter.add(c, rep, style, obs, why, direction, classify(c, obs, why))
        else:
            good.append((c, obs, aux))
            if c['fam'] == 'meta' and obs['how'] == 'raise' and len(obs['named']) == 1:
                first = aux.get('first', '')
                if first and obs['named'][0] != first:
                    notes['order'] = notes.get('order', 0) + 1
            if c['fam'] == 'meta' and obs['how'] == 'raise' and obs['exc'] != 'Pydlspec2dException':
                if any(obs['env'][v] != c['env0'][v] for v in ('RUN2D', 'RUN1D')):
                    notes['env_after_refusal'] = notes.get('env_after_refusal', 0) + 1
    return good


# ----------------------------------------------------------------------------------------------
# random cases (code -> spec)
# ----------------------------------------------------------------------------------------------
GOODNUM = ['0', '1', '3', '20', '007', '+4', '-1', '1850', '10000', '1.5', '2.50', '.25', '5.', '-1.0', '+0.5', '1e1', '1E2', '2.5e+1',
           '25e-1', '1e0', '100.0', '0.0', '-0', '12.5']
BADNUM = ['abc', '1.2.3', '--1', 'e5', '1e', '.', '-', '+', '1,5', '0x10', 'one', '1e+', '..5', '5-', 'mean', '1/2', '']
OPENNUM = ['1_0', 'nan', 'inf', '-inf', 'Infinity', '1e400', '123456789', '2.0', '1e2', '3.']
WORDS = ['gal', 'qso', 'star', 'Gal', 'GAL', 'Star', 'sTaR', 'QSO', 'lrg', 'pca', 'hmf', 'HMF', 'Hmf', 'PCA', 'svd', 'mean', 'noconst', 'v5_7_0',
         'v5_7_1', 'x', 'v0', '26', 'a-b', 'r1.d']
ENVTXT = ['', 'v5_7_0', 'v0', 'a b', 'x=y', '/r/2d', '26', ' ']


def rat(q):
    q = Fraction(q)
    return [q.numerator, q.denominator]


def random_table(rng, obj=None, n=None, full=False):
    n = n or rng.randint(1, 4)
    star = (obj or '').lower() == 'star'
    if full:
        zcol, cls = ('both' if rng.random() < 0.3 else ('cz' if star else 'zfit')), star
    else:
        zcol, cls = rng.choice(['zfit', 'cz', 'both']), rng.random() < 0.4
    rows = [{'plate': rng.randint(1, 9999), 'mjd': rng.randint(50000, 59999), 'fiberid': rng.randint(1, 1000),
             'z': rat(Fraction(rng.randint(0, 400), 64)), 'cz': rat(Fraction(rng.randint(-600, 600000), 2)),
             'cls': rng.choice(['A', 'F', 'G', 'K', 'M']), 'sub': rng.choice(['F5', 'K3', 'M1', 'G2V', 'A0'])} for _ in range(n)]
    return {'there': True, 'zcol': zcol, 'cls': cls, 'rows': rows}


def random_pairs(rng, valid=False):
    pairs = {}
    for k in ALLKEYS:
        p = rng.random()
        if not valid and p < 0.07:
            pairs[k] = {'there': False, 'txt': []}
            continue
        if k in TEXTKEYS:
            if k == 'object':
                t = rng.choice(['gal', 'qso', 'star']) if rng.random() < 0.6 else rng.choice(WORDS[:9])
            elif k == 'method':
                t = rng.choice(['pca', 'hmf']) if rng.random() < 0.6 else rng.choice(WORDS[9:15])
            else:
                t = rng.choice(WORDS[15:])
        elif k == 'nonnegative':
            t = rng.choice(['0', '1']) if (valid or p < 0.8) else rng.choice(['2', '-1', 'no', 'True', '1.0', '', '01', '+1'])
        else:
            ints_ok = [g for g in GOODNUM if re.match(r'^[+-]?\d+$', g)]
            pool = ints_ok if k in INTKEYS else GOODNUM
            t = rng.choice(pool) if (valid or p < 0.8) else rng.choice(BADNUM + OPENNUM + GOODNUM)
            if k == 'nkeep' and rng.random() < 0.9:
                t = rng.choice(['1', '2', '3', '4', '4', '4', '5', '007', '+4', '12'])
            if k in ('wavemin', 'wavemax') and rng.random() < 0.9:
                t = rng.choice(['1850', '10000', '3.6e3', '912.5', '1e4', '+100', '1850.0'])
        pairs[k] = {'there': True, 'txt': list(t)}
    return pairs


def random_env(rng):
    return {v: ({'there': False, 'txt': []} if rng.random() < 0.3 else {'there': True, 'txt': list(rng.choice(ENVTXT))})
            for v in ('RUN2D', 'RUN1D')}


def random_meta(rng):
    tbl = random_table(rng) if rng.random() < 0.95 else {'there': False, 'zcol': 'zfit', 'cls': False, 'rows': []}
    return {'fam': 'meta', 'file': {'pairs': random_pairs(rng, valid=rng.random() < 0.35), 'tbl': tbl}, 'exists': rng.random() < 0.97,
            'env0': random_env(rng), 'note': {'key': '', 'txt': []}}


def random_run(rng):
    pairs = random_pairs(rng, valid=rng.random() < 0.9)
    obj = S(pairs['object']['txt']) if pairs['object']['there'] else ''
    n = rng.randint(1, 4)
    npix = rng.randint(4, 8)
    while npix in (6, 7, n):               # 6, 7: the widths of the intermediate data
        npix += 1
    tbl = random_table(rng, obj, n, full=rng.random() < 0.9)
    sn = rng.choice(['0', '1', '2', '3.5', '10', '100', '0.25', '7.5', '1e1', '2.5e1', '12', '.5'])
    pairs['snmax'] = {'there': True, 'txt': list(sn)}
    F = [[rat(Fraction(rng.randint(-12, 12), rng.choice([1, 2, 4]))) for _ in range(npix)] for _ in range(n)]
    V = [[rat(Fraction(rng.choice([0, 0, 1, 2, 3, 4, 8, 16, 36, 100, 400]), rng.choice([1, 4]))) for _ in range(npix)] for _ in range(n)]
    dump = rng.random() < 0.35
    fib = [0 if rng.random() < 0.12 else r['fiberid'] for r in tbl['rows']]
    return {'fam': 'run', 'file': {'pairs': pairs, 'tbl': tbl}, 'env0': random_env(rng), 'dump': dump,
            'ndump': n if rng.random() < 0.7 else rng.randint(1, n), 'flux': rng.random() < 0.5, 'verbose': rng.random() < 0.5, 'fib': fib, 'F': F, 'V': V,
            'dl': [rat(Fraction(rng.randint(1, 9), rng.choice([4096, 8192, 16384]))) for _ in range(n)],
            'jd': rat(Fraction(4 * rng.randint(2455000, 2465000) + rng.randint(0, 3), 4)), 'um': rng.random() < 0.6}


ARGS = [['-', 'd'], ['-', 'd', 'a.dump'], ['--', 'dump'], ['--', 'dump', '=', 'b.dump'], ['-', 'f'], ['-', 'f', 'c.par'],
        ['--', 'file'], ['--', 'file', '=', 'x=y'], ['-', 'F'], ['--', 'flux'], ['-', 'v'], ['--', 'verbose'], ['-', 'F', 'v'],
        ['-', 'v', 'F'], ['-', 'v', 'F', 'd'], ['-', 'F', 'f'], ['W'], ['in.par'], ['-', 'q'], ['--', 'quiet'], ['-', 'h'], ['--', 'help'],
        ['--', 'du'], ['--', 'verb'], ['--', 'f'], ['-', 'd', '='], ['--', 'flux', '=', '1'], ['--'], ['-'], ['-', 'F', 'h'],
        ['--', 'dump', '=', ''], ['-', 'd', 'v', 'F']]


def random_main(rng):
    return {'fam': 'main', 'args': [list(rng.choice(ARGS)) for _ in range(rng.randint(0, 6))], 'home': rng.choice(['/h', '/home/u s', '/nonexistent'])}


# ----------------------------------------------------------------------------------------------
def falsified(good, rng, limit):
    """Accepted (case, observation) pairs with one observed field falsified: the judge must reject every one."""
    out = []
    for c, obs, aux in good:
        if len(out) >= limit:
            break
        o = copy.deepcopy(obs)
        if (aux.get('open') is True or aux.get('st') == 'open' or aux.get('tail', 'full') not in ('full', 'missing')):
            continue                      # where the specification leaves the outcome open nothing can be falsified
        if c['fam'] == 'meta':
            if o['how'] == 'return':
                k = rng.choice(['niter', 'nkeep', 'minuse', 'orig', 'env', 'how', 'object', 'rows'])
                if k in ('niter', 'nkeep', 'minuse'):
                    o['meta'][k]['m'] += 1
                elif k == 'orig':
                    o['meta']['orig_run2d'] = {'t': 's', 's': ['z', 'z'], 'm': 0, 'b': False}
                elif k == 'env':
                    o['env']['RUN1D'] = {'there': True, 'txt': ['z', 'z']}
                elif k == 'how':
                    o['how'], o['exc'], o['named'] = 'raise', 'KeyError', ['niter']
                elif k == 'object':
                    o['meta']['object']['s'] = o['meta']['object']['s'] + ['x']
                else:
                    o['rows'][0]['fiberid'] += 1
            elif o['exc'] in ('KeyError', 'ValueError') and o['named'] and c['file']['tbl']['there']:
                m = rng.randrange(3)
                if m == 0:
                    o['exc'] = 'ValueError' if o['exc'] == 'KeyError' else 'KeyError'
                elif m == 1:
                    o['named'] = ['aesthetics'] if o['named'] != ['aesthetics'] and c['file']['pairs']['aesthetics']['there'] else ['run2d']
                    if not c['file']['pairs'][o['named'][0]]['there']:
                        continue
                else:
                    o['strays'] = ['HOME']
            else:
                continue
        elif c['fam'] == 'run':
            flow = o['flow']
            m = rng.randrange(6)
            names = [cl['name'] for cl in flow]
            if m == 0 and 'readspec' in names:
                cl = flow[names.index('readspec')]
                cl['a']['align'] = not cl['a']['align']
            elif m == 1 and len(flow) > 1 and o['how'] == 'return':
                del flow[rng.randrange(1, len(flow))]
            elif m == 2 and any(n in names for n in ('pca_solve', 'HMF', 'template_qso', 'template_star')) and o['how'] == 'return':
                cl = [x for x in flow if x['name'] in ('pca_solve', 'HMF', 'template_qso', 'template_star')][0]
                cl['a']['newflux'], cl['a']['newivar'] = cl['a']['newivar'], cl['a']['newflux']
            elif m == 3 and o['how'] == 'return' and o['fits']['name'].endswith('.fits'):
                o['fits']['name'] = o['fits']['name'][:-6] + 'X.fits'
            elif m == 4 and o['how'] == 'raise' and o['n'] >= 1 and o['exc'] == 'ValueError':
                o['n'] += 1
            elif m == 5 and o['dumpAfter'] in ('written', 'kept', 'absent') and o['how'] == 'return':
                o['dumpAfter'] = {'written': 'absent', 'kept': 'changed', 'absent': 'written'}[o['dumpAfter']]
            else:
                continue
        else:
            if o['ncalls'] == 1:
                k = rng.choice(['flux', 'verbose', 'code', 'in'])
                if k in ('flux', 'verbose'):
                    o[k] = not o[k]
                elif k == 'code':
                    o['code'] = 1
                else:
                    o['in'] = {'home': False, 's': 'zz'}
            elif o['status'] == 'exit' and o['code'] != 0:
                o['code'] = 0
                o['usage'] = False
            else:
                continue
        out.append({'c': c, 'obs': {k: v for k, v in o.items() if k != 'msg'}})
    return out


def solver_contract(ctx):
    """The stand-ins for the solvers return arrays shaped like the real ones: eigenspectra (nkeep, npix), coefficients
    (nobj, nkeep).  That is looked up on the real pca_solve / HMF once per run (small synthetic spectra) and recorded."""
    import pydl.pydlspec2d.spec1d as mod
    rs = np.random.RandomState(ctx.seed % 2**31)
    f = rs.normal(size=(6, 40)) + 5.0
    iv = np.ones((6, 40))
    seen = {}
    with quiet(mod):
        for k in (2, 3, 5):
            try:
                a = mod.pca_solve(f.copy(), iv.copy(), niter=2, nkeep=k)
                b = mod.HMF(f.copy(), iv.copy(), K=k, n_iter=2).solve()
                seen[k] = [tuple(a['flux'].shape), tuple(a['acoeff'].shape), tuple(b['flux'].shape), tuple(b['acoeff'].shape)]
            except Exception as ex:
                seen[k] = '%s: %s' % (type(ex).__name__, str(ex)[:80])
    ok = all(seen[k] == [(k, 40), (6, k), (k, 40), (6, k)] for k in seen)
    ctx.cov['parts']['solver_contract'] = {'as_assumed': ok, 'shapes': {str(k): repr(v) for k, v in seen.items()}}
    if not ok:
        print('NOTE X09: the real solvers no longer return (nkeep, npix) eigenspectra and (nobj, nkeep) coefficients: %r; the '
              'stand-ins of this check assume that' % (seen,))


def run(ctx):
    core.import_pydl()
    ctx.level = 'model_checking'
    ctx.rule = ('every case state of MC_Templates is one call: (abstract parameter file, environment on entry) for '
                'template_metadata, a scenario (file, dump file present or not, flux, verbose, spectra found or not, flux and '
                'inverse-variance grids, date) for template_input, a command line for template_input_main; each is '
                'materialised, executed and judged by Trace_Templates; non-trivial = the file is refused, or a spectrum is '
                'missing, or some pixel is clipped, or the command line has an argument; recorded = seeded random cases '
                'outside the families, judged the same way')
    ctx.assumptions = [
        'collaborators of template_input (template_metadata - the real one, wrapped -, get_juldate, readspec, skymask, '
        'wavevector, preprocess_spectra, pca_solve, HMF, template_qso, template_star, plt, fits.HDUList.writeto, plot_eig) are '
        'the names it reaches through its module namespace; the heavy ones are recording stand-ins returning small arrays '
        'of known provenance, so the numerical content of the stages is not exercised here; the solver stand-ins return '
        'eigenspectra (nkeep, npix) and coefficients (nobj, nkeep) as the real pca_solve / HMF do (looked up once per run: '
        'coverage.parts.solver_contract); a single spectrum, for which the real solvers return the spectrum alone, is not modelled',
        'TLC integers are 32-bit: numbers in the file have at most 8 digits and a 2-digit exponent, grids use small rationals',
        'the restore of RUN2D / RUN1D by template_input is property C20 and is not judged again',
        'left open (see the module header of spec/Templates.tla): which of several wrong keywords is reported, the '
        'environment after a refused file, integral values in float notation for whole-number keywords, flags other than '
        '0 / 1, a binsz keyword, everything after the solver for objects not spelled gal / qso / star, argparse '
        'abbreviations']
    world = World(ctx)
    reporter = Reporter(ctx)
    notes = {}
    rng = random.Random(ctx.seed)
    solver_contract(ctx)
    cfg = 'MC_Templates_quick.cfg' if ctx.quick else 'MC_Templates_thorough.cfg'
    r = ctx.tlc('MC_Templates.tla', cfg, dump=True, timeout=1500)
    batch, good, n = [], [], 0
    counts = {}
    for st in core.iter_states(r):
        c = st['c']
        if c['fam'] not in ('meta', 'run', 'main'):
            continue
        c = jsonable(c)
        n += 1
        counts[c['fam']] = counts.get(c['fam'], 0) + 1
        exp = st['exp']
        if c['fam'] == 'meta':
            if exp['out'] != 'accepted':
                ctx.nontriv(('meta', json.dumps(c['file']['pairs'], sort_keys=True), c['exists'], c['file']['tbl']['there']))
        elif c['fam'] == 'run':
            if exp['tail'] != 'full' or any(True for fl in exp['flow'] if fl['name'] == 'preprocess_spectra'
                                            for rowq, rowv in zip(fl['a']['ivar'], c['V']) for q, v in zip(rowq, rowv) if list(q) != list(v)):
                ctx.nontriv(('run', n))
        elif c['args']:
            ctx.nontriv(('main', json.dumps(c['args'])))
        if c['fam'] == 'run' and len(c['F'][0]) == 26:
            for k, rep in enumerate(clip_reps()):
                if not ctx.quick or (k + n) % 2:
                    batch.append((c, rep, n))
        else:
            batch.append((c, pick_rep(n) if c['fam'] == 'run' else None, n))
        if n % 700 == 1:
            ctx.sample({'case': brief(c), 'specified': jsonable(exp) if c['fam'] != 'run' else {k: jsonable(exp[k]) for k in ('tail', 'out', 'dumpAfter')}})
        if len(batch) >= CHUNK:
            good += process(ctx, world, batch, reporter, 'replay', notes)[:400]
            batch = []
    if batch:
        good += process(ctx, world, batch, reporter, 'replay', notes)[:400]
    ctx.cov['parts']['cases_by_family'] = counts
    # ---- code -> spec: random cases
    nm, nr, na = (400, 200, 300) if ctx.quick else (6000, 3000, 4000)
    batch = [(random_meta(rng), None, rng.randrange(10**6)) for _ in range(nm)]
    batch += [(cc, pick_rep(rng.randrange(10**6)), rng.randrange(10**6)) for cc in (random_run(rng) for _ in range(nr))]
    batch += [(random_main(rng), None, 0) for _ in range(na)]
    for k in range(0, len(batch), CHUNK):
        part = batch[k:k + CHUNK]
        for c, _, _ in part:
            ctx.nontriv(('random', c['fam'], json.dumps(c, sort_keys=True)[:400]))
        good += process(ctx, world, part, reporter, 'recorded', notes)[:400]
    ctx.sample({'recorded': brief(batch[0][0])})
    # ---- binding self-test
    rng.shuffle(good)
    fals = falsified(good, rng, 240)
    if len(fals) < 30:
        raise core.MachineryError('binding self-test: only %d records could be falsified' % len(fals))
    verdicts = judge(ctx, fals, 'Trace_Templates self-test')
    missed = [k for k, (why, _) in enumerate(verdicts) if not why]
    ctx.cov['parts']['selftest_records'] = {'corrupted_records': len(fals), 'rejected': len(fals) - len(missed)}
    if missed:
        raise core.MachineryError('binding self-test: %d of %d falsified records were accepted, e.g. %r'
                                  % (len(missed), len(fals), fals[missed[0]]['obs']))
    reporter.finish()
    ctx.cov['parts']['notes'] = {
        'refusals_naming_another_keyword_than_the_first_wrong_one_in_CheckOrder (not documented; open keywords included)': notes.get('order', 0),
        'refused_files_leaving_RUN2D_RUN1D_changed (not documented, template_input restores: C20)': notes.get('env_after_refusal', 0)}
    if notes.get('env_after_refusal'):
        print('NOTE X09: %d refused files left RUN2D / RUN1D at the file\'s values (template_metadata sets them before it '
              'validates the hmf-only keywords); the docstring does not say, template_input restores them (C20)' % notes['env_after_refusal'])
    ctx.exhaustive = not ctx.quick


def replay(ctx, case):
    """bin/check X09 --replay <file>: re-execute one failing case and judge it again."""
    core.import_pydl()
    ctx.level = 'model_checking'
    ctx.rule = 'single replayed case'
    world = World(ctx)
    c = case['c']
    rep = rep_from_json(case['rep']) if case.get('rep') else None
    obs, nums = execute(world, c, rep, case.get('style', 0))
    (why, aux), = judge(ctx, [{'c': c, 'obs': {k: v for k, v in obs.items() if k != 'msg'}}], 'Trace_Templates(replay)')
    if not why:
        why = numbers(c, aux, obs, nums)
    print('case:', brief(c), '\nobserved:', json.dumps(jsonable(obs))[:1500], '\nverdict:', why or 'as specified')
    ctx.evaluated(1)
    ctx.validated()
    ctx.nontriv('a'); ctx.nontriv('b')
    if why:
        ctx.violation(case, finding=classify(c, obs, why))
