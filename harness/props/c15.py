"""C15 - least-squares and factorisation solvers return the optimum they claim.

Spec: spec/LinSolve.tla (exact rationals over spec/Rat.tla); MC: mc/MC_LinSolve; Trace: trace/Trace_LinSolve.

spec -> code
  wls    every TLC state is one computechi2 call (integer A, b, sqivar, calling convention) with the exact solution
         record; the real object's lazy attributes (read in a seeded order) are compared with TLC's rationals.
  pcomp  every TLC state is an integer data matrix with its exact scatter matrix; pcomp is run in the four
         (standardize, covariance) modes and the four laws are evaluated against TLC's exact moments.
  hmfx   every TLC transition of the exact alternating least squares (tiny integer data) is executed on a real HMF
         object (astep / gstep from the same factors) and compared with TLC's rationals.
  hmfm   every complete behaviour of the iteration protocol gives the order in which the harness steps the public
         methods of a real HMF object (the measurements go through the trace specification).
code -> spec
  recorded computechi2 / pcomp / pca_solve calls (seeded random inputs) are judged by TLC (Trace_LinSolve, mode recs);
  recorded HMF runs - stepped through the public methods and full iterate() runs recorded through wrapped methods,
  each with a same-seed twin - are validated event by event against the protocol actions (mode hmf).
Python only concretises (integers -> numpy arrays) and abstracts (float -> nearby small rational / scaled integer,
and the numeric relations named in ctx.assumptions).

Named deviations (spec/LinSolve.tla Dev_*; passed as `finding` so that known_findings.json can list them):
  D-C15-1  computechi2 raises for a one-dimensional amatrix (the M = 1 system given as a vector)
  D-C15-2  pcomp gives NaN components when the analysed matrix is singular (round-off negative eigenvalue)
  D-C15-3  pcomp(standardize=True).derived = data . components + (x - mean)
Every replay file re-executes the real code: bin/check C15 --replay replays/C15/<hash>.json
"""
import json
import os
import random
import re
import warnings
from fractions import Fraction

import numpy as np

from .. import core, tlaval

MAXV = 4            # violations reported per class (every further one is only counted)
RTOL = 1e-8         # float vs exact rational (spec -> code)
XTOL = 1e-9         # float -> small rational abstraction (code -> spec)
MAXDEN = 10000
PS, QS = 100000, 10000
GTOL = 1e-7         # normalised gradient, one unit
MTOL = 1e-9         # model / rms relations, one unit
PTOL = 1e-6         # pca_solve projection (eigenspectra are returned as float32), one unit
CLIP = 2 * 10**9
ATTRS = ['acoeff', 'yfit', 'chi2', 'dof', 'covar', 'var']


# ----------------------------------------------------------------------------------------------
# TLC dump reader (records, tuples, integers, strings, booleans only)
# ----------------------------------------------------------------------------------------------
_FIELD = re.compile(r'([A-Za-z_]\w*) \|->')


def _fast_value(text):
    t = _FIELD.sub(r'"\1":', text).replace('[', '{').replace(']', '}')
    t = t.replace('<<', '[').replace('>>', ']').replace('TRUE', 'true').replace('FALSE', 'false')
    return json.loads(t)


def _listify(v):
    if isinstance(v, dict):
        return {k: _listify(x) for k, x in v.items()}
    if isinstance(v, (tuple, list)):
        return [_listify(x) for x in v]
    return v


def fast_states(r, selfcheck=40):
    """Yield {var: value} per dumped state; the first states are cross-checked with harness/tlaval.py."""
    path = r.get('dump')
    if not path or not os.path.exists(path):
        raise core.MachineryError('TLC wrote no dump')
    n = 0

    def parse(block):
        nonlocal n
        st, ref = {}, {}
        n += 1
        check = n <= selfcheck or n % 7001 == 0
        for conj in block.split('\n/\\ '):
            conj = conj.strip()
            if conj.startswith('/\\ '):
                conj = conj[3:]
            if not conj:
                continue
            name, _, val = conj.partition(' = ')
            st[name.strip()] = _fast_value(val)
            if check:
                ref[name.strip()] = tlaval.parse_value(val)
        if check and _listify(ref) != st:
            raise core.MachineryError('fast dump reader disagrees with tlaval on state %d' % n)
        return st

    buf = []
    with open(path) as fh:
        for line in fh:
            if line.startswith('State '):
                if buf:
                    yield parse(''.join(buf))
                buf = []
            elif line.strip():
                buf.append(line)
    if buf:
        yield parse(''.join(buf))
    os.remove(path)


class Reporter:
    """Caps the number of violation reports per class; counts the rest."""

    def __init__(self, ctx):
        self.ctx = ctx
        self.n = {}

    def __call__(self, cls, case, finding=None):
        self.n[cls] = self.n.get(cls, 0) + 1
        if self.n[cls] <= MAXV:
            case = dict(case)
            case['class'] = cls
            self.ctx.violation(case, finding=finding)

    def summary(self):
        for cls, n in sorted(self.n.items()):
            if n > MAXV:
                print('  (%d further cases of class %s not listed)' % (n - MAXV, cls), flush=True)


def fr(q):
    return Fraction(q[0], q[1])


def close(obs, q, tol=RTOL):
    e = float(fr(q))
    return bool(np.isfinite(obs)) and abs(float(obs) - e) <= tol * max(1.0, abs(e))


# ----------------------------------------------------------------------------------------------
# array properties: the outcome depends on the VALUES only (LinSolve!LayoutIndependent), so every array argument is
# also handed over read-only, as a non-contiguous view, byte-swapped (as read from a FITS file), and scalars as 0-d
# arrays; rotated over the cases by seed / case number
# ----------------------------------------------------------------------------------------------
LAYOUTS = ['plain', 'ro', 'nc', 'bs']


def lay(arr, layout):
    a = np.array(arr)
    if layout == 'ro':
        a.setflags(write=False)
    elif layout == 'nc':
        if a.ndim == 1:
            big = np.zeros(2 * a.size + 1, dtype=a.dtype)
            big[1::2] = a
            a = big[1::2]
        elif a.shape[0] % 2:
            a = np.asfortranarray(a)
        else:
            big = np.zeros((a.shape[0], 2 * a.shape[1]), dtype=a.dtype)
            big[:, ::2] = a
            a = big[:, ::2]
    elif layout == 'bs':
        a = a.astype(a.dtype.newbyteorder())
    elif layout != 'plain':
        raise core.MachineryError('unknown layout %r' % layout)
    return a


def z0(v, on):
    """A scalar argument as a 0-d array (None stays None)."""
    return np.array(v) if (on and v is not None) else v


# ----------------------------------------------------------------------------------------------
# (a) computechi2
# ----------------------------------------------------------------------------------------------
def run_chi2(A, b, s, conv, order, layout='plain'):
    """One real call; returns {'err', 'exc', attr: python floats}."""
    from pydl.pydlutils.math import computechi2
    dt = np.int64 if conv == 'int' else np.float64
    Aa = np.array(A, dtype=dt)
    if conv == '1d':
        Aa = np.ascontiguousarray(Aa[:, 0])
    out = {'err': False, 'exc': ''}
    try:
        with warnings.catch_warnings():
            warnings.simplefilter('ignore')
            obj = computechi2(lay(np.array(b, dtype=dt), layout), lay(np.array(s, dtype=dt), layout), lay(Aa, layout))
            got = {name: getattr(obj, name) for name in order}
    except Exception as ex:
        return {'err': True, 'exc': '%s: %s' % (type(ex).__name__, str(ex)[:80])}
    out['acoeff'] = [float(v) for v in np.asarray(got['acoeff']).reshape(-1)]
    out['yfit'] = [float(v) for v in np.asarray(got['yfit']).reshape(-1)]
    out['chi2'] = float(got['chi2'])
    out['dof'] = int(got['dof'])
    cv = np.asarray(got['covar'], dtype=float)
    out['covar'] = [[float(v) for v in row] for row in cv.reshape(cv.shape[0], -1)] if cv.ndim >= 1 else [[float(cv)]]
    out['var'] = [float(v) for v in np.asarray(got['var']).reshape(-1)]
    return out


EPS = 2.220446049250313e-16
NORMW = 1e-11       # eps * conditioning allowance of these small systems (the same constant as in the chi2 rule)


def chi2_tol(chi, Q):
    """LinSolve: THE COMPARISON RULE for chi-square.  chi2 is a sum of squared weighted residuals, so it is judged
    relative to itself plus ROUND-OFF level multiples of its natural scale Q = sum_i w_i (|b_i| + scale_i)^2 (each
    weighted residual carries ~eps * sqrt(w_i) (|b_i| + scale_i); first order through sqrt(chi2), second order for an
    exact fit; 1e-11 ~ eps * conditioning of these systems) - not Tol * Q, which would hide a cancelling evaluation."""
    chi = max(float(chi), 0.0)
    return 1e-9 * chi + 256 * EPS * np.sqrt(chi * Q) + 1e-22 * Q + 1e-300


def nat_q(b, s, sy):
    """Q = sum_i w_i (|b_i| + scale_i)^2 from the natural scales of the fitted values."""
    return float(sum((float(si) ** 2) * (abs(float(bi)) + float(yi)) ** 2 for bi, si, yi in zip(b, s, sy)))


def closef(obs, e, tol=RTOL):
    e = float(e)
    return bool(np.isfinite(obs)) and abs(float(obs) - e) <= tol * max(1.0, abs(e))


VARIANTS = {
    'plain': None,
    # b * 2^20, sqivar * 2^16, A * 2^3: |b s|^2 ~ 1e23 while an exact fit still has chi2 = 0 (homogeneity laws)
    'scaled': {'ka': 3, 'kb': 20, 'ks': 16, 'kz': None},
    # a large model vector A.z * 2^24 added to b, sqivar * 2^10: high signal-to-noise, chi2 unchanged * 2^20
    'highsn': {'ka': 0, 'kb': 0, 'ks': 10, 'kz': 24},
}
SHIFT_Z = [1, -1, 2]                         # LinSolve!ShiftZ
# 'units' variant: A, b, sqivar scaled independently by 2^ka, 2^kb, 2^ks drawn per case (tiny and huge units);
# every product formed on the way (normal matrix ~2^(2ka+2ks), chi2 ~2^(2kb+2ks), ...) stays far inside the
# double range (|exponent| <= 200 < 1022), so a correct solver is scale-covariant over the whole range.
UNITS_KA, UNITS_KB, UNITS_KS = 60, 60, 40


def nat_from_pieces(A, covar, x, pieces):
    """LinSolve!NatScale: scale_j = sum_k |M^-1|_jk ((|A|^T W |b|)_k + (|M||x|)_k), scale_i = sum_j |A_ij| scale_j, from
    TLC's exact M^-1 (covar), x (acoeff), |M| (pieces.g) and |A|^T W |b| (pieces.ar), in exact fractions."""
    M = len(x)
    rhs = [pieces['ar'][k] + sum(pieces['g'][k][l] * abs(x[l]) for l in range(M)) for k in range(M)]
    sx = [sum(abs(covar[j][k]) * rhs[k] for k in range(M)) for j in range(M)]
    return sx, [sum(abs(row[j]) * sx[j] for j in range(M)) for row in A]


def base_expected(c, exp):
    """TLC's exact record of the enumerated system as floats (each the correctly rounded exact value), with the exact
    natural scales (LinSolve!NatScale, evaluated in exact fractions from TLC's pieces) of the system and of the
    model-shift right-hand side A.z; computed once per case and cached in exp."""
    if '_base' not in exp:
        A = c['A']
        M = len(A[0])
        x = [fr(q) for q in exp['acoeff']]
        cov = [[fr(q) for q in row] for row in exp['covar']]
        sx, sy = nat_from_pieces(A, cov, x, exp['nat'])
        zx, zy = nat_from_pieces(A, cov, [Fraction(SHIFT_Z[j]) for j in range(M)], exp['natz'])
        f = float
        exp['_base'] = {'acoeff': [f(v) for v in x], 'yfit': [f(fr(q)) for q in exp['yfit']], 'chi2': f(fr(exp['chi2'])),
                        'dof': exp['dof'], 'covar': [[f(v) for v in row] for row in cov],
                        'var': [f(fr(q)) for q in exp['var']], 'sx': [f(v) for v in sx], 'sy': [f(v) for v in sy],
                        'zx': [f(v) for v in zx], 'zy': [f(v) for v in zy]}
    return exp['_base']


def transform(c, exp, variant):
    """(A, b, s, expected record) of a variant of the enumerated system; the expected values are TLC's, rescaled /
    shifted as the laws HomogeneousInA/B/S, ModelShift and ScaleHomogeneous (TLC-checked) prescribe.  The rescaling
    is by powers of two, exact in binary floating point."""
    A, b, s = c['A'], c['b'], c['s']
    base = base_expected(c, exp)
    e = {k: (list(v) if isinstance(v, list) else v) for k, v in base.items()}
    e['covar'] = [list(row) for row in base['covar']]
    if isinstance(variant, (list, tuple)):       # ('units', ka, kb, ks)
        v = {'ka': variant[1], 'kb': variant[2], 'ks': variant[3], 'kz': None}
    else:
        v = VARIANTS[variant]
    if v is None:
        return A, b, s, e
    M = len(A[0])
    if v['kz'] is not None:
        z = [SHIFT_Z[j] * 2 ** v['kz'] for j in range(M)]
        az = [sum(row[j] * z[j] for j in range(M)) for row in A]
        b = [bi + azi for bi, azi in zip(b, az)]
        e['acoeff'] = [x + zj for x, zj in zip(e['acoeff'], z)]
        e['yfit'] = [y + azi for y, azi in zip(e['yfit'], az)]
        # natural scale of the shifted system: within scale(b) of 2^kz * scale(A.z) (triangle inequality), both TLC's
        e['sx'] = [x + q * 2.0 ** v['kz'] for x, q in zip(e['sx'], e['zx'])]
        e['sy'] = [y + q * 2.0 ** v['kz'] for y, q in zip(e['sy'], e['zy'])]
    fa, fb, fs = 2.0 ** v['ka'], 2.0 ** v['kb'], 2.0 ** v['ks']
    if min(v['ka'], v['kb'], v['ks']) >= 0:
        A2 = [[int(fa) * x for x in row] for row in A]
        b2 = [int(fb) * x for x in b]
        s2 = [int(fs) * x for x in s]
    else:                                        # powers of two times small integers: exact in binary floating point
        A2 = [[float(x) * fa for x in row] for row in A]
        b2 = [float(x) * fb for x in b]
        s2 = [float(x) * fs for x in s]
    e['acoeff'] = [x * fb / fa for x in e['acoeff']]
    e['yfit'] = [y * fb for y in e['yfit']]
    e['sx'] = [x * fb / fa for x in e['sx']]          # LinSolve!ScaleHomogeneous
    e['sy'] = [y * fb for y in e['sy']]
    e['chi2'] = e['chi2'] * (fb * fs) ** 2
    e['covar'] = [[x / (fa * fs) ** 2 for x in row] for row in e['covar']]
    e['var'] = [x / (fa * fs) ** 2 for x in e['var']]
    return A2, b2, s2, e


def wls_mismatch(obs, e, b, s):
    """First attribute that differs from the exact record e (Fractions) by more than THE COMPARISON RULE of
    LinSolve.tla allows (|obs - exact| <= RTOL * max(|exact|, natural scale)), or None."""
    if obs['err']:
        return 'exception ' + obs['exc']
    M, N = len(e['acoeff']), len(e['yfit'])

    def agrees(o, x, sc, vec):
        # componentwise at the tolerance, with a ROUND-OFF level floor relative to the whole vector (a solver that
        # rotates the unknowns, as an SVD does, spreads eps * conditioning * |vector| over every component, also over
        # one that is decoupled and exactly zero)
        return bool(np.isfinite(o)) and abs(o - float(x)) <= max(RTOL * max(abs(float(x)), float(sc)), NORMW * vec)
    vx, vy = max(float(v) for v in e['sx']), max(float(v) for v in e['sy'])
    if len(obs['acoeff']) != M or any(not agrees(o, x, sc, vx) for o, x, sc in zip(obs['acoeff'], e['acoeff'], e['sx'])):
        return 'acoeff'
    if len(obs['yfit']) != N or any(not agrees(o, x, sc, vy) for o, x, sc in zip(obs['yfit'], e['yfit'], e['sy'])):
        return 'yfit'
    if not (np.isfinite(obs['chi2']) and abs(obs['chi2'] - float(e['chi2'])) <= chi2_tol(e['chi2'], nat_q(b, s, e['sy']))):
        return 'chi2'
    if obs['dof'] != e['dof']:
        return 'dof'
    if len(obs['covar']) != M or any(len(r) != M for r in obs['covar']) or \
            any(abs(obs['covar'][j][k] - float(e['covar'][j][k])) > RTOL * np.sqrt(float(e['covar'][j][j]) * float(e['covar'][k][k]))
                for j in range(M) for k in range(M)):
        return 'covar'
    if len(obs['var']) != M or any(abs(o - float(x)) > RTOL * float(x) for o, x in zip(obs['var'], e['var'])):
        return 'var'
    return None


def attr_order(rng):
    o = list(ATTRS)
    rng.shuffle(o)
    return o


def check_wls(ctx, rep, c, exp, variant, order, layout=None):
    A, b, s, e = transform(c, exp, variant)
    vname = variant if isinstance(variant, str) else variant[0]
    conv = c['conv'] if not (vname == 'units' and c['conv'] == 'int') else '2d'      # non-integers / beyond int64
    layout = layout or c.get('layout', 'plain')
    obs = run_chi2(A, b, s, conv, order, layout)
    ctx.evaluated(1, 'wls-%s-%s' % (conv, vname))
    ctx.cov['parts']['computechi2-layout-' + layout] = ctx.cov['parts'].get('computechi2-layout-' + layout, 0) + 1
    bad = wls_mismatch(obs, e, b, s)
    if bad:
        finding = 'D-C15-1' if (c['conv'] == '1d' and obs['err']) else None
        rep('wls-' + ('1d-raises' if finding else bad.split()[0] + ('' if vname == 'plain' else '-' + vname)),
            {'what': 'computechi2(A=%s, b=%s, sqivar=%s, conv=%s, layout=%s) [%s variant of the enumerated system]: %s differs from '
                     'the exact weighted least-squares record (expected acoeff %s chi2 %s, observed %s)' % (
                         A, b, s, conv, layout, variant, bad, [str(float(x)) for x in e['acoeff']], float(e['chi2']),
                         {k: obs.get(k) for k in ('acoeff', 'chi2', 'dof', 'exc')}),
             'kind': 'wls', 'call': {k: c[k] for k in ('A', 'b', 's', 'conv')}, 'variant': variant, 'order': order,
             'layout': layout,
             'expected': {k: v for k, v in exp.items() if k != '_base'}},
            finding=finding)
    return obs, bad


def replay_wls(ctx, rep, rng, c, exp, n):
    order = attr_order(rng)
    obs, bad = check_wls(ctx, rep, c, exp, 'plain', order)
    ctx.validated()
    if any(v != 0 for v in c['b']) and len(set(c['s'])) > 1:
        ctx.nontriv(('wls', repr(c['A']), tuple(c['b']), tuple(c['s'])))
    if n % 2500 == 1:
        ctx.sample({'computechi2': {k: c[k] for k in ('A', 'b', 's', 'conv')}, 'expected_acoeff': exp['acoeff'],
                    'observed_acoeff': obs.get('acoeff')})
    if not bad:
        # the same system with large values / weights and as a nearly exact fit of a large signal
        check_wls(ctx, rep, c, exp, 'scaled' if n % 2 else 'highsn', attr_order(rng), LAYOUTS[(n // 2) % 4])
        # ... and in tiny / huge units, independently for A, b and sqivar
        check_wls(ctx, rep, c, exp, ('units', rng.randint(-UNITS_KA, UNITS_KA), rng.randint(-UNITS_KB, UNITS_KB),
                                     rng.randint(-UNITS_KS, UNITS_KS)), attr_order(rng), LAYOUTS[(n // 3) % 4])


# ----------------------------------------------------------------------------------------------
# (b) pcomp
# ----------------------------------------------------------------------------------------------
def run_pcomp(x, std, cov, layout='plain'):
    from pydl import pcomp
    try:
        with warnings.catch_warnings():
            warnings.simplefilter('ignore')
            p = pcomp(lay(np.array(x, dtype=np.float64), layout), standardize=std, covariance=cov)
            r = {'err': False, 'exc': '', 'ev': np.array(p.eigenvalues, dtype=float),
                 'coef': np.array(p.coefficients, dtype=float), 'var': np.array(p.variance, dtype=float),
                 'der': np.array(p.derived, dtype=float)}
    except Exception as ex:
        return {'err': True, 'exc': '%s: %s' % (type(ex).__name__, str(ex)[:80])}
    r['nan'] = not all(np.all(np.isfinite(r[k])) for k in ('ev', 'coef', 'var', 'der'))
    return r


def pcomp_laws(x, std, cov, exp, r, tol=1e-9):
    """Evaluate the four laws of the statement against TLC's exact moments (exp.scatter, exp.colsum).
    Returns (law name or None, deviation id or None)."""
    no, nv = len(x), len(x[0])
    T = np.array(exp['scatter'], dtype=float)
    if r['err']:
        return 'exception ' + r['exc'], None
    if r['nan']:
        return 'nan', ('D-C15-2' if exp['singular'] else None)
    if r['ev'].shape != (nv,) or r['coef'].shape != (nv, nv) or r['der'].shape != (no, nv) or r['var'].shape != (nv,):
        return 'shapes', None
    if np.any(np.diff(r['ev']) > tol * max(1.0, abs(r['ev'][0]))):
        return 'eigenvalues not descending', None
    P = r['coef'] @ r['coef'].T
    d = np.sqrt(np.diag(T))
    corr = T / np.outer(d, d)
    if not cov:
        want = [corr]
    elif not std:
        want = [T / (no * (no - 1.0))]
    else:
        want = [corr, corr * no / (no - 1.0)]          # divisor of the standard deviation left open
    if not any(np.allclose(P, w, rtol=0, atol=tol * max(1.0, np.abs(w).max())) for w in want):
        return 'outer product', None
    if abs(r['var'].sum() - 1.0) > tol:
        return 'variance sum', None
    xa = np.array(x, dtype=float)
    if not std:
        datas = [xa]
    else:
        z0 = (no * xa - np.array(exp['colsum'], dtype=float)) / d      # (x - mean) / std, ddof = 0
        datas = [z0, z0 * np.sqrt((no - 1.0) / no)]
    scale = max(1.0, np.abs(r['der']).max())
    if not any(np.allclose(r['der'], z @ r['coef'], rtol=0, atol=tol * scale) for z in datas):
        dev = None
        if std:
            centred = xa - np.array(exp['colsum'], dtype=float) / no
            if any(np.allclose(r['der'] - centred, z @ r['coef'], rtol=0, atol=tol * scale) for z in datas):
                dev = 'D-C15-3'
        return 'derived', dev
    return None, None


def replay_pcomp(ctx, rep, c, exp, n):
    if not exp['nonconst']:
        return                                        # correlation / standardisation undefined: nothing demanded
    x = c['x']
    for std in (False, True):
        for cov in (False, True):
            layout = LAYOUTS[(n + 2 * std + cov) % 4]
            r = run_pcomp(x, std, cov, layout)
            ctx.evaluated(1, 'pcomp')
            law, dev = pcomp_laws(x, std, cov, exp, r)
            if law:
                rep('pcomp-' + law.split()[0] + ('-std' if std and law == 'derived' else ''),
                    {'what': 'pcomp(x=%s, standardize=%s, covariance=%s, layout=%s): law "%s" fails (exact scatter %s)' % (
                        x, std, cov, layout, law, exp['scatter']),
                     'kind': 'pcomp', 'x': x, 'std': std, 'cov': cov, 'layout': layout, 'expected': exp}, finding=dev)
    ctx.validated()
    if not exp['singular']:
        ctx.nontriv(('pcomp', repr(x)))
    if n % 3000 == 1:
        ctx.sample({'pcomp_x': x, 'exact_scatter': exp['scatter']})


# ----------------------------------------------------------------------------------------------
# (c1) exact HMF updates
# ----------------------------------------------------------------------------------------------
def quiet_pydl():
    from astropy import log
    log.setLevel('ERROR')


def fmat(m):
    return np.array([[float(fr(q)) for q in row] for row in m], dtype=float)


def hmfx_apply(S, W, eps, variant, pre, op):
    from pydl.pydlspec2d.spec1d import HMF
    a, g = fmat(pre['a']), fmat(pre['g'])
    epsilon = float(eps) if eps else (None if variant % 2 == 0 else 0)
    layout = LAYOUTS[(variant // 2) % 4]
    h = HMF(lay(np.array(S, dtype=float), layout), lay(np.array(W, dtype=float), layout), K=z0(g.shape[0], variant % 3 == 0),
            n_iter=1, epsilon=z0(epsilon, variant % 3 == 0))
    h.a, h.g = a.copy(), g.copy()
    try:
        with warnings.catch_warnings():
            warnings.simplefilter('ignore')
            res = h.astep() if op == 'a' else h.gstep()
    except Exception as ex:
        return None, '%s: %s' % (type(ex).__name__, str(ex)[:80])
    return np.asarray(res, dtype=float), None


def replay_hmfx(ctx, rep, c, n):
    hist = c['hist']
    if len(hist) < 2:
        return
    pre, post = hist[-2], hist[-1]
    op = post['op']
    res, exc = hmfx_apply(c['S'], c['W'], c['eps'], n, pre, op)
    ctx.evaluated(1, 'hmf-exact-' + op)
    ctx.validated()
    want = post['a'] if op == 'a' else post['g']
    ok = exc is None and res.shape == (len(want), len(want[0])) and \
        all(close(res[i][j], want[i][j]) for i in range(len(want)) for j in range(len(want[0])))
    if any(0 in row for row in c['W']):
        ctx.nontriv(('hmfx', repr(c['S']), repr(c['W']), op, len(hist)))
    if n % 3000 == 2:
        ctx.sample({'hmf_exact_step': op, 'S': c['S'], 'W': c['W'], 'eps': c['eps'], 'expected': want})
    if not ok:
        rep('hmfx-' + op,
            {'what': 'HMF.%sstep() on S=%s ivar=%s eps=%s from a=%s g=%s: expected %s observed %s' % (
                op, c['S'], c['W'], c['eps'], pre['a'], pre['g'], want, exc or res.tolist()),
             'kind': 'hmfx', 'S': c['S'], 'W': c['W'], 'eps': c['eps'], 'variant': n, 'pre': pre, 'op': op, 'expected': want})


# ----------------------------------------------------------------------------------------------
# (c2) real HMF runs -> event traces
# ----------------------------------------------------------------------------------------------
def clip(v):
    if not np.isfinite(v):
        return CLIP
    return int(max(-CLIP, min(CLIP, v)))


def units(v, unit):
    """|v| in whole units (0 = below one unit)."""
    if not np.isfinite(v):
        return CLIP
    return int(min(CLIP, abs(v) / unit))


class Meter:
    """The harness-evaluated numeric relations of one HMF object (see ctx.assumptions)."""

    def __init__(self, h):
        self.h = h

    def eps(self):
        e = self.h.epsilon
        return float(e) if (e is not None and e > 0) else 0.0

    def model(self, a, g):
        return a @ g

    def badness(self, a, g):
        S, iv = self.h.spectra, self.h.invvar
        pen = self.eps() * np.sum(np.diff(g, axis=1) ** 2) if g.shape[1] > 1 else 0.0
        return float(np.sum(iv * (S - a @ g) ** 2) + pen)

    def dbad(self, a0, g0, a1, g1):
        b0, b1 = self.badness(a0, g0), self.badness(a1, g1)
        if not (np.isfinite(b0) and np.isfinite(b1)):
            return CLIP
        if b0 == 0:
            return 0 if b1 == 0 else CLIP
        return clip(round((b1 - b0) / b0 * 1e9))

    def grad_a(self, a, g):
        S, iv = self.h.spectra, self.h.invvar
        gr = (iv * (S - a @ g)) @ g.T
        sc = (np.abs(iv * S) @ np.abs(g.T)) + (iv * np.abs(a @ g)) @ np.abs(g.T)
        return units(np.max(np.abs(gr) / np.where(sc > 0, sc, 1.0)), GTOL)

    def grad_g(self, a, g, gprev):
        S, iv = self.h.spectra, self.h.invvar
        gr = a.T @ (iv * (S - a @ g))
        sc = np.abs(a.T) @ np.abs(iv * S) + np.abs(a.T) @ (iv * np.abs(a @ g))
        e = self.eps()
        if e > 0:
            M = g.shape[1]
            nn = np.full(M, 2.0)
            nn[0] = nn[-1] = 1.0
            nb = np.zeros_like(g)
            nb[:, 1:] += gprev[:, :-1]
            nb[:, :-1] += gprev[:, 1:]
            gr = gr - e * (nn * g - nb)
            sc = sc + e * (nn * np.abs(g) + np.abs(nb))
        return units(np.max(np.abs(gr) / np.where(sc > 0, sc, 1.0)), GTOL)

    def dmodel(self, m0, a1, g1):
        m1 = a1 @ g1
        return units(np.max(np.abs(m1 - m0)) / max(np.max(np.abs(m0)), 1e-300), MTOL)

    def rms(self, g):
        return units(np.max(np.abs(np.sqrt((g ** 2).mean(1)) - 1.0)), MTOL)


def event(op, **kw):
    e = {'op': op, 'dbad': 0, 'grad': 0, 'dmodel': 0, 'rms': 0, 'neg': False, 'same': True, 'untouched': True}
    e.update(kw)
    return e


def isneg(a, g):
    return bool((np.asarray(a) < 0).any() or (np.asarray(g) < 0).any() or not np.all(np.isfinite(a)) or
                not np.all(np.isfinite(g)))


def make_data(rng, N, M, R, nonneg, mask):
    A = rng.rand(N, R) + 0.5
    G = rng.rand(R, M) + (0.2 if nonneg else -0.4)
    S = A @ G + 0.03 * rng.randn(N, M)
    if nonneg:
        S = np.abs(S)
    iv = 400.0 * (0.5 + rng.rand(N, M))
    iv[rng.rand(N, M) < mask] = 0.0
    # every spectrum keeps well over K good pixels and every pixel some good spectra (documented limitation:
    # no all-zero columns)
    for j in range(M):
        if not iv[:, j].any():
            iv[rng.randint(N), j] = 400.0
    return S, iv


def make_spiky(rng, N, M, line=50.0):
    """Strictly positive low-rank spectra with one-pixel emission lines, random masked pixels."""
    x = np.linspace(0, 1, M)
    basis = np.vstack([1.0 + 0.5 * x, np.exp(-0.5 * ((x - 0.3) / 0.15) ** 2), np.exp(-0.5 * ((x - 0.7) / 0.10) ** 2)])
    basis[1, M // 4] += line
    basis[2, (2 * M) // 3] += line
    coef = rng.uniform(0.5, 2.0, size=(N, 3))
    S = coef @ basis + 0.01 * rng.uniform(0, 1, size=(N, M))
    iv = rng.uniform(50.0, 150.0, size=(N, M))
    iv[rng.rand(N, M) < 0.1] = 0.0
    for j in range(M):
        if not iv[:, j].any():
            iv[rng.randint(N), j] = 100.0
    return S, iv


def gen_data(info, rng):
    if info.get('data') == 'spiky':
        return make_spiky(rng, info['N'], info['M'])
    return make_data(rng, info['N'], info['M'], info.get('R', 2), info['nn'], 0.1)


def hmf_args(info, S, iv):
    """The constructor arguments in the array layout / scalar form the trace asks for (values unchanged)."""
    layout, zz = info.get('layout', 'plain'), info.get('z0', False)
    return (lay(S, layout), lay(iv, layout)), {'K': z0(info['K'], zz), 'n_iter': z0(info['niter'], zz),
                                               'epsilon': z0(info['epsilon'], zz)}


def stepped_trace(info):
    """Drive the public methods of a real HMF object in the order info['ops'] (a behaviour of the protocol machine)."""
    from pydl.pydlspec2d.spec1d import HMF
    rng = np.random.RandomState(info['dseed'])
    nn, K, ops = info['nn'], info['K'], info['ops']
    S, iv = gen_data(info, rng)
    S0, iv0 = S.copy(), iv.copy()
    (S, iv), kw = hmf_args(info, S, iv)
    h = HMF(S, iv, nonnegative=nn, **kw)
    m = Meter(h)
    N, M = S.shape
    if nn and info.get('data') == 'spiky':       # start from observed (peaked) spectra, as the k-means start does
        h.g = np.array(S0[rng.choice(N, K, replace=False)]) + 0.01
        h.g /= np.sqrt((h.g ** 2).mean(1))[:, None]
        h.a = rng.rand(N, K) + 0.1
    elif nn:
        h.g = rng.rand(K, M) + 0.1
        h.a = rng.rand(N, K) + 0.1
    else:
        h.g = rng.randn(K, M)
        h.a = rng.randn(N, K)
    ev = []
    with warnings.catch_warnings():
        warnings.simplefilter('ignore')
        for op in ops:
            a0, g0 = h.a, h.g
            if op in ('astep', 'astepnn'):
                a1 = np.asarray(h.astep() if op == 'astep' else h.astepnn())
                ev.append(event(op, dbad=m.dbad(a0, g0, a1, g0), grad=m.grad_a(a1, g0) if op == 'astep' else 0,
                                neg=isneg(a1, g0)))
                h.a = a1
            elif op in ('gstep', 'gstepnn'):
                g1 = np.asarray(h.gstep() if op == 'gstep' else h.gstepnn())
                ev.append(event(op, dbad=m.dbad(a0, g0, a0, g1), grad=m.grad_g(a0, g1, g0) if op == 'gstep' else 0,
                                neg=isneg(a0, g1)))
                h.g = g1
            elif op == 'reorder':
                a1, g1 = h.reorder()
                ev.append(event(op, dmodel=m.dmodel(a0 @ g0, a1, g1)))
                h.a, h.g = np.asarray(a1), np.asarray(g1)
            elif op == 'norm':
                norm = np.asarray(h.normbase())               # the normalisation iterate() applies with it
                g1 = g0 / norm[:, None]
                a1 = a0 * norm[None, :]
                ev.append(event(op, dmodel=m.dmodel(a0 @ g0, a1, g1), rms=m.rms(g1), neg=isneg(a1, g1)))
                h.a, h.g = a1, g1
            elif op == 'done':
                ev.append(event(op, neg=isneg(h.a, h.g), same=True,
                                untouched=bool(np.array_equal(S, S0) and np.array_equal(iv, iv0))))
            else:
                raise core.MachineryError('unknown protocol op ' + op)
    return ev


def recorded_hmf(S, iv, K, niter, seed, nn, epsilon, layout='plain', zz=False):
    """Construct a real HMF object whose step methods are wrapped for recording.  Returns solve(): a function that
    runs the real solve() / iterate() and returns (events, a, g, exc) - construction and solution are separate so
    that the global RNG can be used in between."""
    from pydl.pydlspec2d.spec1d import HMF
    S0, iv0 = np.array(S, dtype=float), np.array(iv, dtype=float)
    S, iv = lay(S, layout), lay(iv, layout)
    h = HMF(S, iv, K=z0(K, zz), n_iter=z0(niter, zz), seed=z0(seed, zz), nonnegative=nn, epsilon=z0(epsilon, zz))
    m = Meter(h)
    ev = []
    pend = {'model': None}
    orig = {n: getattr(h, n) for n in ('astep', 'gstep', 'astepnn', 'gstepnn', 'reorder', 'normbase')}

    def flush():
        if pend['model'] is not None:
            ev.append(event('norm', dmodel=m.dmodel(pend['model'], h.a, h.g), rms=m.rms(h.g), neg=isneg(h.a, h.g)))
            pend['model'] = None

    def wrap_a(name):
        def f():
            flush()
            a0, g0 = h.a.copy(), h.g.copy()
            a1 = orig[name]()
            ev.append(event(name, dbad=m.dbad(a0, g0, a1, g0), grad=m.grad_a(a1, g0) if name == 'astep' else 0,
                            neg=isneg(a1, g0)))
            return a1
        return f

    def wrap_g(name):
        def f():
            a0, g0 = h.a.copy(), h.g.copy()
            g1 = orig[name]()
            ev.append(event(name, dbad=m.dbad(a0, g0, a0, g1), grad=m.grad_g(a0, g1, g0) if name == 'gstep' else 0,
                            neg=isneg(a0, g1)))
            return g1
        return f

    def wrap_reorder():
        m0 = h.a @ h.g
        a1, g1 = orig['reorder']()
        ev.append(event('reorder', dmodel=m.dmodel(m0, a1, g1)))
        return a1, g1

    def wrap_normbase():
        r = orig['normbase']()
        if h.a is not None:                       # (the first call normalises the k-means start, before any step)
            pend['model'] = h.a @ h.g
        return r

    h.astep, h.astepnn = wrap_a('astep'), wrap_a('astepnn')
    h.gstep, h.gstepnn = wrap_g('gstep'), wrap_g('gstepnn')
    h.reorder, h.normbase = wrap_reorder, wrap_normbase

    def solve():
        try:
            with warnings.catch_warnings():
                warnings.simplefilter('ignore')
                out = h.solve()                  # solve() runs iterate() and returns {'acoeff': a, 'flux': g}
                a, g = np.asarray(out['acoeff']), np.asarray(out['flux'])
        except Exception as ex:
            return ev, None, None, '%s: %s' % (type(ex).__name__, str(ex)[:100])
        if pend['model'] is not None:            # the last normalisation is judged on the RETURNED factors
            ev.append(event('norm', dmodel=m.dmodel(pend['model'], a, g), rms=m.rms(g), neg=isneg(a, g)))
            pend['model'] = None
        ev.append(event('done', neg=isneg(a, g), same=True,
                        untouched=bool(np.array_equal(S, S0) and np.array_equal(iv, iv0))))
        return ev, np.array(a), np.array(g), None
    return solve


def twin_runs(info, seed):
    """Two runs of the same (data, K, seed, mode) under the RNG history info['hist']; the results of solve() may
    depend on nothing else.  Returns [(events, a, g, exc), (events, a, g, exc)].
      fresh : seed the global RNG differently, construct and solve at once - twice
      A     : construct both objects first, use the global RNG, solve the first, use it again, solve the second
      C     : construct one object, construct and solve an UNRELATED HMF, then solve the first;
              versus a fresh construct-and-solve"""
    rng = np.random.RandomState(info['dseed'])
    S, iv = gen_data(info, rng)
    adv = np.random.RandomState((info['dseed'] + 1) % 2**31).randint(1, 40, size=3)

    def new():
        return recorded_hmf(S.copy(), iv.copy(), info['K'], info['niter'], seed, info['nn'], info['epsilon'],
                            info.get('layout', 'plain'), info.get('z0', False))
    hist = info.get('hist', 'fresh')
    if hist == 'fresh':
        out = []
        for twin in (0, 1):
            np.random.seed(1000 + 77 * twin)     # the twin runs start from different global states
            out.append(new()())
        return out
    np.random.seed(1000)
    if hist == 'A':
        s1 = new()
        s2 = new()
        np.random.random(int(adv[0]))
        r1 = s1()
        np.random.random(int(adv[1]))
        return [r1, s2()]
    if hist == 'C':
        s1 = new()
        S2, iv2 = make_data(np.random.RandomState((info['dseed'] + 2) % 2**31), 12, 24, 2, info['nn'], 0.1)
        recorded_hmf(S2, iv2, 2, 1, None, info['nn'], None)()
        r1 = s1()
        np.random.random(int(adv[2]))
        return [r1, new()()]
    raise core.MachineryError('unknown RNG history %r' % hist)


def validate_traces(ctx, traces, label):
    """{trace index: index (0-based) of the first event the specification refuses}."""
    path = os.path.join(ctx.scratch, 'c15_traces.json')
    core.write_json(path, traces)
    r = ctx.tlc('Trace_LinSolve.tla', 'Trace_LinSolve.cfg', dump=True, env={'VERIF_TRACE': path, 'VERIF_MODE': 'hmf'},
                count=False, label=label, timeout=900)
    far = {}
    for st in core.iter_states(r):
        far[st['tid']] = max(far.get(st['tid'], 0), st['k'])
    os.remove(path)
    if sorted(far) != list(range(1, len(traces) + 1)):
        raise core.MachineryError('Trace_LinSolve judged %d of %d traces' % (len(far), len(traces)))
    return {t - 1: far[t] - 1 for t in far if far[t] != len(traces[t - 1]['events']) + 1}


def eps_flag(epsilon):
    return 1 if (epsilon is not None and epsilon > 0) else 0


def build_traces(info, base):
    """The trace(s) of one recorded HMF run: one for a stepped run, two (same-seed twins) for solve()/iterate().
    `base` = number of traces already in the batch (twin indices are 1-based positions in the batch)."""
    if info['how'] == 'stepped':
        ev = stepped_trace(info)
        return [{'nn': info['nn'], 'eps': eps_flag(info['epsilon']), 'niter': info['niter'], 'twin': 0, 'events': ev}], [None]
    out, excs, first = [], [], None
    for twin, (ev, a, g, exc) in enumerate(twin_runs(info, info['seed'])):
        if exc is None:
            if twin == 0:
                first = (a, g)
            else:
                ev[-1]['same'] = bool(first is not None and np.array_equal(first[0], a) and np.array_equal(first[1], g))
        out.append({'nn': info['nn'], 'eps': eps_flag(info['epsilon']), 'niter': info['niter'],
                    'twin': (base + 1 if twin == 1 else 0), 'events': ev})
        excs.append(exc)
    return out, excs


def seed_sensitive_data(ctx, rng, nn, hist):
    """A data seed for which two UNSEEDED runs under the same RNG history give different factors (control pair):
    only there does 'same seed => identical results' say anything."""
    for _ in range(12):
        info = {'how': 'solve', 'N': 30, 'M': 60, 'R': 3, 'K': 4, 'nn': nn, 'epsilon': None, 'niter': 2,
                'hist': hist, 'dseed': rng.randrange(2**31)}
        (_, a1, g1, x1), (_, a2, g2, x2) = twin_runs(info, None)
        ctx.evaluated(2, 'hmf-seed-control')
        if x1 is None and x2 is None and not (np.array_equal(a1, a2) and np.array_equal(g1, g2)):
            return info['dseed']
    raise core.MachineryError('no data found on which unseeded HMF runs differ: the seed law would be vacuous')


def judge_traces(ctx, rep, traces, info, excs, label):
    bad = validate_traces(ctx, traces, label)
    ctx_bad = bad
    for t, tr in enumerate(traces):
        ctx.validated()
        ctx.evaluated(len(tr['events']), 'hmf-events-' + info[t]['how'])
        ctx.nontriv(('hmf', info[t]['dseed'], t, info[t]['K'], info[t]['nn'], str(info[t]['epsilon'])))
        k = bad.get(t)
        exc = excs[t]
        if k is None and exc is None:
            continue
        if exc is not None and (k is None or k >= len(tr['events'])):
            what = 'HMF.solve() raised %s' % exc
            cls = 'hmf-exception'
        else:
            e = tr['events'][k] if k < len(tr['events']) else {'op': '(end)'}
            what = 'event %d %s is not a step of the HMF protocol: %s' % (k, e.get('op'), {
                x: e[x] for x in e if x != 'op'})
            cls = 'hmf-' + str(e.get('op'))
        kk = len(tr['events']) if k is None else k
        rep(cls, {'what': 'HMF run (%s) %s' % (info[t], what), 'kind': 'hmf', 'info': info[t], 'event': kk,
                  'events': tr['events'][:kk + 1][-6:]})
    return ctx_bad


def hmf_selftest(ctx, traces, accepted):
    """Binding self-test of the trace specification (mode hmf): in copies of accepted traces ONE event is falsified
    (chi-square increase, gradient, model change, non-unit rms, negative factor, non-identical twin, modified inputs,
    a dropped step); every such trace must be refused at (or before) that event, else the machinery is at fault."""
    import copy
    fals, where = [], []
    kinds = [('astep', 'dbad', 50), ('astep', 'grad', 7), ('gstep', 'grad', 7), ('reorder', 'dmodel', 9),
             ('norm', 'rms', 5), ('norm', 'dmodel', 5), ('astepnn', 'neg', True), ('gstepnn', 'neg', True),
             ('astepnn', 'dbad', 50), ('done', 'same', False), ('done', 'untouched', False), ('gstep', 'drop', None),
             ('norm', 'drop', None)]
    n = 0
    for t in accepted:
        tr = traces[t]
        for (op, field, val) in kinds:
            idx = [k for k, e in enumerate(tr['events']) if e['op'] == op]
            if not idx or (field == 'untouched' and tr['nn']) or (op == 'gstep' and field == 'dbad' and tr['eps']):
                continue
            k = idx[-1] if op != 'astepnn' else idx[len(idx) // 2]
            c = copy.deepcopy(tr)
            c['twin'] = 0
            if field == 'drop':
                del c['events'][k]
                if k >= len(c['events']):
                    continue
            else:
                c['events'][k][field] = val
            fals.append(c)
            where.append(k)
            n += 1
        if n >= 60:
            break
    if not fals:
        raise core.MachineryError('HMF binding self-test: nothing to falsify')
    bad = validate_traces(ctx, fals, 'Trace_LinSolve[hmf self-test %d traces]' % len(fals))
    missed = [j for j in range(len(fals)) if j not in bad or bad[j] > where[j]]
    ctx.cov['parts']['selftest_hmf_traces'] = {'falsified_traces': len(fals), 'refused': len(fals) - len(missed)}
    if missed:
        j = missed[0]
        raise core.MachineryError('HMF binding self-test: %d of %d falsified traces were accepted, e.g. event %d = %r'
                                  % (len(missed), len(fals), where[j], fals[j]['events'][min(where[j], len(fals[j]['events']) - 1)]))


def hmf_traces(ctx, rep, behaviours):
    quiet_pydl()
    rng = random.Random(ctx.seed + 15)
    traces, infos, excs = [], [], []

    def add(info):
        # array layout / scalar form rotate over the traces (read-only inputs only in the default mode: the
        # non-negative mode clamps the caller's arrays in place)
        k = len(infos)
        info['layout'] = [l for l in LAYOUTS if not (info['nn'] and l == 'ro')][k % (3 if info['nn'] else 4)]
        info['z0'] = bool((k // 2) % 2)
        trs, ex = build_traces(info, len(traces))
        for tr, e in zip(trs, ex):
            traces.append(tr)
            infos.append(info)
            excs.append(e)
    # ---- stepped through the public methods, in the order of every complete protocol behaviour ----
    shapes = [(12, 24, 2)] if ctx.quick else [(12, 24, 2), (20, 40, 3), (16, 30, 2)]
    for (nn, eps, ops) in sorted(behaviours):
        for (N, M, R) in shapes:
            for K in ((1, 3) if ctx.quick else (1, 2, 3, 4)):
                add({'how': 'stepped', 'N': N, 'M': M, 'R': R, 'K': K, 'nn': nn, 'niter': 2,
                     'epsilon': 0.1 if eps else (None if (K + N) % 2 else 0), 'ops': list(ops),
                     'dseed': rng.randrange(2**31)})
    # ---- SIZE classes: many spectra / many pixels around typical block sizes, other dimensions small ----
    tall = [(257, 12), (300, 12), (513, 10)] if ctx.quick else [(255, 12), (256, 12), (257, 12), (300, 12), (513, 10), (1025, 8)]
    wide = [(12, 257), (10, 300)] if ctx.quick else [(12, 255), (12, 256), (12, 257), (10, 300), (8, 513), (6, 1025)]
    for (nn, eps, ops) in sorted(behaviours):
        if len([o for o in ops if o == 'astepnn']) > 3:
            continue                             # (one warm-up variant of the non-negative behaviours is enough here)
        for (N, M) in (tall + wide if not nn else tall[1:2] + wide[:1]):
            for K in ((2,) if ctx.quick else (1, 2, 3)):
                add({'how': 'stepped', 'N': N, 'M': M, 'R': 2, 'K': K, 'nn': nn, 'niter': 2,
                     'epsilon': 0.1 if eps else None, 'ops': list(ops), 'dseed': rng.randrange(2**31)})
    for (N, M, nn) in [(300, 12, False), (12, 300, False), (257, 10, True)] + \
            ([] if ctx.quick else [(513, 10, False), (10, 513, False), (256, 12, False), (12, 257, True)]):
        add({'how': 'solve', 'N': N, 'M': M, 'R': 2, 'K': 2, 'nn': nn, 'epsilon': None, 'seed': rng.randrange(0, 10**6),
             'niter': 2, 'dseed': rng.randrange(2**31)})
    # ---- full solve() runs, each with a same-seed twin ----
    for nn in (False, True):
        for epsilon in (None, 0, 0.1):
            for K in ((2, 4) if ctx.quick else (1, 2, 3, 4)):
                for rep_i in range(1 if ctx.quick else 3):
                    N, M = (14, 28) if ctx.quick else [(14, 28), (20, 40), (24, 36)][rep_i]
                    add({'how': 'solve', 'N': N, 'M': M, 'K': K, 'nn': nn, 'epsilon': epsilon,
                         'seed': rng.randrange(1, 10**6), 'niter': 2 if ctx.quick else 3, 'dseed': rng.randrange(2**31)})
    # ---- non-negative mode with a smoothness penalty on strictly positive spectra with one-pixel emission lines:
    #      both factors must stay >= 0 after EVERY astepnn / gstepnn (NonNegKept, judged at every event) ----
    for eps in (0.1, 1, 10, 100):
        for K in (1, 2, 3, 4):
            for (N, M) in ([(16, 40)] if ctx.quick else [(12, 24), (16, 40), (30, 80)]):
                add({'how': 'solve', 'data': 'spiky', 'N': N, 'M': M, 'K': K, 'nn': True, 'epsilon': eps,
                     'seed': rng.randrange(0, 10**6), 'niter': 2 if ctx.quick else 5, 'dseed': rng.randrange(2**31)})
    for (nn, eps, ops) in sorted(behaviours):
        if nn and eps:
            for epsilon in (1, 100) if ctx.quick else (0.1, 1, 10, 100):
                for K in (2, 4) if ctx.quick else (1, 2, 3, 4):
                    add({'how': 'stepped', 'data': 'spiky', 'N': 16, 'M': 40, 'R': 3, 'K': K, 'nn': True, 'niter': 2,
                         'epsilon': epsilon, 'ops': list(ops), 'dseed': rng.randrange(2**31)})
    # ---- seed = 0 and non-zero twins under three RNG histories (see twin_runs), on data where an UNSEEDED pair
    #      under the same history really differs (so the law is not vacuous) ----
    for nn in (False, True):
        for hist in ('fresh', 'A', 'C'):
            for seed in ((0, 'r') if hist != 'fresh' else (0,)):
                for _ in range(1 if ctx.quick else 2):
                    add({'how': 'solve', 'N': 30, 'M': 60, 'R': 3, 'K': 4, 'nn': nn, 'epsilon': None, 'hist': hist,
                         'seed': 0 if seed == 0 else rng.randrange(1, 10**6), 'niter': 2,
                         'dseed': seed_sensitive_data(ctx, rng, nn, hist)})
    bad = judge_traces(ctx, rep, traces, infos, excs, 'Trace_LinSolve[hmf %d traces]' % len(traces))
    accepted = [t for t in range(len(traces)) if t not in bad and excs[t] is None]
    if accepted:                                 # (nothing to self-test on when every trace is a violation)
        pick = [t for t in accepted if infos[t]['how'] == 'stepped'][:4] + [t for t in accepted if infos[t]['how'] == 'solve' and not infos[t]['nn']][:3] + [t for t in accepted if infos[t]['how'] == 'solve' and infos[t]['nn']][:3]
        hmf_selftest(ctx, traces, pick)
    ctx.sample({'hmf_trace': infos[0], 'events_head': traces[0]['events'][:3]})
    ctx.sample({'hmf_trace': infos[-1], 'n_events': len(traces[-1]['events']), 'last_event': traces[-1]['events'][-1]})
    return len(traces)


# ----------------------------------------------------------------------------------------------
# code -> spec: recorded calls
# ----------------------------------------------------------------------------------------------
def small_rational(x, scale=1.0):
    """(num, den, exact): the small rational next to the float x."""
    if not np.isfinite(x):
        return 0, 1, False
    q = Fraction(float(x)).limit_denominator(MAXDEN)
    return q.numerator, q.denominator, abs(float(q) - float(x)) <= XTOL * max(1.0, abs(float(x)))


def record_wls(rng):
    if rng.random() < 0.015:                     # tall integer systems (hundreds of rows; exact denominators stay <= 10^4)
        if rng.random() < 0.6:
            N = rng.choice([255, 256, 257, 300, 513])
            A = [[rng.randint(-2, 2)] for _ in range(N)]
            conv = rng.choice(['2d', 'int', '1d'])
        else:
            N = rng.choice([63, 64, 65, 100])
            A = [[1, rng.randint(-1, 1)] for _ in range(N)]
            conv = rng.choice(['2d', 'int'])
        b = [rng.randint(-6, 6) for _ in range(N)]
        s = [rng.choice([0, 1, 1, 1]) for _ in range(N)]
        return wls_record(A, b, s, conv, attr_order(rng), rng.choice(LAYOUTS))
    M = rng.choice([1, 1, 2, 2, 3])
    if M == 1:
        N, av, sv, bv = rng.randint(1, 6), 5, 3, 6
    elif M == 2:
        N, av, sv, bv = rng.randint(2, 4), 2, 2, 5
    else:
        N, av, sv, bv = rng.randint(3, 5), 1, 1, 4
    A = [[rng.randint(-av, av) for _ in range(M)] for _ in range(N)]
    if M == 2 and rng.random() < 0.5:
        for row in A:
            row[0] = 1
    b = [rng.randint(-bv, bv) for _ in range(N)]
    s = [rng.choice([0] + list(range(1, sv + 1)) * 2) for _ in range(N)]
    conv = rng.choice(['2d', '2d', 'int', '1d'] if M == 1 else ['2d', '2d', 'int'])
    return wls_record(A, b, s, conv, attr_order(rng), rng.choice(LAYOUTS))


def measured_nat_scale(A, b, s):
    """The natural scales of LinSolve!NatScale measured in floating point (recorded direction)."""
    Aa, ba, w = np.array(A, dtype=float), np.array(b, dtype=float), np.array(s, dtype=float) ** 2
    G = Aa.T @ (Aa * w[:, None])
    Gi = np.linalg.inv(G)
    x = Gi @ (Aa.T @ (w * ba))
    sx = np.abs(Gi) @ (np.abs(Aa).T @ (w * np.abs(ba)) + np.abs(G) @ np.abs(x))
    return sx, np.abs(Aa) @ sx


def wls_record(A, b, s, conv, order, layout='plain'):
    obs = run_chi2(A, b, s, conv, order, layout)
    rec = {'kind': 'wls', 'A': A, 'b': b, 's': s, 'conv': conv, 'order': order, 'layout': layout}
    bad = {'err': True, 'dev': 0, 'acoeff': [], 'yfit': [], 'chi2': [0, 1], 'dof': 0, 'covar': [], 'var': []}
    if obs['err']:
        rec['ret'], rec['exc'] = bad, obs['exc']
        return rec
    try:
        sx, sy = measured_nat_scale(A, b, s)
    except np.linalg.LinAlgError:                # not full rank: TLC says "skip"
        rec['ret'], rec['exc'] = dict(bad, err=False), ''
        return rec
    dev = 0

    def q(v, scale, vec=0.0, tol=XTOL):
        """the nearby small rational, and how far (units of tol * max(|q|, natural scale)) the float is from it"""
        nonlocal dev
        n, d, _ = small_rational(v)
        ref = max(tol * max(abs(n / d), float(scale)), NORMW * vec)
        diff = abs(float(v) - n / d) if np.isfinite(v) else np.inf
        dev = max(dev, 0 if diff == 0 else (CLIP if ref == 0 else units(diff, ref)))
        return [n, d]
    ret = {'err': False, 'acoeff': [q(v, sc, float(np.max(sx))) for v, sc in zip(obs['acoeff'], sx)],
           'yfit': [q(v, sc, float(np.max(sy))) for v, sc in zip(obs['yfit'], sy)], 'dof': obs['dof']}
    chi = small_rational(obs['chi2'])
    ret['chi2'] = [chi[0], chi[1]]
    dchi = abs(obs['chi2'] - chi[0] / chi[1]) if np.isfinite(obs['chi2']) else np.inf
    dev = max(dev, 0 if dchi == 0 else units(dchi, chi2_tol(chi[0] / chi[1], nat_q(b, s, sy))))
    cv = np.array(obs['covar'], dtype=float)
    dg = np.sqrt(np.abs(np.diag(cv)))
    ret['covar'] = [[q(cv[j][k], dg[j] * dg[k]) for k in range(cv.shape[1])] for j in range(cv.shape[0])]
    ret['var'] = [q(v, abs(v)) for v in obs['var']]
    ret['dev'] = int(dev)
    rec['ret'] = ret
    rec['exc'] = ''
    return rec


def wlsf_record(mode, N, M, dseed):
    """computechi2 on a FLOAT system: 'highsn' (bright polynomial continuum, errors 1e-3..1e-5, sqivar = 1/sigma),
    'noisefree' (b exactly a combination of the columns), 'ordinary', or an ordinary system expressed in tiny / huge
    units ('tinyunits': A * 1e-5..1e-17, sqivar * 1e-4..1e-11, b * 1..1e-17; 'hugeunits' the reciprocals).
    Only returned attributes are measured, all relative to their own scale."""
    from pydl.pydlutils.math import computechi2
    rng = np.random.RandomState(dseed)
    x = np.linspace(-1.0, 1.0, N)
    A = np.vstack([x ** p for p in range(M)]).T
    x0 = np.array([5000.0, 300.0, -120.0])[:M] * rng.uniform(0.5, 2.0, M)
    if mode == 'highsn':
        sigma = 10.0 ** (-rng.randint(3, 6)) * rng.uniform(0.5, 2.0, N)
        b = A @ x0 + sigma * rng.randn(N)
        sq = 1.0 / sigma
    elif mode == 'noisefree':
        b = A @ x0
        sq = rng.uniform(0.5, 2.0, N) * 10.0 ** rng.randint(0, 4)
    else:
        sigma = rng.uniform(50.0, 150.0, N)
        b = A @ x0 + sigma * rng.randn(N)
        sq = 1.0 / sigma
    sq[rng.rand(N) < 0.1] = 0.0
    if mode in ('tinyunits', 'hugeunits'):       # the same problem in other units: errors ~1e9, cgs fluxes ~1e-17, ...
        sgn = -1 if mode == 'tinyunits' else 1
        ua, ub, us = (10.0 ** (sgn * rng.randint(5, 18)), 10.0 ** (sgn * rng.randint(0, 18)),
                      10.0 ** (sgn * rng.randint(4, 12)))
        A, b, sq = A * ua, b * ub, sq * us
    rec = {'kind': 'wlsf', 'mode': mode, 'n': N, 'm': M, 'dseed': dseed, 'err': False, 'exc': '', 'neg': False, 'disc': 0,
           'grad': 0, 'cinv': 0, 'dof': 0, 'npos': int((sq > 0).sum())}
    try:
        with warnings.catch_warnings():
            warnings.simplefilter('ignore')
            layout = LAYOUTS[dseed % 4]
            rec['layout'] = layout
            out = computechi2(lay(b, layout), lay(sq, layout), lay(A, layout))
            chi2, yfit, covar, dof = float(out.chi2), np.asarray(out.yfit, dtype=float), np.asarray(out.covar), int(out.dof)
    except Exception as ex:
        rec['err'], rec['exc'] = True, '%s: %s' % (type(ex).__name__, str(ex)[:100])
        return rec
    res = (b - yfit) * sq
    R = float(np.sum(res ** 2))
    maxbs = float(np.max(np.abs(b * sq)))
    rec['neg'] = bool(not (chi2 >= 0))
    _, sy = measured_nat_scale(A, b, sq)
    rec['disc'] = units(chi2 - R, 1e-6 * R + chi2_tol(R, nat_q(b, sq, sy)))
    w = sq ** 2
    gr = A.T @ (w * (b - yfit))
    scl = np.abs(A.T) @ (w * np.abs(b)) + np.abs(A.T) @ (w * np.abs(yfit))
    rec['grad'] = units(np.max(np.abs(gr) / np.where(scl > 0, scl, 1.0)), 1e-9)
    G = A.T @ (A * w[:, None])
    rec['cinv'] = units(np.max(np.abs(covar @ G - np.eye(M))), 1e-8)
    rec['dof'] = dof
    rec['chi2'] = [int(np.floor(min(abs(chi2), 2e9))), 1]          # informational
    return rec


def record_wlsf(rng, k):
    mode = ['highsn', 'noisefree', 'tinyunits', 'ordinary', 'highsn', 'hugeunits'][k % 6]
    return wlsf_record(mode, rng.choice([20, 60, 200] + BLOCK_SIZES[5:]), rng.choice([1, 2, 3]), rng.randrange(2**31))


def sc(v, s=PS):
    return clip(round(float(v) * s)) if np.isfinite(v) else CLIP


def record_pcomp(rng):
    std = rng.random() < 0.5
    cov = rng.random() < 0.5
    nv = rng.choice([2, 2, 3])
    if std and cov:
        no, xv = rng.randint(2, 4), 2
    else:
        no, xv = rng.randint(2, 6), 3
    while True:
        x = [[rng.randint(-xv, xv) for _ in range(nv)] for _ in range(no)]
        if all(len({row[j] for row in x}) > 1 for j in range(nv)):
            break
    return pcomp_record(x, std, cov, rng.choice(LAYOUTS))


def pcomp_record(x, std, cov, layout='plain'):
    r = run_pcomp(x, std, cov, layout)
    rec = {'kind': 'pcomp', 'x': x, 'std': std, 'cov': cov, 'layout': layout, 'err': r['err'], 'exc': r['exc'], 'nan': bool(r.get('nan', False)),
           'ev': [], 'coef': [], 'p': [], 'psq': [], 'var': [], 'der': [], 'sd0': [], 'sd1': [], 'cs0': [], 'cs1': []}
    if r['err'] or r['nan']:
        return rec
    P = r['coef'] @ r['coef'].T
    rec['ev'] = [sc(v) for v in r['ev']]
    rec['coef'] = [[sc(v) for v in row] for row in r['coef']]
    rec['p'] = [[sc(v) for v in row] for row in P]
    rec['psq'] = [[sc(np.sign(v) * v * v, QS) for v in row] for row in P]
    rec['var'] = [sc(v) for v in r['var']]
    rec['der'] = [[sc(v) for v in row] for row in r['der']]
    if std:
        xa = np.array(x, dtype=float)
        for ddof in (0, 1):
            sd = xa.std(0, ddof=ddof)
            rec['sd%d' % ddof] = [sc(v * v) for v in sd]
            rec['cs%d' % ddof] = [[sc(v) for v in row] for row in (r['coef'] / sd[:, None])]
    return rec


# SIZE classes: numbers of rows / spectra / pixels just below, at and just past typical internal block sizes, with the
# other dimensions small so that it stays cheap (a blocked or batched implementation must cover the ragged last block)
BLOCK_SIZES = [63, 64, 65, 127, 129, 255, 256, 257, 300, 511, 513, 1025]


def record_pca(rng, quick, k):
    if k % 8 == 5:                               # many objects, few pixels
        return pca_record(rng.choice([257, 300]) if quick else rng.choice(BLOCK_SIZES[5:11]), rng.choice([0, 1]),
                          rng.choice([1, 3]), rng.choice([1, 2]), rng.randrange(2**27) * 8 + k % 8, M=rng.choice([16, 24]))
    if k % 8 == 6:                               # few objects, many pixels
        return pca_record(rng.choice([6, 10]), rng.choice([0, 1]), rng.choice([1, 3]), rng.choice([1, 2]),
                          rng.randrange(2**27) * 8 + k % 8, M=rng.choice([257, 300]) if quick else rng.choice(BLOCK_SIZES[5:11]))
    N = 10 if quick else rng.choice([10, 16, 20])
    # (the data seed also fixes layout = LAYOUTS[dseed % 4] and the 0-d scalar form: cycle through all of them)
    return pca_record(N, rng.choice([0, 1]), rng.choice([1, 3]), rng.choice([1, 2, 3]), rng.randrange(2**27) * 8 + k % 8)


def pca_record(N, maxiter, niter, nkeep, dseed, M=None):
    from pydl.pydlspec2d.spec1d import pca_solve
    nrng = np.random.RandomState(dseed)
    M = M or 2 * N
    S, iv = make_data(nrng, N, M, 2, False, 0.12)
    for i in range(N):
        if not iv[i].any():
            iv[i, 0] = 400.0
    rec = {'kind': 'pca', 'maxiter': maxiter, 'niter': niter, 'nkeep': nkeep, 'err': False, 'exc': '', 'proj': [], 'ev': [],
           'usemask': [], 'outmask': [], 'inmask': [[int(v != 0) for v in row] for row in iv], 'shape': [N, M], 'dseed': dseed}
    try:
        with warnings.catch_warnings():
            warnings.simplefilter('ignore')
            layout, zz = LAYOUTS[dseed % 4], bool((dseed // 4) % 2)
            rec['layout'], rec['z0'] = layout, zz
            S0, iv0 = S.copy(), iv.copy()
            d = pca_solve(lay(S, layout), lay(iv, layout), maxiter=z0(maxiter, zz), niter=z0(niter, zz), nkeep=z0(nkeep, zz))
        E = np.asarray(d['flux'], dtype=float)              # the returned eigenspectra (nkeep x npix)
        ac = np.asarray(d['acoeff'], dtype=float)
        om = np.asarray(d['outmask'])
        w = iv * om
        proj = []
        for i in range(N):
            gr = E @ (w[i] * (S[i] - ac[i] @ E))
            scl = np.abs(E) @ np.abs(w[i] * S[i]) + np.abs(E) @ (w[i] * np.abs(ac[i] @ E))
            proj.append(units(np.max(np.abs(gr) / np.where(scl > 0, scl, 1.0)), PTOL))
        ev = np.asarray(d['eigenval'], dtype=float).reshape(-1)
        rec['proj'] = proj
        rec['ev'] = [clip(round(v / abs(ev[0]) * 1e6)) if ev[0] != 0 else clip(round(v)) for v in ev]
        rec['usemask'] = [int(v) for v in np.asarray(d['usemask']).reshape(-1)]
        rec['outmask'] = [[int(bool(v)) for v in row] for row in om]
        if ac.shape != (N, nkeep) or E.shape != (nkeep, M):
            rec['err'], rec['exc'] = True, 'shapes acoeff %s flux %s' % (ac.shape, E.shape)
    except Exception as ex:
        rec['err'], rec['exc'] = True, '%s: %s' % (type(ex).__name__, str(ex)[:100])
    return rec


def falsify(rec, rng):
    """A copy of an accepted record with ONE observed field falsified beyond every tolerance, or None."""
    import copy
    r = copy.deepcopy(rec)
    if r['kind'] == 'wls':
        Aw = np.array(r['A'], dtype=float) * np.array(r['s'], dtype=float)[:, None]
        if r['ret']['err'] or not r['ret']['acoeff'] or np.linalg.matrix_rank(Aw) < Aw.shape[1]:
            return None                          # (not full rank: nothing is demanded of such a record)
        m = rng.randrange(6)
        if m == 0:
            q = r['ret']['acoeff'][rng.randrange(len(r['ret']['acoeff']))]
            q[0], q[1] = Fraction(q[0], q[1]).numerator * 3 + 1, Fraction(q[0], q[1]).denominator * 3   # another rational
        elif m == 1:
            r['ret']['chi2'] = [r['ret']['chi2'][0] + 1, r['ret']['chi2'][1]]
        elif m == 2:
            r['ret']['dof'] += 1
        elif m == 3:
            r['ret']['dev'] = 5
        elif m == 4:
            q = r['ret']['var'][0]
            q[0] = q[0] + 1
        else:
            q = r['ret']['yfit'][rng.randrange(len(r['ret']['yfit']))]
            q[0] = q[0] + 1
        for key in ('acoeff', 'yfit', 'var'):      # keep them in lowest terms (the record format)
            r['ret'][key] = [[Fraction(a, b).numerator, Fraction(a, b).denominator] for a, b in r['ret'][key]]
        c = Fraction(*r['ret']['chi2'])
        r['ret']['chi2'] = [c.numerator, c.denominator]
    elif r['kind'] == 'wlsf':
        if r['err']:
            return None
        m = rng.randrange(5)
        if m == 0:
            r['neg'] = True
        elif m == 1:
            r['disc'] = 5
        elif m == 2:
            r['grad'] = 7
        elif m == 3:
            r['cinv'] = 3
        else:
            r['dof'] += 1
    elif r['kind'] == 'pcomp':
        if r['err'] or r['nan'] or not r['ev']:
            return None
        m = rng.randrange(4)
        if m == 0 and r['ev'][0] > r['ev'][-1]:
            r['ev'] = r['ev'][::-1]              # eigenvalue order
        elif m == 1:
            r['var'][0] += 1000
        elif m == 2:
            r['der'][0][0] += 1000000
        else:
            r['psq'][0][0] += 5000               # the outer product no longer reproduces the matrix
            r['p'][0][0] += 50000
    else:
        if r['err'] or not r['proj']:
            return None
        m = rng.randrange(3)
        if m == 0:
            r['proj'][0] = 9
        elif m == 1 and len(r['ev']) >= 2 and r['ev'][0] > r['ev'][-1]:
            r['ev'] = r['ev'][::-1]
        else:
            r['usemask'][0] += 1
    return r


def recorded_selftest(ctx, accepted, rng):
    """Binding self-test of Trace_LinSolve (mode recs): accepted records with one field falsified must all be rejected."""
    per = {'wls': 80, 'wlsf': 40, 'pcomp': 80, 'pca': 12}
    fals = []
    for rec in accepted:
        if per.get(rec['kind'], 0) > 0:
            f = falsify(rec, rng)
            if f is not None:
                fals.append(f)
                per[rec['kind']] -= 1
    if accepted:                                 # (nothing to self-test on when every record is a violation)
        core.binding_selftest(ctx, 'Trace_LinSolve', fals, 'recorded_calls', extra_env={'VERIF_MODE': 'recs'})


def recorded_calls(ctx, rep):
    quiet_pydl()
    rng = random.Random(ctx.seed)
    recs = [record_wls(rng) for _ in range(600 if ctx.quick else 6000)]
    recs += [record_wlsf(rng, k) for k in range(60 if ctx.quick else 600)]
    recs += [record_pcomp(rng) for _ in range(400 if ctx.quick else 4000)]
    recs += [record_pca(rng, ctx.quick, k) for k in range(16 if ctx.quick else 80)]
    judged = core.validate_records(ctx, 'Trace_LinSolve', recs, chunk=2500, extra_env={'VERIF_MODE': 'recs'})
    nskip = 0
    for k, rec in enumerate(recs):
        ctx.validated()
        ctx.evaluated(1, 'recorded-' + rec['kind'])
        if rec['kind'] == 'wls':
            ctx.nontriv(('rwls', repr(rec['A']), tuple(rec['b']), tuple(rec['s'])))
        elif rec['kind'] == 'wlsf':
            ctx.nontriv(('rwlsf', rec['dseed']))
        elif rec['kind'] == 'pcomp':
            ctx.nontriv(('rpc', repr(rec['x']), rec['std'], rec['cov']))
        else:
            ctx.nontriv(('rpca', k))
        if k not in judged:
            continue
        why, _, dev = judged[k].partition('|')
        brief = {x: rec[x] for x in rec if x in ('A', 'b', 's', 'conv', 'x', 'std', 'cov', 'maxiter', 'niter', 'nkeep',
                                                  'shape', 'exc', 'nan', 'dseed', 'mode', 'n', 'm', 'neg', 'disc', 'grad', 'cinv')}
        rep('recorded-%s-%s' % (rec['kind'], why.split()[0]),
            {'what': 'recorded %s call rejected by Trace_LinSolve (%s): %s' % (rec['kind'], why, brief),
             'kind': 'record', 'record': rec}, finding=dev or None)
    recorded_selftest(ctx, [r for k, r in enumerate(recs) if k not in judged], rng)
    for kind in ('wls', 'wlsf', 'pcomp', 'pca'):
        first = next(r for r in recs if r['kind'] == kind)
        ctx.sample({'recorded_' + kind: {x: first[x] for x in list(first)[:6]}})
    return nskip


# ----------------------------------------------------------------------------------------------
def run(ctx):
    ctx.level = 'model_checking'
    ctx.rule = ('every "wls" state of MC_LinSolve is one computechi2 call with TLC\'s exact solution record (non-trivial = '
                'distinct (A, b, sqivar) with b # 0 and unequal weights); "pcomp" states are integer data matrices with '
                'their exact scatter matrix (non-trivial = non-singular); "hmfx" transitions are exact HMF updates (non-trivial '
                '= with a masked pixel); protocol behaviours order the stepped HMF runs; recorded calls and HMF traces are '
                'judged by Trace_LinSolve')
    ctx.assumptions = [
        'part (a) computechi2 is model-checked: exact rationals from TLC for N <= 5, M <= 3, |A| <= 3, sqivar <= 3 '
        '(32-bit TLC integers bound the instance)',
        'COMPARISON RULE (LinSolve.tla, "THE COMPARISON RULE"): a float agrees with the exact value e iff |obs - e| <= 1e-8 * '
        'max(|e|, natural scale), with the natural scales computed exactly by TLC (NatScale: coefficient j: sum_k |M^-1|_jk '
        '((|A|^T W |b|)_k + (|M||x|)_k) - the componentwise forward-error scale; the (|M||x|) term is needed because without '
        'it the scale is exactly 0 where an entry of M^-1 vanishes and the unchanged code, like numpy.linalg.lstsq, returns '
        '1e-16 there; fitted value i: sum_j |A_ij| scale_j; rescaled with the case in the unit / shift variants by '
        'ScaleHomogeneous); covariance entries relative to sqrt(covar_jj covar_kk), variances to themselves.  EXACT ZEROS ARE '
        'NOT DEMANDED beyond tol x scale (b orthogonal to a column: any backward-stable solver returns round-off there); '
        'below the tolerance level there is a round-off floor 1e-11 x (largest natural scale of the vector): where an unknown '
        'is decoupled and exactly zero (M block-diagonal) the componentwise scale is exactly 0, and every SVD-based solver, '
        'the unchanged code and numpy.linalg.lstsq included, returns ~1e-16 x |x| there.  '
        'chi2, a sum of squared residuals, is judged relative to itself plus round-off-level multiples of its natural scale '
        'Q = sum w_i (|b_i| + scale_i)^2: 1e-9 chi2 + 256 eps sqrt(chi2 Q) + 1e-22 Q (tol x Q would hide a cancelling '
        'evaluation of chi2 such as b.b - x.(M^T b))',
        'SIZE classes: HMF (stepped and full solve(), both modes), computechi2 (float and exact integer records) and '
        'pca_solve are also run with hundreds of spectra / pixels / rows / objects, just below, at and past typical block '
        'sizes (63..65, 127..129, 255..257, 300, 511..513, 1025) with the other dimensions small; the per-event step laws '
        'and record laws are the same.  The exact TLC layers (MC_LinSolve) stay at N <= 5 (32-bit rationals)',
        'binding self-tests: accepted recorded calls with one falsified field and accepted HMF traces with one falsified / '
        'dropped event must all be refused by Trace_LinSolve (counts in coverage.parts.selftest_*), else exit 2',
        'every enumerated system is also replayed scaled by powers of two (A*2^3, b*2^20, sqivar*2^16) or with the model '
        'vector A.z*2^24 added to b (nearly exact fit of a large signal); the expected values are TLC\'s, rescaled / shifted '
        'as the TLC-checked laws HomogeneousInA/B/S and ModelShift say (checked with factor 2 and z = (1,-1,2); they are '
        'polynomial identities)',
        'every enumerated system is also replayed in other units: A * 2^ka, b * 2^kb, sqivar * 2^ks with ka, kb in -60..60 '
        'and ks in -40..40 drawn per case (expected values rescaled by the same homogeneity laws; down-scalings are the laws '
        'read backwards - they are homogeneous polynomial identities, TLC checks them with factor 2); all tolerances are '
        'relative to the scaled magnitudes.  The range stops at |exponent| <= 200 for every product formed (normal matrix, '
        'chi2): the unchanged code is scale-covariant up to about 2^+-510, where the squares leave the double range',
        'recorded float systems (high signal-to-noise, noise-free, tiny units down to A*1e-17 / sqivar*1e-11, huge units): chi2 >= 0, chi2 vs the weighted residual of the RETURNED '
        'yfit, gradient and covar inverse are harness-measured and judged by TLC as scaled integers (exploration level)',
        'array properties: every array argument of computechi2, pcomp, HMF and pca_solve is rotated (by case number / seed) '
        'through plain, READ-ONLY, NON-CONTIGUOUS (strided or Fortran-ordered view) and BYTE-SWAPPED layouts, scalars '
        '(K, n_iter, seed, epsilon, maxiter, niter, nkeep) also as 0-d arrays; expected values are TLC\'s for the same values '
        '(LinSolve!LayoutIndependent).  Read-only inputs are left out in HMF non-negative mode only: there iterate() clamps '
        'the caller\'s arrays in place (the statement promises untouched inputs in the default mode only)',
        'non-negative HMF with epsilon in {0.1, 1, 10, 100} is also run on strictly positive spectra with one-pixel emission '
        'lines (K 1..4, full solve() and stepped histories started from observed spectra); both factors >= 0 is judged '
        'after every astepnn / gstepnn event',
        'HMF seed determinism (results of solve() depend on data, K, seed, mode only) is exercised with seed = 0 and random '
        'seeds under three histories of the global numpy RNG: twins constructed and solved from different RNG states; both '
        'twins constructed first, RNG used, solve A, RNG used, solve B; construct A, solve an unrelated HMF, solve A versus '
        'a fresh construct-and-solve - each on data for which an UNSEEDED control pair under the same history differs',
        'code -> spec for (a) abstracts every float to the rational q with denominator <= 10^4; dev = |obs - q| in units of '
        '1e-9 * max(|q|, natural scale) must be <= 1 (natural scale measured by the harness in floating point there); systems are '
        'drawn so that the exact denominators stay below that bound',
        'HARNESS-EVALUATED numeric relations (level exploration, not model checking): pcomp laws on scaled integers '
        '(1e-5; 1e-4 on squared correlations) and at 1e-9 against TLC\'s exact scatter matrix; HMF chi-square change '
        '(parts per 1e9), normalised gradients (unit 1e-7), model preservation and unit rms (unit 1e-9), non-negativity, '
        'seed determinism (bitwise) and input preservation are computed by the harness from the real arrays and only '
        'their logged integers are judged by TLC; pca_solve projection residual (unit 1e-6, eigenspectra are float32)',
        'HMF with epsilon > 0: the component update is checked against the per-pixel stationarity with the neighbours '
        'of the previous iterate (Jacobi sweep), chi-square non-increase is then demanded of the coefficient update only',
        'non-negative mode: multiplicative updates are not exact optima; demanded are non-negativity and chi-square '
        'non-increase (epsilon None/0)',
        'pcomp with standardize: the divisor of the standard deviation is left open (ddof 0 or 1 both accepted)',
        'inputs avoid what the docstrings exclude: all-zero ivar columns (HMF), constant columns (pcomp correlation), '
        'constant spectra (pca_solve); exact HMF chains stop after two updates (rational growth vs 32-bit integers)']
    rep = Reporter(ctx)
    quiet_pydl()
    cfg = 'MC_LinSolve_quick.cfg' if ctx.quick else 'MC_LinSolve_thorough.cfg'
    r = ctx.tlc('MC_LinSolve.tla', cfg, dump=True, timeout=1500)
    rng = random.Random(ctx.seed)
    n = 0
    behaviours = set()
    for st in fast_states(r):
        c, exp = st['c'], st['exp']
        kind = c['kind']
        n += 1
        if kind == 'wls':
            replay_wls(ctx, rep, rng, c, exp, n)
        elif kind == 'pcomp':
            replay_pcomp(ctx, rep, c, exp, n)
        elif kind == 'hmfx':
            replay_hmfx(ctx, rep, c, n)
        elif kind == 'hmfm' and c['h']['phase'] == 'done':
            behaviours.add((c['h']['nn'], c['h']['eps'], tuple(c['ops'])))
    if not behaviours:
        raise core.MachineryError('MC_LinSolve produced no complete protocol behaviour')
    hmf_traces(ctx, rep, behaviours)
    recorded_calls(ctx, rep)
    rep.summary()
    ctx.exhaustive = not ctx.quick


def replay(ctx, case):
    """bin/check C15 --replay <file>: re-execute the single failing case of a replay file."""
    ctx.level = 'model_checking'
    ctx.rule = 'single replayed case'
    quiet_pydl()
    rep = Reporter(ctx)
    kind = case.get('kind')
    ctx.evaluated(1)
    ctx.nontriv('a')
    ctx.nontriv('b')
    if kind == 'wls':
        c, exp = case['call'], case['expected']
        obs, bad = check_wls(ctx, rep, c, exp, case.get('variant', 'plain'), case.get('order', ATTRS), case.get('layout'))
        print('replayed computechi2', c, case.get('variant', 'plain'), '\nobserved:', obs, '\nexpected (plain system):', exp,
              '\nmismatch:', bad)
    elif kind == 'pcomp':
        r = run_pcomp(case['x'], case['std'], case['cov'], case.get('layout', 'plain'))
        law, dev = pcomp_laws(case['x'], case['std'], case['cov'], case['expected'], r)
        print('replayed pcomp x=%s std=%s cov=%s -> law failing: %s (deviation %s)' % (case['x'], case['std'], case['cov'], law, dev))
        if law:
            rep('pcomp', case)
    elif kind == 'hmfx':
        res, exc = hmfx_apply(case['S'], case['W'], case['eps'], case['variant'], case['pre'], case['op'])
        want = case['expected']
        ok = exc is None and all(close(res[i][j], want[i][j]) for i in range(len(want)) for j in range(len(want[0])))
        print('replayed HMF.%sstep: observed %s expected %s' % (case['op'], exc or res.tolist(), want))
        if not ok:
            rep('hmfx', case)
    elif kind == 'record':
        old = case['record']
        if old['kind'] == 'wls':
            rec = wls_record(old['A'], old['b'], old['s'], old['conv'], old.get('order', ATTRS), old.get('layout', 'plain'))
        elif old['kind'] == 'wlsf':
            rec = wlsf_record(old['mode'], old['n'], old['m'], old['dseed'])
        elif old['kind'] == 'pcomp':
            rec = pcomp_record(old['x'], old['std'], old['cov'], old.get('layout', 'plain'))
        else:
            rec = pca_record(old['shape'][0], old['maxiter'], old['niter'], old['nkeep'], old['dseed'], old['shape'][1])
        judged = core.validate_records(ctx, 'Trace_LinSolve', [rec], extra_env={'VERIF_MODE': 'recs'})
        print('re-recorded %s call: %s\nTrace_LinSolve verdict: %s' % (
            rec['kind'], {x: rec[x] for x in list(rec)[:8]}, judged.get(0, 'accepted')))
        if 0 in judged:
            rep('record', dict(case, record=rec))
    elif kind == 'hmf':
        info = case['info']
        traces, excs = build_traces(info, 0)
        print('re-ran HMF (%s): %d trace(s)' % (info, len(traces)))
        judge_traces(ctx, rep, traces, [info] * len(traces), excs, 'Trace_LinSolve[replay]')
    else:
        raise core.MachineryError('replay file of unknown kind %r' % kind)
