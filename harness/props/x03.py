"""X03 - RGB image pipeline (nw_scale_rgb, nw_cut_to_box, nw_float_to_byte, nw_arcsinh) and sdss_psf_recon.

Spec: spec/RgbPsf.tla (exact rationals, spec/Rat.tla); MC: mc/MC_RgbPsf; Trace: trace/Trace_RgbPsf.

spec -> code: every call state of MC_RgbPsf (call + specified outcome) is executed on the real functions, in
float64 and float32 (the specification does not depend on the dtype) and, for the PSF, on a psField-like
FITS_rec built in memory.  nw_arcsinh calls with a non-zero nonlinearity have no rational outcome: the harness
measures the discrepancies of the laws and Trace_RgbPsf judges them.
code -> spec: seeded random real calls are recorded (inputs as exact rationals / integers, results abstracted)
and judged by TLC with the same operators (Trace_RgbPsf).
Python only concretises (rationals -> numpy arrays, templates -> FITS_rec) and abstracts (floats -> nearby
small rationals / fixed-point pairs / measured discrepancies as scaled integers).
"""
import math
import random
import warnings
from fractions import Fraction

import numpy as np

from .. import core

NP = {'f8': np.float64, 'f4': np.float32}
TOL = {'f8': 1e-12, 'f4': 2e-6}
UNIT = {'f8': 1e-15, 'f4': 1e-9}       # units of the measured discrepancies (RgbPsf Part 2)
CAP = 2 ** 30
PSF_TOL = 2e-5                          # of the magnitude of the summed terms (float32 accumulation)
FIX = 1 << 20
MAX_VIOL = 25


# ----------------------------------------------------------------------------------------------
# RGB: concretise, execute, abstract
# ----------------------------------------------------------------------------------------------
def frac(q):
    return Fraction(int(q[0]), int(q[1]))


def rgb_args(c, dt, as_array):
    img = np.array([q[0] / q[1] for q in c['img']], dtype=NP[dt]).reshape(tuple(c['shape']))
    arg = [q[0] / q[1] for q in c['arg']]
    arg = np.array(arg, dtype=np.float64) if as_array else tuple(arg)
    return img, arg


def execute_rgb(c, dt, as_array=False):
    """One call of the real function.  Returns dict(err, exc, warn, shape, dtype, out, same, kept)."""
    from pydl.pydlutils import rgbcolor, PydlutilsUserWarning
    img, arg = rgb_args(c, dt, as_array)
    before = img.copy()
    fn = c['fn']
    try:
        with warnings.catch_warnings(record=True) as w:
            warnings.simplefilter('always')
            if fn == 'scale':
                res = rgbcolor.nw_scale_rgb(img, scales=arg)
            elif fn == 'cut':
                res = rgbcolor.nw_cut_to_box(img, origin=arg)
            elif fn == 'byte':
                res = rgbcolor.nw_float_to_byte(img, bits=int(c['bits']))
            elif fn == 'arcsinh':
                res = rgbcolor.nw_arcsinh(img, nonlinearity=float(arg[0]))
            else:
                raise core.MachineryError('unknown fn ' + fn)
        warned = any(issubclass(x.category, PydlutilsUserWarning) for x in w)
    except core.MachineryError:
        raise
    except ValueError as ex:
        return {'err': True, 'exc': 'ValueError', 'msg': str(ex)[:80], 'warn': False, 'shape': (), 'dtype': '', 'out': None,
                'same': False}
    except Exception as ex:           # any other exception is a wrong outcome
        return {'err': True, 'exc': type(ex).__name__, 'msg': str(ex)[:80], 'warn': False, 'shape': (), 'dtype': '',
                'out': None, 'same': False}
    a = np.asarray(res)
    same = a.shape == before.shape and a.dtype == before.dtype and bool(np.array_equal(a, before))
    return {'err': False, 'exc': None, 'warn': bool(warned), 'shape': tuple(int(k) for k in a.shape),
            'dtype': a.dtype.str.lstrip('<>|='), 'out': a, 'same': same}


def judge_rgb(c, exp, obs, dt):
    """spec -> code for the exactly specified functions: compare with the outcome TLC computed."""
    if exp['err']:
        if obs['exc'] == 'ValueError':
            return None
        return 'expected ValueError, got ' + (obs['exc'] or 'a result of shape %r' % (obs['shape'],))
    if obs['err']:
        return 'raised %s (%s)' % (obs['exc'], obs.get('msg'))
    if tuple(exp['shape']) != tuple(obs['shape']):
        return 'shape %r, specified %r' % (obs['shape'], tuple(exp['shape']))
    if bool(exp['warn']) != obs['warn']:
        return 'PydlutilsUserWarning %s, specified %s' % ('issued' if obs['warn'] else 'not issued', bool(exp['warn']))
    vals = obs['out'].ravel().tolist()
    if c['fn'] == 'byte':
        if obs['dtype'] != 'u1':
            return 'dtype %s, documented: bytes' % obs['dtype']
        for k, q in enumerate(exp['val']):
            if vals[k] != q[0] or q[1] != 1:
                return 'element %d (input %s) is %r, specified %d' % (k, frac(c['img'][k]), vals[k], q[0])
        return None
    tol = TOL[dt]
    for k, q in enumerate(exp['val']):
        e = q[0] / q[1]
        if not abs(vals[k] - e) <= tol * max(1.0, abs(e)):
            return 'element %d is %r, specified %d/%d' % (k, vals[k], q[0], q[1])
    return None


def to_rat(v, tol):
    f = Fraction(v).limit_denominator(4000 if tol < 1e-9 else 1000)
    exact = abs(float(f) - v) <= tol * max(1.0, abs(v))
    return [f.numerator, f.denominator], bool(exact)


def units(x, dt):
    if not (x == x) or x == float('inf'):
        return CAP
    return int(min(CAP, math.ceil(x / UNIT[dt])))


def measure_asinh(c, obs, dt):
    """The measurements m of RgbPsf Part 2 on one real result (float64 arithmetic on the exact inputs)."""
    P = len(c['img']) // 3
    cin = [[c['img'][3 * p + k][0] / c['img'][3 * p + k][1] for k in range(3)] for p in range(P)]
    out = obs['out'].astype(np.float64).reshape(P, 3).tolist()
    nl = c['arg'][0][0] / c['arg'][0][1]
    fin = all(math.isfinite(v) for o in out for v in o)
    m = {'fin': bool(fin), 'zero': [], 'hue': [], 'inv': [], 'fac': [], 'ord': []}
    ro = [math.fsum(o) if fin else 0.0 for o in out]
    for p in range(P):
        ci, o = cin[p], out[p]
        m['zero'].append(all(v == 0 for v in o))
        if not fin:
            m['hue'].append(CAP); m['inv'].append(CAP); m['fac'].append(0)
            continue
        mc, mo = max(abs(v) for v in ci), max(abs(v) for v in o)
        cross = max(abs(o[k] * ci[j] - o[j] * ci[k]) for k in range(3) for j in range(k + 1, 3))
        m['hue'].append(units(cross / (mc * mo), dt) if mc > 0 and mo > 0 else (0 if cross == 0 else CAP))
        r = math.fsum(ci)
        sa = math.fsum(abs(v) for v in ci)
        if sa > 0:
            x = nl * r
            m['inv'].append(units(abs(math.sinh(nl * ro[p]) - x) / (nl * sa * math.sqrt(1 + x * x)), dt))
        else:
            m['inv'].append(0)
        if r != 0:
            f = ro[p] / r
            m['fac'].append(int(max(-CAP, min(CAP, math.floor(f * FIX)))))
        else:
            m['fac'].append(0)
    for p in range(P):
        m['ord'].append([(ro[q] > ro[p]) - (ro[q] < ro[p]) for q in range(P)])
    return m


def rgb_record(c, dt, as_array=False):
    """Execute one RGB call and abstract it into a record for Trace_RgbPsf."""
    obs = execute_rgb(c, dt, as_array)
    ret = {'err': obs['err'], 'exc': obs['exc'] or '', 'warn': obs['warn'], 'shape': list(obs['shape']), 'val': [],
           'exact': True, 'dtype': obs['dtype'], 'same': bool(obs['same']), 'm': {}}
    if not obs['err']:
        nl0 = c['fn'] == 'arcsinh' and c['arg'] and c['arg'][0][0] == 0
        if c['fn'] == 'arcsinh' and not nl0:
            if obs['out'].size == len(c['img']):
                ret['m'] = measure_asinh(c, obs, dt)
            else:
                ret['shape'] = list(obs['shape']) + [-1]          # wrong size: rejected as "shape"
        elif obs['out'].size <= 4096:
            for v in obs['out'].ravel().tolist():
                if c['fn'] == 'byte' and obs['dtype'][0] in 'iu':
                    ret['val'].append([int(v), 1])
                    continue
                if not math.isfinite(v) or abs(v) > 2 ** 30:
                    ret['val'].append([0, 1]); ret['exact'] = False
                    continue
                q, e = to_rat(float(v), 1e-12 if dt == 'f8' else 2e-6)
                ret['val'].append(q)
                ret['exact'] = ret['exact'] and e
    return {'fn': c['fn'], 'dt': dt, 'shape': list(c['shape']), 'img': [list(q) for q in c['img']],
            'arg': [list(q) for q in c['arg']], 'bits': int(c['bits']), 'ret': ret}, obs


# ----------------------------------------------------------------------------------------------
# PSF: concretise, execute, abstract
# ----------------------------------------------------------------------------------------------
_PS_CACHE = {}


def build_psfield(c, varlen, nan_garbage):
    """A psField-like FITS_rec: columns nrow_b, ncol_b, c (5x5 in the file's axis order: c[k][j][i] is the
    coefficient of rowpower i, colpower j), RNROW, RNCOL, RROWS.  What lies outside the 3x3 block of the
    specification's table is filled with the kind of garbage real files have there."""
    from astropy.io import fits
    key = (repr(c['tpl']), c['n'], c['cd'], varlen, nan_garbage)
    if key in _PS_CACHE:
        return _PS_CACHE[key]
    tpl = c['tpl']
    K, n = len(tpl), c['n']
    carr = np.full((K, 5, 5), np.nan if nan_garbage else 1.0e-30, dtype=np.float32)
    for k, t in enumerate(tpl):
        for i, row in enumerate(t['c']):
            for j, v in enumerate(row):
                carr[k, j, i] = v / c['cd']
    cols = [fits.Column(name='nrow_b', format='1J', array=np.array([t['nr'] for t in tpl], dtype=np.int32)),
            fits.Column(name='ncol_b', format='1J', array=np.array([t['nc'] for t in tpl], dtype=np.int32)),
            fits.Column(name='c', format='25E', dim='(5,5)', array=carr),
            fits.Column(name='RNROW', format='1J', array=np.array([n] * K, dtype=np.int32)),
            fits.Column(name='RNCOL', format='1J', array=np.array([n] * K, dtype=np.int32))]
    if varlen:
        arr = np.empty(K, dtype=object)
        for k, t in enumerate(tpl):
            arr[k] = np.array(t['rr'], dtype=np.float32)
        cols.append(fits.Column(name='RROWS', format='PE()', array=arr))
    else:
        cols.append(fits.Column(name='RROWS', format='%dE' % (n * n),
                                array=np.array([t['rr'] for t in tpl], dtype=np.float32).reshape(K, n * n)))
    with warnings.catch_warnings():
        warnings.simplefilter('ignore')
        ps = fits.BinTableHDU.from_columns(cols).data
    if len(_PS_CACHE) > 64:
        _PS_CACHE.clear()
    _PS_CACHE[key] = ps
    return ps


def execute_psf(c, varlen=False, nan_garbage=False):
    from pydl.photoop.image import sdss_psf_recon
    ps = build_psfield(c, varlen, nan_garbage)
    kw = {}
    if tuple(c['norm']) != (0, 1):
        kw['normalize'] = c['norm'][0] / c['norm'][1]
    if len(c['trim']):
        kw['trimdim'] = tuple(int(t) for t in c['trim'])
    try:
        with warnings.catch_warnings():
            warnings.simplefilter('ignore')
            with np.errstate(all='ignore'):
                res = sdss_psf_recon(ps, int(c['xpos']), int(c['ypos']), **kw)
    except Exception as ex:
        return {'err': True, 'exc': type(ex).__name__, 'msg': str(ex)[:90], 'shape': (), 'out': None}
    a = np.asarray(res)
    return {'err': False, 'exc': None, 'shape': tuple(int(k) for k in a.shape), 'out': a.astype(np.float64)}


def judge_psf(c, exp, obs):
    if obs['err']:
        return 'raised %s (%s)' % (obs['exc'], obs.get('msg'))
    if tuple(exp['shape']) != tuple(obs['shape']):
        return 'shape %r, specified %r' % (obs['shape'], tuple(exp['shape']))
    vals = obs['out'].ravel().tolist()
    tol = PSF_TOL * (9 if tuple(c['norm']) != (0, 1) else 1) * (exp['mag'][0] / exp['mag'][1])
    first = None
    for key in ('val', 'alt'):
        bad = None
        for k, q in enumerate(exp[key]):
            if not abs(vals[k] - q[0] / q[1]) <= tol:
                bad = 'element %d is %r, specified %d/%d (tolerance %.3g)' % (k, vals[k], q[0], q[1], tol)
                break
        if bad is None:
            return None
        first = first or bad
        if exp['alt'] == exp['val']:
            break
    return first


def psf_record(c, obs):
    ret = {'err': obs['err'], 'exc': obs['exc'] or '', 'shape': list(obs['shape']), 'fx': []}
    if not obs['err']:
        for v in obs['out'].ravel().tolist():
            if not math.isfinite(v) or abs(v) >= 2 ** 30:
                ret['err'], ret['exc'], ret['fx'] = True, 'non-finite or huge result', []
                break
            fl = math.floor(v)
            ret['fx'].append([int(fl), int(math.floor((v - fl) * FIX))])
    return {'fn': 'psf', 'n': c['n'], 'cd': c['cd'],
            'tpl': [{'nr': t['nr'], 'nc': t['nc'], 'c': [list(r) for r in t['c']], 'rr': list(t['rr'])} for t in c['tpl']],
            'ypos': c['ypos'], 'xpos': c['xpos'], 'norm': list(c['norm']), 'trim': list(c['trim']), 'ret': ret}


def psf_magnitude_ok(c):
    """Input-domain filter for the recorded direction: keep TLC's 32-bit integers safe (bound on the
    magnitude of every sum the specification forms; the specification itself is evaluated by TLC)."""
    u, w = Fraction(2 * c['ypos'] + 1, 2000), Fraction(2 * c['xpos'] + 1, 2000)
    dr, dc = max(t['nr'] for t in c['tpl']) - 1, max(t['nc'] for t in c['tpl']) - 1
    D = c['cd'] * u.denominator ** dr * w.denominator ** dc
    tot = 0
    for t in c['tpl']:
        a = sum(abs(t['c'][i][j]) * u.numerator ** i * u.denominator ** (dr - i) * w.numerator ** j * w.denominator ** (dc - j)
                for i in range(3) for j in range(3))
        tot += a * sum(abs(v) for v in t['rr'])
    return tot * max(1, c['norm'][0]) * max(1, c['norm'][1]) < 2 ** 26 and D * c['norm'][1] < 2 ** 29


def finding_of(why):
    for fid in ('D-X03-1', 'D-X03-2'):
        if why.startswith(fid):
            return fid
    return None


# ----------------------------------------------------------------------------------------------
# random recorded calls
# ----------------------------------------------------------------------------------------------
def quarter(k):
    f = Fraction(k, 4)
    return [f.numerator, f.denominator]


def random_rgb(rng):
    fn = rng.choice(['scale', 'cut', 'cut', 'byte', 'arcsinh', 'arcsinh'])
    bad = rng.random() < 0.08
    if fn == 'byte':
        shape = rng.choice([[5], [2, 3], [2, 2, 3], [1, 1, 2, 2]])
        n = int(np.prod(shape))
        bits = rng.choice([0, 1, 2, 3, 4, 5, 6, 7, 8, 8, 8, 9, 10, 16])
        img = []
        for _ in range(n):
            p = rng.random()
            if p < 0.6:
                f = Fraction(rng.randint(-8, 1040), 1024)
            elif p < 0.8:
                f = Fraction(rng.randint(0, 256), 256) + rng.choice([0, Fraction(1, 4096), Fraction(-1, 4096)])
            else:
                f = Fraction(rng.choice([-1000000, -1, 2, 3, 1000000, 255, 256, 257]), rng.choice([1, 256]))
            img.append([f.numerator, f.denominator])
        return {'fn': fn, 'shape': shape, 'img': img, 'arg': [], 'bits': bits}
    if bad:
        shape = rng.choice([[4, 3], [12], [1, 2, 2, 3], [2, 3, 2], [3, 1, 4], [2, 1, 6]])
    else:
        shape = [rng.randint(1, 3), rng.randint(1, 3), 3]
    n = int(np.prod(shape))
    if fn == 'arcsinh':
        img = [quarter(rng.choice([0, 0, 1, 2, 3, 4, 5, 8, 13, 40, 100, 400, -1, -3, -8])) for _ in range(n)]
        for p in range(n // 3):
            if rng.random() < 0.15:
                img[3 * p:3 * p + 3] = [[0, 1]] * 3
        nl = quarter(rng.choice([0, 1, 2, 4, 12, 12, 20, 40, 100]))
        if bad and nl[0] == 0:
            nl = [3, 1]
        return {'fn': fn, 'shape': shape, 'img': img, 'arg': [nl], 'bits': 0}
    img = [quarter(rng.randint(-8, 40)) for _ in range(n)]
    if fn == 'scale':
        arg = [quarter(rng.randint(-8, 16)) for _ in range(3)]
    else:
        arg = [quarter(rng.choice([0, 0, 0, 1, 2, 3, -2, -4])) for _ in range(3)] if rng.random() < 0.6 else [[0, 1]] * 3
    if rng.random() < 0.05:
        arg = arg[:2] if rng.random() < 0.5 else arg + [[1, 1]]
    return {'fn': fn, 'shape': shape, 'img': img, 'arg': arg, 'bits': 0}


NICE = [62 + 125 * k for k in range(12)]            # (2p + 1)/2000 = (2k + 1)/16


def random_psf(rng):
    n = rng.choice([3, 3, 5, 7])
    K = rng.randint(1, 4)
    generic = rng.random() < 0.25
    same = rng.random() < 0.25                    # the situation of real files: one order for all, both axes
    o0 = rng.randint(1, 3)
    norm = rng.choice([[0, 1], [0, 1], [1, 1], [2, 1], [1, 2], [10, 1], [100, 1], [3, 4]])
    lo_c, lo_r = (0, 0) if (norm != [0, 1] and rng.random() < 0.7) else (-3, -2)   # a well-conditioned integral
    tpl = []
    for k in range(K):
        if same:
            nr = nc = o0
        elif generic:
            nr, nc = rng.choice([(1, 1), (2, 1), (1, 2), (2, 2)])
        else:
            nr, nc = rng.randint(1, 3), rng.randint(1, 3)
        cm = [[rng.randint(lo_c, 3) for _ in range(3)] for _ in range(3)]
        rr = [rng.randint(lo_r, 5) for _ in range(n * n)]
        tpl.append({'nr': nr, 'nc': nc, 'c': cm, 'rr': rr})
    if generic:
        ypos, xpos = rng.randint(0, 1488), rng.randint(0, 2047)
        if rng.random() < 0.5:
            xpos = rng.choice(NICE)
    else:
        ypos, xpos = rng.choice(NICE), rng.choice(NICE)
    trim = []
    if rng.random() < 0.5:
        trim = [rng.choice(range(1, n + 1, 2)), rng.choice(range(1, n + 1, 2))]
    return {'fn': 'psf', 'n': n, 'cd': rng.choice([1, 2, 4]), 'tpl': tpl, 'ypos': ypos, 'xpos': xpos, 'norm': norm, 'trim': trim}


# ----------------------------------------------------------------------------------------------
def brief(c):
    if c['fn'] == 'psf':
        return 'sdss_psf_recon(orders=%s, xpos=%d, ypos=%d, normalize=%s, trimdim=%s, n=%d)' % (
            [(t['nr'], t['nc']) for t in c['tpl']], c['xpos'], c['ypos'],
            None if tuple(c['norm']) == (0, 1) else '%d/%d' % tuple(c['norm']), tuple(c['trim']) or None, c['n'])
    vals = ', '.join(str(frac(q)) for q in c['img'][:9]) + (', ...' if len(c['img']) > 9 else '')
    return '%s(shape=%s, [%s], arg=%s, bits=%s)' % (c['fn'], tuple(c['shape']), vals, [str(frac(q)) for q in c['arg']], c['bits'])


def listify(v):
    if isinstance(v, dict):
        return {k: listify(x) for k, x in v.items()}
    if isinstance(v, (tuple, list)):
        return [listify(x) for x in v]
    return v


def run(ctx):
    ctx.level = 'model_checking'
    ctx.rule = ('every state of MC_RgbPsf with a call is one call of nw_scale_rgb / nw_cut_to_box / nw_float_to_byte / '
                'nw_arcsinh / sdss_psf_recon with the specified outcome, executed on the real code (RGB: float64 and float32); '
                'non-trivial = distinct (function, arguments) whose outcome differs from the input (RGB) or that has more than one '
                'template or an order above 1 (PSF); recorded calls = seeded random calls judged by Trace_RgbPsf')
    ctx.assumptions = [
        'floats are compared with the exact rational outcomes up to 1e-12 relative (float64 images) / 2e-6 (float32 images); '
        'PSF (float32 accumulation) up to 2e-5 of the magnitude of the summed terms, 9x that when normalised',
        'nw_arcsinh: asinh is not rational; the laws (hue, factor range, sinh(nl*sum(out)) = nl*r, monotone) are judged by TLC '
        'on discrepancies measured in float64 by the harness (units 1e-15 / 1e-9, thresholds 1e-12 / 2e-6)',
        'psField-like structures are in-memory FITS_rec tables (fixed and variable-length RROWS); square odd-sized eigenimages; '
        'integer positions with (2p+1)/2000 a small fraction, or any position with orders <= 2 (TLC 32-bit integers)',
        'normalize + trimdim: integral taken before or after trimming both accepted; normalisation only demanded when '
        '4*|integral| >= sum of term magnitudes',
        'abstraction in the recorded direction: float -> Fraction.limit_denominator(4000 / 1000) flagged inexact beyond 1e-12 / 2e-6; '
        'PSF elements -> (floor, 20 fractional bits)',
        'left open: integer-dtype images, NaN inputs, nonlinearity = 0 with a wrong shape, r = 0 pixels with non-zero colours '
        '(only finiteness), non-square / even-sized eigenimages, normalize <= 0']
    cfg = 'MC_RgbPsf_quick.cfg' if ctx.quick else 'MC_RgbPsf_thorough.cfg'
    r = ctx.tlc('MC_RgbPsf.tla', cfg, dump=True, timeout=1500)
    nviol = {}

    def report(fnname, case, finding=None):
        nviol[fnname] = nviol.get(fnname, 0) + 1
        if nviol[fnname] <= MAX_VIOL:
            ctx.violation(case, finding=finding)

    asinh_recs, asinh_cases = [], []
    psf_failed = []
    n = 0
    for st in core.iter_states(r):
        c, exp = listify(st['c']), listify(st['exp'])
        fn = c['fn']
        if fn in ('root', 'seed'):
            continue
        n += 1
        if fn == 'psf':
            kind = ('normalised' if tuple(c['norm']) != (0, 1) else 'plain') + ('+trimmed' if c['trim'] else '')
            ctx.cov['parts']['psf ' + kind] = ctx.cov['parts'].get('psf ' + kind, 0) + 1
            variant = n % 4
            obs = execute_psf(c, varlen=bool(variant & 1), nan_garbage=bool(variant & 2))
            ctx.evaluated(1, 'psf'); ctx.validated()
            if len(c['tpl']) > 1 or any(t['nr'] > 1 or t['nc'] > 1 for t in c['tpl']):
                ctx.nontriv(('psf', repr(c)))
            why = judge_psf(c, exp, obs)
            if n % 400 == 1:
                ctx.sample({'call': brief(c), 'expected_first': exp['val'][:3], 'observed_first': None if obs['err'] else obs['out'].ravel()[:3].tolist()})
            if why:
                psf_failed.append((c, exp, obs, why))
            continue
        for dt in ('f8', 'f4'):
            as_array = (n % 3 == 0)
            if fn == 'arcsinh' and not exp['err'] and exp['val'] == []:
                rec, obs = rgb_record(c, dt, as_array)
                asinh_recs.append(rec); asinh_cases.append((c, dt))
                ctx.evaluated(1, fn); ctx.validated()
                ctx.nontriv((fn, repr(c['img']), repr(c['arg'])))
                continue
            obs = execute_rgb(c, dt, as_array)
            ctx.evaluated(1, fn); ctx.validated()
            why = judge_rgb(c, exp, obs, dt)
            if exp['err'] or (not obs['err'] and not obs['same']):
                ctx.nontriv((fn, repr(c['img']), repr(c['arg']), c['bits'], repr(c['shape'])))
            if n % 400 == 1 and dt == 'f8':
                ctx.sample({'call': brief(c), 'expected': {k: exp[k] for k in ('err', 'warn', 'shape')}, 'expected_first': exp['val'][:3],
                            'observed_first': None if obs['err'] else obs['out'].ravel()[:3].tolist()})
            if why:
                report(fn, {'what': '%s [%s]: %s' % (brief(c), dt, why), 'call': c, 'dt': dt, 'as_array': as_array, 'expected': exp})
    # nw_arcsinh calls enumerated by TLC: judged by TLC through the laws
    if asinh_recs:
        bad = core.validate_records(ctx, 'Trace_RgbPsf', asinh_recs, label='Trace_RgbPsf(arcsinh cases)')
        for k in sorted(bad):
            c, dt = asinh_cases[k]
            if bad[k] == 'undefined':
                raise core.MachineryError('MC_RgbPsf produced an undefined nw_arcsinh call: %r' % (c,))
            report('arcsinh', {'what': '%s [%s]: law %s broken' % (brief(c), dt, bad[k]), 'call': c, 'dt': dt, 'as_array': False,
                               'law': bad[k], 'measured': asinh_recs[k]['ret']})
    # PSF cases that differ: let TLC name the deviation that explains the observed result, if any
    if psf_failed:
        recs = [psf_record(c, obs) for c, exp, obs, why in psf_failed]
        bad = core.validate_records(ctx, 'Trace_RgbPsf', recs, label='Trace_RgbPsf(psf mismatches)')
        tally = ctx.cov.setdefault('psf_mismatch_verdicts', {})
        for k, (c, exp, obs, why) in enumerate(psf_failed):
            verdict = bad.get(k, '')
            key = verdict.split(':')[0] if finding_of(verdict) else (verdict or 'accepted by the fixed-point judge')
            tally[key] = tally.get(key, 0) + 1
            report('psf', {'what': '%s: %s' % (brief(c), why), 'call': c, 'expected': {kk: exp[kk] for kk in ('shape', 'val', 'mag')},
                           'trace_verdict': verdict}, finding=finding_of(verdict))

    # ---- code -> spec: recorded random calls --------------------------------------------------
    rng = random.Random(ctx.seed)
    recs, calls = [], []
    nrgb, npsf = (1500, 500) if ctx.quick else (12000, 5000)
    for k in range(nrgb):
        c = random_rgb(rng)
        dt = 'f8' if k % 2 == 0 else 'f4'
        rec, obs = rgb_record(c, dt, as_array=bool(k % 3 == 0))
        recs.append(rec); calls.append((c, dt))
    tries = 0
    while sum(1 for c, _ in calls if c['fn'] == 'psf') < npsf and tries < 20 * npsf:
        tries += 1
        c = random_psf(rng)
        if not psf_magnitude_ok(c):
            continue
        obs = execute_psf(c, varlen=bool(tries & 1), nan_garbage=bool(tries & 2))
        recs.append(psf_record(c, obs)); calls.append((c, 'f4'))
    bad = core.validate_records(ctx, 'Trace_RgbPsf', recs, chunk=3000)
    undefined = 0
    for k, (c, dt) in enumerate(calls):
        why = bad.get(k, '')
        if why == 'undefined':
            undefined += 1
            continue
        ctx.evaluated(1, 'recorded-' + c['fn']); ctx.validated()
        ctx.nontriv(('rec', k))
        if why:
            key = 'recorded ' + c['fn'] + ': ' + (why.split(':')[0] if finding_of(why) else why.split(':')[0][:40])
            tally = ctx.cov.setdefault('recorded_rejections', {})
            tally[key] = tally.get(key, 0) + 1
            report('rec-' + c['fn'], {'what': 'recorded call rejected by Trace_RgbPsf (%s): %s [%s]' % (why, brief(c), dt),
                                      'call': c, 'dt': dt, 'as_array': bool(k % 3 == 0), 'record_ret': recs[k]['ret'],
                                      'trace_verdict': why}, finding=finding_of(why))
    ctx.cov['parts']['recorded-undefined (outside the decided domain, not judged)'] = undefined
    ctx.cov['violations_by_function'] = dict(nviol)
    ctx.sample({'recorded_call': brief(calls[0][0]), 'ret': recs[0]['ret']})
    ctx.exhaustive = not ctx.quick


def replay(ctx, case):
    """bin/check X03 --replay <file>: re-execute the single failing call of a replay file; TLC judges it again."""
    ctx.level = 'model_checking'
    ctx.rule = 'single replayed case'
    c = case['call']
    if c['fn'] == 'psf':
        obs = execute_psf(c)
        rec = psf_record(c, obs)
        print('replayed:', brief(c), '\nobserved:', None if obs['err'] else obs['out'].tolist(), obs.get('exc'))
    else:
        rec, obs = rgb_record(c, case.get('dt', 'f8'), case.get('as_array', False))
        print('replayed:', brief(c), '\nobserved:', None if obs['err'] else obs['out'].ravel().tolist(), obs.get('exc'))
    bad = core.validate_records(ctx, 'Trace_RgbPsf', [rec])
    print('verdict of Trace_RgbPsf:', bad.get(0, 'accepted') or 'accepted')
    ctx.evaluated(1)
    ctx.nontriv('a'); ctx.nontriv('b')
    if bad.get(0):
        ctx.violation(case, finding=finding_of(bad[0]))
