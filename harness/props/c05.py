"""C05 - spheregroup partitions points into friends-of-friends components.

Spec: spec/FoF.tla (declarative components / Expected / WellFormed + the two design models GroupsAlgo and
MergeAlgo); MC: mc/MC_FoF (machine mode: invariants on every step; cases mode: one state per (graph, cover) with
the outcome of the same step functions); Trace: trace/Trace_FoF (verdict on recorded calls).

spec -> code: every (graph, cover) TLC dumped is run through the real chunks.friendsoffriends + the real
renumbering in spheregroup (the chunk layout is set to the cover, the per-chunk grouping is the real class `groups`
with a separation callable that looks the link relation up), and compared with the arrays TLC computed.
code -> spec: the real spheregroup(ra, dec, linklength, chunksize) on adversarial point sets; the link relation
comes from an independent separation oracle (numpy longdouble, chord and atan2 formulas, guard band) and TLC
(Trace_FoF) judges the returned arrays against the components the SPEC derives from that relation.
"""
import math
import random
import warnings

import numpy as np

from .. import core

LD = np.longdouble
PI = LD(4) * np.arctan(LD(1))
D2R = PI / LD(180)
BAND_REL = 1e-9
BAND_ABS = 1e-12      # degrees
MAX_BORDER = 8


# ----------------------------------------------------------------------------------------------
# abstraction / concretisation
# ----------------------------------------------------------------------------------------------
def arr(f):
    """TLC function on 0..n-1 (dict) -> list"""
    if isinstance(f, tuple):      # a function with domain 1..n prints as a sequence; never the case here
        return list(f)
    return [f[k] for k in range(len(f))]


def proj(p):
    return {'ig': arr(p['ig']), 'mult': arr(p['mult']), 'first': arr(p['first']), 'next': arr(p['next']),
            'ng': p['ng'], 'pc': p['pc']}


def tolist(a):
    return [int(x) for x in np.asarray(a).tolist()]


def sg_module():
    import pydl.pydlutils.spheregroup as sg
    return sg


def real_groups(n, linked):
    """The real class `groups` on targets 0..n-1 whose link relation is `linked` (set of frozenset pairs)."""
    sg = sg_module()
    x = np.arange(n, dtype='d').reshape(1, n)
    def linked_or_same(a, b):
        i, j = int(np.asarray(a).ravel()[0]), int(np.asarray(b).ravel()[0])
        return 0.0 if (i == j or frozenset((i, j)) in linked) else 1.0
    g = sg.groups(x, 0.5, linked_or_same)
    return {'ig': tolist(g.inGroup), 'mult': tolist(g.multGroup), 'first': tolist(g.firstGroup),
            'next': tolist(g.nextGroup), 'ng': int(g.nGroups)}


def harness_fault(ex):
    """True when an exception comes out of harness-built objects rather than out of pydl's own code on valid arrays:
    innermost frame in this file (the stand-in separation, the cover layout methods) or a missing attribute on the
    cover-layout chunks object.  Such an exception is a failure of the machinery (exit 2), never a VIOLATION."""
    import traceback
    tb = traceback.extract_tb(ex.__traceback__)
    if tb and tb[-1].filename == __file__:
        return True
    return isinstance(ex, (AttributeError, NotImplementedError))


def make_fake_chunks(sg, cover, linked):
    """A chunks object whose layout IS the cover.  It is built by the real constructor (so that every attribute the
    real methods rely on exists) and only then chunkList / nDec / nRa are set to the cover; friendsoffriends and the
    class groups are the real code.  The stand-in separation accepts whatever coordinate shape/dtype it is handed."""
    def linked_or_same(a, b):
        i, j = int(np.asarray(a).ravel()[0]), int(np.asarray(b).ravel()[0])
        return 0.0 if (i == j or frozenset((i, j)) in linked) else 1.0

    real = sg.chunks
    if getattr(real, '_c05_cover_layout', False):
        raise core.MachineryError('pydl.pydlutils.spheregroup.chunks is still the harness subclass')

    class CoverChunks(real):
        _c05_cover_layout = True

        def __init__(self, ra, dec, minSize):
            real.__init__(self, np.asarray(ra, dtype='d'), np.asarray(dec, dtype='d'), minSize)
            self.nDec = 1
            self.nRa = [len(cover)]
            self.raOffset = 0.0
            self.chunkList = [[list(ch) for ch in cover]]
            self.nChunkMax = max([len(ch) for ch in cover] + [0])

        def assign(self, ra, dec, marginSize):
            return

        def chunkfriendsoffriends(self, ra, dec, chunkList, linkSep):
            x = np.asarray(ra)[chunkList].reshape(1, len(chunkList))
            return sg.groups(x, 0.5, linked_or_same)
    return CoverChunks


def real_cover_case(n, adj, cover, dtype='d', want_raw=True):
    """Run the real merge + renumbering on (graph, cover).  Returns (raw, final) observation dicts."""
    sg = sg_module()
    linked = {frozenset(p) for p in adj}
    ra = np.arange(n).astype(dtype)          # coordinate = point index; the dtype of the caller's arrays varies
    dec = np.zeros(n, dtype=dtype)
    fake = make_fake_chunks(sg, cover, linked)
    raw = fin = None
    try:
        ch = fake(ra, dec, 2.0) if want_raw else None
    except Exception as ex:
        raise core.MachineryError('cover-layout chunks object could not be constructed: %r' % (ex,))
    try:
        if want_raw:
            r = ch.friendsoffriends(ra, dec, 0.5)
            raw = {'ig': tolist(r[0]), 'mult': tolist(r[1]), 'first': tolist(r[2]), 'next': tolist(r[3]), 'ng': int(r[4])}
    except Exception as ex:
        if harness_fault(ex):
            raise core.MachineryError('exception inside harness-built objects (cover replay): %r' % (ex,))
        raw = {'exc': '%s: %s' % (type(ex).__name__, str(ex)[:120])}
    saved = sg.chunks
    sg.chunks = fake
    try:
        with warnings.catch_warnings():
            warnings.simplefilter('ignore')
            r = sg.spheregroup(ra, dec, 0.5)
        fin = {'ig': tolist(r[0]), 'mult': tolist(r[1]), 'first': tolist(r[2]), 'next': tolist(r[3])}
    except Exception as ex:
        if harness_fault(ex):
            raise core.MachineryError('exception inside harness-built objects (cover replay): %r' % (ex,))
        fin = {'exc': '%s: %s' % (type(ex).__name__, str(ex)[:120])}
    finally:
        sg.chunks = saved
    return raw, fin


def sg_record(n, adj, border, obs):
    if 'exc' in obs:
        return {'kind': 'sg', 'n': n, 'adj': adj, 'border': border, 'err': True, 'exc': obs['exc'],
                'ig': [], 'mult': [], 'first': [], 'next': []}
    return {'kind': 'sg', 'n': n, 'adj': adj, 'border': border, 'err': False, 'exc': '',
            'ig': obs['ig'], 'mult': obs['mult'], 'first': obs['first'], 'next': obs['next']}


def groups_record(n, adj, obs):
    if 'exc' in obs:
        return {'kind': 'groups', 'n': n, 'adj': adj, 'err': True, 'exc': obs['exc'], 'ng': 0,
                'ig': [], 'mult': [], 'first': [], 'next': []}
    return {'kind': 'groups', 'n': n, 'adj': adj, 'err': False, 'exc': '', 'ng': obs['ng'],
            'ig': obs['ig'], 'mult': obs['mult'], 'first': obs['first'], 'next': obs['next']}


# ----------------------------------------------------------------------------------------------
# independent separation oracle
# ----------------------------------------------------------------------------------------------
def oracle(ra, dec, L, band_rel=BAND_REL):
    """(adj, border): pairs i<j certainly closer than L / inside the guard band around L.
    Two independent formulas in extended precision (chord of unit vectors; atan2 of cross and dot);
    a pair on which they do not agree about the side of L is borderline."""
    a = np.asarray(ra, dtype=LD) * D2R
    d = np.asarray(dec, dtype=LD) * D2R
    v = np.stack([np.cos(d) * np.cos(a), np.cos(d) * np.sin(a), np.sin(d)], axis=1)
    diff = v[:, None, :] - v[None, :, :]
    chord = np.sqrt((diff ** 2).sum(axis=2))
    s1 = LD(2) * np.arcsin(np.minimum(chord / LD(2), LD(1))) / D2R
    dot = (v[:, None, :] * v[None, :, :]).sum(axis=2)
    cx = v[:, None, 1] * v[None, :, 2] - v[:, None, 2] * v[None, :, 1]
    cy = v[:, None, 2] * v[None, :, 0] - v[:, None, 0] * v[None, :, 2]
    cz = v[:, None, 0] * v[None, :, 1] - v[:, None, 1] * v[None, :, 0]
    s2 = np.arctan2(np.sqrt(cx ** 2 + cy ** 2 + cz ** 2), dot) / D2R
    band = LD(band_rel) * LD(L) + LD(BAND_ABS)
    lo, hi = LD(L) - band, LD(L) + band
    near = (s1 < lo) & (s2 < lo)
    far = (s1 > hi) & (s2 > hi)
    n = len(ra)
    iu = np.triu_indices(n, 1)
    nr = near[iu]
    bd = ~(near[iu] | far[iu])
    adj = [[int(i), int(j)] for i, j in zip(iu[0][nr], iu[1][nr])]
    border = [[int(i), int(j)] for i, j in zip(iu[0][bd], iu[1][bd])]
    return adj, border


# ----------------------------------------------------------------------------------------------
# drivers: adversarial point sets for the real spheregroup
# ----------------------------------------------------------------------------------------------
def wrap_ra(x):
    x = math.fmod(x, 360.0)
    if x < 0:
        x += 360.0
    if x >= 360.0:
        x = 0.0
    return x


def clamp_dec(x):
    return max(-90.0, min(90.0, x))


def log_uniform(rng, lo, hi):
    return math.exp(rng.uniform(math.log(lo), math.log(hi)))


def gen_chain(rng, nmax):
    L = log_uniform(rng, 3e-4, 8.0)
    m = rng.randint(4, nmax)
    kind = rng.choice(['ra', 'dec', 'diag', 'seam'])
    dec0 = rng.uniform(-75, 75)
    ra0 = rng.uniform(0, 360) if kind != 'seam' else 360.0 - rng.uniform(0, 6) * L
    pts = []
    x, y = ra0, dec0
    for k in range(m):
        pts.append((wrap_ra(x), clamp_dec(y)))
        step = L * (rng.uniform(0.35, 0.9) if rng.random() > 0.15 else rng.uniform(1.3, 3.0))
        c = max(math.cos(math.radians(y)), 1e-3)
        if kind in ('ra', 'seam'):
            x += step / c
        elif kind == 'dec':
            y += step if dec0 < 0 else -step
        else:
            x += step * 0.7 / c
            y += (step * 0.7) if dec0 < 0 else -(step * 0.7)
    return pts, L, 'chain-' + kind


def gen_seam(rng, nmax):
    L = log_uniform(rng, 1e-3, 3.0)
    pts = []
    ncl = rng.randint(1, 4)
    for _ in range(ncl):
        dec0 = rng.uniform(-85, 85)
        ra0 = rng.uniform(-2, 2) * L
        c = max(math.cos(math.radians(dec0)), 1e-3)
        for _ in range(rng.randint(2, max(2, nmax // ncl))):
            pts.append((wrap_ra(ra0 + rng.uniform(-3, 3) * L / c), clamp_dec(dec0 + rng.uniform(-2, 2) * L)))
    for _ in range(rng.randint(0, 4)):      # far field, so that the RA offset search has something to chew on
        pts.append((rng.uniform(0, 360), rng.uniform(-80, 80)))
    return pts[:nmax], L, 'seam'


def gen_polar(rng, nmax):
    L = log_uniform(rng, 1e-2, 6.0)
    sign = rng.choice([1, -1])
    pts = []
    for _ in range(rng.randint(3, nmax)):
        r = rng.uniform(0.02, 6.0) * L          # distance from the pole
        d = sign * (90.0 - r)
        if rng.random() < 0.15:
            d = -d                                # a few points in the other cap
        pts.append((rng.uniform(0, 360), clamp_dec(d)))
    if rng.random() < 0.35:                       # the pole itself is a sky position
        pts[rng.randrange(len(pts))] = (rng.choice([0.0, rng.uniform(0, 360)]), sign * 90.0)
    return pts, L, 'polar'


def gen_lattice(rng, nmax):
    L = log_uniform(rng, 1e-3, 4.0)
    a = rng.choice([0.55, 0.8, 0.9, 1.15, 1.6])
    nx = rng.randint(2, 8)
    ny = max(1, min(nmax // nx, rng.randint(1, 8)))
    dec0 = rng.uniform(-70, 70 - ny * a * L) if 70 - ny * a * L > -70 else 0.0
    ra0 = rng.choice([rng.uniform(0, 360), 360.0 - 0.5 * nx * a * L])
    pts = []
    for ix in range(nx):
        for iy in range(ny):
            y = dec0 + iy * a * L
            c = max(math.cos(math.radians(dec0)), 1e-3)
            pts.append((wrap_ra(ra0 + ix * a * L / c), clamp_dec(y)))
    return pts, L, 'lattice'


def gen_allsky(rng, nmax):
    L = log_uniform(rng, 2.0, 30.0)
    pts = []
    for _ in range(rng.randint(5, nmax)):
        z = rng.uniform(-1, 1)
        pts.append((rng.uniform(0, 360), clamp_dec(math.degrees(math.asin(z)))))
    return pts, L, 'allsky'


def gen_capspan(rng, nmax):
    """A band reaching from mid latitudes into one polar cap (the padded declination range is cut at the pole)."""
    L = log_uniform(rng, 0.3, 8.0)
    sign = rng.choice([1, -1])
    lo = rng.uniform(-40, 70)
    hi = rng.uniform(max(lo + 2, 90 - 12 * L), 90.0)
    pts = []
    for _ in range(rng.randint(4, nmax)):
        pts.append((rng.uniform(0, 360), clamp_dec(sign * rng.uniform(lo, hi))))
    return pts, L, 'capspan'


def gen_small(rng, nmax):
    L = log_uniform(rng, 1e-3, 10.0)
    n = rng.randint(2, 4)
    ra0, dec0 = rng.uniform(0, 360), rng.uniform(-88, 88)
    c = max(math.cos(math.radians(dec0)), 1e-3)
    pts = [(wrap_ra(ra0 + rng.choice([0.0, 0.5, 0.9, 1.5, 4.0, 9.0]) * L * k / c),
            clamp_dec(dec0 + rng.choice([0.0, 0.0, 0.3, 2.0]) * L * k)) for k in range(n)]
    return pts, L, 'small'


def gen_edges(rng, nmax):
    """Aim at the cell edges of the real chunk layout: frame points fix the layout, then linked and unlinked
    pairs are put astride declination and RA cell boundaries (read from a real chunks object, read-only)."""
    sg = sg_module()
    L = log_uniform(rng, 1e-2, 2.0)
    cs = L * rng.choice([4.0, 4.0, 5.0, 8.0])
    w, h = rng.uniform(2, 5) * cs, rng.uniform(2, 4) * cs
    dec0 = rng.uniform(-85, max(-84.0, 85 - h))
    ra0 = rng.choice([rng.uniform(10, 300), 360.0 - 2 * cs, 0.5 * cs])
    c0 = max(math.cos(math.radians(dec0 + h)), 0.05)
    frame = [(wrap_ra(ra0), dec0), (wrap_ra(ra0 + w / c0), dec0), (wrap_ra(ra0), clamp_dec(dec0 + h)),
             (wrap_ra(ra0 + w / c0), clamp_dec(dec0 + h))]
    pts = list(frame)
    try:
        ch = sg.chunks(np.array([p[0] for p in pts]), np.array([p[1] for p in pts]), cs)
    except Exception:
        return pts, L, 'edges', cs
    inner_dec = [b for b in ch.decBounds if dec0 < b < dec0 + h]
    while len(pts) < nmax - 1 and inner_dec:
        b = rng.choice(inner_dec)
        k = int(np.searchsorted(ch.decBounds, b))
        k = min(max(k, 1), ch.nDec - 1)
        rab = ch.raBounds[k]
        x = rng.choice(list(rab[1:-1])) if (len(rab) > 2 and rng.random() < 0.6) else rng.uniform(rab[0], rab[-1])
        x = x - ch.raOffset + rng.choice([-1, 1]) * rng.choice([1e-9, 0.1, 0.45]) * L
        y = b + rng.choice([-1, 1]) * rng.choice([1e-9, 0.05, 0.3]) * L
        sep = rng.choice([0.5, 0.8, 0.97, 1.05, 1.4]) * L
        ang = rng.choice([0.0, math.pi, 0.5 * math.pi, rng.uniform(0, 2 * math.pi), rng.uniform(0, 2 * math.pi)])
        c = max(math.cos(math.radians(y)), 0.05)
        p1 = (wrap_ra(x), clamp_dec(y))
        p2 = (wrap_ra(x + sep * math.cos(ang) / c), clamp_dec(y + sep * math.sin(ang)))
        ok = all(dec0 <= p[1] <= dec0 + h for p in (p1, p2))
        if ok:
            pts += [p1, p2]
        elif rng.random() < 0.2:
            break
    return pts, L, 'edges', cs


GENERATORS = [(gen_chain, 5), (gen_seam, 3), (gen_polar, 3), (gen_lattice, 3), (gen_allsky, 2), (gen_small, 1),
              (gen_edges, 4), (gen_capspan, 2)]


MAX_CELLS = 6000.0


def admissible_chunksize(pts, L, cs):
    """The real chunk layout allocates (Dec range / chunksize) x (RA range / chunksize) cells: keep that bounded
    (cost only; any chunksize >= 4 L is admissible).  Returns an explicit chunksize when the requested one would
    allocate too many cells."""
    eff = max(cs, 4.0 * L) if cs is not None else max(4.0 * L, 0.1)
    decs = [p[1] for p in pts]
    ras = sorted(p[0] for p in pts)
    gaps = [b - a for a, b in zip(ras, ras[1:])] + [ras[0] + 360.0 - ras[-1]]
    ra_r = 360.0 - max(gaps)
    dec_r = max(decs) - min(decs)
    cmin = max(math.cos(math.radians(max(abs(max(decs)), abs(min(decs))))), 1e-3)
    cells = (dec_r / eff + 3.0) * (360.0 / eff + 3.0 if ra_r / cmin > 300 else ra_r / eff + 3.0)
    if cells <= MAX_CELLS:
        return cs
    area = max(dec_r, eff) * max(min(ra_r, 360.0), eff)
    return max(eff, math.sqrt(area / (MAX_CELLS / 4.0)))


def make_sets(rng, count, nmax, nbig=0, bigmax=0):
    gens = [g for g, w in GENERATORS for _ in range(w)]
    out = []
    for k in range(count):
        g = rng.choice(gens)
        cap = nmax
        if nbig and k % max(1, count // nbig) == 0:
            cap = bigmax
        res = g(rng, cap)
        pts, L, tag = res[0], res[1], res[2]
        cs = res[3] if len(res) > 3 else rng.choice([None, None, 4.0 * L, 4.0 * L, 4.5 * L, 6.0 * L, 10.0 * L, 2.0 * L, 25.0 * L])
        if len(pts) < 2:
            continue
        cs = admissible_chunksize(pts, L, cs)
        if rng.random() < 0.5:
            rng.shuffle(pts)
        out.append({'ra': [p[0] for p in pts], 'dec': [p[1] for p in pts], 'L': L, 'cs': cs, 'tag': tag})
        if rng.random() < 0.35:             # the same set in another input order and with another chunk size
            q = list(pts)
            rng.shuffle(q)
            out.append({'ra': [p[0] for p in q], 'dec': [p[1] for p in q], 'L': L,
                        'cs': admissible_chunksize(q, L, rng.choice([None, 4.0 * L, 7.0 * L])), 'tag': tag + '-perm'})
    return out


# ----------------------------------------------------------------------------------------------
# systematic seam sweep: one set per target number of RA chunks in the slice that holds the data
# ----------------------------------------------------------------------------------------------
SWEEP_DECS = [64.0, 0.0, -40.0, 30.0, 75.0, -64.0, 15.0, -20.0, 50.0, -75.0]


def sweep_set(T, dec0, variant):
    """A point set whose declination slice (in the real chunk layout, read back from a real chunks object) has
    exactly T RA chunks and embraces the whole circle with no RA offset: isolated points all round the circle
    (spacing well above the linking length, close enough that no RA offset qualifies) and one pair whose only link
    crosses the boundary between the last and the first RA cell (RA = 0 in the frame of the actual raOffset).
    Variant 'B' adds a second ring of isolated points in another declination slice.  None if T is not attainable."""
    sg = sg_module()
    if T < 3:
        return None
    c0 = math.cos(math.radians(dec0))
    ms = c0 * 360.0 / (T - 2.5)
    seam = 0.0
    for _ in range(25):
        ring_decs = [dec0]
        if variant == 'B':
            other = dec0 - (1.0 if dec0 >= 0 else -1.0) * 1.3 * ms
            if abs(other) > 85.0 or 1.3 * ms > 70.0:
                return None
            ring_decs.append(other)
        cmax = max(math.cos(math.radians(d)) for d in ring_decs)
        cmin = min(math.cos(math.radians(d)) for d in ring_decs)
        m = max(6, int(math.ceil(360.0 * cmax / (1.5 * ms))))
        step = 360.0 / m
        L = min(ms / 4.0, step * cmin / 3.5, 5.0)
        pts = []
        for d in ring_decs:
            pts += [(wrap_ra(seam + (k + 0.5) * step), d) for k in range(m)]
        pts += [(wrap_ra(seam - 0.3 * L / c0), dec0), (wrap_ra(seam + 0.5 * L / c0), dec0)]
        ra = np.array([p[0] for p in pts])
        dec = np.array([p[1] for p in pts])
        try:
            ch = sg.chunks(ra, dec, ms)
        except Exception:
            return None
        want_seam = wrap_ra(360.0 - ch.raOffset)
        if abs(want_seam - seam) > 1e-9:
            seam = want_seam
            continue
        k = int(np.floor((dec0 - ch.decBounds[0]) * ch.nDec / (ch.decBounds[ch.nDec] - ch.decBounds[0])))
        k = min(max(k, 0), ch.nDec - 1)
        got = ch.nRa[k]
        if got == T and ch.raBounds[k][0] == 0.0:
            return {'ra': [p[0] for p in pts], 'dec': [p[1] for p in pts], 'L': L, 'cs': ms,
                    'tag': 'sweep-' + variant, 'nra': T}
        if got <= 2:
            return None
        if got == T:            # right count but the slice does not embrace the circle: not this family
            return None
        ms *= (got - 2.5) / (T - 2.5)
    return None


def make_sweep(rng, tmax, perm_b):
    out, missing = [], []
    for T in range(2, tmax + 1):
        hit = False
        for variant in ('A', 'B'):
            s = None
            for t in range(3):              # a few declinations: not every count is attainable at every one
                s = sweep_set(T, SWEEP_DECS[(T + t * 3 + (5 if variant == 'B' else 0)) % len(SWEEP_DECS)], variant)
                if s is not None:
                    break
            if s is None:
                continue
            hit = True
            out.append(s)
            if variant == 'A' or perm_b:
                idx = list(range(len(s['ra'])))
                rng.shuffle(idx)
                out.append(dict(s, ra=[s['ra'][i] for i in idx], dec=[s['dec'][i] for i in idx], tag=s['tag'] + '-perm'))
        if not hit:
            missing.append(T)
    return out, missing


# ----------------------------------------------------------------------------------------------
# input representation: the same whole-degree positions as float64, integer, mixed and float32 arrays
# ----------------------------------------------------------------------------------------------
COVER_DTYPES = ['d', 'i8', 'i4', 'i2', 'u2', 'u1']      # point indices 0..4 fit every one of them
F32_BAND = 1e-3      # float32 input: pairs within 1e-3 relative of the linking length are left open


def dtype_combos(pts):
    """(ra dtype, dec dtype) pairs in which these whole-degree values fit exactly."""
    ras, decs = [p[0] for p in pts], [p[1] for p in pts]
    combos = [('d', 'd'), ('i8', 'i8'), ('i4', 'i4'), ('i2', 'i2'), ('i8', 'd'), ('d', 'i4'), ('i2', 'i8'), ('f4', 'f4')]
    if min(decs) >= 0:
        combos += [('u2', 'u2'), ('u2', 'i2')]
        if max(ras) <= 255:
            combos += [('u1', 'u1'), ('u1', 'd')]
    if max(ras) <= 127:
        combos += [('i1', 'i1'), ('i1', 'd')]
    # the declination always fits int8 (so does its value, not necessarily its RANGE, in the narrow type)
    combos += [('d', 'i1'), ('i2', 'i1')]
    if max(ras) <= 255:
        combos += [('u1', 'i1')]
    return combos


INT_SCALAR_FORMS = ['pyint', 'i8', 'i4', 'i2', 'u2', 'u1', 'a0i', 'a0f', 'f8']
FLOAT_SCALAR_FORMS = ['f', 'f8', 'a0f']


def scalar_form(v, form):
    """The same VALUE as another numeric type: Python int, numpy integer scalar, 0-d array, numpy float."""
    if v is None or form in (None, 'f'):
        return v
    if form == 'pyint':
        return int(v)
    if form == 'a0i':
        return np.array(int(v))
    if form == 'a0f':
        return np.array(float(v))
    if form == 'f8':
        return np.float64(v)
    return np.dtype(form).type(int(v))


_NEAR = []


def near_pairs():
    """Whole-degree pairs (d1, d2, dra) whose separation lies within 1e-6 .. 8e-4 relative of a whole-degree length L,
    on either side of it (candidates only: which side they are on is decided by the oracle, as for every set)."""
    if not _NEAR:
        d1, dd, dra = np.meshgrid(np.arange(0, 90.0), np.arange(0, 13.0), np.arange(0, 120.0), indexing='ij')
        d2 = d1 + dd
        a, b, c = np.deg2rad(d1), np.deg2rad(d2), np.deg2rad(dra)
        h = np.sin((b - a) / 2) ** 2 + np.cos(a) * np.cos(b) * np.sin(c / 2) ** 2
        sep = np.rad2deg(2 * np.arcsin(np.sqrt(h)))
        for L in range(1, 13):
            rel = np.abs(sep - L) / L
            for i, j, k in zip(*np.nonzero((d2 <= 90) & (rel > 1e-6) & (rel < 8e-4))):
                _NEAR.append((L, int(d1[i, j, k]), int(d2[i, j, k]), int(dra[i, j, k])))
    return _NEAR


def gen_whole(rng):
    """Whole-degree positions (exactly representable in every dtype used)."""
    kind = rng.choice(['chain', 'chain', 'box', 'ubox', 'ubox', 'polar', 'demo', 'lattice', 'lattice', 'nearL', 'nearL',
                       'span', 'span', 'span'])
    L = rng.choice([0.5, 0.9, 1.1, 1.3, 1.5, 2.2, 2.5, 3.3, 4.7])
    if kind == 'demo':
        pts = [(float(x), 0.0) for x in range(0, 40, 2)]
        L = rng.choice([1.0, 1.5, 2.5])
    elif kind == 'chain':
        d = rng.randint(-70, 70)
        step = rng.choice([1, 2, 3])
        start = rng.choice([rng.randint(0, 359), 350, 355])
        pts = [(float((start + k * step) % 360), float(d + (k % 2) * rng.choice([0, 0, 1]))) for k in range(rng.randint(4, 30))]
    elif kind == 'box':
        d0 = rng.randint(-80, 70)
        r0 = rng.choice([rng.randint(0, 359), 352])
        w, h = rng.randint(3, 14), rng.randint(2, 9)
        pts = [(float((r0 + rng.randint(0, w)) % 360), float(d0 + rng.randint(0, h))) for _ in range(rng.randint(4, 36))]
    elif kind == 'ubox':          # fits the unsigned 8-bit types: 0 <= RA <= 255, Dec >= 0
        d0 = rng.randint(0, 80)
        r0 = rng.randint(0, 240)
        w, h = rng.randint(3, 12), rng.randint(2, 9)
        pts = [(float(r0 + rng.randint(0, w)), float(d0 + rng.randint(0, h))) for _ in range(rng.randint(4, 30))]
    elif kind == 'nearL':         # a pair just inside or just outside a whole-degree linking length (a length held in
        L, d1, d2, dra = rng.choice(near_pairs())      # half precision is off by up to 5e-4 relative), plus far points
        r0 = rng.choice([rng.randint(0, 200), rng.randint(0, 359), 359])
        sgn = rng.choice([1, 1, -1])
        pts = [(float(r0), float(sgn * d1)), (float((r0 + dra) % 360), float(sgn * d2))]
        for k in range(rng.randint(0, 3)):
            pts.append((float((r0 + 150 + 20 * k) % 360), float(sgn * max(0, d1 - 30))))
    elif kind == 'span':          # the RANGE of the values strains the narrow integer types (max - min, differences)
        sub = rng.choice(['dec', 'dec', 'ra8', 'all', 'all'])
        L = rng.choice([1.5, 2.5, 4.7, 9.5, 14.5, 5, 10])
        if sub == 'dec':          # pole to pole (or nearly): declinations spanning more than 127 degrees, RA within int8
            step = rng.choice([15, 30, 45, 9, 10])
            lo = rng.choice([-90, -90, -80, -64])
            r0 = rng.randint(0, 100)
            pts = [(float(r0 + (k * rng.choice([0, 1, 7])) % 27), float(d)) for k, d in enumerate(range(lo, 91, step))]
            pts += [(float(r0 + rng.randint(0, 27)), float(rng.randint(-90, 90))) for _ in range(rng.randint(0, 8))]
        elif sub == 'ra8':        # RA spanning more than 127 (up to 255) degrees, declination >= 0: the unsigned 8-bit range
            d0 = rng.randint(0, 70)
            pts = [(float(r), float(d0 + rng.randint(0, 6))) for r in range(0, 256, rng.choice([5, 15, 17, 51]))]
            pts += [(float(rng.choice([0, 127, 128, 255])), float(d0)) for _ in range(2)]
        else:                     # whole-degree all-sky scatter: the full domain of RA and Dec
            pts = [(float(rng.randint(0, 359)), float(rng.randint(-90, 90))) for _ in range(rng.randint(6, 40))]
            pts += [(float(rng.randint(0, 359)), 90.0), (float(rng.randint(0, 359)), -90.0)]
        pts = list(dict.fromkeys(pts))
    elif kind == 'lattice':       # whole-degree lattice and a whole-degree linking length that no lattice distance equals
        step, L = rng.choice([(2, 3), (3, 4), (3, 2), (2, 1), (5, 6), (4, 5)])
        d0 = rng.choice([rng.randint(-60, 50), rng.randint(0, 50), 90 - 3 * step])
        r0 = rng.choice([rng.randint(0, 200), 360 - 2 * step, rng.randint(0, 359)])
        nx, ny = rng.randint(2, 6), rng.randint(1, 4)
        pts = [(float((r0 + ix * step) % 360), float(min(90, d0 + iy * step))) for ix in range(nx) for iy in range(ny)]
        pts = [p for k, p in enumerate(pts) if rng.random() < 0.85 or k < 2]
    else:
        sign = rng.choice([1, 1, -1])
        pts = [(float(rng.randrange(0, 360, 5)), float(sign * rng.randint(84, 90))) for _ in range(rng.randint(4, 24))]
    return pts, L, 'whole-' + kind


def make_dtype_sets(rng, count):
    out = []
    k = 0
    for _ in range(count):
        pts, L, tag = gen_whole(rng)
        if rng.random() < 0.5:
            rng.shuffle(pts)
        cs = admissible_chunksize(pts, L, rng.choice([None, None, 4.0 * L, 6.0 * L]))
        for dt in dtype_combos(pts):
            k += 1
            lforms = INT_SCALAR_FORMS if float(L) == int(L) else FLOAT_SCALAR_FORMS
            s = {'ra': [p[0] for p in pts], 'dec': [p[1] for p in pts], 'L': L, 'cs': cs, 'dt': list(dt), 'tag': tag,
                 'lform': lforms[k % len(lforms)] if k % 3 else 'f'}
            if cs is not None:
                cforms = INT_SCALAR_FORMS if float(cs) == int(cs) else FLOAT_SCALAR_FORMS
                s['csform'] = cforms[(k // 2) % len(cforms)] if k % 2 else 'f'
            if 'f4' in dt:
                s['band'] = F32_BAND
            out.append(s)
    return out


def make_rings(rng, full):
    """Systematic polar rings: m points on a small circle around a pole, neighbours separated by f * L on the sphere
    although their RA differ by 360/m degrees (the flat-sky estimate dRA * cos(Dec) exceeds the true separation by up
    to 20 %), so the ring is one group held together only by links between points far apart in RA; variant with the
    pole itself added; both poles; also in permuted order."""
    out = []
    for m in range(3, 13):
        for f in ((0.9, 0.97) if full else (0.97,)):
            for L in ((0.3, 1.0, 3.0) if full else (1.0, 0.05 + 0.25 * (m % 3))):
                for sign in (1, -1):
                    srho = math.sin(math.radians(f * L / 2.0)) / math.sin(math.pi / m)
                    if srho >= 0.5:
                        continue
                    rho = math.degrees(math.asin(srho))
                    ra0 = 353.3 if m % 2 else 17.3
                    pts = [(wrap_ra(ra0 + k * 360.0 / m), sign * (90.0 - rho)) for k in range(m)]
                    if (m + (sign > 0)) % 2:
                        pts.append((120.0, sign * 90.0))
                    pts.append((200.0, sign * (90.0 - rho - 2.5 * L)))      # an outsider
                    cs = admissible_chunksize(pts, L, None if m % 3 else 4.0 * L)
                    out.append({'ra': [p[0] for p in pts], 'dec': [p[1] for p in pts], 'L': L, 'cs': cs, 'tag': 'ring'})
                    q = list(pts)
                    rng.shuffle(q)
                    out.append({'ra': [p[0] for p in q], 'dec': [p[1] for p in q], 'L': L, 'cs': cs, 'tag': 'ring-perm'})
    return out


def run_real(s):
    sg = sg_module()
    dt = s.get('dt', ['d', 'd'])
    ra = np.array(s['ra'], dtype='d').astype(dt[0])
    dec = np.array(s['dec'], dtype='d').astype(dt[1])
    try:
        with warnings.catch_warnings():
            warnings.simplefilter('ignore')
            r = sg.spheregroup(ra, dec, scalar_form(s['L'], s.get('lform')), chunksize=scalar_form(s['cs'], s.get('csform')))
        return {'ig': tolist(r[0]), 'mult': tolist(r[1]), 'first': tolist(r[2]), 'next': tolist(r[3])}
    except Exception as ex:
        return {'exc': '%s: %s' % (type(ex).__name__, str(ex)[:160])}


def uncovered_points(s):
    """Points the real chunk assignment puts in no chunk (read-only look at a real chunks object)."""
    sg = sg_module()
    ra = np.array(s['ra'], dtype='d')
    dec = np.array(s['dec'], dtype='d')
    cs = max(s['cs'], 4.0 * s['L']) if s['cs'] is not None else max(4.0 * s['L'], 0.1)
    try:
        ch = sg.chunks(ra, dec, cs)
        ch.assign(ra, dec, s['L'])
    except Exception:
        return None
    seen = {i for row in ch.chunkList for cell in row for i in cell}
    return [i for i in range(len(ra)) if i not in seen]


def classify_sky(s, obs):
    """Name the deviation that explains a rejected spheregroup call exactly, if any."""
    if 'exc' in obs:
        return 'D-C04-1' if 'cosDecMin' in obs['exc'] else None
    unc = uncovered_points(s)
    if unc and all(s['dec'][i] == 90.0 for i in unc):
        return 'D-C05-1'          # spec: FoF!Dev_PointInNoChunk, the point being the north pole
    return None


# ----------------------------------------------------------------------------------------------
def same(obs, exp, keys=('ig', 'mult', 'first', 'next')):
    return 'exc' not in obs and all(obs[k] == exp[k] for k in keys)


def run(ctx):
    ctx.level = 'model_checking'
    ctx.rule = ('machine mode: every state of MC_FoF is one step of GroupsAlgo / MergeAlgo on one (graph, cover); cases mode: '
                'one state per graph and per (graph, cover), each replayed into the real classes; non-trivial = distinct '
                '(graph, cover) with at least one link and two chunks, or recorded point set with at least one linked pair; '
                'recorded calls = real spheregroup on seeded adversarial point sets judged by Trace_FoF')
    ctx.assumptions = [
        'inputs: RA in [0,360), |Dec| <= 90 deg (the poles included), n >= 2, linking length 3e-4 .. 30 deg; chunksize None or a multiple of the '
        'linking length (values below 4 L are raised to 4 L by spheregroup itself)',
        'input representation: numpy arrays (spheregroup reads ra.size, so Python lists are outside its interface); the numeric '
        'TYPE of every argument is a dimension of the recorded runs: whole-degree sets (chains and lattices across the RA seam, '
        'boxes, polar caps incl. Dec = 90) are given as float64, int64, int32, int16, int8, uint16, uint8 (as the values fit), '
        'mixed ra/dec dtypes and float32, including sets whose RANGE exceeds the narrow type although every value fits (int8 '
        'declinations from pole to pole, uint8 RA spanning 0..255, int16 over the whole sphere); linklength and chunksize as Python float/int, numpy int64/int32/int16/uint16/uint8/float64 '
        'scalars and 0-d arrays; the expected partition is the oracle\'s on the float64 VALUES. float32 input only with whole-degree '
        'positions and pairs within 1e-3 relative of the linking length left open (nothing is asserted at float32 resolution). '
        'Replayed covers rotate float64/int64/int32/int16/uint16/uint8 coordinate arrays',
        'gcirc\'s integer handling (commit 5381ba7) is not reachable from spheregroup: it always hands gcirc float radians '
        '(quick check exits 0 with that fix reverted); the 8/16-bit precision loss that IS in spheregroup\'s own code '
        '(np.deg2rad of the stacked integer coordinates) is covered by the integer forms above',
        'an exception raised inside harness-built objects (the cover-layout chunks subclass, built by the real constructor, or the '
        'stand-in separation callable) is a MachineryError (exit 2), never a VIOLATION',
        'link relation of a recorded set = independent oracle (numpy longdouble, chord and atan2 formulas); pairs within '
        '1e-9 relative / 1e-12 deg of the linking length are borderline and may count either way (sets with more than %d '
        'borderline pairs are not judged)' % MAX_BORDER,
        'merge orders: besides the (graph, cover) enumeration, MC_FoF enumerates the histories of chunk events directly (which '
        'earlier provisional labels the k-th chunk touches, whether it brings a new point) and turns each into the (graph, cover) '
        'that produces it, in both point orders: quick up to 6 events / 4 points with the event kinds new point, new point attached '
        'to one label, merge of two labels; thorough also re-visits and merges that add a point.  Every such case is replayed '
        'into the real friendsoffriends + renumbering',
        'MergeAlgo is model-checked for covers satisfying CoverOK (every point and every linked pair inside some chunk), '
        'which is what the chunk margins are meant to provide; whether the real chunk assignment provides it is exercised '
        'only through the recorded spheregroup runs',
        'the statement does not fix the visiting order of next[]: any order that visits each member once is accepted',
        'replay drives chunks.friendsoffriends and the renumbering in spheregroup with the chunk layout set to the cover '
        '(subclass overriding __init__/assign/chunkfriendsoffriends; per-chunk grouping = real class groups with a callable separation)']
    tier = 'quick' if ctx.quick else 'thorough'
    # ---- TLC: the two design models, invariants on every step --------------------------------
    ctx.tlc('MC_FoF.tla', 'MC_FoF_%s.cfg' % tier, timeout=2400)
    # ---- spec -> code: every dumped (graph, cover) through the real classes ------------------
    r = ctx.tlc('MC_FoF.tla', 'MC_FoF_cases_%s.cfg' % tier, dump=True, timeout=2400)
    disputed = []           # (record, case) whose arrays differ from TLC's: TLC gives the verdict
    nraw_diff = 0
    ncase = 0
    for st in core.iter_states(r):
        c, exp = st['c'], st['exp']
        if c['kind'] == 'graph':
            n = c['n']
            adj = sorted([list(p) for p in c['adj']])
            e = proj(exp['g'])
            try:
                obs = real_groups(n, {frozenset(p) for p in adj})
            except Exception as ex:
                obs = {'exc': '%s: %s' % (type(ex).__name__, str(ex)[:120])}
            ctx.evaluated(1, 'replay-groups')
            ctx.validated()
            ng = e['ng']
            if not ('exc' not in obs and obs['ig'] == e['ig'] and obs['ng'] == ng and obs['next'] == e['next'] and
                    obs['first'][:ng] == e['first'][:ng] and obs['mult'][:ng] == e['mult'][:ng]):
                disputed.append((groups_record(n, adj, obs),
                                 {'type': 'groups', 'n': n, 'adj': adj, 'expected': e, 'observed': obs}))
            continue
        if c['kind'] != 'case':
            continue
        ncase += 1
        n = c['n']
        adj = sorted([list(p) for p in c['adj']])
        cover = [list(ch) for ch in c['cover']]
        efin, eraw = proj(exp['fin']), proj(exp['raw'])
        cdt = COVER_DTYPES[ncase % len(COVER_DTYPES)]
        want_raw = ctx.quick or ncase % 4 == 0      # the direct friendsoffriends call is a diagnostic only
        raw, fin = real_cover_case(n, adj, cover, cdt, want_raw)
        ctx.evaluated(1, 'replay-cover')
        ctx.validated()
        if adj and len(cover) > 1:
            ctx.nontriv((n, tuple(map(tuple, adj)), tuple(map(tuple, cover))))
        rawsame = (raw is None) or (same(raw, eraw) and raw.get('ng') == eraw['ng'])
        if not rawsame:
            nraw_diff += 1
        if ncase in (1, 700, 4000):
            ctx.sample({'graph': {'n': n, 'adj': adj}, 'cover': cover, 'expected': efin, 'observed': fin,
                        'friendsoffriends_return_equal_to_model': rawsame})
        if not same(fin, efin):
            disputed.append((sg_record(n, adj, [], fin),
                             {'type': 'cover', 'n': n, 'adj': adj, 'cover': cover, 'dtype': cdt, 'expected': efin, 'observed': fin,
                              'expected_friendsoffriends': eraw, 'observed_friendsoffriends': raw}))
    if disputed:
        bad = core.validate_records(ctx, 'Trace_FoF', [d[0] for d in disputed[:4000]], label='Trace_FoF(disputed replays)')
        for k in sorted(bad):
            rec, case = disputed[k]
            case['why'] = bad[k]
            if case['type'] == 'groups':
                case['what'] = ('class groups on graph n=%d adj=%s: %s (TLC verdict "%s"; GroupsAlgo gives %s)'
                                % (case['n'], case['adj'], case['observed'], bad[k], case['expected']))
            else:
                case['what'] = ('graph n=%d adj=%s cover=%s: real merge+renumbering gives %s, specified %s (TLC verdict "%s")'
                                % (case['n'], case['adj'], case['cover'], case['observed'],
                                   {k2: case['expected'][k2] for k2 in ('ig', 'mult', 'first', 'next')}, bad[k]))
            ctx.violation(case)
    ctx.sample({'replayed_covers': ncase, 'friendsoffriends_return_differs_from_model': nraw_diff,
                'arrays_differing_from_TLC': len(disputed)})
    # ---- code -> spec: real spheregroup on adversarial sets, judged by TLC -------------------
    rng = random.Random(ctx.seed)
    if ctx.quick:
        sets = make_sets(rng, 400, 48)
        sweep, missing = make_sweep(rng, 60, True)
    else:
        sets = make_sets(rng, 2000, 70, nbig=40, bigmax=260)
        sweep, missing = make_sweep(rng, 400, False)
    sets += sweep
    sets += make_rings(random.Random(ctx.seed + 7), not ctx.quick)    # own stream: the other families keep theirs
    sets += make_dtype_sets(rng, 45 if ctx.quick else 120)
    recs, kept = [], []
    skipped = 0
    for s in sets:
        adj, border = oracle(s['ra'], s['dec'], s['L'], s.get('band', BAND_REL))
        if len(border) > MAX_BORDER:
            skipped += 1
            continue
        obs = run_real(s)
        recs.append(sg_record(len(s['ra']), adj, border, obs))
        kept.append((s, obs))
        if adj:
            ctx.nontriv(('sky', len(kept)))
    bad = core.validate_records(ctx, 'Trace_FoF', recs, label='Trace_FoF(spheregroup)', chunk=2000)
    ctx.evaluated(len(recs), 'recorded-spheregroup')
    ctx.validated(len(recs))
    tags, dts, forms = {}, {}, {}
    for s, _ in kept:
        tags[s['tag']] = tags.get(s['tag'], 0) + 1
        dk = '/'.join(s.get('dt', ['d', 'd']))
        dts[dk] = dts.get(dk, 0) + 1
        for which in ('lform', 'csform'):
            if s.get(which, 'f') != 'f':
                forms[which + ':' + s[which]] = forms.get(which + ':' + s[which], 0) + 1
    ctx.sample({'recorded_sets': len(recs), 'not_judged_too_many_borderline_pairs': skipped, 'by_driver': tags, 'by_input_dtypes(ra/dec)': dts, 'by_scalar_form(linklength/chunksize)': forms,
                'seam_sweep_ra_chunk_counts': sorted({x['nra'] for x in sweep}) if len(sweep) < 200 else
                '%d distinct counts %d..%d' % (len({x['nra'] for x in sweep}), min(x['nra'] for x in sweep), max(x['nra'] for x in sweep)),
                'seam_sweep_counts_not_attainable': missing,
                'borderline_pairs_total': sum(len(r['border']) for r in recs)})
    if kept:
        s, obs = kept[0]
        ctx.sample({'recorded_call': {'ra': s['ra'][:6], 'dec': s['dec'][:6], 'L': s['L'], 'chunksize': s['cs'],
                                      'tag': s['tag'], 'n': len(s['ra'])}, 'returned_ingroup': obs.get('ig', obs.get('exc'))})
    for k in sorted(bad):
        s, obs = kept[k]
        what = ('spheregroup on %d points (%s, dtypes %s, L=%r, chunksize=%r): TLC verdict "%s"; %s'
                % (len(s['ra']), s['tag'], '/'.join(s.get('dt', ['d', 'd'])) + ' L:' + str(s.get('lform', 'f')) + ' cs:' + str(s.get('csform', 'f')),
                   s['L'], s['cs'], bad[k],
                   obs['exc'] if 'exc' in obs else 'ingroup=%s' % obs['ig'][:40]))
        ctx.violation({'what': what, 'type': 'sky', 'ra': s['ra'], 'dec': s['dec'], 'L': s['L'], 'cs': s['cs'],
                       'dt': s.get('dt', ['d', 'd']), 'band': s.get('band', BAND_REL),
                       'lform': s.get('lform', 'f'), 'csform': s.get('csform', 'f'),
                       'tag': s['tag'], 'why': bad[k], 'observed': obs, 'points_in_no_chunk': uncovered_points(s)},
                      finding=classify_sky(s, obs))
    # ---- binding self-test: accepted records with ONE observed field falsified must all be rejected ----
    fals = []
    for k, rec in enumerate(recs):
        if k in bad or rec['err'] or rec['border'] or len(fals) >= 240:
            continue
        if k % max(1, len(recs) // 300):
            continue
        f = {key: (list(v) if isinstance(v, list) else v) for key, v in rec.items()}
        n, ig = rec['n'], rec['ig']
        ng = max(ig) + 1
        mode = len(fals) % 5
        if mode == 0:                                   # a point moved to another (or a new) group
            f['ig'] = list(ig)
            f['ig'][n - 1] = (ig[n - 1] + 1) % ng if ng > 1 else 1
        elif mode == 1:                                 # a multiplicity off by one
            f['mult'] = list(rec['mult'])
            f['mult'][len(fals) % ng] += 1
        elif mode == 2:                                 # first[] not the lowest member
            f['first'] = list(rec['first'])
            g = len(fals) % ng
            f['first'][g] = rec['next'][rec['first'][g]] if rec['next'][rec['first'][g]] != -1 else -1
        elif mode == 3:                                 # the chain of a group cut short or made circular
            f['next'] = list(rec['next'])
            j = rec['first'][len(fals) % ng]
            f['next'][j] = -1 if rec['next'][j] != -1 else j
        else:                                           # numbering not by first member / tail not empty
            if ng > 1:
                f['ig'] = [(ng - 1) - x for x in ig]
            else:
                f['mult'] = list(rec['mult'])
                f['mult'][n - 1] = 1
        fals.append(f)
    core.binding_selftest(ctx, 'Trace_FoF', fals, 'recorded_spheregroup')
    ctx.exhaustive = not ctx.quick


def replay(ctx, case):
    """bin/check C05 --replay <file>: re-run one failing case; TLC (Trace_FoF) gives the verdict."""
    ctx.level = 'model_checking'
    ctx.rule = 'single replayed case'
    ctx.nontriv('a')
    ctx.nontriv('b')
    t = case.get('type')
    if t == 'sky':
        adj, border = oracle(case['ra'], case['dec'], case['L'], case.get('band', BAND_REL))
        obs = run_real({'ra': case['ra'], 'dec': case['dec'], 'L': case['L'], 'cs': case['cs'],
                        'dt': case.get('dt', ['d', 'd']), 'lform': case.get('lform'), 'csform': case.get('csform')})
        rec = sg_record(len(case['ra']), adj, border, obs)
    elif t == 'cover':
        raw, obs = real_cover_case(case['n'], case['adj'], case['cover'], case.get('dtype', 'd'))
        print('friendsoffriends returned:', raw)
        rec = sg_record(case['n'], case['adj'], [], obs)
    elif t == 'groups':
        try:
            obs = real_groups(case['n'], {frozenset(p) for p in case['adj']})
        except Exception as ex:
            obs = {'exc': '%s: %s' % (type(ex).__name__, str(ex)[:120])}
        rec = groups_record(case['n'], case['adj'], obs)
    else:
        raise core.MachineryError('unknown replay case type %r' % t)
    print('replayed %s case; observed: %s' % (t, obs))
    bad = core.validate_records(ctx, 'Trace_FoF', [rec])
    ctx.evaluated(1)
    ctx.validated(1)
    if bad:
        print('TLC verdict:', bad[0])
        ctx.violation(dict(case, why=bad[0], observed=obs))
    else:
        print('TLC verdict: accepted')
