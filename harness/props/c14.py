"""C14 - IDL built-in replacements smooth / median / uniq / rebin.

Spec: spec/IdlBuiltins.tla (exact rationals, spec/Rat.tla); MC: mc/MC_IdlBuiltins; Trace: trace/Trace_IdlBuiltins.

spec -> code: every call state of MC_IdlBuiltins (call + specified outcome) is executed on the real functions.
code -> spec: seeded random / adversarial calls of the real functions are recorded (arguments and result as
exact rationals) and judged by TLC with the same operators (Trace_IdlBuiltins).
Python only concretises (ints -> numpy arrays of a dtype) and abstracts (floats -> nearby small rationals).
"""
import copy
import json
import os
import random
import re
from fractions import Fraction

import numpy as np

from .. import core, tlaval

FLOAT_TOL = {'f8': 1e-12, 'f4': 2e-6}
NP = {'f8': np.float64, 'f4': np.float32, 'i8': np.int64, 'i4': np.int32, 'i2': np.int16, 'u1': np.uint8,
      'u2': np.uint16, 'i1': np.int8, 'bool': np.bool_}
# integer grids: an enumerated array over {0,1,2,5} is scaled by K so that the small integer types are used over their whole
# range (laws SmoothScales / MedianScales / RunMed*Scales / RebinScales of the spec: the specified result scales with K)
INT_SCALE = {'u1': 50, 'u2': 13000, 'i2': 6000}
REBIN_SCALE = {'u2': 300, 'i2': 150}
# argument forms (spec: ScalarForms, DimsForms; law FormIndependent)
WFORMS = ['int', 'np.int64', 'np.int32', 'np.int16', 'np.uint8']
DFORMS = ['tuple of int', 'tuple of np.int64', 'tuple of np.int32', 'tuple of np.int16', '1-d ndarray', 'list']
IDXDT = ['i8', 'i4', 'i2', 'i1', 'u1', 'u2']
_SCAL = {'int': int, 'np.int64': np.int64, 'np.int32': np.int32, 'np.int16': np.int16, 'np.uint8': np.uint8}


def scalar_form(w, form):
    return _SCAL[WFORMS[form % len(WFORMS)]](w)


def dims_form(d, form):
    k = DFORMS[form % len(DFORMS)]
    if k == 'tuple of int':
        return tuple(int(v) for v in d)
    if k == '1-d ndarray':
        return np.array(d, dtype=np.int64)
    if k == 'list':
        return [int(v) for v in d]
    return tuple(_SCAL[k[len('tuple of '):]](v) for v in d)
MAX_VIOL_PER_FN = 25


# ----------------------------------------------------------------------------------------------
# fast reader for the TLC dump (the generic tlaval parser manages ~4k states/s; a million states)
# ----------------------------------------------------------------------------------------------
_FIELD = re.compile(r'([A-Za-z_]\w*) \|->')


def _fast_value(text):
    """TLC prints records, tuples, integers, strings and booleans here: rewrite to JSON (tuples become lists)."""
    t = _FIELD.sub(r'"\1":', text).replace('[', '{').replace(']', '}')
    t = t.replace('<<', '[').replace('>>', ']').replace('TRUE', 'true').replace('FALSE', 'false')
    return json.loads(t)


def _listify(v):
    if isinstance(v, dict):
        return {k: _listify(x) for k, x in v.items()}
    if isinstance(v, (tuple, list)):
        return [_listify(x) for x in v]
    return v


def fast_states(r, selfcheck=150):
    """Yield {var: value} per dumped state.  The first `selfcheck` states are also parsed with the
    generic parser (harness/tlaval.py) and must agree, otherwise MachineryError."""
    path = r.get('dump')
    if not path:
        raise core.MachineryError('TLC wrote no dump')
    n = 0

    def parse(block):
        nonlocal n
        st = {}
        for conj in block.split('\n/\\ '):
            conj = conj.strip()
            if conj.startswith('/\\ '):
                conj = conj[3:]
            if not conj:
                continue
            name, _, val = conj.partition(' = ')
            st[name.strip()] = _fast_value(val)
        n += 1
        if n <= selfcheck or n % 5003 == 0:
            ref = {}
            for conj in block.split('\n/\\ '):
                conj = conj.strip()
                if conj.startswith('/\\ '):
                    conj = conj[3:]
                if conj:
                    name, _, val = conj.partition(' = ')
                    ref[name.strip()] = tlaval.parse_value(val)
            if _listify(ref) != st:
                raise core.MachineryError('fast dump reader disagrees with tlaval on state %d' % n)
        return st

    buf = []
    with open(path) as fh:
        for line in fh:
            if line.startswith('State '):
                if buf:
                    yield parse(''.join(buf))
                buf = []
            elif line.strip():
                buf.append(line)
    if buf:
        yield parse(''.join(buf))


# ----------------------------------------------------------------------------------------------
# concretise a spec call, execute it, abstract the result
# ----------------------------------------------------------------------------------------------
def execute(fn, arr, w, flag, d, form=0):
    """Run one call on the real code; `form` selects how the width / the dims / the index array are typed.
    Returns dict(err, exc, shape, dtype, vals) with vals a flat list."""
    import pydl
    try:
        if fn == 'smooth':
            wf = scalar_form(w, form)
            res = pydl.smooth(arr, wf, edge_truncate=flag) if flag else pydl.smooth(arr, wf)
        elif fn == 'median':
            res = pydl.median(arr, even=True) if flag else pydl.median(arr)
        elif fn in ('runmed1', 'runmed2'):
            res = pydl.median(arr, scalar_form(w, form))
        elif fn == 'uniq':
            res = pydl.uniq(arr)
        elif fn == 'uniqidx':
            res = pydl.uniq(arr, np.array(d, dtype=NP[IDXDT[form % len(IDXDT)]]))
        elif fn == 'rebin':
            df = dims_form(d, form)
            res = pydl.rebin(arr, df, sample=True) if flag else pydl.rebin(arr, df)
        else:
            raise core.MachineryError('unknown fn ' + fn)
    except ValueError as ex:
        return {'err': True, 'exc': 'ValueError', 'msg': str(ex)[:80], 'shape': (), 'dtype': '', 'vals': []}
    except core.MachineryError:
        raise
    except Exception as ex:       # any other exception is a wrong outcome
        return {'err': True, 'exc': type(ex).__name__, 'msg': str(ex)[:80], 'shape': (), 'dtype': '', 'vals': []}
    a = np.asarray(res)
    return {'err': False, 'exc': None, 'shape': tuple(int(k) for k in a.shape), 'dtype': a.dtype.str.lstrip('<>|=')
            if a.dtype.kind in 'fiu' else str(a.dtype), 'vals': a.ravel().tolist(), 'is_array': isinstance(res, np.ndarray)}


def concretise(c, dt, K=1):
    return np.array([K * v for v in c['x']], dtype=NP[dt]).reshape(tuple(c['shape']))


def judge(c, exp, obs, dt, K=1):
    """Compare an observed outcome with the outcome TLC specified (for the array scaled by K: K times that).
    Returns None or a short reason."""
    fn = c['fn']
    if exp['err']:
        if obs['exc'] == 'ValueError':
            return None
        return 'expected ValueError, got ' + (obs['exc'] or 'a result of shape %r' % (obs['shape'],))
    if obs['err']:
        return 'raised %s (%s)' % (obs['exc'], obs.get('msg'))
    if tuple(exp['shape']) != tuple(obs['shape']):
        return 'shape %r, specified %r' % (obs['shape'], tuple(exp['shape']))
    if fn in ('uniq', 'uniqidx'):
        if not obs['is_array'] or obs['dtype'][0] not in 'iu':
            return 'result is not an integer array (%s)' % obs['dtype']
        got = [[int(v), 1] for v in obs['vals']]
        if got != [list(v) for v in exp['val']] and got != [list(v) for v in exp['alt']]:
            return 'subscripts %r' % ([v for v, _ in got],)
        return None
    if fn == 'rebin' and obs['dtype'] != dt:
        return 'dtype %s, input dtype %s' % (obs['dtype'], dt)
    vals = obs['vals']
    if obs['dtype'] in FLOAT_TOL:                   # a float result: the exact rational up to rounding error
        tol = FLOAT_TOL[dt] if dt in FLOAT_TOL else FLOAT_TOL[obs['dtype']]
        for k, (num, den) in enumerate(exp['val']):
            e = K * num / den
            if not abs(vals[k] - e) <= tol * max(1.0, abs(e)):
                return 'element %d is %r, specified %d/%d' % (k, vals[k], K * num, den)
        return None
    # an integer (or bool) result.  Selections (medians, SAMPLE) are exact.  smooth / rebin of integer data return the
    # input type, the exact value is not representable: any rounding is accepted (spec: IntegerResultOK), i.e. at
    # most 1 away per resampled axis
    slack = 0
    if fn == 'smooth':
        slack = 1
    elif fn == 'rebin' and not c['flag']:
        slack = max(1, sum(1 for a, b2 in zip(c['shape'], c['d']) if a != b2))
    for k, (num, den) in enumerate(exp['val']):
        diff = abs(int(vals[k]) * den - K * num)
        if (diff > slack * den) if slack else (diff != 0):
            return 'element %d is %r, specified %d/%d%s' % (k, vals[k], K * num, den,
                                                            ' (any rounding accepted)' if slack else '')
    return None


def classify(c, exp, obs, dt='f8', K=1):
    """Name the known deviation that explains a mismatch (spec: Dev_* operators)."""
    if exp['err'] or obs['err']:
        return None
    if c['fn'] == 'smooth' and c['flag'] and dt in ('u1', 'u2', 'i2', 'i1') and len(obs['vals']) == len(c['x']):
        n, h = len(c['x']), (c['w'] + 1 if c['w'] % 2 == 0 else c['w']) // 2
        wrong = [k for k, (num, den) in enumerate(exp['val']) if abs(int(obs['vals'][k]) * den - K * num) > den]
        if wrong and all(k < h or k > n - 1 - h for k in wrong):
            return 'D-C14-2'
    if c['fn'] == 'rebin' and not c['flag'] and dt in ('u1', 'u2', 'i2', 'i1') and any(b2 > a for a, b2 in zip(c['shape'], c['d'])):
        return 'D-C14-3'
    if c['fn'] != 'rebin' or not c['flag'] or len(c['shape']) != 1:
        return None
    d0, d = c['shape'][0], c['d'][0]
    if d <= d0 or tuple(obs['shape']) != (d,):
        return None
    x = [K * v for v in c['x']]
    for i in range(d):
        fp = (i * d0) // d
        if obs['vals'][i] == x[fp]:
            continue
        if (i * d0) % d == 0 and fp >= 1 and obs['vals'][i] == x[fp - 1]:
            continue
        return None
    return 'D-C14-1'


def is_nontrivial(c, exp):
    fn = c['fn']
    const = len(set(c['x'])) <= 1
    if fn == 'smooth':
        return not const and c['w'] >= 2
    if fn == 'median':
        return not const
    if fn in ('runmed1', 'runmed2'):
        return not const and c['w'] >= 3
    if fn in ('uniq', 'uniqidx'):
        return True
    return exp['err'] or tuple(c['d']) != tuple(c['shape'])


def dtypes_for(c, n, quick=True):
    """The (dtype, scale) pairs one spec call is concretised with (the spec does not depend on the dtype)."""
    fn = c['fn']
    small = max(c['x']) <= 1
    if fn in ('uniq', 'uniqidx'):
        return (('i8', 1), ('f8', 1), ((('u1', 'u2', 'i2', 'i4', 'bool') if small else ('u1', 'u2', 'i2', 'i4', 'u1'))[n % 5], 1))
    if fn == 'rebin':
        dt = ('f4', 'i4', 'u1', 'i2', 'i8', 'u2', 'bool')[n % 7]
        if dt == 'bool' and not (small and c['flag']):
            dt = 'u1'
        return (('f8', 1), (dt, REBIN_SCALE.get(dt, 1)))
    if fn == 'runmed2' and not quick and n % 3:
        return (('f8', 1),)
    dt = ('f4', 'i8', 'i4', 'i2', 'u2', 'u1')[n % 6]
    return (('f8', 1), (dt, INT_SCALE.get(dt, 1)))


class Reporter:
    def __init__(self, ctx):
        self.ctx = ctx
        self.per_fn = {}
        self.suppressed = 0

    def report(self, what, case, finding=None):
        fn = case['call']['fn'] + ('/recorded' if 'record' in case else '/dynamic' if case.get('dyn') else '')
        k = self.per_fn.get(fn, 0)
        self.per_fn[fn] = k + 1
        if k >= MAX_VIOL_PER_FN:
            self.suppressed += 1
            return
        case = dict(case, what=what)
        self.ctx.violation(case, finding=finding)


def call_text(c, dt, K=1, form=0):
    fn = c['fn']
    arr = 'np.array(%r, dtype=%r).reshape(%r)' % ([K * v for v in c['x']], dt, tuple(c['shape']))
    wf = WFORMS[form % len(WFORMS)]
    wtxt = '%d' % c['w'] if wf == 'int' else '%s(%d)' % (wf, c['w'])
    if fn == 'smooth':
        return 'smooth(%s, %s, edge_truncate=%r)' % (arr, wtxt, c['flag'])
    if fn == 'median':
        return 'median(%s, even=%r)' % (arr, c['flag'])
    if fn in ('runmed1', 'runmed2'):
        return 'median(%s, %s)' % (arr, wtxt)
    if fn == 'uniq':
        return 'uniq(%s)' % arr
    if fn == 'uniqidx':
        return 'uniq(%s, np.array(%r, dtype=%r))' % (arr, list(c['d']), IDXDT[form % len(IDXDT)])
    return 'rebin(%s, %r [as %s], sample=%r)' % (arr, tuple(c['d']), DFORMS[form % len(DFORMS)], c['flag'])


def check_case(c, exp, dt, transpose=False, K=1, form=0):
    """Execute one spec call with dtype dt (values scaled by K, scalar arguments in form `form`);
    returns (reason or None, obs)."""
    arr = concretise(c, dt, K)
    if transpose:                                   # law RunMed2Transposes (checked by TLC)
        obs = execute(c['fn'], np.ascontiguousarray(arr.T), c['w'], c['flag'], c['d'], form)
        if not obs['err'] and tuple(obs['shape']) == (c['shape'][1], c['shape'][0]):
            back = np.array(obs['vals']).reshape(obs['shape']).T
            obs = dict(obs, shape=tuple(c['shape']), vals=back.ravel().tolist())
    else:
        obs = execute(c['fn'], arr, c['w'], c['flag'], c['d'], form)
    return judge(c, exp, obs, dt, K), obs


def brief(obs):
    o = dict(obs)
    if len(o.get('vals', [])) > 24:
        o['vals'] = o['vals'][:24] + ['...']
    return o


# ----------------------------------------------------------------------------------------------
# code -> spec: recorded calls
# ----------------------------------------------------------------------------------------------
def to_rat(v, tol):
    """Abstract a float: the nearby rational with a small denominator, and whether it is (numerically) that value."""
    f = Fraction(v).limit_denominator(20000)
    exact = abs(float(f) - v) <= tol * max(1.0, abs(v))
    return [f.numerator, f.denominator], exact


def quarter(k):
    f = Fraction(k, 4)
    return [f.numerator, f.denominator]


def record_call(fn, xq, shape, w, flag, d, dt='f8', check_val=True, form=0):
    """xq: input values in quarters (ints k meaning k/4; for integer dtypes k must be a multiple of 4)."""
    arr = np.array([k / 4 for k in xq], dtype=NP[dt]).reshape(tuple(shape))
    obs = execute(fn, arr, w, flag, d, form)
    exact = True
    val = []
    if not obs['err']:
        if fn in ('uniq', 'uniqidx'):
            val = [[int(v), 1] for v in obs['vals']]
            exact = obs['is_array'] and obs['dtype'][0] in 'iu'
        else:
            for v in obs['vals']:
                q, e = to_rat(float(v), 1e-5 if 'f4' in (dt, obs['dtype']) else 1e-11)
                val.append(q)
                exact = exact and e
    return {'fn': fn, 'x': [quarter(k) for k in xq], 'shape': list(shape), 'w': w, 'flag': bool(flag), 'd': list(d),
            'dt_in': dt, 'dt_out': obs['dtype'], 'check_val': bool(check_val), 'exact': bool(exact), 'form': form,
            'int_out': bool(not obs['err'] and obs['dtype'] not in FLOAT_TOL),
            'ret': {'err': obs['err'], 'exc': obs['exc'] or '', 'shape': list(obs['shape']), 'val': val}}


def random_records(ctx, rng, count):
    recs = []
    fns = ['smooth', 'median', 'runmed1', 'runmed2', 'uniq', 'uniqidx', 'rebin', 'rebin', 'rebinfloor']

    def values(n, spread=40, repeats=False):
        if repeats:
            pool = [rng.randint(-spread, spread) for _ in range(rng.randint(1, 4))]
            return [rng.choice(pool) for _ in range(n)]
        return [rng.randint(-spread, spread) for _ in range(n)]

    RANGE = {'u1': (0, 255), 'u2': (0, 65535), 'i2': (-32768, 32767), 'i4': (-100000, 100000), 'i8': (-100000, 100000),
             'bool': (0, 1)}

    def typed(n, repeats=False, sort=False, dts=('i8', 'i4', 'i2', 'u2', 'u1'), pfloat=0.55):
        """(dtype, values in quarters): float64 data k/4, or integer data over the whole range of an integer dtype"""
        if rng.random() < pfloat:
            v = values(n, repeats=repeats)
            return 'f8', (sorted(v) if sort else v)
        dt = rng.choice(dts)
        lo, hi = RANGE[dt]
        if repeats:
            pool = [rng.randint(lo, hi) for _ in range(rng.randint(1, 4))]
            v = [rng.choice(pool) for _ in range(n)]
        else:
            v = [rng.choice([lo, hi, rng.randint(lo, hi), rng.randint(lo, hi)]) for _ in range(n)]
        return dt, [4 * q for q in (sorted(v) if sort else v)]

    for k in range(count):
        fn = fns[k % len(fns)]
        form = rng.randrange(42)
        if fn == 'smooth':
            n = rng.randint(1, 24)
            w = rng.randint(0, n) if rng.random() < 0.7 else max(0, n - rng.choice([0, 0, 1]))     # any requested width <= n
            dt, x = typed(n, repeats=rng.random() < 0.2)
            recs.append(record_call(fn, x, [n], w, rng.random() < 0.5, [], dt=dt, form=form))
        elif fn == 'median':
            if rng.random() < 0.7:
                shape = [rng.randint(1, 20)]
            else:
                shape = [rng.randint(1, 5), rng.randint(1, 5)]
            n = int(np.prod(shape))
            dt, x = typed(n, repeats=rng.random() < 0.5)
            recs.append(record_call(fn, x, shape, 0, rng.random() < 0.5, [], dt=dt))
        elif fn == 'runmed1':
            n = rng.randint(1, 20)
            w = rng.choice([v for v in range(1, n + 1, 2)])
            dt, x = typed(n, repeats=rng.random() < 0.4)
            recs.append(record_call(fn, x, [n], w, False, [], dt=dt, form=form))
        elif fn == 'runmed2':
            shape = [rng.randint(1, 7), rng.randint(1, 7)]
            w = rng.choice([v for v in range(1, min(shape) + 1, 2)])
            dt, x = typed(shape[0] * shape[1], repeats=rng.random() < 0.4)
            recs.append(record_call(fn, x, shape, w, False, [], dt=dt, form=form))
        elif fn == 'uniq':
            n = rng.randint(1, 20)
            if rng.random() < 0.5:
                dt = rng.choice(['i8', 'f8', 'i4'])
                x = sorted(values(n, spread=10, repeats=rng.random() < 0.7))
                if dt != 'f8':
                    x = [4 * v for v in x]
            else:
                dt, x = typed(n, repeats=rng.random() < 0.8, sort=True, dts=('u1', 'u2', 'i2', 'bool', 'i8'), pfloat=0)
            recs.append(record_call(fn, x, [n], 0, False, [], dt=dt))
        elif fn == 'uniqidx':
            n = rng.randint(1, 14)
            if rng.random() < 0.5:
                dt = rng.choice(['i8', 'f8'])
                x = values(n, spread=10, repeats=rng.random() < 0.8)
                if dt != 'f8':
                    x = [4 * v for v in x]
            else:
                dt, x = typed(n, repeats=rng.random() < 0.8, dts=('u1', 'u2', 'i2', 'bool', 'i4'), pfloat=0)
            order = list(range(n))
            rng.shuffle(order)                       # random tie-breaking
            order.sort(key=lambda j: x[j])
            recs.append(record_call(fn, x, [n], 0, False, order, dt=dt, form=form))
        elif fn == 'rebin':
            rank = rng.randint(1, 3)
            shape, d = [], []
            for _ in range(rank):
                d0 = rng.randint(1, 8 if rank < 3 else 5)
                p = rng.random()
                if p < 0.25:
                    t = d0
                elif p < 0.55:
                    t = d0 * rng.randint(2, 5 if rank > 1 else 12)
                elif p < 0.9:
                    t = rng.choice([v for v in range(1, d0 + 1) if d0 % v == 0])
                else:
                    t = rng.randint(1, 3 * d0)       # usually not a multiple / factor
                shape.append(d0)
                d.append(t)
            if rng.random() < 0.06:
                d = d[:-1] if (len(d) > 1 and rng.random() < 0.5) else d + [rng.randint(1, 3)]
            if int(np.prod(d)) > 600:
                d = list(shape)
            sample = rng.random() < 0.5
            n = int(np.prod(shape))
            if rng.random() < 0.1:
                dt, x = 'f4', [4 * v for v in values(n)]
            else:
                dt, x = typed(n, dts=('i8', 'i4', 'i2', 'u2', 'u1', 'u1', 'bool') if sample else ('i8', 'i4', 'i2', 'u2', 'u1', 'u1'),
                              pfloat=0.5)
            recs.append(record_call('rebin', x, shape, 0, sample, d, dt=dt, check_val=(dt != 'f4' or sample), form=form))
        else:  # rebinfloor: large expansion factors, ramp input: the pick positions are visible
            d0 = rng.randint(2, 6)
            f = rng.choice([3, 7, 49, 98, 103, 107]) if rng.random() < 0.4 else rng.randint(2, 120)
            recs.append(record_call('rebin', [4 * v for v in range(d0)], [d0], 0, rng.random() < 0.7, [d0 * f], form=form,
                                    dt=rng.choice(['f8', 'f8', 'i4', 'u1'])))
    return recs


# ----------------------------------------------------------------------------------------------
# huge dynamic range (laws SmoothLinear / RebinLinear, SmoothSupport, RebinWeightsArePartition of the spec)
# ----------------------------------------------------------------------------------------------
HUGE = 2 ** 60          # every entry of the concrete array is either HUGE * (small int) or a small int: exact in float64


def flat(exp):
    return tuple(v for pair in exp['val'] for v in pair)


def check_dyn(fn, xs, shape, w, flag, d, want, tol):
    """xs: exact integer entries; want: [(num, den)] (Python ints); tol: absolute tolerance per element."""
    arr = np.array([float(v) for v in xs], dtype=np.float64).reshape(tuple(shape))
    obs = execute(fn, arr, w, flag, d)
    if obs['err']:
        return 'raised %s (%s)' % (obs['exc'], obs.get('msg')), obs
    if len(obs['vals']) != len(want):
        return 'shape %r, %d elements specified' % (obs['shape'], len(want)), obs
    for k, (num, den) in enumerate(want):
        e = num / den
        if not abs(obs['vals'][k] - e) <= tol[k]:
            return 'element %d is %r, specified %r (+-%.1e): the huge sample is outside its reach' % (k, obs['vals'][k], e, tol[k]) \
                if tol[k] < 1 else 'element %d is %r, specified %r (+-%.1e)' % (k, obs['vals'][k], e, tol[k]), obs
    return None, obs


def combine(coef, eb, es):
    """coef * (result of b) + (result of s), exactly, and the tolerance: 1e-11 of the huge part, 1e-12 of the small part."""
    want, tol = [], []
    for k in range(0, len(es), 2):
        nb, db, ns, ds = eb[k], eb[k + 1], es[k], es[k + 1]
        want.append((coef * nb * ds + ns * db, db * ds))
        tol.append(1e-11 * abs(coef) * nb / db + 1e-12 * max(1.0, abs(ns / ds)))
    return want, tol


def dynamic_range(ctx, rep, smooth_tab, rebin_pat, delta_tab):
    done = 0
    for key in sorted(smooth_tab):
        n, w, flag = key
        tab = smooth_tab[key]
        for sx in sorted(tab):
            h = hash((ctx.seed, key, sx))
            if not ctx.quick and h % 3:
                continue
            rng = random.Random(h)
            b = [0] * n
            for pos in rng.sample(range(n), min(n, rng.choice([1, 1, 2]))):
                b[pos] = rng.choice([1, 2, 5])
            b = tuple(b)
            s2 = tuple(0 if b[j] else sx[j] for j in range(n))
            if b not in tab or s2 not in tab or not any(s2):
                continue
            coef = HUGE if rng.random() < 0.7 else -HUGE
            xs = [coef * b[j] + s2[j] for j in range(n)]
            want, tol = combine(coef, tab[b], tab[s2])
            why, obs = check_dyn('smooth', xs, (n,), w, flag, (), want, tol)
            done += 1
            ctx.nontriv(hash(('dyn', key, b, s2, coef)))
            if done % 3000 == 5:
                ctx.sample({'dynamic_range_call': 'smooth(%r, %d, edge_truncate=%r)' % (xs, w, flag),
                            'specified': ['%d/%d' % v for v in want], 'observed': obs['vals']}, limit=7)
            if why:
                rep.report('smooth(np.array(%r, dtype=float), %d, edge_truncate=%r): %s' % (xs, w, flag, why),
                           {'call': {'fn': 'smooth', 'x': xs, 'shape': [n], 'w': w, 'flag': flag, 'd': []}, 'dyn': True,
                            'want': want, 'tol': tol, 'huge_part': list(b), 'small_part': list(s2), 'why': why})
    ctx.evaluated(done, 'smooth-dynamic-range')
    ctx.validated(done)
    done = 0
    for key in sorted(rebin_pat):
        shape, d = key
        for x, es in rebin_pat[key]:
            for p, ed in sorted(delta_tab.get(key, {}).items()):
                for sign in (1, -1):
                    xs = list(x)
                    xs[p] = sign * HUGE
                    if not any(v for j, v in enumerate(x) if j != p):
                        continue
                    want, tol = combine(sign * HUGE - x[p], ed, es)
                    why, obs = check_dyn('rebin', xs, shape, 0, False, d, want, tol)
                    done += 1
                    ctx.nontriv(hash(('dyn', key, x, p, sign)))
                    if why:
                        rep.report('rebin(np.array(%r, dtype=float).reshape(%r), %r): %s' % (xs, shape, d, why),
                                   {'call': {'fn': 'rebin', 'x': xs, 'shape': list(shape), 'w': 0, 'flag': False, 'd': list(d)},
                                    'dyn': True, 'want': want, 'tol': tol, 'why': why})
    ctx.evaluated(done, 'rebin-dynamic-range')
    ctx.validated(done)


def split_huge(v):
    """Abstract a float result of a huge-dynamic-range call: v = HUGE * vb + vs with vb, vs nearby small rationals."""
    fv = Fraction(v)
    vb = (fv / HUGE).limit_denominator(20000)
    okb = abs(fv / HUGE - vb) <= Fraction(1, 10 ** 11) * max(1, abs(vb))
    rest = fv - HUGE * vb
    if abs(rest) < 2 ** 20:
        q, oks = to_rat(float(rest), 1e-11)
    else:
        q, oks = [0, 1], False
    return [vb.numerator, vb.denominator], bool(okb), q, bool(oks)


def record_dyn(of, sq, bq, shape, w, flag, d):
    """x = HUGE * b + s/4 with s = 0 wherever b # 0 (every entry exact); the result is recorded as its two parts."""
    xs = [HUGE * b + Fraction(q, 4) for q, b in zip(sq, bq)]
    arr = np.array([float(v) for v in xs], dtype=np.float64).reshape(tuple(shape))
    assert all(Fraction(float(v)) == v for v in xs)
    obs = execute(of, arr, w, flag, d)
    val, valb, ex, exb = [], [], [], []
    if not obs['err']:
        for v in obs['vals']:
            qb, okb, qs, oks = split_huge(float(v))
            valb.append(qb); exb.append(okb); val.append(qs); ex.append(oks)
    return {'fn': 'dyn', 'of': of, 'x': [quarter(q) for q in sq], 'xb': [[int(b), 1] for b in bq], 'shape': list(shape), 'w': w,
            'flag': bool(flag), 'd': list(d), 'dt_in': 'f8', 'dt_out': obs['dtype'], 'check_val': True, 'exact': True,
            'ret': {'err': obs['err'], 'exc': obs['exc'] or '', 'shape': list(obs['shape']), 'val': val, 'valb': valb,
                    'ex': ex, 'exb': exb}}


def random_dyn_records(rng, count):
    recs = []
    for k in range(count):
        if k % 3 < 2:
            n = rng.randint(3, 20)
            w = rng.randint(2, n) if rng.random() < 0.8 else n
            bq = [0] * n
            for pos in rng.sample(range(n), rng.choice([1, 1, 2])):
                bq[pos] = rng.choice([-5, -1, 1, 2, 3, 5])
            sq = [0 if bq[j] else rng.randint(-40, 40) for j in range(n)]
            recs.append(record_dyn('smooth', sq, bq, [n], w, rng.random() < 0.5, []))
        else:
            rank = rng.randint(1, 2)
            shape, d = [], []
            for _ in range(rank):
                d0 = rng.randint(1, 8 if rank == 1 else 6)
                p = rng.random()
                if p < 0.2:
                    t = d0
                elif p < 0.5:
                    t = d0 * rng.randint(2, 4)
                else:
                    t = rng.choice([v for v in range(1, d0 + 1) if d0 % v == 0])
                shape.append(d0)
                d.append(t)
            n = int(np.prod(shape))
            bq = [0] * n
            bq[rng.randrange(n)] = rng.choice([-3, -1, 1, 2])
            sq = [0 if bq[j] else rng.randint(-40, 40) for j in range(n)]
            recs.append(record_dyn('rebin', sq, bq, shape, 0, rng.random() < 0.25, d))
    return recs


def trace_direction(ctx, rep):
    rng = random.Random(ctx.seed)
    recs = random_records(ctx, rng, 2000 if ctx.quick else 9000)
    recs += random_dyn_records(rng, 400 if ctx.quick else 2500)
    bad = core.validate_records(ctx, 'Trace_IdlBuiltins', recs, chunk=3000)
    ctx.evaluated(len(recs), 'recorded')
    ctx.validated(len(recs))
    for k, rec in enumerate(recs):
        if not rec['ret']['err'] or rec['ret']['exc'] == 'ValueError':
            ctx.nontriv(hash(('rec', rec['fn'], repr(rec['x']), repr(rec.get('xb')), tuple(rec['shape']), rec['w'], rec['flag'],
                              tuple(rec['d']))))
    seen = set()
    for k in sorted(bad):
        rec = recs[k]
        why = bad[k]
        if why == 'undefined':
            raise core.MachineryError('harness recorded a call outside the specified family: %r' % rec)
        key = json.dumps([rec.get(f) for f in ('fn', 'of', 'x', 'xb', 'shape', 'w', 'flag', 'd', 'dt_in')])
        if key in seen:
            continue
        seen.add(key)
        if rec['fn'] == 'dyn':
            c = {'fn': rec['of'], 'x': [HUGE * b[0] + a / q for (a, q), b in zip(rec['x'], rec['xb'])], 'shape': rec['shape'],
                 'w': rec['w'], 'flag': rec['flag'], 'd': rec['d']}
        else:
            c = {'fn': rec['fn'], 'x': [a // b if rec['dt_in'] not in FLOAT_TOL else a / b for a, b in rec['x']],
                 'shape': rec['shape'], 'w': rec['w'], 'flag': rec['flag'], 'd': rec['d']}
        finding = 'D-C14-1' if why.startswith('D-C14-1') else None
        if rec['fn'] == 'smooth' and rec['flag'] and rec['dt_in'] in ('u1', 'u2', 'i2') and why.startswith('value'):
            finding = 'D-C14-2'
        if rec['fn'] == 'rebin' and not rec['flag'] and rec['dt_in'] in ('u1', 'u2', 'i2') and why.startswith('value'):
            finding = 'D-C14-3'
        rep.report('recorded call rejected by Trace_IdlBuiltins: %s: %s' % (call_text(c, rec['dt_in'], 1, rec.get('form', 0))[:200], why),
                   {'call': {'fn': rec.get('of', rec['fn'])}, 'record': rec, 'why': why}, finding=finding)
    ctx.sample({'recorded_call': {k: (v if k not in ('x',) else v[:8]) for k, v in recs[0].items()}})
    # ---- binding self-test: falsified observations must be rejected by the same judge -------------------------------
    fals = []
    kinds = {}
    for k, rec in enumerate(recs):
        if k in bad or len(fals) >= 280:
            continue
        r2 = copy.deepcopy(rec)
        ret = r2['ret']
        m = k % 5
        if ret['err']:                                   # a rejected call reported as accepted
            what = 'error_dropped'
            ret.update(err=False, exc='', shape=[1], val=[[0, 1]])
            r2.update(dt_out=r2['dt_in'], int_out=False)
            if rec['fn'] == 'dyn':
                continue
        elif rec['fn'] == 'dyn':
            what = 'dyn_huge_part'
            j = k % len(ret['valb'])
            ret['valb'][j] = [ret['valb'][j][0] + ret['valb'][j][1], ret['valb'][j][1]]
        elif m == 0 or not ret['val']:
            what = 'accepted_reported_as_error'
            ret.update(err=True, exc='ValueError', shape=[], val=[])
        elif m == 1:
            what = 'shape'
            ret['shape'] = [len(ret['val']) + 1]
            ret['val'] = ret['val'] + [ret['val'][-1]]
        elif m == 2 and rec['fn'] == 'rebin':
            what = 'dtype'
            r2['dt_out'] = 'f4' if rec['dt_out'] != 'f4' else 'f8'
        elif not rec['check_val']:
            continue
        else:                                            # one element moved beyond every tolerance / rounding slack
            what = 'value'
            j = (k * 7) % len(ret['val'])
            step = 7 if rec['int_out'] else (len(rec['x']) + 5 if rec['fn'] in ('uniq', 'uniqidx') else 1)
            ret['val'][j] = [ret['val'][j][0] + step * ret['val'][j][1], ret['val'][j][1]]
        kinds[what] = kinds.get(what, 0) + 1
        fals.append(r2)
    core.binding_selftest(ctx, 'Trace_IdlBuiltins', fals, 'recorded_calls')
    ctx.cov['parts']['selftest_recorded_calls']['by_falsified_field'] = kinds


# ----------------------------------------------------------------------------------------------
def run(ctx):
    ctx.level = 'model_checking'
    ctx.rule = ('every call state of MC_IdlBuiltins is one call (function, array, shape, width/flag/target) with the outcome '
                'specified by IdlBuiltins.tla, executed on the real function (float64 always, float32/integer dtypes in '
                'rotation; 2-D running medians also transposed); non-trivial = distinct calls whose specified result is not '
                'trivially the input (non-constant array and width >= 3 for filters, a changed or rejected shape for rebin, '
                'every uniq call); dynamic-range calls = two enumerated smooth/rebin cases b, s combined as 2^60*b + s, expected value '
                '2^60*spec(b) + spec(s) by the TLC-checked linearity laws; recorded calls = seeded random calls (incl. '
                'huge-dynamic-range ones, result split into its 2^60 part and its small part) judged by Trace_IdlBuiltins')
    ctx.assumptions = [
        'floats are compared with the exact rational results up to 1e-12 relative (float64) / 2e-6 (float32)',
        'smooth: every requested width 0..n (made odd afterwards, effective width up to n+1); medians: odd widths not exceeding the smallest dimension',
        'array dtype is a dimension of the case space: every call also runs with float32 / int64 / int32 / int16 / uint16 / uint8 / '
        'bool data as the values fit (integer grids = the enumerated array times K, laws *Scales); widths, dims and index arrays '
        'as Python ints, numpy integer scalars of several widths, 1-d integer arrays, lists (law FormIndependent); 0-d ARRAYS as '
        'width / dimension are not integers (numbers.Integral) and are outside the statement: an implementation may reject them '
        '(archived benign change C14-b6 does)',
        'integer results of smooth / rebin (pydl returns the input type): any rounding accepted, i.e. at most 1 away from the '
        'exact value per resampled axis (IntegerResultOK); selections (medians, sample=True, uniq) exact; wrap-around is a violation',
        'rebin of INTEGER data, order of the per-axis steps: not asserted.  Over exact arithmetic the per-axis maps commute (TLC '
        'law RebinAxesCommute), so the statement fixes one exact value E whatever the order; the order only shows through the '
        'rounding of the integer intermediates, which the statement leaves open (pydl documents integer results as not IDL '
        'compatible, upstream #60, xfail test).  Every step is a convex combination of the previous values plus one truncation, '
        'so ANY order stays within |result - E| <= number of resampled axes, exactly what IntegerResultOK admits: measured over '
        '58888 random int16/int32/int64/uint8/uint16 calls of rank 2-3 with mixed expand/shrink axes, dims up to 8 -> 48 and full-'
        'range values, axis order 0,1,2 deviates from E by at most 0.9999/1.9999/2.6806 for 1/2/3 resampled axes and the '
        'shrink-first order (seeded C14-8, C14-11) by exactly the same maxima; the two orders differ from each other by up to 2',
        'smooth / median: the statement quantifies over float arrays; the same VALUES typed as integers are taken to be in its '
        'domain (pydl documents "same type as signal"), with the rounding of integer results left open as above',
        'dims given as 8/16-bit numpy integers whose products overflow that type raise OverflowError in numpy 2 (a clear '
        'exception, not exercised); bool data only for uniq and rebin(sample=True) (no arithmetic defined on them)',
        'dynamic range: elements whose reach contains a 2^60-sized sample are held to 1e-11 of that size, all others to '
        '1e-12 relative to their own value; a small window next to a huge sample must not lose precision',
        'uniq(x, index) on a constant array: both index[n-1] (statement) and n-1 (IDL source) are accepted',
        'abstraction in the recorded direction: float -> Fraction.limit_denominator(20000), flagged inexact if further than 1e-11',
    ]
    rep = Reporter(ctx)
    cfg = 'MC_IdlBuiltins_quick.cfg' if ctx.quick else 'MC_IdlBuiltins_thorough.cfg'
    r = ctx.tlc('MC_IdlBuiltins.tla', cfg, dump=True, timeout=2400, jvm_props=('-Xss64m',))
    n = 0
    per = {}
    smooth_tab, rebin_pat, delta_tab = {}, {}, {}
    forms = {}
    for st in fast_states(r):
        c, exp = st['c'], st['exp']
        if c['fn'] in ('root', 'seed'):
            continue
        c['x'], c['shape'], c['d'] = tuple(c['x']), tuple(c['shape']), tuple(c['d'])
        n += 1
        per[c['fn']] = per.get(c['fn'], 0) + 1
        if is_nontrivial(c, exp):
            ctx.nontriv(hash((c['fn'], c['x'], c['shape'], c['w'], c['flag'], c['d'])))
        if c['fn'] == 'smooth' and c['w'] >= 2:
            smooth_tab.setdefault((len(c['x']), c['w'], c['flag']), {})[c['x']] = flat(exp)
        elif c['fn'] == 'rebin' and not c['flag'] and not exp['err'] and c['d'] != c['shape']:
            if sorted(c['x'])[-2:] == [0, 1] or c['x'] == (1,):
                delta_tab.setdefault((c['shape'], c['d']), {})[c['x'].index(1)] = flat(exp)
            else:
                rebin_pat.setdefault((c['shape'], c['d']), []).append((c['x'], flat(exp)))
        h = hash((c['x'], c['shape'], c['w'], c['d']))
        runs = [(dt, K, False) for dt, K in dtypes_for(c, h, ctx.quick)]
        if c['fn'] == 'runmed2':
            runs.append(('f8', 1, True))
        first_obs = None
        for j, (dt, K, tr) in enumerate(runs):
            form = (h // 7 + 3 * j) % 42 if j else h % 42      # width / dims / index array typed differently per run
            why, obs = check_case(c, exp, dt, transpose=tr, K=K, form=form)
            first_obs = first_obs or obs
            ctx.evaluated(1, c['fn'])
            ctx.validated()
            forms[dt] = forms.get(dt, 0) + 1
            if why:
                text = call_text(c, dt, K, form) + (' [called on the transposed image]' if tr else '')
                rep.report('%s: %s' % (text[:230], why),
                           {'call': c, 'dtype': dt, 'scale': K, 'form': form, 'transposed': tr, 'expected': exp,
                            'observed': brief(obs), 'why': why},
                           finding=classify(c, exp, obs, dt, K))
        if per[c['fn']] % 2000 == 7 and len(c['x']) <= 12:
            ctx.sample({'call': c, 'expected': exp, 'observed': brief(first_obs)}, limit=5)
    try:
        os.remove(r['dump'])
    except OSError:
        pass
    if n == 0:
        raise core.MachineryError('MC_IdlBuiltins produced no call states')
    dynamic_range(ctx, rep, smooth_tab, rebin_pat, delta_tab)
    trace_direction(ctx, rep)
    if rep.suppressed:
        print('(%d further failing cases not written as replay files)' % rep.suppressed)
    ctx.cov['calls_by_function'] = per
    ctx.cov['executions_by_array_dtype'] = forms
    ctx.exhaustive = not ctx.quick


def replay(ctx, case):
    """bin/check C14 --replay <file>: re-execute the single failing call of a replay file."""
    ctx.level = 'model_checking'
    ctx.rule = 'single replayed case'
    ctx.nontriv('a')
    ctx.nontriv('b')
    ctx.evaluated(1)
    if case.get('dyn'):
        c = case['call']
        why, obs = check_dyn(c['fn'], c['x'], c['shape'], c['w'], c['flag'], c['d'], [tuple(v) for v in case['want']], case['tol'])
        ctx.validated()
        print('replayed call: %s on %r' % (c['fn'], c['x']), '\nobserved:', brief(obs), '\nverdict:', why or 'conforms')
        if why:
            ctx.violation(dict(case, what=case.get('what', why)))
        return
    if 'record' in case and case['record']['fn'] == 'dyn':
        rec = case['record']
        new = record_dyn(rec['of'], [int(Fraction(a, b) * 4) for a, b in rec['x']], [b[0] for b in rec['xb']], rec['shape'],
                         rec['w'], rec['flag'], rec['d'])
        bad = core.validate_records(ctx, 'Trace_IdlBuiltins', [new])
        ctx.validated()
        print('replayed recorded huge-dynamic-range call of', rec['of'], '\nverdict:', bad.get(0, 'accepted'))
        if bad:
            ctx.violation(dict(case, what=case.get('what', 'recorded call rejected')))
        return
    if 'record' in case:
        rec = case['record']
        xq = [Fraction(a, b) * 4 for a, b in rec['x']]
        new = record_call(rec['fn'], [int(v) for v in xq], rec['shape'], rec['w'], rec['flag'], rec['d'], dt=rec['dt_in'],
                          check_val=rec['check_val'], form=rec.get('form', 0))
        bad = core.validate_records(ctx, 'Trace_IdlBuiltins', [new])
        ctx.validated()
        print('replayed recorded call:', call_text(dict(new, x=[a / b for a, b in new['x']]), new['dt_in']), '\nverdict:', bad.get(0, 'accepted'))
        if bad:
            ctx.violation(dict(case, what=case.get('what', 'recorded call rejected')))
        return
    c, exp = case['call'], case['expected']
    c = dict(c, x=tuple(c['x']), shape=tuple(c['shape']), d=tuple(c['d']))
    exp = dict(exp, val=[tuple(v) for v in exp['val']], alt=[tuple(v) for v in exp['alt']], shape=tuple(exp['shape']))
    K, form = case.get('scale', 1), case.get('form', 0)
    why, obs = check_case(c, exp, case.get('dtype', 'f8'), transpose=case.get('transposed', False), K=K, form=form)
    ctx.validated()
    print('replayed call:', call_text(c, case.get('dtype', 'f8'), K, form), '\nobserved:', brief(obs), '\nspecified (times %d):' % K, exp,
          '\nverdict:', why or 'conforms')
    if why:
        ctx.violation(dict(case, what=case.get('what', why)))
