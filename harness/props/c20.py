"""C20 - a failing pipeline call leaves the process environment as it found it.

Spec: spec/EnvProtocol.tla; MC: mc/MC_EnvProtocol (+ _dev negative control); Trace: trace/Trace_EnvProtocol.
Machinery (counting proxies, fault injection, event recording): harness/faults.py.

spec -> code: TLC runs the protocol for every variant x initial environment x point of failure; every
  terminal state is replayed into the real window_score / template_input with the same initial
  environment and the fault injected at the same collaborator call; the environment found afterwards
  must be the `env` of the TLC state (and no variable outside the model may differ).
code -> spec: the event list of every such run, plus seeded random runs (arbitrary values, random
  single faults, malformed real files), is judged by Trace_EnvProtocol.
"""
import os
import pickle
import random
import re
import time
from concurrent.futures import ThreadPoolExecutor

import numpy as np

from .. import core, faults

ABSENT = faults.ABSENT
W_VARS = ('PHOTO_CALIB', 'PHOTO_RESOLVE', 'VERIF_BYSTANDER')
T_VARS = ('RUN2D', 'RUN1D', 'VERIF_BYSTANDER')
FILE_VALS = {'RUN2D': 'v5_7_0', 'RUN1D': 'v5_7_1'}     # spec: FileRun2d, FileRun1d (checked against TLC states)
KINDS = ('OSError', 'KeyError', 'ValueError')
FINDING = {'window_score': 'D-C20-1', 'template_input': 'D-C20-2'}


# ------------------------------------------------------------------------------------------------
# the variants of the two entry points and how to run them
# ------------------------------------------------------------------------------------------------
class Variant:
    def __init__(self, name, ep, variables, touched, runner, quick=True):
        self.name, self.ep, self.vars, self.touched, self.runner, self.quick = name, ep, variables, touched, runner, quick
        self.steps = None
        self.mut_at = None

    def execute(self, initial, fault_at=0, kind=None, fault_at2=0, **opts):
        """Run the real entry point once.  initial: var -> concrete value or ABSENT."""
        rec = faults.Recorder(self.vars, fault_at, kind, fault_at2)
        out = faults.run(rec, initial, self.runner(rec, **opts))
        out['events'] = rec.events
        return out


class World:
    """Scratch files shared by all runs + the concretise / abstract maps."""

    def __init__(self, ctx):
        self.dir = os.path.join(ctx.scratch, 'c20')
        os.makedirs(self.dir, exist_ok=True)
        self.resolve = os.path.join(self.dir, 'resolve')
        os.makedirs(self.resolve, exist_ok=True)
        self.flist = os.path.join(self.resolve, 'window_flist.fits')
        faults.make_flist(self.flist)
        self.dump = os.path.join(self.dir, 'dump.pkl')
        self.pars = {}
        self.conc = {'RESOLVE_DIR': self.resolve}
        self.abst = {self.resolve: 'RESOLVE_DIR'}

    def concretise(self, env):
        return {k: self.conc.get(v, v) for k, v in env.items()}

    def abstract(self, env):
        return {k: self.abst.get(v, v) for k, v in env.items()}

    def par(self, **kw):
        key = repr(sorted(kw.items()))
        if key not in self.pars:
            self.pars[key] = faults.write_par(os.path.join(self.dir, 'in%d.par' % len(self.pars)),
                                              run2d=FILE_VALS['RUN2D'], run1d=FILE_VALS['RUN1D'], **kw)
        return self.pars[key]

    # ---- runners: (rec, **opts) -> thunk
    def window_runner(self, rescore):
        def runner(rec, flist='ok'):
            thunk = faults.window_thunk(rec, rescore, self.resolve)

            def go():
                if flist == 'missing':
                    os.rename(self.flist, self.flist + '.away')
                elif flist == 'garbage':
                    os.rename(self.flist, self.flist + '.away')
                    with open(self.flist, 'w') as fh:
                        fh.write('this is not a FITS file\n' * 200)
                try:
                    thunk()
                finally:
                    if flist != 'ok':
                        if os.path.exists(self.flist):
                            os.remove(self.flist)
                        os.rename(self.flist + '.away', self.flist)
            return go
        return runner

    def template_runner(self, obj, method, dump_present, flux, usemask=True):
        def runner(rec, par=None, missing_fiber=False):
            inputfile = self.par(obj=obj, method=method, **(par or {}))
            thunk = faults.template_thunk(rec, inputfile, self.dump, flux=flux, missing_fiber=missing_fiber,
                                          usemask=usemask)

            def go():
                if os.path.exists(self.dump):
                    os.remove(self.dump)
                if dump_present:
                    with open(self.dump, 'wb') as fh:
                        pickle.dump({'newflux': np.ones((faults.NOBJ, faults.NPIX)),
                                     'newivar': np.ones((faults.NOBJ, faults.NPIX)),
                                     'newloglam': 3.5 + 1.0e-4 * np.arange(faults.NPIX)}, fh)
                thunk()
            return go
        return runner


def make_variants(world, quick):
    vs = [Variant('window_score(rescore=False)', 'window_score', W_VARS, ['PHOTO_CALIB'], world.window_runner(False)),
          Variant('window_score(rescore=True)', 'window_score', W_VARS, ['PHOTO_CALIB'], world.window_runner(True))]
    for obj, method, dump, flux, usemask, q in (('gal', 'pca', False, False, True, True),
                                                ('gal', 'hmf', True, True, True, True),
                                                ('star', 'pca', False, False, True, False),
                                                ('qso', 'pca', False, True, True, False),
                                                ('gal', 'pca', True, False, False, False)):
        vs.append(Variant('template_input(%s,%s,dump=%s,flux=%s,usemask=%s)' % (obj, method, dump, flux, usemask),
                          'template_input', T_VARS, ['RUN2D', 'RUN1D'],
                          world.template_runner(obj, method, dump, flux, usemask), quick=q))
    return [v for v in vs if v.quick or not quick]


# malformed / unreadable inputs made with real files (and fakes reporting bad data): (entry point,
# variant-name prefix, options for the runner, description)
DATA_FAULTS = [
    ('window_score', 'window_score(', {'flist': 'missing'}, 'window_flist.fits does not exist'),
    ('window_score', 'window_score(', {'flist': 'garbage'}, 'window_flist.fits is not a FITS file'),
    ('template_input', 'template_input(gal,pca,dump=False', {'par': {'drop': ('wavemin',)}}, 'keyword wavemin missing'),
    ('template_input', 'template_input(gal,pca,dump=False', {'par': {'replace': {'niter': 'many'}}}, 'niter not a number'),
    ('template_input', 'template_input(gal,pca,dump=False', {'par': {'table': False}}, 'EIGENOBJ table missing'),
    ('template_input', 'template_input(gal,pca,dump=False', {'par': {'replace': {'method': 'svd'}}}, 'unknown method'),
    ('template_input', 'template_input(gal,pca,dump=False', {'par': {'replace': {'object': 'Gal'}}}, 'object spelled Gal'),
    ('template_input', 'template_input(gal,pca,dump=False', {'missing_fiber': True}, 'a requested spectrum does not exist'),
    ('template_input', 'template_input(gal,hmf', {'par': {'drop': ('epsilon',)}}, 'hmf keyword epsilon missing'),
    ('template_input', 'template_input(gal,hmf', {'par': {'replace': {'nonnegative': 'no'}}}, 'hmf keyword nonnegative not a number'),
]


# ------------------------------------------------------------------------------------------------
def env_key(env):
    return tuple(sorted(env.items()))


def case_key(vi, env0, fault_at, kind):
    return (vi, env_key(env0), fault_at, kind)


def step_label(variant, fault_at, kind):
    if kind == 'none':
        return 'no fault'
    if kind == 'body':
        return 'own code fails after call %d' % fault_at
    s = variant.steps[fault_at - 1]
    return 'call %d %s%s %s' % (fault_at, s['name'], '[%s]' % s['var'] if s['var'] else '',
                                'missing variable' if kind == 'natural' else 'raises')


def record_profiles(ctx, world, variants):
    """Fault-free run of every variant -> the step list and change positions handed to TLC."""
    traces = []
    for v in variants:
        init = {x: '/orig/' + x for x in v.touched}
        init.update({x: ('RESOLVE_DIR' if x == 'PHOTO_RESOLVE' else 'b') for x in v.vars if x not in v.touched})
        out = v.execute(world.concretise(init))
        if out['how'] != 'return':
            raise core.MachineryError('fault-free run of %s did not return: %s' % (v.name, out['exc']))
        v.steps, v.mut_at = faults.profile(out['events'], v.touched, world.concretise(init))
        traces.append((v, init, 0, 'none', out))
    return traces


def iter_terminal(r):
    """Terminal states of an MC dump (only those blocks are parsed; the dump is mostly interior states)."""
    from .. import tlaval
    if not r.get('dump') or not os.path.exists(r['dump']):
        raise core.MachineryError('TLC wrote no dump')

    def parse(buf):
        st = {}
        for line in buf:
            m = tlaval._CONJ.match(line)
            if not m:
                raise core.MachineryError('unexpected line in TLC dump: %r' % line[:100])
            st[m.group(1)] = tlaval.parse_value(m.group(2))
        return st
    buf, keep = [], False
    with open(r['dump']) as fh:
        for line in fh:
            if line.startswith('State '):
                if keep:
                    yield parse(buf)
                buf, keep = [], False
            elif line.startswith('/\\ '):
                buf.append(line.rstrip('\n'))
                if line.startswith('/\\ pc = "returned"') or line.startswith('/\\ pc = "raised"'):
                    keep = True
            elif line.strip():
                raise core.MachineryError('multi-line value in TLC dump: %r' % line[:100])
    if keep:
        yield parse(buf)
    os.remove(r['dump'])


def load_terminal(ctx, r, nrec):
    """Terminal states of an MC run -> {case key: state}, design-variant count."""
    term = {}
    maxv = 0
    for st in iter_terminal(r):
        maxv = max(maxv, st['v'])
        term[case_key(st['v'], st['env0'], st['faultAt'], st['faultKind'])] = st
        for t, how in st['st'].items():       # a variable left changed (deviating machine) shows the installed value
            if how == 'new' and t in FILE_VALS and st['env'][t] != FILE_VALS[t]:
                raise core.MachineryError('spec installs %r for %s, the harness parameter file says %r' % (
                    st['env'][t], t, FILE_VALS[t]))
    return term, maxv - nrec


def to_trace(world, variant, out):
    evs = []
    for e in out['events']:
        e2 = {'ev': e['ev'], 'name': e['name'], 'var': e['var'], 'fails': bool(e['fails']), 'env': world.abstract(e['env'])}
        if 'strays' in e:
            e2['strays'] = list(e['strays'])
        evs.append(e2)
    return {'ep': variant.ep, 'events': evs}


_RE_T = re.compile(r'^/\\ t = (\d+)')
_RE_POS = re.compile(r'^/\\ pos = (\d+)')
_RE_VIS = re.compile(r'^/\\ vis = (TRUE|FALSE)')


def validate_traces(ctx, traces, label, chunk=1500):
    """Judge traces with Trace_EnvProtocol.  Returns ({index: furthest event explained}, {index: vis})
    for rejected traces / for accepted ones whether some explanation has every stage call under the
    mutated environment."""
    rejected, vis_ok = {}, {}
    for base in range(0, len(traces), chunk):
        part = traces[base:base + chunk]
        path = core.write_json(os.path.join(ctx.scratch, 'c20_traces_%d.json' % base), part)
        r = ctx.tlc('Trace_EnvProtocol.tla', 'Trace_EnvProtocol.cfg', dump=True, env={'VERIF_TRACE': path},
                    label='%s[%d:%d]' % (label, base, base + len(part)), must_hold=False, timeout=1200,
                    count=False)
        if r['violated']:
            # an explained prefix broke a law of the protocol: cannot happen (the actions preserve them)
            raise core.MachineryError('Trace_EnvProtocol: %s violated\n%s' % (r['violated'], r['stdout'][-2000:]))
        far = {}
        t = pos = None
        vis = None
        with open(r['dump']) as fh:
            for line in fh:
                if line.startswith('State '):
                    t = pos = vis = None
                    continue
                m = _RE_T.match(line)
                if m:
                    t = int(m.group(1))
                m = _RE_POS.match(line)
                if m:
                    pos = int(m.group(1))
                m = _RE_VIS.match(line)
                if m:
                    vis = m.group(1) == 'TRUE'
                if t is not None and pos is not None and vis is not None:
                    if pos > far.get(t, 0):
                        far[t] = pos
                    if pos == len(part[t - 1]['events']) + 1 and vis:
                        vis_ok[base + t - 1] = True
                    t = pos = vis = None
        os.remove(r['dump'])
        os.remove(path)
        for k, tr in enumerate(part):
            n = len(tr['events'])
            if far.get(k + 1, 0) == 0:
                raise core.MachineryError('Trace_EnvProtocol produced no state for trace %d' % (base + k))
            if far[k + 1] != n + 1:
                rejected[base + k] = far[k + 1]
            else:
                vis_ok.setdefault(base + k, False)
    return rejected, vis_ok


class Groups:
    """Failing cases grouped by (entry point, variant, point of failure) so that thousands of fault
    points do not become thousands of replay files; both directions report into the same group."""

    def __init__(self):
        self.g = {}

    def add(self, key, direction, what, case, finding):
        e = self.g.setdefault(key, {'replay': 0, 'trace': 0, 'what': {}, 'case': {}, 'finding': finding})
        e[direction] += 1
        e['what'].setdefault(direction, what)
        e['case'].setdefault(direction, case)
        if finding is None:
            e['finding'] = None

    def report(self, ctx, per_ep=12):
        seen = {}
        for key in sorted(self.g, key=repr):
            e = self.g[key]
            ep = key[0]
            seen[ep] = seen.get(ep, 0) + 1
            if seen[ep] > per_ep:
                continue
            first = 'replay' if e['replay'] else 'trace'
            case = dict(e['case'][first])
            if first == 'replay' and e['trace']:
                case['rejected_trace'] = e['case']['trace']
            case['what'] = '%s  [%d replayed case(s) differ from the TLC state, %d trace(s) rejected by Trace_EnvProtocol]' % (
                e['what'][first], e['replay'], e['trace'])
            ctx.violation(case, finding=e['finding'])
        for ep, n in seen.items():
            if n > per_ep:
                total = sum(e['replay'] + e['trace'] for k, e in self.g.items() if k[0] == ep)
                ctx.violation({'what': '%s: %d failing points of failure in all (%d cases / traces); only the first %d listed' % (
                    ep, n, total, per_ep), 'entry_point': ep})


def judge_run(world, variant, spec_state, dev_state, out):
    """Compare what the real run left behind with the specification's terminal state."""
    obs = world.abstract(out['env'])
    exp = spec_state['env']
    if obs == exp and not out['strays']:
        return None, None
    finding = None
    if dev_state is not None and not out['strays'] and obs == dev_state['env'] and dev_state['env'] != exp:
        finding = FINDING[variant.ep]          # exactly what Dev_RestoreOnSuccessOnly leaves behind
    diff = {x: (exp[x], obs[x]) for x in exp if exp[x] != obs[x]}
    return diff, finding


def run(ctx):
    core.import_pydl()
    ctx.level = 'fault_enumeration'
    ctx.rule = ('one case = (entry-point variant, initial environment, point of failure: which collaborator call '
                'raises and with what, or the entry point\'s own code failing on malformed input, or a needed '
                'variable missing, or no fault); every terminal state of MC_EnvProtocol for the recorded variants is '
                'such a case and is replayed by fault injection; non-trivial = a fault occurs; traces = event lists '
                'of real runs judged by Trace_EnvProtocol')
    ctx.assumptions = [
        'collaborators are the callables the entry point reaches through its module namespace (os.environ lookups, '
        'os.path.exists, os.remove, open, fits.open/PrimaryHDU/HDUList.writeto/close, yanny, get_juldate, pickle, readspec, '
        'skymask, wavevector, preprocess_spectra, pca_solve/HMF/template_qso/template_star, djs_median, djs_maskinterp, '
        'plt.subplots/savefig/close, plot_eig, sdss_score); heavy ones are cheap fakes, so faults raised deep inside a '
        'real stage are represented by the stage call raising',
        'an environment lookup fails only by the variable being absent, which is covered by the initial states '
        '(PHOTO_CALIB, PHOTO_RESOLVE unset); no exception is injected into lookups',
        'own-code failures (kind "body") are replayed only where a real malformed file or bad stage result produces '
        'them; the other "body" states are model-checked but not replayed',
        'exceptions derived from BaseException only (KeyboardInterrupt, SystemExit) are not injected',
        'concurrent modification of the environment by other threads is out of scope']
    phase = {}
    t_phase = time.time()
    world = World(ctx)
    variants = make_variants(world, ctx.quick)
    probe = record_profiles(ctx, world, variants)
    vjson = core.write_json(os.path.join(ctx.scratch, 'c20_variants.json'),
                            [{'name': v.name, 'ep': v.ep, 'designed': False, 'steps': v.steps, 'mutAt': v.mut_at}
                             for v in variants])
    tier = 'quick' if ctx.quick else 'thorough'
    tenv = {'VERIF_VARIANTS': vjson}

    # ---- spec level: the laws on every behaviour; the negative control must be refuted ----------------
    # (the three TLC runs are independent: run them side by side)
    with ThreadPoolExecutor(3) as pool:
        f_main = pool.submit(ctx.tlc, 'MC_EnvProtocol.tla', 'MC_EnvProtocol_%s.cfg' % tier, dump=True, env=tenv,
                             timeout=1500)
        f_neg = pool.submit(ctx.tlc, 'MC_EnvProtocol.tla', 'MC_EnvProtocol_dev.cfg', env=tenv, must_hold=False,
                            expect_violation=True, count=False, workers=4,
                            label='MC_EnvProtocol_dev.cfg (negative control)')
        f_dev = pool.submit(ctx.tlc, 'MC_EnvProtocol.tla', 'MC_EnvProtocol_devdump_%s.cfg' % tier, dump=True, env=tenv,
                            count=False, timeout=1500,
                            label='MC_EnvProtocol_devdump_%s.cfg (what the deviation leaves behind)' % tier)
        r, rneg, rdev = f_main.result(), f_neg.result(), f_dev.result()
    if rneg['violated'] != 'C20_EnvRestored':
        raise core.MachineryError('negative control: TLC did not refute EnvRestored for Dev_RestoreOnSuccessOnly (%r)'
                                  % rneg['violated'])
    term, nd = load_terminal(ctx, r, len(variants))
    dev, _ = load_terminal(ctx, rdev, len(variants))
    phase['tlc_and_parse'] = round(time.time() - t_phase, 1)
    t_phase = time.time()

    # ---- spec -> code: replay every terminal state of the recorded variants ---------------------------
    rng = random.Random(ctx.seed)
    groups = Groups()
    traces = []          # (variant, description, trace, out)
    for v, init, fa, kind, out in probe:
        traces.append((v, 'fault-free probe', to_trace(world, v, out)))
    by_variant = {}
    for key, st in term.items():
        by_variant.setdefault(key[0], []).append((key, st))
    diverged = 0
    body_states = 0
    for j, v in enumerate(variants):
        vi = nd + j + 1
        cases = sorted(by_variant.get(vi, []), key=lambda kv: repr(kv[0]))
        if not cases:
            raise core.MachineryError('TLC produced no terminal state for variant %s' % v.name)
        envs = sorted({k[1] for k, _ in cases})
        for key, st in cases:
            _, e0, fa, kind = key
            if kind == 'body':
                body_states += 1
                continue
            if ctx.quick and v.ep == 'template_input' and kind in KINDS:
                # quick tier: every fault position, one kind and a quarter of the initial states per position
                idx = envs.index(e0)
                if (idx + fa) % 4 or kind != KINDS[(fa + idx // 4) % 3]:
                    continue
            out = v.execute(world.concretise(st['env0']), fa if kind in KINDS else 0, kind if kind in KINDS else None)
            ctx.evaluated(1, v.ep + ':' + ('injected' if kind in KINDS else kind))
            ctx.validated()
            if kind != 'none':
                ctx.nontriv((v.name, e0, fa, kind))
            if kind in KINDS and out['injected_at'] != fa:
                diverged += 1
            if kind == 'none' and out['how'] != 'return':
                diverged += 1
            diff, finding = judge_run(world, v, st, dev.get(key), out)
            case = {'variant': v.name, 'env0': st['env0'], 'faultAt': fa, 'faultKind': kind,
                    'expected': {'env': st['env'], 'pc': st['pc']},
                    'observed': {'env': world.abstract(out['env']), 'how': out['how'], 'exc': out['exc'],
                                 'strays': out['strays']}}
            if len(ctx.cov['samples']) < 4 and fa == (2 + len(ctx.cov['samples'])):
                ctx.sample(case)
            if diff is not None:
                lab = step_label(v, fa, kind)
                groups.add((v.ep, v.name, lab), 'replay',
                           '%s, %s: environment not as on entry; differs (expected, observed) %s%s; e.g. entry %s' % (
                               v.name, lab, diff, (' strays %s' % out['strays']) if out['strays'] else '', st['env0']),
                           case, finding)
            if v.ep == 'window_score' or rng.random() < (0.3 if ctx.quick else 0.12):
                traces.append((v, step_label(v, fa, kind), to_trace(world, v, out)))

    # ---- malformed / unreadable inputs: real files, the fault happens where it happens -----------------
    for ep, prefix, opts, desc in DATA_FAULTS:
        for j, v in enumerate(variants):
            if not v.name.startswith(prefix):
                continue
            vi = nd + j + 1
            envs = sorted({k[1] for k, _ in by_variant[vi]})
            for e0 in envs:
                env0 = dict(e0)
                out = v.execute(world.concretise(env0), **opts)
                calls = [e for e in out['events'] if e['ev'] == 'call']
                names = [(e['name'], e['var']) for e in calls]
                if names != [(s['name'], s['var']) for s in v.steps[:len(names)]]:
                    diverged += 1
                    continue
                if out['how'] == 'return':
                    key = case_key(vi, env0, 0, 'none')
                elif any(e['fails'] for e in calls):          # a real collaborator raised (any later calls are clean-up)
                    key = case_key(vi, env0, 1 + [e['fails'] for e in calls].index(True), 'OSError')
                else:
                    key = case_key(vi, env0, len(calls), 'body')
                    if key not in term:
                        key = case_key(vi, env0, len(calls), 'natural')
                if key not in term:
                    diverged += 1
                    continue
                st = term[key]
                ctx.evaluated(1, v.ep + ':data-fault')
                ctx.validated()
                ctx.nontriv((v.name, e0, desc))
                diff, finding = judge_run(world, v, st, dev.get(key), out)
                case = {'variant': v.name, 'env0': env0, 'data_fault': desc, 'data_fault_opts': opts,
                        'faultAt': key[2], 'faultKind': key[3], 'expected': {'env': st['env'], 'pc': st['pc']},
                        'observed': {'env': world.abstract(out['env']), 'how': out['how'], 'exc': out['exc'],
                                     'strays': out['strays']}}
                if diff is not None:
                    groups.add((v.ep, v.name, desc), 'replay',
                               '%s, %s (%s): environment not as on entry; differs (expected, observed) %s; e.g. entry %s' % (
                                   v.name, desc, out['exc'], diff, env0), case, finding)
                traces.append((v, desc, to_trace(world, v, out)))
        ctx.sample({'data_fault': desc, 'entry_point': ep})

    # ---- code -> spec: seeded random runs (values outside the model's domain) --------------------------
    nrand = 250 if ctx.quick else 2500
    alphabet = ['', ' ', '/a/b', 'v5_7_0', 'v5_7_1', 'x=y', '<none>', 'a b', '0', 'b']
    for n in range(nrand):
        v = rng.choice(variants)
        env0 = {}
        for x in v.vars:
            p = rng.random()
            env0[x] = ABSENT if p < 0.25 else rng.choice(alphabet) if p < 0.6 else '/r%d/%s' % (rng.randrange(10**6), x)
        if v.ep == 'window_score' and rng.random() < 0.7:
            env0['PHOTO_RESOLVE'] = world.resolve
        opts = {}
        p = rng.random()
        fa = fa2 = 0
        kind = None
        if p < 0.15:
            pass
        elif p < 0.3:
            c = [d for d in DATA_FAULTS if v.name.startswith(d[1])]
            if c:
                opts = rng.choice(c)[2]
        else:
            injectable = [k + 1 for k, s in enumerate(v.steps) if not s['var']]     # never a lookup (see spec: KindsFor)
            fa = rng.choice(injectable)
            kind = rng.choice(KINDS + ('RuntimeError',))
        out = v.execute(env0, fa, kind, fa2, **opts)
        ctx.evaluated(1, v.ep + ':random')
        ctx.validated()
        ctx.nontriv((v.name, env_key(env0), fa, kind, fa2, repr(opts)))
        traces.append((v, 'random run: fault %s at %d%s %s' % (kind, fa, ' and %d' % fa2 if fa2 else '', opts or ''),
                       to_trace(world, v, out)))

    phase['real_runs'] = round(time.time() - t_phase, 1)
    t_phase = time.time()
    rejected, vis_ok = validate_traces(ctx, [t[2] for t in traces], 'Trace_EnvProtocol')
    phase['trace_validation'] = round(time.time() - t_phase, 1)
    ctx.evaluated(len(traces), 'traces-judged')
    for k in sorted(rejected):
        v, desc, tr = traces[k]
        pos = rejected[k]
        ev = tr['events'][pos - 1]
        if ev['ev'] in ('return', 'raise'):
            why = 'leaves by %s with environment %s%s, entered with %s' % (
                ev['ev'], ev['env'], (' and strays %s' % ev['strays']) if ev.get('strays') else '', tr['events'][0]['env'])
        else:
            why = 'event #%d (%s %s%s, environment %s) cannot be produced by the protocol' % (
                pos, ev['ev'], ev['name'], '[%s]' % ev['var'] if ev['var'] else '', ev['env'])
        first = desc.split(':')[0] if desc.startswith('random') else desc
        groups.add((v.ep, v.name, first), 'trace',
                   'trace of %s (%s) rejected by Trace_EnvProtocol: %s' % (v.name, desc, why),
                   {'variant': v.name, 'trace': tr, 'rejected_at_event': pos, 'description': desc},
                   FINDING[v.ep] if ev['ev'] == 'raise' and not ev.get('strays') else None)
    groups.report(ctx)
    for k, (v, init, fa, kind, out) in enumerate(probe):
        if k not in rejected and not vis_ok.get(k, False):
            print('NOTE C20: %s: a stage call (sdss_score / readspec / HDUList.writeto) did not see the temporary '
                  'environment; the property does not demand it, reported only' % v.name)
    ctx.sample({'variant_steps': {v.name: ['%s%s' % (s['name'], '[%s]' % s['var'] if s['var'] else '') for s in v.steps]
                                  for v in variants[:3]}})
    ctx.cov['c20'] = {'recorded_variants': {v.name: {'steps': len(v.steps), 'mutAt': v.mut_at} for v in variants},
                      'design_variants_in_model': nd, 'terminal_states': len(term),
                      'body_fault_states_not_replayed': body_states, 'runs_off_the_recorded_sequence': diverged,
                      'traces_judged': len(traces), 'traces_rejected': len(rejected), 'phase_wall_s': phase}
    apalache_inductive(ctx)
    ctx.assumptions.append('unbounded part: apalache/EnvProtocolInd.tla abstracts the collaborator calls to a counter N (any natural number); '
                           'Apalache discharges Init => IndInv, IndInv /\\ Next => IndInv\' and IndInv => EnvRestored and refutes the negative control')
    ctx.exhaustive = not ctx.quick



def apalache_inductive(ctx):
    """Unbounded part: Apalache discharges the inductive invariant of apalache/EnvProtocolInd.tla (the protocol for
    ANY number of collaborator calls) and refutes the negative control.  Three obligations + one refutation."""
    import os
    import shutil
    import subprocess
    spec = os.path.join(core.VERIF, 'apalache', 'EnvProtocolInd.tla')
    out = os.path.join(ctx.scratch, 'apalache')
    runs = [('Init => IndInv', ['--init=Init', '--inv=IndInv', '--length=0'], True),
            ('IndInv /\\ Next => IndInv\'', ['--init=IndInit', '--inv=IndInv', '--length=1'], True),
            ('IndInv => EnvRestored', ['--init=IndInit', '--inv=EnvRestored', '--length=0'], True),
            ('negative control: raise without restore breaks IndInv', ['--init=IndInit', '--next=NextDev', '--inv=IndInv', '--length=1'], False)]
    done = 0
    results = []
    for name, args, must_hold in runs:
        cmd = ['apalache-mc', 'check', '--cinit=ConstInit'] + args + ['--out-dir=' + out, spec]
        try:
            p = subprocess.run(cmd, stdout=subprocess.PIPE, stderr=subprocess.STDOUT, text=True, timeout=900)
        except (OSError, subprocess.TimeoutExpired) as ex:
            raise core.MachineryError('apalache-mc failed to run: %r' % (ex,))
        ok = 'The outcome is: NoError' in p.stdout
        err = 'The outcome is: Error' in p.stdout
        if not (ok or err):
            raise core.MachineryError('apalache-mc gave no verdict for %s:\n%s' % (name, p.stdout[-1500:]))
        if must_hold and not ok:
            raise core.MachineryError('Apalache refuted the obligation %s' % name)
        if not must_hold and not err:
            raise core.MachineryError('Apalache did not refute the negative control')
        done += 1
        results.append({'obligation': name, 'verdict': 'holds' if ok else 'refuted (as required)'})
    shutil.rmtree(out, ignore_errors=True)
    ctx.cov['apalache_inductive'] = {'module': 'apalache/EnvProtocolInd.tla', 'constants': 'N \\in Nat (any number of collaborator calls)',
                                     'obligations': 3, 'discharged': 3, 'negative_controls_refuted': 1, 'results': results,
                                     'checker_cmd': 'apalache-mc check --cinit=ConstInit --init=... --inv=... --length=0|1 apalache/EnvProtocolInd.tla'}


def replay(ctx, case):
    """bin/check C20 --replay <file>: re-run one failing case (a replayed TLC state or a rejected trace)."""
    core.import_pydl()
    ctx.level = 'fault_enumeration'
    ctx.rule = 'single replayed case'
    world = World(ctx)
    variants = {v.name: v for v in make_variants(world, False)}
    if 'variant' not in case:
        print('summary entry, nothing to replay')
        return
    v = variants[case['variant']]
    ctx.evaluated(1)
    ctx.nontriv('a'); ctx.nontriv('b')
    if 'trace' in case:
        # a rejected trace: run the same scenario again is not possible for random runs in general; re-judge it
        rejected, _ = validate_traces(ctx, [case['trace']], 'Trace_EnvProtocol(replay)')
        print('trace re-judged:', 'rejected at event %d' % rejected[0] if rejected else 'accepted')
        if rejected:
            ctx.violation(case)
        return
    kind = case['faultKind']
    opts = dict(case.get('data_fault_opts') or {})
    if 'par' in opts and 'drop' in opts['par']:
        opts['par']['drop'] = tuple(opts['par']['drop'])
    out = v.execute(world.concretise(case['env0']), case['faultAt'] if kind in KINDS else 0,
                    kind if kind in KINDS else None, **opts)
    obs = world.abstract(out['env'])
    print('variant:', v.name, '\nentered with:', case['env0'], '\nfault:', case.get('data_fault') or (kind, case['faultAt']),
          '\noutcome:', out['how'], out['exc'], '\nenvironment after:', obs, 'strays:', out['strays'],
          '\nspecified   after:', case['expected']['env'])
    ctx.validated()
    if obs != case['expected']['env'] or out['strays']:
        ctx.violation(case)
