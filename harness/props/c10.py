"""C10 - iterfit: order independence, weights, rejection limits.
Spec: spec/IterFit.tla (machine Sort / Fit / Reject / LoopOrExit / Unsort / Return);
MC: mc/MC_IterFit (modes "single" and "pair"); Trace: trace/Trace_IterFit (reuses the machine's actions).

spec -> code: every finished behaviour TLC generates (problem = caller order, positively weighted set, limits,
              maxiter; oracle = status of every fit and residual of every point after every fit) is executed on the
              REAL iterfit + REAL djs_reject; only the numerical collaborator bspline.fit is replaced by the oracle of
              that behaviour (it returns ydata - z*sigma, exactly representable).  Compared with TLC's state: the
              sets handed to each fit, the number of rejections, the returned mask (caller order) and which fit the
              returned curve is.
code -> spec: real iterfit on seeded data (smooth signal + noise, outliers, zero / negative weights, ties in x,
              orders 2..4, bkspace / nbkpts / everyn, limits, maxiter), each problem in 4 caller orders, recorded by
              proxies around bspline.fit and djs_reject and validated event by event by TLC (Trace_IterFit).  The
              oracle of those traces is an independent dense weighted least squares (numpy lstsq) on a design matrix
              from this file's own Cox-de Boor recursion over the knots in effect at THAT fit (the breakpoints the
              object carries unmasked when the fit returns): runs in which a fit drops unsupported breakpoints
              (status -1: data gaps wider than the order) are judged, every later fit on the reduced breakpoint set.
Python only concretises (ranks -> arrays), abstracts (arrays -> ranks by matching (x, y) pairs) and measures residuals.
"""
import os
import random
import re
import traceback

import numpy as np

from .. import core

MICRO = 1000000           # residuals and limits are handed to TLC in units of 1e-6 sigma
CLAMP = 2000000000
BAND = 1                  # guard band of the independent solver: 1e-6 sigma
TOL = 1000                # returned curve vs independent fit: 1e-3 sigma (measured: <= 1e-6)
MAXREPORT = 8             # failing cases written out per TLC configuration / per trace direction


# ---------------------------------------------------------------------------------------------
# independent solver
def basis(knots, k, x):
    """Cox-de Boor recursion from the definition.  knots: full knot vector t[0..K-1]; order k (degree k-1);
    returns the (len(x), K-k) matrix of B_{i,k}(x).  x must lie in [t[k-1], t[K-k]]."""
    t = np.asarray(knots, dtype=np.float64)
    x = np.asarray(x, dtype=np.float64)
    K = t.size
    n = K - k
    # order 1: indicator of the half-open knot interval, the last one closed on the right
    j = np.searchsorted(t, x, side='right') - 1
    j = np.clip(j, k - 1, n - 1)
    B = np.zeros((x.size, K - 1))
    B[np.arange(x.size), j] = 1.0
    for d in range(2, k + 1):
        Bn = np.zeros((x.size, K - d))
        for i in range(K - d):
            den1 = t[i + d - 1] - t[i]
            den2 = t[i + d] - t[i + 1]
            term = 0.0
            if den1 > 0:
                term = term + (x - t[i]) / den1 * B[:, i]
            if den2 > 0:
                term = term + (t[i + d] - x) / den2 * B[:, i + 1]
            Bn[:, i] = term
        B = Bn
    return B


class Solver:
    """Weighted least squares on canonical (rank-ordered) data; answers are cached per set of ranks."""

    def __init__(self, X, Y, W, knots, k, minsv=1e-7):
        self.X, self.Y, self.W = X, Y, W
        self.minsv = minsv                 # smallest / largest singular value below which a system counts as not determined
        self.knots = np.asarray(knots, dtype=np.float64)
        self.k = k
        self.lo, self.hi = self.knots[k - 1], self.knots[self.knots.size - k]
        # positively weighted points lie inside the knot range up to the float32 rounding of the end knots; there
        # (and for the never used non-positive weights) the recursion continues the end polynomial
        self.A = basis(self.knots, k, X)
        self.cache = {}

    def coeff(self, mask):
        """mask: frozenset of ranks (1-based).  Returns (coefficients, full rank?)."""
        key = frozenset(mask)
        if key not in self.cache:
            idx = np.array(sorted(key), dtype=int) - 1
            if idx.size == 0 or not (self.W[idx] > 0).all():
                self.cache[key] = (None, False)
            else:
                sw = np.sqrt(self.W[idx])
                c, _, rank, sv = np.linalg.lstsq(self.A[idx] * sw[:, None], self.Y[idx] * sw, rcond=None)
                ok = rank == self.A.shape[1] and sv[-1] > self.minsv * sv[0]
                self.cache[key] = (c, bool(ok))
        return self.cache[key]

    def z(self, mask):
        """scaled residuals (units of 1e-6 sigma, clamped) of the points of mask, 0 elsewhere."""
        c, ok = self.coeff(mask)
        if not ok:
            return None
        out = [0] * self.X.size
        for r in mask:
            v = (self.Y[r - 1] - self.A[r - 1] @ c) * np.sqrt(self.W[r - 1]) * MICRO
            out[r - 1] = int(max(-CLAMP, min(CLAMP, round(v))))
        return out

    def curve(self, mask, xe):
        c, ok = self.coeff(mask)
        if not ok:
            return None
        return basis(self.knots, self.k, xe) @ c


def in_effect(sset):
    """abstraction: 1-based indices of the breakpoints of a bspline object that are not masked"""
    return [int(i) + 1 for i in np.flatnonzero(np.asarray(sset.mask, dtype=bool).ravel())]


def knots_of(sset):
    m = np.asarray(sset.mask, dtype=bool).ravel()
    b = np.asarray(sset.breakpoints, dtype=np.float64).ravel()
    return b[m].copy() if m.shape == b.shape else b.copy()


# ---------------------------------------------------------------------------------------------
# recording proxies (installed in pydl.pydlutils.bspline's namespace; nothing under /repo changes)
class Recorder:
    def __init__(self, bsp, fit_impl=None):
        self.bsp = bsp
        self.fit_impl = fit_impl       # None: the real bspline.fit
        self.events = []
        self.rankof = None             # {(x, y): rank}
        self.wof = None                # rank -> inverse variance
        self.posrank = None            # ranks by sorted position at the last fit call

    def __enter__(self):
        self.orig_fit = self.bsp.bspline.fit
        self.orig_rej = self.bsp.djs_reject
        rec = self

        def fit(sset, xdata, ydata, invvar, x2=None):
            impl = rec.fit_impl or rec.orig_fit
            bk0 = in_effect(sset)
            ret = impl(sset, xdata, ydata, invvar, x2=x2)
            rec.on_fit(xdata, ydata, invvar, ret)
            # the breakpoints in effect when the fit was called / when it returned, and the knots it left
            rec.events[-1].update(bk0=bk0, bk=in_effect(sset), _kn=knots_of(sset))
            return ret

        def rej(data, model, outmask=None, inmask=None, **kw):
            ret = rec.orig_rej(data, model, outmask=outmask, inmask=inmask, **kw)
            rec.on_reject(data, inmask, ret)
            return ret

        self.bsp.bspline.fit = fit
        self.bsp.djs_reject = rej
        return self

    def __exit__(self, *a):
        self.bsp.bspline.fit = self.orig_fit
        self.bsp.djs_reject = self.orig_rej

    def on_fit(self, xdata, ydata, invvar, ret):
        x = np.asarray(xdata, dtype=float)
        ok = bool(np.all(np.diff(x) >= 0))
        ranks = []
        for a, b in zip(x.tolist(), np.asarray(ydata, dtype=float).tolist()):
            r = self.rankof.get((a, b))
            if r is None:
                ok = False
            ranks.append(r)
        if len(set(ranks)) != len(ranks) or len(ranks) != len(self.rankof):
            ok = False
        w = np.asarray(invvar, dtype=float)
        mask = [r for r, v in zip(ranks, w.tolist()) if v > 0 and r is not None]
        for r, v in zip(ranks, w.tolist()):
            if v > 0 and r is not None and v != self.wof[r]:
                ok = False
        self.posrank = ranks
        try:
            st = int(ret[0])
        except Exception:
            st = -99
        self.events.append({'a': 'fit', 'mask': sorted(mask), 'st': st, 'args': ok})

    def on_reject(self, data, inmask, ret):
        pr = self.posrank or []
        n = len(pr)
        inm = np.asarray(inmask) if inmask is not None else np.ones(n, dtype=bool)
        out = np.asarray(ret[0])
        if inm.shape != (n,) or out.shape != (n,):
            self.events.append({'a': 'reject', 'inm': [], 'out': [], 'qd': bool(ret[1]), 'z': [], 'shape': False})
            return
        # positions whose (x, y) pair was no data point (the fit event already says args = False) are left out
        self.events.append({'a': 'reject', 'inm': sorted(r for r, v in zip(pr, inm.tolist()) if v and r is not None),
                            'out': sorted(r for r, v in zip(pr, out.tolist()) if v and r is not None),
                            'qd': bool(ret[1]), 'z': []})


# ---------------------------------------------------------------------------------------------
# TLC output of the trace specification
_POS = re.compile(r'<<"C10POS", (\d+), (\d+), "(\w+)">>')
_INIT = re.compile(r'Finished computing initial states: (\d+) distinct state')


def validate_traces(ctx, traces, label, dev=None, unspec=None):
    """Returns {trace index (0-based): number of events the machine explained} for the traces NOT accepted."""
    path = os.path.join(ctx.scratch, 'c10_traces.json')
    core.write_json(path, traces)
    env = {'VERIF_TRACE': path}
    if dev:
        env['VERIF_DEV'] = dev
    r = ctx.tlc('Trace_IterFit.tla', 'Trace_IterFit.cfg', env=env, count=False, label=label, timeout=1500)
    os.remove(path)
    m = _INIT.search(r['stdout'])
    if not m or int(m.group(1)) != len(traces):
        raise core.MachineryError('Trace_IterFit started %s of %d traces (malformed trace record?)' % (
            m.group(1) if m else 'none', len(traces)))
    far, done = {}, set()
    for m in _POS.finditer(r['stdout']):
        t, p, pc = int(m.group(1)), int(m.group(2)), m.group(3)
        far[t] = max(far.get(t, 1), p)
        if pc == 'unspec' or (pc == 'done' and p == len(traces[t - 1]['events']) + 1):
            done.add(t)                  # explained to the end, or left the domain of the statement
        if pc == 'unspec' and unspec is not None:
            unspec.add(t - 1)
    return {t - 1: far.get(t, 1) - 1 for t in range(1, len(traces) + 1) if t not in done}


# ---------------------------------------------------------------------------------------------
# code -> spec: real runs
FORMS = ['float64', 'int64', 'int32', 'int16', 'uint8']     # representations of integral abscissae


def make_pixel_problem(rng, k):
    """Integer abscissae (pixel indices), handed over as float64 / int64 / int32 / int16 / uint8 arrays: the same
    VALUES in another representation.  Orders 1..4, all breakpoint options, few or many pixels per interval."""
    nord = rng.choice([1, 2, 3, 4, 4])
    n0 = rng.randint(40, 200)
    start = rng.choice([0, 0, 3, 17])
    pix = list(range(start, start + n0))
    if rng.random() < 0.5:                                  # irregular: some pixels missing (never two in a row)
        drop = set()
        for _ in range(rng.randint(1, max(1, n0 // 10))):
            j = rng.randint(2, n0 - 3)
            if not ({j - 1, j, j + 1} & drop):
                drop.add(j)
        pix = [q for i, q in enumerate(pix) if i not in drop]
    xs = np.array(pix, dtype=float)
    n = xs.size
    u = (xs - xs[0]) / (xs[-1] - xs[0])
    amp = rng.choice([1.0, 10.0])
    sig = amp * rng.choice([0.02, 0.05, 0.1])
    sigma = sig * np.array([rng.choice([0.5, 1.0, 1.0, 2.0]) for _ in range(n)])
    if rng.random() < 0.5 and nord > 1:
        f = amp * np.sin(xs / rng.uniform(5, 12) + rng.uniform(0, 6))
    else:
        cf = [rng.uniform(-3, 3) for _ in range(nord)]
        f = amp * sum(cf[d] * u ** d for d in range(nord))
    y = f + np.array([rng.gauss(0, 1) for _ in range(n)]) * sigma
    w = 1.0 / sigma ** 2
    for _ in range(rng.choice([0, 1, 2])):                  # something for the rejection to find
        j = rng.randint(4, n - 5)
        y[j] += rng.choice([-1, 1]) * rng.uniform(15, 40) * sigma[j]
    zs = set()
    for _ in range(rng.choice([0, 0, 1, 3])):
        j = rng.randint(3, n - 4)
        if all(abs(j - q) > 2 for q in zs):
            zs.add(j)
            w[j] = rng.choice([0.0, -1.0])
    ngood = int((w > 0).sum())
    opt = rng.choice(['bkspace', 'bkspace', 'nbkpts', 'everyn'])
    per = rng.choice([5, 6, 8, 12, 25]) + (nord == 1) * 0   # pixels per breakpoint interval
    if opt == 'bkspace':
        kw = {'bkspace': float(rng.choice([per, per + 0.5, per * 1.3]))}
    elif opt == 'nbkpts':
        kw = {'nbkpts': max(2, int(round((xs[-1] - xs[0]) / per)) + 1)}
    else:
        cand = [ev for ev in range(max(3, per - 2), per + 6) if ngood // ev >= 3 and ngood % (ngood // ev - 1) != 0]
        kw = {'everyn': rng.choice(cand)} if cand else {'bkspace': float(per)}
    if nord == 1:
        # piecewise constant: which interval owns a point ON a breakpoint is a convention (C08), so the breakpoints are
        # kept off the pixels: nbkpts-1 coprime to the (integral) range
        import math
        rng_x = int(xs[-1] - xs[0])
        nb = max(3, int(round(rng_x / per)) + 1)
        while math.gcd(nb - 1, rng_x) != 1:
            nb += 1
        kw = {'nbkpts': nb} if opt != 'bkspace' else {'bkspace': float(rng_x / (nb - 1) * 0.9995)}
    lower, upper = rng.choice([(5, 5), (5, 5), (3, 7), (7, 3), (4, 6)])
    maxiter = rng.choice([0, 0, 1, 2, 10])
    order = np.lexsort((y, xs))
    forms = ['float64', 'int64', 'int32', 'int16' if (k % 2 or xs[-1] > 255) else 'uint8']
    rng.shuffle(forms)
    return {'X': xs[order], 'Y': y[order], 'W': w[order], 'nord': nord, 'kw': kw, 'lower': lower, 'upper': upper,
            'maxiter': maxiter, 'outliers': [], 'id': k, 'forms': forms}


def make_hole_problem(rng, k):
    """Sampling holes relative to the breakpoint spacing: 1 .. nord-1 consecutive breakpoint segments holding NO x value
    (or only non-positively weighted ones) between occupied segments.  Every basis function keeps data on its support
    (hole narrower than nord segments, dense neighbours), so the least-squares problem stays well posed (status 0).
    Breakpoints by nbkpts / bkspace / an explicit bkpt array / a placed array."""
    nord = rng.choice([2, 3, 4, 4])
    nseg = rng.randint(6, 14)
    wd = rng.choice([0.5, 1.0, 2.0])
    x0 = rng.choice([0.0, -3.0, 50.0, 1000.0])
    empty, ghost = set(), set()                            # ghost: occupied by non-positive weights only
    s0 = 2
    for _ in range(rng.choice([1, 1, 2])):
        e = rng.randint(1, nord - 1)
        lo = s0
        hi = nseg - 2 - e
        if lo > hi:
            break
        a = rng.randint(lo, hi)
        segs = set(range(a, a + e))
        if rng.random() < 0.25:
            ghost |= segs
        else:
            empty |= segs
        s0 = a + e + nord
    if not (empty | ghost):
        return make_hole_problem(rng, k)
    xs, wz, dense = [], [], []
    m = 0.05 * wd
    for i in range(nseg):
        a, b = i * wd, (i + 1) * wd
        if i in empty:
            continue
        if i in ghost:
            pts = sorted(rng.uniform(a + m, b - m) for _ in range(rng.randint(1, 2)))
            z = [True] * len(pts)
        else:
            near = bool({i - 1, i + 1} & (empty | ghost))
            c = rng.randint(7, 14) if (near or rng.random() < 0.8) else rng.randint(2, 4)
            pts = sorted(rng.uniform(a + m, b - m) for _ in range(c))
            z = [False] * c
            if i == 0:
                pts[0] = a
            if i == nseg - 1:
                pts[-1] = b
        xs += pts
        wz += z
        dense += [len(pts) >= 7] * len(pts)
    xs = x0 + np.array(xs)
    n = xs.size
    if len(set(xs.tolist())) != n:
        return make_hole_problem(rng, k)
    wz, dense = np.array(wz), np.array(dense)
    u = (xs - xs[0]) / (xs[-1] - xs[0])
    amp = rng.choice([1.0, 20.0])
    sig = amp * rng.choice([0.01, 0.03, 0.05])
    if rng.random() < 0.5:
        cf = [rng.uniform(-3, 3) for _ in range(nord)]
        f = amp * sum(cf[d] * u ** d for d in range(nord))
    else:
        f = amp * (np.sin(rng.uniform(1, 0.6 * nseg) * u + rng.uniform(0, 6)) + rng.uniform(-1, 1) * u)
    sigma = sig * np.array([rng.choice([0.5, 1.0, 1.0, 2.0]) for _ in range(n)])
    y = f + np.array([rng.gauss(0, 1) for _ in range(n)]) * sigma
    w = 1.0 / sigma ** 2
    w[wz] = [rng.choice([0.0, -1.0]) for _ in range(int(wz.sum()))]
    ok = dense & ~wz
    ok[[0, 1, n - 2, n - 1]] = False
    for _ in range(rng.choice([0, 1, 2])):                  # something for the rejection to find
        j = rng.randrange(n)
        if ok[j]:
            y[j] += rng.choice([-1, 1]) * rng.uniform(15, 30) * sigma[j]
    for _ in range(rng.choice([0, 0, 1, 2])):               # scattered non-positive weights in dense places
        j = rng.randrange(n)
        if ok[j] and w[j - 1] > 0 and w[j + 1] > 0:
            w[j] = rng.choice([0.0, -1.0])
    grid = x0 + wd * np.arange(nseg + 1)
    opt = rng.choice(['nbkpts', 'bkspace', 'bkpt', 'placed'])
    if opt == 'nbkpts':
        kw = {'nbkpts': nseg + 1}
    elif opt == 'bkspace':
        kw = {'bkspace': float(wd * 0.9995)}
    elif opt == 'bkpt':
        kw = {'bkpt': grid.tolist()}
    else:
        kw = {'placed': ([float(grid[0] - wd)] if rng.random() < 0.5 else []) + grid.tolist() + [float(grid[-1] + 0.5 * wd)]}
    lower, upper = rng.choice([(5, 5), (5, 5), (3, 7), (7, 3), (4, 6)])
    maxiter = rng.choice([0, 0, 1, 2, 10])
    order = np.lexsort((y, xs))
    return {'X': xs[order], 'Y': y[order], 'W': w[order], 'nord': nord, 'kw': kw, 'lower': lower, 'upper': upper,
            'maxiter': maxiter, 'outliers': [], 'id': k, 'holes': len(empty), 'ghosts': len(ghost)}


def make_gap_problem(rng, k):
    """Data gaps WIDER than the spline order in breakpoint segments (a detector gap: no x values at all, or a run of
    non-positively weighted points), optionally with a lone far-off point inside.  Breakpoints inside the gap have no
    support: a fit drops them (status -1) and is made again on the reduced breakpoint set, possibly more than once, and
    (lone point rejected later) again after a rejection.  Dense data on both sides keep every fit on the reduced set
    determined.  Breakpoints by nbkpts / bkspace / an explicit bkpt array / a placed array, not aligned with the gap."""
    nord = rng.choice([2, 3, 4, 4])
    wd = rng.choice([0.5, 1.0, 2.0])
    x0 = rng.choice([0.0, -3.0, 50.0, 1000.0])
    ngap = rng.choice([1, 1, 1, 2])
    left = rng.randint(nord + 1, nord + 5)                  # dense segments before the first gap
    gaps, pos = [], float(left) + rng.choice([0.0, 0.0, 0.3, 0.5, 0.8])
    for _ in range(ngap):
        width = rng.randint(nord, nord + 3) + rng.choice([0.0, 0.0, 0.2, 0.5, 0.7])
        gaps.append((pos, pos + width, rng.choice(['empty', 'empty', 'ghost', 'ghost', 'mixed'])))
        pos += width + rng.randint(nord + 1, nord + 5) + rng.choice([0.0, 0.4])
    nseg = int(np.ceil(pos - 1e-9))
    lone = rng.random() < 0.4                               # positively weighted points deep inside the first gap
    xs, wz, isl = [], [], []
    for i in range(nseg):
        c = rng.randint(7, 12)
        for q in sorted(rng.uniform(i + 0.03, i + 0.97) for _ in range(c)):
            g = next((g for g in gaps if g[0] < q < g[1]), None)
            if g is None:
                xs.append(q); wz.append(False); isl.append(False)
            elif g[2] == 'ghost' or (g[2] == 'mixed' and rng.random() < 0.4):
                xs.append(q); wz.append(True); isl.append(False)
    xs[0], xs[-1] = 0.0, float(nseg)
    if lone:
        # a discordant PAIR (same x within 1e-2 segment, far above / far below the signal) in the middle of the first
        # gap: it supports the breakpoints there until the rejection removes both - then a LATER fit drops them
        a, b, _ = gaps[0]
        q = 0.5 * (a + b) + rng.uniform(-0.2, 0.2)
        xs += [q, q + 0.01]; wz += [False, False]; isl += [True, True]
    o = np.argsort(xs)
    xs = x0 + wd * np.array(xs)[o]
    wz, isl = np.array(wz)[o], np.array(isl)[o]
    n = xs.size
    if len(set(xs.tolist())) != n:
        return make_gap_problem(rng, k)
    u = (xs - xs[0]) / (xs[-1] - xs[0])
    amp = rng.choice([1.0, 20.0])
    sig = amp * rng.choice([0.01, 0.03, 0.05])
    if rng.random() < 0.4:
        cf = [rng.uniform(-3, 3) for _ in range(nord)]
        f = amp * sum(cf[d] * u ** d for d in range(nord))
    else:
        f = amp * (np.sin(rng.uniform(1, 0.5 * nseg) * u + rng.uniform(0, 6)) + rng.uniform(-1, 1) * u)
    sigma = sig * np.array([rng.choice([0.5, 1.0, 1.0, 2.0]) for _ in range(n)])
    y = f + np.array([rng.gauss(0, 1) for _ in range(n)]) * sigma
    if lone:
        j = np.flatnonzero(isl)
        sigma[j] = sigma[j[0]]
        y[j] = f[j] + np.array([1, -1]) * rng.choice([-1, 1]) * rng.uniform(60, 200) * sigma[j]
    w = 1.0 / sigma ** 2
    w[wz] = [rng.choice([0.0, 0.0, -1.0]) for _ in range(int(wz.sum()))]
    ingap = np.array([any(g[0] - 1.2 < (q - x0) / wd < g[1] + 1.2 for g in gaps) for q in xs])
    ok = ~ingap & ~wz
    ok[[0, 1, n - 2, n - 1]] = False
    for _ in range(rng.choice([0, 1, 2, 3])):               # something for the rejection to find, away from the gaps
        j = rng.randrange(n)
        if ok[j]:
            y[j] += rng.choice([-1, 1]) * rng.uniform(15, 40) * sigma[j]
    for _ in range(rng.choice([0, 0, 1, 2])):               # scattered non-positive weights in dense places
        j = rng.randrange(n)
        if ok[j] and w[j - 1] > 0 and w[j + 1] > 0:
            w[j] = rng.choice([0.0, -1.0])
    grid = x0 + wd * np.arange(nseg + 1)
    opt = rng.choice(['nbkpts', 'bkspace', 'bkspace', 'bkpt', 'placed'])
    if opt == 'nbkpts':
        kw = {'nbkpts': nseg + 1}
    elif opt == 'bkspace':
        kw = {'bkspace': float(wd * rng.choice([0.9995, 0.9995, 0.77]))}
    elif opt == 'bkpt':
        kw = {'bkpt': grid.tolist()}
    else:
        kw = {'placed': ([float(grid[0] - wd)] if rng.random() < 0.5 else []) + grid.tolist() + [float(grid[-1] + 0.5 * wd)]}
    lower, upper = rng.choice([(5, 5), (5, 5), (3, 7), (7, 3), (4, 6)])
    maxiter = rng.choice([0, 1, 2, 3, 10, 10, 10, 10])
    order = np.lexsort((y, xs))
    return {'X': xs[order], 'Y': y[order], 'W': w[order], 'nord': nord, 'kw': kw, 'lower': lower, 'upper': upper,
            'maxiter': maxiter, 'outliers': [], 'id': k, 'gaps': ngap, 'lone': bool(lone)}


def make_sparse_problem(rng, k):
    """Sparse / irregular sampling: breakpoint intervals holding exactly 1, 2 or 3 points (an isolated point among
    them) next to dense ones.  Every fit stays determined: sparse intervals are never neighbours, the end intervals
    are dense, non-positive weights only sit in dense intervals, so every basis function keeps data (status 0)."""
    nord = rng.choice([1, 2, 3, 4, 4, 4])
    opt = rng.choice(['nbkpts', 'nbkpts', 'bkspace', 'everyn'])
    if nord == 1 and opt == 'everyn':
        opt = 'nbkpts'
    x0 = rng.choice([0.0, -7.5, 120.0, 3600.0])
    amp = rng.choice([1.0, 30.0])
    sig = amp * rng.choice([0.01, 0.02, 0.05])
    if opt == 'everyn':
        # breakpoints at every 2nd..4th good point of an irregularly spaced set: every interval is sparse
        ev = rng.choice([2, 3, 4])
        n = rng.randint(24, 60)
        gaps = np.array([rng.choice([0.05, 0.2, 1.0, 1.0, 3.0]) * rng.uniform(0.6, 1.4) for _ in range(n)])
        xs = x0 + np.cumsum(gaps)
        kw = {'everyn': ev}
        sparse_ok = np.zeros(n, dtype=bool)                # where a non-positive weight may go: nowhere near the ends
        sparse_ok[4:n - 4] = True
        nzmax = 1
    else:
        nint = rng.randint(3, 8)
        width = rng.choice([1.0, 2.0, 0.25])
        counts = []
        for i in range(nint):
            if 0 < i < nint - 1 and counts[-1] > 3 and rng.random() < 0.6:
                counts.append(rng.choice([1, 1, 1, 2, 3]))
            else:
                counts.append(rng.randint(6, 12))
        xs, dense = [], []
        for i, c in enumerate(counts):
            a, b = i * width, (i + 1) * width
            m = 0.04 * width                                # strictly inside the interval, clear of the breakpoints
            if c <= 3:
                pts = sorted(rng.uniform(a + 3 * m, b - 3 * m) for _ in range(c))
                pts = [q + 2 * m * j for j, q in enumerate(pts)] if c > 1 else pts
                pts = [min(q, b - m) for q in pts]
            else:
                pts = sorted(rng.uniform(a + m, b - m) for _ in range(c))
            if i == 0:
                pts[0] = a
            if i == nint - 1:
                pts[-1] = b
            xs += pts
            dense += [c > 3] * len(pts)
        xs = x0 + np.array(xs)
        n = xs.size
        sparse_ok = np.array(dense)
        sparse_ok[[0, 1, n - 2, n - 1]] = False
        rangex = xs[-1] - xs[0]
        kw = {'nbkpts': nint + 1} if opt == 'nbkpts' else {'bkspace': float(rangex / nint * 0.9995)}
        nzmax = 2
    if len(set(xs.tolist())) != n or np.any(np.diff(xs) <= 0):
        return make_sparse_problem(rng, k)
    u = (xs - xs[0]) / (xs[-1] - xs[0])
    if rng.random() < 0.5:
        cf = [rng.uniform(-3, 3) for _ in range(nord)]
        f = amp * sum(cf[d] * u ** d for d in range(nord))
    else:
        f = amp * (np.sin(rng.uniform(1, 5) * u + rng.uniform(0, 6)) + rng.uniform(-1, 1) * u)
    sigma = sig * np.array([rng.choice([0.5, 1.0, 1.0, 2.0]) for _ in range(n)])
    y = f + np.array([rng.gauss(0, 1) for _ in range(n)]) * sigma
    w = 1.0 / sigma ** 2
    if rng.random() < 0.5:                                 # something for the rejection to find (dense places only)
        for _ in range(rng.randint(1, 2)):
            j = rng.randrange(n)
            if sparse_ok[j]:
                y[j] += rng.choice([-1, 1]) * rng.uniform(15, 30) * sigma[j]
    for _ in range(rng.randint(0, nzmax)):
        j = rng.randrange(n)
        if sparse_ok[j] and (j == 0 or w[j - 1] > 0) and (j == n - 1 or w[j + 1] > 0):
            w[j] = rng.choice([0.0, -1.0])
    if opt == 'everyn':
        ngood = int((w > 0).sum())
        nb = max(ngood // kw['everyn'], 1)
        if nb < 3 or ngood % (nb - 1) == 0:                # the everyn index corner belongs to C08
            return make_sparse_problem(rng, k)
    lower, upper = rng.choice([(5, 5), (5, 5), (3, 7), (7, 3), (4, 6)])
    maxiter = rng.choice([0, 0, 0, 1, 2, 10])
    order = np.lexsort((y, xs))
    return {'X': xs[order], 'Y': y[order], 'W': w[order], 'nord': nord, 'kw': kw, 'lower': lower, 'upper': upper,
            'maxiter': maxiter, 'outliers': [], 'id': k, 'sparse': True}


def make_problem(rng, k, quick):
    """Seeded data set: smooth signal + noise, injected outliers, zero / negative weights; gap free."""
    nord = rng.choice([1, 2, 3, 4, 4, 4])
    nint = rng.choice([1, 2, 3, 4, 6])                     # breakpoint intervals
    per = rng.randint(30, 60)                              # points per interval
    n = max(60, min(400, nint * per + rng.randint(0, 7)))
    x0 = rng.uniform(-50, 4000)
    span = rng.choice([1.0, 10.0, 250.0])
    # jittered grid: no gap wider than two grid steps
    xs = x0 + span * (np.arange(n) + np.array([rng.uniform(-0.4, 0.4) for _ in range(n)])) / n
    if k % 7 == 3:                                         # ties in x (distinct y)
        for _ in range(rng.randint(1, 4)):
            j = rng.randrange(1, n)
            xs[j] = xs[j - 1]
    xs = np.sort(xs)
    u = (xs - xs[0]) / (xs[-1] - xs[0])
    amp = rng.choice([1.0, 30.0, 1000.0])
    sig = amp * rng.choice([0.01, 0.05, 0.2])
    sigma = sig * np.array([rng.choice([0.5, 1.0, 1.0, 2.0]) for _ in range(n)])
    wellmodelled = rng.random() < 0.7
    if wellmodelled:
        # a polynomial the spline represents exactly plus a ripple well below the noise
        cf = [rng.uniform(-3, 3) for _ in range(nord)]
        f = amp * sum(cf[d] * u ** d for d in range(nord)) + 0.3 * sig * np.sin(rng.uniform(1, 6) * u + rng.uniform(0, 6))
    else:
        # a signal the spline may follow only approximately (lack of fit shows up as rejections)
        f = amp * (np.sin(rng.uniform(0.5, 1.5 * nint) * u + rng.uniform(0, 6)) + rng.uniform(-2, 2) * u + rng.uniform(-3, 3))
    y = f + np.array([rng.gauss(0, 1) for _ in range(n)]) * sigma
    w = 1.0 / sigma ** 2
    # injected clear outliers: >= 50 sigma, away from the ends, never adjacent
    nout = rng.choice([0, 1, 1, 2, 3, 5])
    outl = []
    lo, hi = int(0.08 * n) + 2, int(0.92 * n) - 2
    for _ in range(nout):
        j = rng.randint(lo, hi)
        if all(abs(j - o) > 6 for o in outl):
            outl.append(j)
            y[j] += rng.choice([-1, 1]) * rng.uniform(50, 90) * sigma[j]
    # marginal points around the limits (3..8 sigma) so that later iterations have something to decide
    for _ in range(rng.choice([0, 2, 4])):
        j = rng.randint(lo, hi)
        if all(abs(j - o) > 3 for o in outl):
            y[j] = f[j] + rng.choice([-1, 1]) * rng.uniform(3, 8) * sigma[j]
    # zero / negative weights, scattered (never two neighbours), possibly on an outlier or at an end
    nz = rng.choice([0, 0, 1, 3, int(0.05 * n)])
    zs = set()
    for _ in range(nz):
        j = rng.choice([0, n - 1, rng.randrange(n), rng.randrange(n), rng.randrange(n)])
        if all(abs(j - q) > 1 for q in zs):
            zs.add(j)
            w[j] = rng.choice([0.0, 0.0, -1.0, -w[j]])
    opt = rng.choice(['nbkpts', 'nbkpts', 'bkspace', 'everyn'])
    if opt == 'everyn' and (nint < 2 or nord == 1):        # a single breakpoint is a degenerate knot set (C08); order 1
        opt = 'nbkpts'                                     # with data ON the breakpoints is C08's interval convention
    ngood = int((w > 0).sum())
    if opt == 'nbkpts':
        kw = {'nbkpts': nint + 1}
    elif opt == 'bkspace':
        kw = {'bkspace': float((xs[-1] - xs[0]) / nint * rng.choice([1.0, 1.02, 0.99]))}
    else:
        # steer clear of the everyn IndexError when nbkpts-1 divides the number of good points (belongs to C08)
        cand = [ev for ev in range(25, ngood // 3 + 1) if ngood // ev >= 3 and ngood % (ngood // ev - 1) != 0]
        kw = {'everyn': rng.choice(cand)} if cand else {'nbkpts': nint + 1}
    lower, upper = rng.choice([(5, 5), (5, 5), (3, 7), (7, 3), (4, 6), (2.5, 5), (5, 3.5)])
    maxiter = rng.choice([0, 1, 2, 10, 10])
    order = np.lexsort((y, xs))                            # canonical rank order: by (x, y)
    xs, y, w = xs[order], y[order], w[order]
    inv = np.empty(n, dtype=int)
    inv[order] = np.arange(n)
    # the clear-outlier claim is made where the signal is one the spline can follow
    outliers = sorted(int(inv[j]) + 1 for j in outl if w[inv[j]] > 0) if wellmodelled else []
    if len(set(zip(xs.tolist(), y.tolist()))) != n:
        return make_problem(rng, k, quick)
    return {'X': xs, 'Y': y, 'W': w, 'nord': nord, 'kw': kw, 'lower': lower, 'upper': upper, 'maxiter': maxiter,
            'outliers': outliers, 'id': k}


def caller_orders(rng, n, count=4):
    """caller order = list perm with perm[c] = rank (1-based) of the point at caller position c."""
    ident = list(range(1, n + 1))
    out = [ident, ident[::-1]]
    while len(out) < count:
        p = ident[:]
        rng.shuffle(p)
        out.append(p)
    return out[:count]


def run_real(bsp, P, perm, form='float64'):
    """One real iterfit run in caller order perm, abscissae handed over as dtype `form`.
    Returns dict(events, outmask, sset, exc, tb, form)."""
    idx = np.array(perm, dtype=int) - 1
    x, y, w = P['X'][idx].astype(form), P['Y'][idx].copy(), P['W'][idx].copy()
    if not np.array_equal(x.astype(float), P['X'][idx]):
        raise core.MachineryError('abscissae are not representable as %s' % form)
    rec = Recorder(bsp)
    rec.rankof = {(a, b): r + 1 for r, (a, b) in enumerate(zip(P['X'].tolist(), P['Y'].tolist()))}
    rec.wof = {r + 1: v for r, v in enumerate(P['W'].tolist())}
    res = {'events': rec.events, 'outmask': None, 'sset': None, 'exc': None, 'tb': '', 'form': form}
    with rec:
        try:
            kw = {a: (np.array(v, dtype=float) if isinstance(v, list) else v) for a, v in P['kw'].items()}
            sset, outmask = bsp.iterfit(x, y, invvar=w, nord=P['nord'], lower=P['lower'], upper=P['upper'],
                                        maxiter=P['maxiter'], **kw)
            res['sset'] = sset
            res['outmask'] = np.asarray(outmask)
        except Exception as ex:
            res['exc'] = '%s: %s' % (type(ex).__name__, str(ex)[:160])
            res['tb'] = traceback.format_exc()
    if not (np.array_equal(x.astype(float), P['X'][idx]) and np.array_equal(y, P['Y'][idx]) and np.array_equal(w, P['W'][idx], equal_nan=True)):
        res['clobbered'] = True
    return res


def eval_points(P):
    g = P['X'][P['W'] > 0]
    return np.unique(np.concatenate([g, 0.5 * (g[1:] + g[:-1])]))


def scaled(diff, P):
    s = float(np.median(1.0 / np.sqrt(P['W'][P['W'] > 0])))
    v = float(np.max(np.abs(diff))) / s * MICRO if diff.size else 0.0
    if not np.isfinite(v):
        return CLAMP
    return int(min(CLAMP, np.ceil(v)))


def build_trace(P, perm, res, ref):
    """Abstract one recorded run into a trace for Trace_IterFit.  Returns (trace, skip reason or None, info)."""
    n = P['X'].size
    ev = res['events']
    # a fit that DROPS breakpoints (status -1) and is made again is part of the procedure: the run is judged, with the
    # oracle of every later fit on the breakpoints then in effect.  A fit that fails outright (-2) is C09's.
    if res['exc'] is not None:
        if 'maskpoints' in res['tb'] or any(e['a'] == 'fit' and e['st'] not in (0, -1) for e in ev):
            return None, 'a fit failed outright (C09 territory): ' + res['exc'], None
        return None, None, {'exception': res['exc']}
    if any(e['a'] == 'fit' and e['st'] not in (0, -1) for e in ev):
        return None, 'a fit failed outright, status -2 (C09 territory)', None
    sset = res['sset']
    if sset.nord != P['nord']:
        return None, None, {'exception': 'returned object has order %r' % (sset.nord,)}
    nbk = int(np.asarray(sset.breakpoints).size)
    if np.asarray(sset.mask).shape != (nbk,):
        return None, None, {'exception': 'breakpoint mask of the returned object has shape %r for %d breakpoints' % (
            np.asarray(sset.mask).shape, nbk)}
    form = res.get('form', 'float64')
    if sset.nord == 1:
        inner = np.asarray(sset.breakpoints, dtype=float)[1:-1]
        if np.isin(P['X'], inner).any():
            return None, 'order 1 with a data point exactly on an interior breakpoint (which interval owns it is C08)', None
    solver = P.setdefault('_solver', {})

    def solver_on(knots):
        """the independent solver on the knots a fit left in effect (one per distinct knot set of this data set)"""
        key = (knots.tobytes(), sset.nord)
        if key not in solver:
            # data with wide gaps: the curve INSIDE a gap hangs on barely supported coefficients; the banded normal
            # equations of the code under test and a dense solve then differ by ~3e-4 microsigma per unit of condition
            # number (measured), so such a set is compared only up to condition 1e5 (else: not judged, counted as skipped)
            solver[key] = Solver(P['X'], P['Y'], P['W'], knots, sset.nord, minsv=1e-5 if P.get('gaps') else 1e-7)
        return solver[key]
    last = lastbk = lastst = S = None
    events = []
    for e in ev:
        e = dict(e)
        kn = e.pop('_kn', None)
        if e['a'] == 'fit':
            if kn is None or 'bk' not in e:
                raise core.MachineryError('recorded fit event without its breakpoints')
            last, lastbk, lastst = frozenset(e['mask']), e['bk'], e['st']
            S = solver_on(kn) if kn.size >= 2 * sset.nord else None
        elif e['a'] == 'reject':
            if e.get('shape') is False:
                return None, None, {'exception': 'djs_reject called with arrays of the wrong shape'}
            e.pop('shape', None)
            z = S.z(last) if (last is not None and S is not None) else None
            if z is None:
                return None, 'independent solver: rank-deficient system for a set the run fitted', None
            e['z'] = z
            e['zbk'] = lastbk
        events.append(e)
    if S is None:
        return None, 'no fit was made or fewer than 2*nord breakpoints left', None
    outmask = res['outmask']
    if outmask.shape != (n,) or outmask.dtype != bool:
        return None, None, {'exception': 'outmask has shape %r dtype %s' % (outmask.shape, outmask.dtype)}
    xe = eval_points(P)
    xe = xe[(xe >= S.lo) & (xe <= S.hi)]
    if sset.nord == 1:                                     # piecewise constant: not evaluated ON a breakpoint (see above)
        xe = xe[~np.isin(xe, np.asarray(sset.breakpoints, dtype=float))]
    solved = lastst == 0                                   # else: the last fit only dropped breakpoints, no curve is specified
    want = S.curve(last, xe) if (last is not None and solved) else None
    if want is None and solved:
        return None, 'independent solver: rank-deficient system for the last set fitted', None
    try:
        got = np.asarray(sset.value(xe)[0], dtype=float)
        cdiff = scaled(got - want, P) if solved else 0
        if 'forms' in P and solved:
            # evaluation points given as an integer array (the good data abscissae in the run's representation)
            xi = P['X'][P['W'] > 0]
            xi = xi[(xi >= S.lo) & (xi <= S.hi)]
            goti = np.asarray(sset.value(xi.astype(form))[0], dtype=float)
            cdiff = max(cdiff, scaled(goti - S.curve(last, xi), P))
    except Exception:                                      # the returned object cannot be evaluated: no curve at all
        got = np.full(xe.shape, np.nan)
        cdiff = CLAMP
    pts = sorted(perm[c] for c in range(n) if outmask[c])
    rete = {'a': 'return', 'outmask': [c + 1 for c in range(n) if outmask[c]], 'cdiff': cdiff,
            'cbk': lastbk, 'retbk': in_effect(sset),
            'hasref': ref is not None, 'refpts': ref['pts'] if ref else [], 'refcurve': ref['curve'] if ref else [],
            'pdiff': scaled(got - ref['got'], P) if ref and ref['got'].shape == got.shape else (CLAMP if ref else 0)}
    events.append(rete)
    tr = {'n': n, 'perm': list(perm), 'cpos': [c + 1 for c in range(n) if P['W'][perm[c] - 1] > 0],
          'lower': int(round(P['lower'] * MICRO)), 'upper': int(round(P['upper'] * MICRO)),
          'band': BAND,
          'maxiter': P['maxiter'], 'mingood': max(P['nord'], 2), 'nbk': nbk, 'tol': TOL, 'outliers': P['outliers'], 'events': events}
    sts = [e['st'] for e in ev if e['a'] == 'fit']
    info = {'pts': pts, 'curve': sorted(last) if last else [], 'got': got, 'cdiff': cdiff, 'form': form, 'nfit': sum(e['a'] == 'fit' for e in ev),
            'ndrop': sts.count(-1), 'solved_after_drop': -1 in sts and 0 in sts[sts.index(-1):],
            'late_drop': any(a == 0 and b == -1 for a, b in zip(sts, sts[1:])),
            'clobbered': res.get('clobbered', False)}
    return tr, None, info


def describe_problem(P, perm, form=None):
    kind = 'sorted' if perm == sorted(perm) else ('reversed' if perm == sorted(perm, reverse=True) else 'shuffled')
    kwtxt = {a: ('<%d values %g..%g>' % (len(v), v[0], v[-1]) if isinstance(v, list) else v) for a, v in P['kw'].items()}
    if P.get('holes') or P.get('ghosts'):
        kwtxt['empty segments'] = P.get('holes', 0) + P.get('ghosts', 0)
    if P.get('gaps'):
        kwtxt['gaps wider than the order'] = P['gaps']
    return 'n=%d nord=%d %s lower=%s upper=%s maxiter=%d outliers=%d nonpositive-weights=%d order=%s%s' % (
        P['X'].size, P['nord'], kwtxt, P['lower'], P['upper'], P['maxiter'], len(P['outliers']),
        int((P['W'] <= 0).sum()), kind, (' x.dtype=' + form) if form else '')


def describe_order(perm):
    perm = list(perm)
    return 'sorted' if perm == sorted(perm) else ('reversed' if perm == sorted(perm, reverse=True) else 'shuffled')


def short_events(events):
    out = []
    for e in events:
        if e['a'] == 'fit':
            out.append('fit(%d pts, %d breakpoints)->%d%s' % (len(e['mask']), len(e.get('bk0', ())), e['st'], (
                ' dropping %d' % (len(e['bk0']) - len(e['bk']))) if len(e.get('bk', ())) != len(e.get('bk0', ())) else ''))
        elif e['a'] == 'reject':
            out.append('reject(%d->%d, qdone=%s)' % (len(e['inm']), len(e['out']), e['qd']))
        else:
            out.append('return(%d True)' % len(e['outmask']))
    return ' '.join(out)


def case_of(P, perm, k=None, ref=None, form='float64'):
    """ref = (caller order, representation) of the reference run of the same data, or None"""
    return {'kind': 'trace', 'problem': {'X': P['X'].tolist(), 'Y': P['Y'].tolist(), 'W': P['W'].tolist(), 'nord': P['nord'],
                                         'kw': P['kw'], 'lower': P['lower'], 'upper': P['upper'], 'maxiter': P['maxiter'],
                                         'outliers': P['outliers'], 'id': P['id'], 'pixel': 'forms' in P,
                                         'holes': P.get('holes', 0), 'ghosts': P.get('ghosts', 0), 'gaps': P.get('gaps', 0)},
            'perm': list(perm), 'event': k, 'form': form, 'ref_perm': list(ref[0]) if ref else None,
            'ref_form': ref[1] if ref else None}


def judge_batch(ctx, bsp, batch, label, stats):
    """batch: list of (P, perm, res, trace, info, caller order of the reference run).  Validates, classifies, reports."""
    traces = [b[3] for b in batch]
    unspec = set()
    bad = validate_traces(ctx, traces, label, unspec=unspec)
    if unspec:
        stats['skipped']['fewer good points left than the spline order'] = \
            stats['skipped'].get('fewer good points left than the spline order', 0) + len(unspec)
    explained = {}
    if bad:
        sub = sorted(bad)
        again = validate_traces(ctx, [traces[t] for t in sub], label + '[Dev D-C10-1]', dev='D-C10-1')
        explained = {t: 'D-C10-1' for j, t in enumerate(sub) if j not in again}
    for t, (P, perm, res, tr, info, refperm) in enumerate(batch):
        ctx.validated()
        ctx.evaluated(len(tr['events']), 'recorded-events')
        if info['nfit'] >= 2:
            ctx.nontriv(('refit', P['id'], tuple(perm[:8])))
        if t not in bad and t not in unspec:
            stats['drop_runs'] += int(info['solved_after_drop'])
            stats['late_drop_runs'] += int(info['late_drop'])
            stats['multi_drop_runs'] += int(info['ndrop'] >= 2)
        stats['maxcdiff'] = max(stats['maxcdiff'], info['cdiff'])
        if t in bad:
            k = bad[t]
            e = tr['events'][k] if k < len(tr['events']) else None
            brief = dict(e) if e else {}
            brief.pop('z', None)
            for fld in ('mask', 'inm', 'out', 'outmask', 'refpts', 'refcurve', 'bk0', 'bk', 'zbk', 'cbk', 'retbk'):
                if fld in brief:
                    brief[fld] = '%d points' % len(brief[fld])
            dev = explained.get(t)
            stats['refused'] += 1
            stats['refused_' + str(dev)] = stats.get('refused_' + str(dev), 0) + 1
            if stats['refused_' + str(dev)] > MAXREPORT:
                continue
            if e and e['a'] == 'return':
                brief = {'a': 'return', 'outmask': brief['outmask'], 'cdiff': e['cdiff'], 'pdiff': e['pdiff'],
                         'breakpoints': '%d in effect' % len(e['retbk'])}
            what = ('%srecorded run refused by Trace_IterFit at event %d %s after: %s [%s]' % (
                '[deviation D-C10-1: loop stops after the first rejection] ' if dev else '', k, brief,
                short_events(tr['events'][:k]) or 'nothing', describe_problem(P, perm, info['form'])))
            ctx.violation(dict(case_of(P, perm, k, refperm, info['form']), what=what, deviation=dev), finding=dev)
        elif info['clobbered']:
            ctx.violation(dict(case_of(P, perm, None, None, info['form']),
                               what='iterfit modified its input arrays [%s]' % describe_problem(P, perm, info['form'])))
        elif t not in unspec:
            stats['accepted'].append(tr)


def falsify(tr, kind, rng):
    """A copy of an accepted trace with ONE observed field changed to something the real run did not produce.
    Returns (trace, what) or None when this kind does not apply to the trace."""
    t = dict(tr, events=[dict(e) for e in tr['events']])
    ev = t['events']
    n = t['n']
    ret = ev[-1]
    fits = [i for i, e in enumerate(ev) if e['a'] == 'fit']
    rejs = [i for i, e in enumerate(ev) if e['a'] == 'reject']
    solved = bool(fits) and ev[fits[-1]]['st'] == 0        # else the last fit only dropped breakpoints: no curve is specified
    if kind == 'mask_bit':                                 # one bit of the returned mask flipped
        c = rng.randint(1, n)
        ret['outmask'] = sorted(set(ret['outmask']) ^ {c})
    elif kind == 'curve':                                  # returned curve beyond the tolerance
        if not solved:
            return None
        ret['cdiff'] = t['tol'] + 1 + rng.randint(0, 1000)
    elif kind == 'status':                                 # a fit reports "breakpoints dropped"
        cand = [i for i in fits if ev[i]['st'] == 0]
        if not cand:
            return None
        ev[rng.choice(cand)]['st'] = -1
    elif kind == 'fit_set':                                # a fit was handed one point less
        e = ev[rng.choice(fits)]
        if len(e['mask']) < 2:
            return None
        e['mask'] = sorted(set(e['mask']) - {rng.choice(e['mask'])})
    elif kind == 'qdone':
        if not rejs:
            return None
        e = ev[rng.choice(rejs)]
        e['qd'] = not e['qd']
    elif kind == 'reject_inlier':                          # a point well inside the limits is rejected as well
        if not rejs:
            return None
        e = ev[rng.choice(rejs)]
        lim = min(t['lower'], t['upper']) // 2
        inl = [r for r in e['out'] if abs(e['z'][r - 1]) < lim]
        if not inl:
            return None
        e['out'] = sorted(set(e['out']) - {rng.choice(inl)})
    elif kind == 'keep_outlier':                           # a point far beyond the limits is kept
        cand = [(i, r) for i in rejs for r in set(ev[i]['inm']) - set(ev[i]['out'])
                if abs(ev[i]['z'][r - 1]) > 2 * max(t['lower'], t['upper'])]
        if not cand:
            return None
        i, r = rng.choice(cand)
        ev[i]['out'] = sorted(set(ev[i]['out']) | {r})
    elif kind == 'other_order':                            # differs from the run of the same data in another order
        if not ret['hasref'] or not solved:
            return None
        ret['pdiff'] = t['tol'] + 1
    elif kind == 'early_return':                           # the last refit and its rejection pass are missing
        if len(fits) < 2:
            return None
        t['events'] = ev[:fits[-1]] + [ret]
    elif kind == 'retbk':                                  # the returned object carries other breakpoints than the last fit left
        b = set(ret['retbk'])
        off = sorted(set(range(1, t['nbk'] + 1)) - b)
        if off and rng.random() < 0.5:
            b.add(rng.choice(off))
        else:
            b.discard(rng.choice(sorted(b)))
        ret['retbk'] = sorted(b)
    elif kind == 'silent_drop':                            # a fit reporting status 0 masked a breakpoint
        e = ev[rng.choice(fits)]
        if e['st'] != 0 or len(e['bk']) < 2:
            return None
        e['bk'] = sorted(set(e['bk']) - {rng.choice(e['bk'])})
    elif kind == 'stale_oracle':                           # residuals judged on the breakpoints in effect BEFORE a drop
        cand = [i for i in rejs if any(ev[j]['a'] == 'fit' and ev[j]['st'] == -1 for j in range(i))]
        if not cand:
            return None
        i = rng.choice(cand)
        ev[i]['zbk'] = list(next(ev[j]['bk0'] for j in range(i) if ev[j]['a'] == 'fit' and ev[j]['st'] == -1))
    elif kind == 'refit_on_old_breakpoints':               # the fit after a drop was called with the dropped breakpoints back
        cand = [i for a, i in zip(fits, fits[1:]) if ev[a]['st'] == -1]
        if not cand:
            return None
        i = rng.choice(cand)
        ev[i]['bk0'] = list(ev[fits[fits.index(i) - 1]]['bk0'])
    else:
        raise core.MachineryError('unknown falsification ' + kind)
    return t


FALSIFICATIONS = ['mask_bit', 'curve', 'status', 'fit_set', 'qdone', 'reject_inlier', 'keep_outlier', 'other_order',
                  'early_return', 'retbk', 'silent_drop', 'stale_oracle', 'refit_on_old_breakpoints']


def falsified_selftest(ctx, accepted, rng, count):
    """Binding of the trace validation (the position-variable equivalent of core.binding_selftest): accepted recorded
    runs with ONE observed field falsified must every one be refused by Trace_IterFit; an accepted one means the trace
    specification constrains nothing there - a failure of the machinery (exit 2), never a verdict about pydl."""
    if ctx.violations or ctx.known_hits:
        return                                              # the code under test is already refused
    if not accepted:
        raise core.MachineryError('binding self-test of Trace_IterFit: no accepted recorded run to falsify')
    pool = accepted[:]
    rng.shuffle(pool)
    fals, kinds = [], []
    k = 0
    for tr in pool:
        if len(fals) >= count:
            break
        for shift in range(len(FALSIFICATIONS)):
            kind = FALSIFICATIONS[(k + shift) % len(FALSIFICATIONS)]
            f = falsify(tr, kind, rng)
            if f is not None:
                fals.append(f)
                kinds.append(kind)
                break
        k += 1
    bad = validate_traces(ctx, fals, 'Trace_IterFit[falsified]')
    by = {}
    for j, kind in enumerate(kinds):
        d = by.setdefault(kind, {'falsified': 0, 'refused': 0})
        d['falsified'] += 1
        d['refused'] += int(j in bad)
    ctx.cov['parts']['selftest_recorded_traces'] = {'corrupted_traces': len(fals), 'rejected': len(bad), 'by_kind': by}
    missed = [j for j in range(len(fals)) if j not in bad]
    if missed:
        raise core.MachineryError('binding self-test of Trace_IterFit: %d of %d falsified runs were accepted, e.g. kind %s' % (
            len(missed), len(fals), kinds[missed[0]]))
    if len(by) < 6:
        raise core.MachineryError('binding self-test of Trace_IterFit: only %d kinds of falsification applied' % len(by))


def run_traces(ctx, bsp):
    rng = random.Random(ctx.seed)
    nprob = 60 if ctx.quick else 720
    per_batch = 30 if ctx.quick else 60
    stats = {'maxcdiff': 0, 'skipped': {}, 'runs': 0, 'refused': 0, 'accepted': [], 'forms': {},
             'drop_runs': 0, 'late_drop_runs': 0, 'multi_drop_runs': 0}
    batch = []
    done = 0
    for k in range(nprob):
        P = (make_gap_problem(rng, k) if k % 12 in (10, 11) else
             make_pixel_problem(rng, k) if k % 12 in (2, 5, 8) else
             make_hole_problem(rng, k) if k % 12 in (3, 7) else
             make_sparse_problem(rng, k) if k % 12 in (1, 6, 9) else make_problem(rng, k, ctx.quick))
        ref = refperm = None
        left = []                                          # runs of this data set that left the domain: (perm, form, why)
        for j, perm in enumerate(caller_orders(rng, P['X'].size)):
            form = P['forms'][j] if 'forms' in P else 'float64'
            res = run_real(bsp, P, perm, form)
            stats['runs'] += 1
            stats['forms'][form] = stats['forms'].get(form, 0) + 1
            tr, skip, info = build_trace(P, perm, res, ref)
            if skip:
                left.append((perm, form, skip))
                continue
            if tr is None:
                ctx.validated()
                ctx.violation(dict(case_of(P, perm, None, None, form),
                                   what='iterfit [%s]: %s' % (describe_problem(P, perm, form), info['exception'])))
                continue
            batch.append((P, perm, res, tr, info, refperm))
            if ref is None:
                ref, refperm = info, (perm, form)
            if k == 0 and j == 0:
                ctx.sample({'recorded_run': describe_problem(P, perm, form), 'events': short_events(tr['events']),
                            'curve_vs_independent_fit_microsigma': info['cdiff']})
        P.pop('_solver', None)
        for perm, form, why in left:
            if refperm is None:
                # no order of this data set could be judged: the data set itself is outside C10
                stats['skipped'][why.split(':')[0]] = stats['skipped'].get(why.split(':')[0], 0) + 1
                continue
            # the same data in another caller order / representation was fitted with status 0 throughout and judged:
            # leaving the domain here is itself a dependence on the order (or dtype) of the data
            ctx.validated()
            stats['orderdep'] = stats.get('orderdep', 0) + 1
            if stats['orderdep'] <= MAXREPORT:
                ctx.violation(dict(case_of(P, perm, None, refperm, form),
                                   what='order / representation dependence: iterfit [%s] ended otherwise (%s) than the same data in '
                                        'caller order %s, x.dtype=%s, which was fitted with status 0 throughout' % (
                                            describe_problem(P, perm, form), why[:120], describe_order(refperm[0]), refperm[1])))
        if len(batch) >= per_batch * 4 or k == nprob - 1:
            if batch:
                judge_batch(ctx, bsp, batch, 'Trace_IterFit[%d:%d]' % (done, done + len(batch)), stats)
                done += len(batch)
            batch = []
    nskip = sum(stats['skipped'].values())
    if nskip * 5 > stats['runs'] and (ctx.violations or ctx.known_hits):
        print('  (%d of %d recorded runs fell outside the domain of C10 and were not judged: %r)' % (nskip, stats['runs'], stats['skipped']),
              flush=True)
    elif nskip * 5 > stats['runs']:
        raise core.MachineryError('%d of %d recorded runs fell outside the domain of C10: %r' % (nskip, stats['runs'], stats['skipped']))
    if stats['refused'] > MAXREPORT:
        print('  (%d recorded runs refused in all, %d of them not explained by deviation D-C10-1; the first %d of either '
              'kind are reported)' % (stats['refused'], stats.get('refused_None', 0), MAXREPORT), flush=True)
    ctx.sample({'recorded_runs': stats['runs'], 'validated': done, 'refused': stats['refused'], 'out_of_domain_skipped': stats['skipped'],
                'abscissa_representations': stats['forms'], 'max_curve_discrepancy_microsigma': stats['maxcdiff'],
                'accepted_runs_solved_after_dropping_breakpoints': stats['drop_runs'],
                'accepted_runs_dropping_after_a_rejection': stats['late_drop_runs'],
                'accepted_runs_dropping_twice': stats['multi_drop_runs']}, limit=12)
    ctx.cov['parts']['recorded_runs_solved_after_dropping_breakpoints'] = stats['drop_runs']
    if not (ctx.violations or ctx.known_hits) and stats['drop_runs'] < (12 if ctx.quick else 150):
        # vacuity guard: the reduced-breakpoint dimension must really have been exercised
        raise core.MachineryError('only %d accepted recorded runs dropped breakpoints and solved on the reduced set' % stats['drop_runs'])
    falsified_selftest(ctx, stats['accepted'], random.Random(ctx.seed + 1), 120 if ctx.quick else 300)
    return stats


# ---------------------------------------------------------------------------------------------
# spec -> code: TLC behaviours replayed on the real iterfit (oracle in place of bspline.fit)
WPOS = [1.0, 4.0, 0.25, 1.0, 4.0]
WNEG = [0.0, -1.0, 0.0, -4.0, 0.0]
YOF = [30.0, 60.0, 20.0, 50.0, 10.0]      # y of rank 1..5: distinct and not monotone in x


# abscissae of ranks 1..n in a replayed behaviour: consecutive integers, or (hole) with a sampling hole that leaves a
# whole breakpoint segment of the nbkpts=4 knot set empty (iterfit and the bspline constructor run on it; the oracle
# stands in for the fit, so the geometry cannot change the specified outcome)
XPLAIN = {n: [float(r) for r in range(1, n + 1)] for n in range(1, 6)}
XHOLE = {1: [1.0], 2: [1.0, 7.0], 3: [1.0, 2.0, 7.0], 4: [1.0, 2.0, 7.0, 8.0], 5: [1.0, 2.0, 3.0, 9.0, 10.0]}


def concretise(st, hole=False):
    """TLC state (finished behaviour) -> arguments of iterfit + the oracle script."""
    p = st['prob']
    n = p['n']
    perm = list(p['perm'])
    cpos = set(p['cpos'])
    xof = (XHOLE if hole else XPLAIN)[n]
    x = np.array([xof[perm[c] - 1] for c in range(n)])
    y = np.array([YOF[perm[c] - 1] for c in range(n)])
    w = np.array([WPOS[perm[c] - 1] if (c + 1) in cpos else WNEG[perm[c] - 1] for c in range(n)])
    script = []
    hist = list(st['hist'])
    for i, e in enumerate(hist):
        if e['a'] == 'fit':
            z = None
            if i + 1 < len(hist) and hist[i + 1]['a'] == 'reject':
                z = list(hist[i + 1]['z'])
            script.append({'st': e['st'], 'mask': sorted(e['mask']), 'z': z, 'bk': sorted(e['bk'])})
    return {'n': n, 'perm': perm, 'x': x, 'y': y, 'w': w, 'lower': float(p['lower']), 'upper': float(p['upper']),
            'maxiter': p['maxiter'], 'script': script, 'nrej': sum(e['a'] == 'reject' for e in hist),
            'xof': xof, 'hole': hole, 'nbk': p['nbk'],
            # the problem's breakpoints 1..nbk are these entries of the object's breakpoint array: the two interior
            # breakpoints of the nbkpts=4 set / the two end breakpoints of the nbkpts=2 set (order 2: one pad each side)
            'bkat': [2, 3] if hole else [1, 2]}


def run_scripted(bsp, c, form='float64'):
    """Real iterfit + real djs_reject; bspline.fit answers from the behaviour's oracle.  The abscissae (ranks, integral)
    are handed over in the representation `form`."""
    n = c['n']
    calls = []

    def oracle_fit(sset, xdata, ydata, invvar, x2=None):
        k = len(calls)
        ent = c['script'][k] if k < len(c['script']) else {'st': 0, 'z': None, 'bk': None}
        calls.append(k)
        if ent['bk'] is not None:                          # the behaviour's fit leaves these breakpoints in effect
            for j, at in enumerate(c['bkat']):
                if (j + 1) not in ent['bk']:
                    sset.mask[at] = False
        rk = {v: r + 1 for r, v in enumerate(c['xof'])}
        ranks = np.array([rk.get(float(v), 0) for v in np.asarray(xdata, dtype=float)], dtype=int)
        z = ent['z'] or [0] * n
        sig = np.array([1.0 / np.sqrt(WPOS[r - 1]) if 1 <= r <= n else 1.0 for r in ranks])
        zz = np.array([float(z[r - 1]) if 1 <= r <= n else 0.0 for r in ranks])
        yfit = np.asarray(ydata, dtype=float) - zz * sig
        mask = frozenset(int(r) for r, v in zip(ranks, np.asarray(invvar, dtype=float)) if v > 0)
        try:
            sset.coeff = np.zeros(np.shape(sset.coeff)) + float(sum(2 ** (r - 1) for r in mask))
        except Exception:
            pass
        return (ent['st'], yfit)

    rec = Recorder(bsp, fit_impl=oracle_fit)
    rec.rankof = {(c['xof'][r - 1], YOF[r - 1]): r for r in range(1, n + 1)}
    rec.wof = {r: WPOS[r - 1] for r in range(1, n + 1)}
    obs = {'exc': None}
    with rec:
        try:
            sset, outmask = bsp.iterfit(c['x'].astype(form), c['y'].copy(), invvar=c['w'].copy(), nord=2, nbkpts=4 if c['hole'] else 2,
                                        lower=c['lower'], upper=c['upper'], maxiter=c['maxiter'])
            outmask = np.asarray(outmask)
            obs['outmask'] = [i + 1 for i in range(n) if outmask.shape == (n,) and outmask[i]]
            obs['shape_ok'] = outmask.shape == (n,) and outmask.dtype == bool
            m = np.asarray(sset.mask, dtype=bool)
            obs['bk'] = sorted(j + 1 for j, at in enumerate(c['bkat']) if m[at])
            obs['bk_other'] = bool(np.all(np.delete(m, c['bkat'])))
            cf = np.ravel(np.asarray(sset.coeff, dtype=float))
            code = int(cf[0]) if cf.size else -1
            obs['curve'] = [r for r in range(1, n + 1) if (code >> (r - 1)) & 1]
        except Exception as ex:
            obs['exc'] = '%s: %s' % (type(ex).__name__, str(ex)[:160])
    obs['fits'] = [(e['mask'], e['st'], e['args']) for e in rec.events if e['a'] == 'fit']
    obs['fitbk'] = [sorted(j + 1 for j, at in enumerate(c['bkat']) if (at + 1) in e['bk0']) for e in rec.events if e['a'] == 'fit']
    obs['rejects'] = [(e['inm'], e['out'], e['qd']) for e in rec.events if e['a'] == 'reject']
    return obs


def compare(st, c, obs):
    """Mismatch description or None.  Every expected value is read from the TLC state st."""
    if obs['exc']:
        return 'raised ' + obs['exc']
    expfits = [(e['mask'], e['st']) for e in c['script']]
    if [(m, s) for m, s, _ in obs['fits']] != expfits:
        return 'sets handed to bspline.fit %s, specified %s' % ([m for m, _, _ in obs['fits']], [m for m, _ in expfits])
    if not all(a for _, _, a in obs['fits']):
        return 'bspline.fit received unsorted x, mismatched (x, y) pairs or a wrong inverse variance'
    want = sorted(st['outmask'])
    alt = sorted(cc + 1 for cc in range(c['n']) if c['perm'][cc] in st['curveOf'])
    if not obs['shape_ok']:
        return 'outmask is not a boolean array of the input length'
    if obs['outmask'] != want and not (c['maxiter'] == 0 and obs['outmask'] == alt):
        return 'returned mask True at caller positions %s, specified %s' % (obs['outmask'], want)
    if obs['curve'] != sorted(st['curveOf']):
        return 'returned curve is the fit to %s, specified %s' % (obs['curve'], sorted(st['curveOf']))
    before = [list(range(1, c['nbk'] + 1))] + [e['bk'] for e in c['script'][:-1]]
    if obs['fitbk'] != before:
        return 'breakpoints in effect at the calls of bspline.fit %s, specified %s' % (obs['fitbk'], before)
    if obs['bk'] != sorted(st['bk']) or not obs['bk_other']:
        return 'returned object has breakpoints %s in effect, specified %s' % (obs['bk'], sorted(st['bk']))
    if c['maxiter'] > 0 and len(obs['rejects']) != c['nrej']:
        return '%d rejection passes, specified %d' % (len(obs['rejects']), c['nrej'])
    return None


def plain_state(st):
    p = st['prob']
    return {'prob': {'n': p['n'], 'perm': list(p['perm']), 'cpos': sorted(p['cpos']), 'lower': p['lower'], 'upper': p['upper'],
                     'band': p['band'], 'maxiter': p['maxiter'], 'mingood': p['mingood'], 'nbk': p['nbk']},
            'hist': [{'a': e['a'], 'mask': sorted(e['mask']), 'st': e['st'], 'z': list(e['z']), 'rej': sorted(e['rej']),
                      'bk': sorted(e['bk'])} for e in st['hist']],
            'work': sorted(st['work']), 'curveOf': sorted(st['curveOf']), 'outmask': sorted(st['outmask']), 'bk': sorted(st['bk'])}


def state_from_plain(d):
    return {'prob': dict(d['prob'], cpos=frozenset(d['prob']['cpos']), perm=tuple(d['prob']['perm'])),
            'hist': tuple({'a': e['a'], 'mask': frozenset(e['mask']), 'st': e['st'], 'z': tuple(e['z']), 'rej': frozenset(e['rej']),
                           'bk': frozenset(e['bk'])} for e in d['hist']),
            'work': frozenset(d['work']), 'curveOf': frozenset(d['curveOf']), 'outmask': frozenset(d['outmask']),
            'bk': frozenset(d['bk'])}


def describe_state(ps):
    p = ps['prob']
    steps = []
    for e in ps['hist']:
        if e['a'] == 'fit':
            steps.append('fit%s->%d%s' % (e['mask'], e['st'], (' leaving breakpoints %s' % e['bk']) if e['st'] == -1 else ''))
        else:
            steps.append('residuals%s reject%s' % (e['z'], e['rej']))
    return 'caller order %s, positive weights at positions %s, lower=%d upper=%d maxiter=%d; specified: %s; mask %s' % (
        p['perm'], p['cpos'], p['lower'], p['upper'], p['maxiter'], ' '.join(steps), ps['outmask'])


def dev_explains(st, c, obs):
    """Would the machine with Dev_StopsAfterFirstReject produce what was observed?  (The deviation cuts the
    specified behaviour after its first rejection; the prefix is read from the TLC state.)"""
    hist = st['hist']
    if obs['exc'] or c['maxiter'] == 0:
        return False
    k = next((i for i, e in enumerate(hist) if e['a'] == 'reject'), None)
    if k is None or k == len(hist) - 1:
        return False
    pre = hist[:k + 1]
    fits = [(sorted(e['mask']), e['st']) for e in pre if e['a'] == 'fit']
    left = sorted(pre[-1]['mask'] - pre[-1]['rej'])
    perm = c['perm']
    return ([(m, s) for m, s, _ in obs['fits']] == fits and len(obs['rejects']) == 1 and
            obs['outmask'] == sorted(cc + 1 for cc in range(c['n']) if perm[cc] in left) and
            obs['curve'] == sorted(pre[-2]['mask']))


def run_mc(ctx, bsp, cfg, need=(), sample_every=1):
    r = ctx.tlc('MC_IterFit.tla', cfg, dump=True, timeout=1700)
    n = nd = 0
    kinds = {}
    nviol = 0
    nsamp = 0
    nclass = {}
    for st in core.iter_states(r):
        n += 1
        if st['pc'] != 'done':
            continue
        nd += 1
        if sample_every > 1 and (nd * 2654435761 + ctx.seed) % sample_every:
            continue
        c = concretise(st, hole=(nd // len(FORMS)) % 2 == 1)
        # the abscissae of a behaviour are integral: every behaviour is run in one representation (rotating), every
        # 7th (thorough: 21st) in all of them; TLC's outcome is for the values, whatever the dtype
        form = FORMS[nd % len(FORMS)]
        obs = run_scripted(bsp, c, form)
        ctx.evaluated(1, 'replayed-behaviours')
        ctx.validated()
        if nd % (7 if ctx.quick else 21) == 0:
            for other in FORMS:
                if other != form:
                    o2 = run_scripted(bsp, c, other)
                    ctx.evaluated(1, 'replayed-other-representation')
                    if compare(st, c, o2) and not compare(st, c, obs):
                        obs, form = o2, other
        nf = len(c['script'])
        kinds[(min(nf, 3), any(e['st'] == -1 for e in c['script']))] = 1
        if nf >= 2:
            ctx.nontriv((tuple(c['perm']), tuple(sorted(st['prob']['cpos'])), c['lower'], c['maxiter'],
                         tuple((tuple(e['mask']), e['st'], tuple(e['z'] or ())) for e in c['script'])))
        bad = compare(st, c, obs)
        if nd % 3001 == 1 and nsamp < 2:
            nsamp += 1
            ctx.sample({'behaviour': describe_state(plain_state(st)), 'observed_fits': [m for m, _, _ in obs['fits']],
                        'observed_mask': obs.get('outmask')})
        if bad:
            nviol += 1
            dev = 'D-C10-1' if dev_explains(st, c, obs) else None
            nclass[dev] = nclass.get(dev, 0) + 1
            if nclass[dev] <= MAXREPORT:
                ps = plain_state(st)
                ctx.violation({'what': '%sTLC behaviour replayed on iterfit (x.dtype=%s): %s [%s]' % (
                    '[deviation D-C10-1: loop stops after the first rejection] ' if dev else '', form, bad, describe_state(ps)),
                    'kind': 'behaviour', 'state': ps, 'mismatch': bad, 'deviation': dev, 'form': form, 'hole': c['hole']},
                    finding=dev)
    if n != r['distinct']:
        raise core.MachineryError('read %d of %d states from the dump' % (n, r['distinct']))
    if nviol > MAXREPORT:
        print('  (%s: %d replayed behaviours differ in all, %d of them not explained by deviation D-C10-1; the first %d '
              'of either kind are reported)' % (cfg, nviol, nclass.get(None, 0), MAXREPORT), flush=True)
    for nf, dropped in need:                               # vacuity guard
        if (nf, dropped) not in kinds:
            raise core.MachineryError('%s produced no finished behaviour with %d fits (dropped=%s)' % (cfg, nf, dropped))
    return nd


def self_test(ctx):
    """The trace validation must bind: an honest synthetic run is accepted; a run that stops after a non-empty
    rejection, a run whose mask is not un-sorted and a resurrected point are refused."""
    def tr(events, maxiter=2, outliers=(2,)):
        return {'n': 3, 'perm': [2, 3, 1], 'cpos': [1, 2, 3], 'lower': 5 * MICRO, 'upper': 5 * MICRO, 'band': BAND,
                'maxiter': maxiter, 'mingood': 2, 'nbk': 4, 'tol': TOL, 'outliers': list(outliers), 'events': events}
    full, less = [1, 2, 3, 4], [1, 2, 4]

    def fit(m, st=0, bk0=full, bk=None):
        return {'a': 'fit', 'mask': m, 'st': st, 'args': True, 'bk0': bk0, 'bk': bk0 if bk is None else bk}

    def rej(i, o, z, zbk=full):
        return {'a': 'reject', 'inm': i, 'out': o, 'qd': i == o, 'z': z, 'zbk': zbk}

    def ret(om, cd=0, bk=full, cbk=None):
        return {'a': 'return', 'outmask': om, 'cdiff': cd, 'hasref': False, 'refpts': [], 'refcurve': [], 'pdiff': 0,
                'retbk': bk, 'cbk': bk if cbk is None else cbk}
    big = [0, 60 * MICRO, 0]
    good = tr([fit([1, 2, 3]), rej([1, 2, 3], [1, 3], big), fit([1, 3]), rej([1, 3], [1, 3], [0, 0, 0]), ret([2, 3])])
    early = tr([fit([1, 2, 3]), rej([1, 2, 3], [1, 3], big), ret([2, 3])])
    unsorted = tr([fit([1, 2, 3]), rej([1, 2, 3], [1, 3], big), fit([1, 3]), rej([1, 3], [1, 3], [0, 0, 0]), ret([1, 3])])
    back = tr([fit([1, 2, 3]), rej([1, 2, 3], [1, 3], big), fit([1, 3]), rej([1, 3], [1, 2, 3], [0, 0, 0]), ret([1, 2, 3])])
    curve = tr([fit([1, 2, 3]), rej([1, 2, 3], [1, 3], big), fit([1, 3]), rej([1, 3], [1, 3], [0, 0, 0]), ret([2, 3], TOL + 1)])
    kept = tr([fit([1, 2, 3]), rej([1, 2, 3], [1, 2, 3], big), ret([1, 2, 3])])
    few = dict(tr([fit([1, 2]), ret([1, 3])]), cpos=[1, 3], mingood=3)       # 2 good points, order 3: not judged
    # breakpoints: a fit drops breakpoint 3 (status -1), the next one solves on what is left
    z0 = [0, 0, 0]
    a3 = [1, 2, 3]
    dropped = tr([fit(a3, -1, full, less), fit(a3, 0, less), rej(a3, a3, z0, less), ret(a3, 0, less)], outliers=())
    stale = tr([fit(a3, -1, full, less), fit(a3, 0, less), rej(a3, a3, z0, full), ret(a3, 0, less)], outliers=())       # oracle on the old set
    revived = tr([fit(a3, -1, full, less), fit(a3, 0, full), rej(a3, a3, z0, full), ret(a3, 0, full)], outliers=())      # dropped breakpoint back
    silent = tr([fit(a3, 0, full, less), rej(a3, a3, z0, less), ret(a3, 0, less)], outliers=())                          # status 0 yet one dropped
    nodrop = tr([fit(a3, -1, full, full), fit(a3, 0, full), rej(a3, a3, z0), ret(a3)], outliers=())                      # status -1, none dropped
    other = tr([fit(a3, -1, full, less), fit(a3, 0, less), rej(a3, a3, z0, less), ret(a3, 0, full, less)], outliers=())  # object carries other breakpoints
    oldcurve = tr([fit(a3, -1, full, less), fit(a3, 0, less), rej(a3, a3, z0, less), ret(a3, 0, less, full)], outliers=())  # curve compared on the old set
    unsolved = tr([fit(a3, -1, full, less), ret(a3, TOL + 5, less)], maxiter=0, outliers=())                             # budget gone: curve not judged
    unspec = set()
    bad = validate_traces(ctx, [good, early, unsorted, back, curve, kept, few, dropped, stale, revived, silent, nodrop, other,
                                oldcurve, unsolved], 'Trace_IterFit[self-test]', unspec=unspec)
    if bad != {1: 2, 2: 4, 3: 3, 4: 4, 5: 1, 8: 2, 9: 1, 10: 0, 11: 0, 12: 3, 13: 3} or unspec != {6}:
        raise core.MachineryError('Trace_IterFit self-test: expected traces 1..5 refused at events 2,4,3,4,1, trace 6 '
                                  'outside the statement, 7 and 14 accepted, 8..13 refused at 2,1,0,0,3,3; got %r %r' % (bad, unspec))
    bad = validate_traces(ctx, [good, early], 'Trace_IterFit[self-test Dev]', dev='D-C10-1')
    if bad != {0: 2}:
        raise core.MachineryError('Trace_IterFit self-test (deviation D-C10-1): expected only the conforming run refused, got %r' % bad)


def run(ctx):
    ctx.level = 'model_checking'
    ctx.rule = ('spec -> code: every finished behaviour of MC_IterFit (problem + oracle answers) replayed on the real iterfit / '
                'djs_reject with bspline.fit answering from the behaviour; code -> spec: recorded real runs (4 caller orders '
                'per data set) validated event by event by Trace_IterFit with the oracle of an independent least-squares '
                'solver; non-trivial = distinct behaviours / runs with at least one refit after a rejection')
    ctx.assumptions = ['(x, y) pairs distinct (points are identified across caller orders by their (x, y) pair); ties in x alone are exercised',
                       'oracle of recorded runs: numpy lstsq on a Cox-de Boor design matrix over the knots read back from the '
                       'returned object; residuals within 1e-6 sigma of a limit count either way; returned curve compared at '
                       '1e-3 sigma (harness-evaluated numeric relation)',
                       'recorded data, per 10 sets: 2 dense (>= 30 points per breakpoint interval, gap free), 3 sparse / irregular '
                       '(intervals holding exactly 1, 2 or 3 points next to dense ones, isolated points, everyn 2..4), 3 integer '
                       'pixel grids, 2 with sampling holes (1 .. nord-1 consecutive breakpoint segments holding no x value, or only '
                       'non-positively weighted ones, between occupied segments; nbkpts / bkspace / explicit bkpt / placed), '
                       'and per 12 sets 2 more with data gaps WIDER than the order (no x values or only non-positive weights over '
                       'nord..nord+3 segments, one or two gaps, optionally a discordant pair of points inside that supports the '
                       'breakpoints until it is rejected): fits there drop breakpoints (status -1, once or twice, at the start or '
                       'after a rejection) and the run is judged on the reduced breakpoint set - breakpoints in effect at every fit '
                       'call / return, oracle and returned curve on the knots in effect, returned object carrying them (WHICH '
                       'breakpoints are dropped is C09\'s; a run whose last fit only dropped has no specified curve); runs in which a '
                       'fit fails outright (status -2) or raises from maskpoints are outside C10 (C09) and are skipped, not judged',
                       'integral abscissae (pixel indices; the ranks of every replayed TLC behaviour) are handed over as float64 / '
                       'int64 / int32 / int16 / uint8 arrays and the returned curve is also evaluated at integer-typed points: '
                       'the dtype is a representation, the expected outcome is the one for the values',
                       'orders 1..4; for order 1 (piecewise constant) no data or evaluation point sits exactly ON an interior '
                       'breakpoint (which interval owns it is the interval convention of C08)',
                       'outside the statement (a data SET with at least as many positively weighted points as the order is '
                       'presupposed): 0-d x (IndexError), empty x (ValueError "No valid data points": a proper refusal), '
                       'length-1 x (no breakpoint option can span a zero range; returns the scalar True or raises)',
                       'maxiter = 0: the mask may or may not carry the rejections of the single pass (statement leaves it open)',
                       'fewer positively weighted points (left) than the spline order, or a single one: outside the statement '
                       '(pc = "unspec"; order 1 with one point left is no data set to fit - iterfit then stops without fitting)',
                       'replayed behaviours use nord=2 and nbkpts=2 on consecutive integers or nbkpts=4 on abscissae with a hole '
                       '(an empty breakpoint segment); bspline.fit is the oracle there, so sampling geometry cannot change the '
                       'specified outcome - defects of the numerical fit show in the recorded direction only; a behaviour\'s '
                       'dropping fit masks the specified breakpoints of the object (2 droppable: the interior ones of nbkpts=4 / '
                       'the end ones of nbkpts=2) and the breakpoints seen by every later fit and in the returned object are compared',
                       '2-D fits (x2), requiren, oldset, groupbadpix, grow are not exercised']
    import pydl.pydlutils.bspline as bsp
    self_test(ctx)
    small = [(1, False), (2, False), (2, True), (3, True)]
    if ctx.quick:
        run_mc(ctx, bsp, 'MC_IterFit_quick.cfg', small)
        ctx.tlc('MC_IterFit.tla', 'MC_IterFit_pair_quick.cfg', timeout=600)
    else:
        run_mc(ctx, bsp, 'MC_IterFit_thorough.cfg', small)
        run_mc(ctx, bsp, 'MC_IterFit_chains_thorough.cfg', small + [(3, False)])
        ctx.tlc('MC_IterFit.tla', 'MC_IterFit_pair_thorough.cfg', timeout=1700)
    run_traces(ctx, bsp)
    ctx.exhaustive = True


def replay(ctx, case):
    """bin/check C10 --replay <file>: re-execute one failing case (TLC behaviour or recorded run)."""
    ctx.level = 'model_checking'
    ctx.rule = 'single replayed case'
    import pydl.pydlutils.bspline as bsp
    ctx.nontriv('a')
    ctx.nontriv('b')
    if case.get('kind') == 'behaviour':
        st = state_from_plain(case['state'])
        c = concretise(st, hole=bool(case.get('hole')))
        obs = run_scripted(bsp, c, case.get('form') or 'float64')
        bad = compare(st, c, obs)
        ctx.evaluated(1)
        print('behaviour:', describe_state(case['state']))
        print('observed: fits %s rejects %s mask %s curve %s exc %s' % (
            [m for m, _, _ in obs['fits']], len(obs['rejects']), obs.get('outmask'), obs.get('curve'), obs['exc']))
        print('mismatch now:', bad)
        if bad:
            ctx.violation(dict(case, mismatch=bad))
        return
    q = case['problem']
    P = dict(q, X=np.array(q['X']), Y=np.array(q['Y']), W=np.array(q['W']))
    perm = case['perm']
    ref = None
    form = case.get('form') or 'float64'
    if q.get('pixel'):
        P['forms'] = [form]
    if case.get('ref_perm'):
        rf = case.get('ref_form') or 'float64'
        ref = build_trace(P, case['ref_perm'], run_real(bsp, P, case['ref_perm'], rf), None)[2]
        if ref is not None and 'exception' in ref:
            ref = None
    res = run_real(bsp, P, perm, form)
    tr, skip, info = build_trace(P, perm, res, ref)
    ctx.evaluated(1)
    print('recorded run:', describe_problem(P, perm, form))
    if skip:
        print('outside the domain of C10 now:', skip)
        if ref is not None:
            print('... while the reference order of the same data is fitted with status 0 throughout')
            ctx.violation(dict(case, what='order / representation dependence: ' + skip))
        return
    if tr is None:
        print('observed:', info['exception'])
        ctx.violation(dict(case, what='iterfit: ' + info['exception']))
        return
    print('events:', short_events(tr['events']))
    bad = validate_traces(ctx, [tr], 'Trace_IterFit[replay]')
    print('refused at event:', bad.get(0))
    if bad:
        ctx.violation(dict(case, event=bad[0]))
