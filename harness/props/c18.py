"""C18 - great-circle distance, SDSS (mu, nu) great-circle coordinates, angles <-> unit vectors.

Spec: spec/SkyGeom.tla; MC: mc/MC_SkyGeom; Trace: trace/Trace_SkyGeom.

spec -> code : every case TLC enumerates (stripe table rows, exact anchors of the rotation for every
               stripe in both directions, exact axis images of angles <-> vectors, exact-distance families
               in the three unit conventions) is replayed into the real functions and compared with the
               value TLC computed.  The anchors common to all stripes are ONE array-valued coordinate object
               handed to every stripe's transform in turn, and every object is transformed twice (a transform
               must neither depend on nor alter what the caller's object went through before).
code -> spec : seeded random / adversarial probes of the real functions; per probe the harness records
               class attributes and measured discrepancies as scaled integers; Trace_SkyGeom decides which
               laws each record triggers, with which tolerance, whether they hold, and whether every law
               and class has enough triggered instances.

The harness's own judgements (level "other"): (a) comparing a float with TLC's exact rational to the
relative tolerance TLC states; (b) the independent distance oracle: unit vectors in numpy longdouble,
atan2(|a x b|, a.b), cross-checked with the chord formula; (c) measuring angular discrepancies with that
oracle and scaling them to integers; (d) the class attributes of a probe (octave of the separation ...).
"""
import math
import random
from fractions import Fraction

import numpy as np

from .. import core

L = np.longdouble
PI = L('3.14159265358979323846264338327950288')
D2R = PI / L(180)
R2D = L(180) / PI
CAP = 2000000000
UNITS = (0, 1, 2)
HALF_OUT = {0: PI, 1: L(648000), 2: L(648000)}      # the half turn in gcirc's output unit


# Deviations named in SkyGeom.tla that are reported to the lead (reproduction + proposed patch /tmp/fixes/C18-r7-1.patch) but not
# yet registered in known_findings.json nor fixed in pydl.  Cases that the spec's deviation operator explains EXACTLY are listed as
# PENDING-FINDING lines and in the evidence samples instead of VIOLATION lines.  EMPTY THIS SET once the finding is registered or
# the fix is applied: the check is then strict again (nothing else depends on it).
PENDING = set()
_pending = {}


def report(ctx, case, dev):
    if dev in PENDING and not any(f.get('id') == dev and f.get('status') == 'known' for f in ctx.findings):
        _pending.setdefault(dev, []).append(case)
        return
    ctx.violation(case, finding=dev or None)


def flush_pending(ctx):
    for dev, cases in sorted(_pending.items()):
        print('PENDING-FINDING: property=%s %s (%d cases this run), e.g. %s' % (ctx.pid, dev, len(cases), str(cases[0].get('what'))[:260]), flush=True)
        ctx.sample({'pending_finding': dev, 'cases': len(cases), 'first': cases[0].get('what')})


# ------------------------------------------------------------------ the independent oracle
def o_vec(lon, lat):
    """unit vectors (longdouble) of longitudes / latitudes given in longdouble radians"""
    lon = np.asarray(lon, dtype=L)
    lat = np.asarray(lat, dtype=L)
    cl = np.cos(lat)
    return np.stack([np.cos(lon) * cl, np.sin(lon) * cl, np.sin(lat)], -1)


def o_sep(a, b):
    """angle between unit vectors, radians (longdouble): atan2(|a x b|, a.b)"""
    cr = np.cross(a, b)
    return np.arctan2(np.sqrt((cr * cr).sum(-1)), (a * b).sum(-1))


def o_chord(a, b):
    d = a - b
    return 2 * np.arcsin(np.minimum(np.sqrt((d * d).sum(-1)) / 2, L(1)))


def to_rad(ra, dec, units):
    """gcirc inputs of convention `units` -> longdouble radians (the inputs are taken as exact)"""
    ra = np.asarray(ra, dtype=L)
    dec = np.asarray(dec, dtype=L)
    if units == 0:
        return ra, dec
    if units == 1:
        return ra * 15 * D2R, dec * D2R
    return ra * D2R, dec * D2R


def o_dist(ra1, dec1, ra2, dec2, units):
    """the vector formula, radians"""
    a = o_vec(*to_rad(ra1, dec1, units))
    b = o_vec(*to_rad(ra2, dec2, units))
    s = o_sep(a, b)
    ch = o_chord(a, b)
    # self-check of the oracle: the two vector formulae agree wherever the chord is well conditioned
    m = (s > 0) & (s < 2)
    if np.any(m) and float(np.max(np.abs(ch[m] - s[m]) / s[m])) > 3e-7:
        raise core.MachineryError('distance oracle inconsistent (atan2 vs chord)')
    return s


def deg_sep(lon1, lat1, lon2, lat2):
    """oracle separation in degrees of positions given in float degrees"""
    a = o_vec(np.asarray(lon1, dtype=L) * D2R, np.asarray(lat1, dtype=L) * D2R)
    b = o_vec(np.asarray(lon2, dtype=L) * D2R, np.asarray(lat2, dtype=L) * D2R)
    return o_sep(a, b) * R2D


def scaled(x, unit):
    """ceil(x / unit) as a capped non-negative int; NaN -> CAP"""
    x = float(L(x) / L(unit))
    if x != x or x >= CAP:
        return CAP
    return int(math.ceil(x - 1e-12)) if x > 0 else 0


def ndeg(x_deg):
    return scaled(L(abs(x_deg)), L(1e-9))


def ppb(got, ref):
    got = L(got)
    ref = L(ref)
    if got != got:
        return CAP
    if ref == 0:
        return 0 if got == 0 else CAP
    return scaled(abs(got - ref) / abs(ref), L(1e-9))


def floorlog2(x):
    x = float(x)
    if x <= 0:
        return -99
    return max(-98, int(math.floor(math.log2(x))))


# ------------------------------------------------------------------ real calls
def call_gcirc(ra1, dec1, ra2, dec2, units):
    from pydl.goddard.astro import gcirc
    with np.errstate(all='ignore'):
        return gcirc(ra1, dec1, ra2, dec2, units=units)


def dist_kw(dist):
    """the distance (parsec; None = the object carries none) as the keyword of a coordinate object"""
    import astropy.units as u
    return {} if dist is None else {'distance': np.asarray(dist, dtype=float) * u.pc}


def to_icrs(stripe, mu, nu, dist=None):
    import astropy.units as u
    from astropy.coordinates import ICRS, SkyCoord
    from pydl.pydlutils.coord import SDSSMuNu
    with np.errstate(all='ignore'):
        c = SkyCoord(mu=np.asarray(mu, dtype=float) * u.deg, nu=np.asarray(nu, dtype=float) * u.deg,
                     frame=SDSSMuNu(stripe=stripe), **dist_kw(dist)).transform_to(ICRS())
        return np.atleast_1d(c.ra.deg).astype(float), np.atleast_1d(c.dec.deg).astype(float)


def to_munu(stripe, ra, dec, dist=None):
    import astropy.units as u
    from astropy.coordinates import SkyCoord
    from pydl.pydlutils.coord import SDSSMuNu
    with np.errstate(all='ignore'):
        c = SkyCoord(ra=np.asarray(ra, dtype=float) * u.deg, dec=np.asarray(dec, dtype=float) * u.deg,
                     frame='icrs', **dist_kw(dist)).transform_to(SDSSMuNu(stripe=stripe))
        return np.atleast_1d(c.mu.deg).astype(float), np.atleast_1d(c.nu.deg).astype(float)


def carrier_class(d):
    """class of what an object carries besides the direction (SkyGeom.tla CarrierClasses); d = parsec or None"""
    return 'direction' if d is None else 'nearer' if d < 1 else 'unit' if d == 1 else 'farther'


def pair_carrier(a, b):
    return a if a == b else 'mixed'


# ---- coordinate OBJECTS that are handed to several transforms (caller-object laws) -------------
def make_icrs(ra, dec, which='skycoord', form=None, dist=None):
    """an ICRS coordinate object (SkyCoord or bare frame); array-valued unless ra is a float; form = integer
    dtype of the arrays handed to astropy; dist = distances (parsec) the object carries as well"""
    import astropy.units as u
    from astropy.coordinates import ICRS, SkyCoord
    f1, f2 = form if isinstance(form, (tuple, list)) else (form, form)
    ra = np.array(ra, dtype=float) if f1 is None else as_form(ra, f1, True)
    dec = np.array(dec, dtype=float) if f2 is None else as_form(dec, f2, True)
    if which == 'frame':
        return ICRS(ra=ra * u.deg, dec=dec * u.deg, **dist_kw(dist))
    return SkyCoord(ra=ra * u.deg, dec=dec * u.deg, frame='icrs', **dist_kw(dist))


def make_munu(stripe, mu, nu, which='skycoord', form=None, dist=None):
    import astropy.units as u
    from astropy.coordinates import SkyCoord
    from pydl.pydlutils.coord import SDSSMuNu
    f1, f2 = form if isinstance(form, (tuple, list)) else (form, form)
    mu = np.array(mu, dtype=float) if f1 is None else as_form(mu, f1, True)
    nu = np.array(nu, dtype=float) if f2 is None else as_form(nu, f2, True)
    if which == 'frame':
        return SDSSMuNu(mu=mu * u.deg, nu=nu * u.deg, stripe=stripe, **dist_kw(dist))
    return SkyCoord(mu=mu * u.deg, nu=nu * u.deg, frame=SDSSMuNu(stripe=stripe), **dist_kw(dist))


def coord_values(obj):
    """copies of the two coordinate arrays (degrees) the object currently holds"""
    if hasattr(obj, 'mu'):
        return (np.array(obj.mu.deg, dtype=float, copy=True).reshape(-1), np.array(obj.nu.deg, dtype=float, copy=True).reshape(-1))
    return (np.array(obj.ra.deg, dtype=float, copy=True).reshape(-1), np.array(obj.dec.deg, dtype=float, copy=True).reshape(-1))


def coord_bytes(obj):
    a, b = coord_values(obj)
    return a.tobytes() + b.tobytes()


def tr_munu(obj, stripe):
    from pydl.pydlutils.coord import SDSSMuNu
    with np.errstate(all='ignore'):
        return obj.transform_to(SDSSMuNu(stripe=stripe))


def tr_icrs(obj):
    from astropy.coordinates import ICRS
    with np.errstate(all='ignore'):
        return obj.transform_to(ICRS())


def a2x(a, latitude, raw=False):
    """raw: hand the array over with the dtype it has (integer forms)"""
    from pydl.pydlutils.mangle import angles_to_x
    with np.errstate(all='ignore'):
        return angles_to_x(np.asarray(a) if raw else np.asarray(a, dtype=float), latitude=latitude)


def x2a(x, latitude, raw=False):
    from pydl.pydlutils.mangle import x_to_angles
    with np.errstate(all='ignore'):
        return x_to_angles(np.asarray(x) if raw else np.asarray(x, dtype=float), latitude=latitude)


# ---- numeric forms (SkyGeom.tla part 4b): the same integral VALUES handed over with integer types
NP_FORMS = ['int8', 'uint8', 'int16', 'uint16', 'int32', 'uint32', 'int64', 'uint64']


def as_form(v, form, array=False):
    """the integral value(s) v in the given form: numpy array / numpy scalar of that dtype, or Python int"""
    if form == 'float64':
        return np.array(v, dtype=np.float64) if array else np.float64(v)
    if form == 'pyint':
        if array:
            raise core.MachineryError('pyint is a scalar form')
        return int(v)
    a = np.array(v)
    if not np.all(a == np.round(a)):
        raise core.MachineryError('non-integral value %r for form %s' % (v, form))
    a = np.round(a).astype(np.int64)
    info = np.iinfo(form)
    if a.min() < info.min or a.max() > info.max:
        raise core.MachineryError('value %r does not fit %s' % (v, form))
    return a.astype(form) if array else np.dtype(form).type(int(a))


GC_MIX_ARGS = {'all': (0, 1, 2, 3), 'ra': (0, 2), 'dec': (1, 3), 'p1': (0, 1), 'p2': (2, 3), 'scalar-p1': (0, 1), 'scalar-p2': (2, 3),
               'pyint-ra': (0, 2), 'pyint-dec': (1, 3)}


def gcirc_mixed_args(vals, form, mix, array):
    """the four gcirc arguments (vals: sequences of equal length, or single numbers when array is False) with the integer
    form given to the arguments `mix` names and float64 to the others.  scalar-p* / pyint-*: the integer arguments are
    scalars (the first element), the others float arrays."""
    ints = GC_MIX_ARGS[mix]
    out = []
    for k, v in enumerate(vals):
        if mix.startswith('scalar-') or mix.startswith('pyint-'):
            if k in ints:
                v0 = v[0] if isinstance(v, (list, tuple, np.ndarray)) else v
                out.append(as_form(v0, 'pyint' if mix.startswith('pyint-') else form))
            else:
                out.append(np.array(v, dtype=np.float64).reshape(-1))
        elif k in ints:
            out.append(as_form(v, form, array))
        else:
            out.append(np.array(v, dtype=np.float64) if array else np.float64(v))
    return out


def mix_ok(mix, form):
    return form == 'pyint' if mix.startswith('pyint-') else (form != 'pyint' or mix == 'all')


FLOAT_DTYPES = {'float32': np.float32, 'longdouble': np.longdouble, 'float64': np.float64}
FLOAT_MIX_ARGS = {'all': (0, 1, 2, 3), 'ra': (0, 2), 'dec': (1, 3), 'p1': (0, 1), 'p2': (2, 3)}


def as_float_form(v, form, array=False):
    """the value(s) v (Python floats) as a numpy scalar / array of the float type `form`; the conversion must be exact"""
    t = FLOAT_DTYPES[form]
    a = np.array(v, dtype=np.float64).astype(t)
    if not np.all(a.astype(np.longdouble) == np.array(v, dtype=np.float64).astype(np.longdouble)):
        raise core.MachineryError('value %r is not exactly a %s number' % (v, form))
    return a if array else t(a[()])


def gcirc_float_args(vals, form, mix, array):
    """the four gcirc arguments with the float type `form` given to the arguments `mix` names, float64 to the others"""
    return [as_float_form(v, form if k in FLOAT_MIX_ARGS[mix] else 'float64', array) for k, v in enumerate(vals)]


def pick_form(forms, n, array=False):
    """rotate through the admissible forms by case number"""
    fs = sorted(f for f in forms if not (array and f == 'pyint'))
    return fs[n % len(fs)] if fs else None


# ------------------------------------------------------------------ spec -> code: replay of TLC's cases
def ea_value(e, k):
    return Fraction(e['b'], 8) + Fraction(e['m'], 2 ** k)


def ea_float(e, k):
    v = ea_value(e, k)
    f = float(v)
    if Fraction(f) != v:
        raise core.MachineryError('case coordinate %s not representable' % (v,))
    return f


def replay_stripe(c, exp):
    from pydl.pydlutils.coord import SDSSMuNu, stripe_to_eta, stripe_to_incl
    s = c['stripe']
    obs = {}
    good = True
    for form in ['pyint'] + sorted(f for f in exp['forms'] if f != 'pyint'):       # every integer form TLC admits
        sv = as_form(s, form)
        o = {}
        try:
            o['eta'] = float(stripe_to_eta(sv))
            o['incl'] = float(stripe_to_incl(sv))
            fr = SDSSMuNu(stripe=sv)
            o['frame_incl'] = float(fr.incl.deg)
            o['node'] = float(fr.node.to('deg').value)
        except Exception as ex:
            return False, {'exc': repr(ex), 'stripe_given_as': form}, None
        g = (Fraction(o['eta']) * 10 == exp['eta10'] and Fraction(o['incl']) * 10 == exp['incl10'] and
             Fraction(o['frame_incl']) * 10 == exp['incl10'] and Fraction(o['node']) * 10 == exp['node10'])
        if not obs or (good and not g):
            obs = dict(o, stripe_given_as=form)
        good = good and g
    return good, obs, None


ANCHOR_SHAPES = [(3, 5), (2, 5), (3, 3), (2, 3, 4), (5, 3), (1, 7), (7, 1)]


def anchor_shape(stripe, direction):
    return ANCHOR_SHAPES[(stripe + (3 if direction == 'inv' else 0)) % len(ANCHOR_SHAPES)]


def _anchor_eval(stripe, direction, lon, lat, shape, cache):
    """Transform the n source points handed over in the given form.  shape None: ONE 1-D coordinate object
    (cached by its coordinates, so the anchors common to all stripes are one ICRS object handed to every
    stripe's transform in turn); shape 'scalar': n scalar objects; a tuple: arrays of that shape filled
    cyclically with the points (as many arrays as needed).  Every object is transformed twice and the second
    result is used.  Returns per point: lon, lat of the image, object-unchanged flag, result-shape flag."""
    n = len(lon)
    lon = np.array(lon, dtype=float)
    lat = np.array(lat, dtype=float)
    glon, glat = np.full(n, np.nan), np.full(n, np.nan)
    kept, shok = np.ones(n, dtype=bool), np.ones(n, dtype=bool)

    def run(obj):
        for _ in range(2):
            res = tr_icrs(obj) if direction == 'fwd' else tr_munu(obj, stripe)
        return res

    def build(a, b):
        return make_munu(stripe, a, b) if direction == 'fwd' else make_icrs(a, b)

    if shape is None:
        key = (direction, None if direction == 'inv' else stripe, tuple(lon), tuple(lat))
        if key not in cache:
            cache[key] = build(lon, lat)
        obj = cache[key]
        res = run(obj)
        glon, glat = coord_values(res)
        now = coord_values(obj)
        kept = (now[0] == lon) & (now[1] == lat)
        shok[:] = res.shape == (n,)
    elif isinstance(shape, tuple) and shape and shape[0] == 'int':
        # integer-typed coordinate arrays (whole degrees) and an integer-typed stripe number
        _, form, sform = shape[:3]
        form = {'all': (form, form), 'lon': (form, None), 'lat': (None, form)}[shape[3] if len(shape) > 3 else 'all']
        sv = as_form(stripe, sform)
        obj = make_munu(sv, lon, lat, form=form) if direction == 'fwd' else make_icrs(lon, lat, form=form)
        for _ in range(2):
            res = tr_icrs(obj) if direction == 'fwd' else tr_munu(obj, sv)
        glon, glat = coord_values(res)
        now = coord_values(obj)
        kept = (now[0] == lon) & (now[1] == lat)
        shok[:] = res.shape == (n,)
    elif isinstance(shape, tuple) and shape and shape[0] == 'dist':
        # the same directions in ONE object that also carries distances (rotating through the carriers TLC admits,
        # so one object holds distances below, at and above the unit), as a SkyCoord or as a bare frame
        _, d8s, which = shape
        dist = np.array([d8s[(j + stripe) % len(d8s)] / 8.0 for j in range(n)])
        obj = make_munu(stripe, lon, lat, which, dist=dist) if direction == 'fwd' else make_icrs(lon, lat, which, dist=dist)
        res = run(obj)
        glon, glat = coord_values(res)
        now = coord_values(obj)
        kept = (now[0] == lon) & (now[1] == lat)
        shok[:] = res.shape == (n,)
    elif shape == 'scalar':
        for j in range(n):
            obj = build(lon[j], lat[j])
            res = run(obj)
            a, b = coord_values(res)
            glon[j], glat[j] = a[0], b[0]
            now = coord_values(obj)
            kept[j] = now[0][0] == lon[j] and now[1][0] == lat[j]
            shok[j] = res.shape == ()
    else:
        size = int(np.prod(shape))
        for lo in range(0, n, size):
            idx = np.resize(np.arange(lo, min(n, lo + size)), shape)
            obj = build(lon[idx], lat[idx])
            res = run(obj)
            a, b = coord_values(res)
            now = coord_values(obj)
            flat = idx.reshape(-1)
            ok = res.shape == tuple(shape)
            for pos in range(len(flat) - 1, -1, -1):        # first occurrence wins; every occurrence must be unchanged
                j = flat[pos]
                if ok:
                    glon[j], glat[j] = a[pos], b[pos]
                kept[j] = kept[j] and now[0][pos] == lon[j] and now[1][pos] == lat[j]
                shok[j] = ok
    return glon, glat, kept, shok


def replay_anchor_group(stripe, direction, group, cache=None, shape=None):
    """group: list of (c, exp) of one stripe and direction, handed to the transform in the form `shape`
    (see _anchor_eval)."""
    lon = [e['src']['lon'] / 10.0 for _, e in group]
    lat = [e['src']['lat'] / 10.0 for _, e in group]
    cache = {} if cache is None else cache
    form = ('1-D array' if shape is None else shape if shape == 'scalar' else
            '%s array (%s), stripe as %s' % (shape[1], shape[3] if len(shape) > 3 else 'all', shape[2]) if shape[0] == 'int' else
            '1-D %s that also carries distances (eighths of a parsec, rotating from element %d) %s' % (shape[2], stripe % len(shape[1]), list(shape[1]))
            if shape[0] == 'dist' else 'array of shape %s' % (tuple(shape),))
    try:
        glon, glat, kept, shok = _anchor_eval(stripe, direction, lon, lat, shape, cache)
    except Exception as ex:
        return [(False, {'exc': repr(ex), 'handed_over_as': form, 'shape': shape if shape is None else list(shape) if shape != 'scalar' else shape}, None)
                for _ in group]
    elon = [e['dst']['lon'] / 10.0 for _, e in group]
    elat = [e['dst']['lat'] / 10.0 for _, e in group]
    sep = deg_sep(glon, glat, elon, elat)
    out = []
    for j, (c, e) in enumerate(group):
        isnan = bool(np.isnan(glon[j]) or np.isnan(glat[j]))
        d = CAP if isnan else ndeg(sep[j])
        obs = {'lon': float(glon[j]), 'lat': float(glat[j]), 'disc_ndeg': d, 'nan': isnan, 'caller_object_unchanged': bool(kept[j]),
               'result_shape_ok': bool(shok[j]), 'handed_over_as': form,
               'shape': None if shape is None else shape if shape == 'scalar' else list(shape)}
        good = d <= e['tol'] and not isnan and bool(kept[j]) and bool(shok[j])
        out.append((good, obs, 'D-C18-2' if (isnan and e['polar'] and kept[j] and shok[j]) else None))
    return out


def replay_vecanchor(c, exp, n=0):
    ang = np.array([[exp['angles'][0] / 10.0, exp['angles'][1] / 10.0]])
    want = np.array([list(exp['x'])], dtype=float)
    good, obs = True, None
    # float64, and every integer type TLC admits for the angles / for the vector components
    for af, xf in [(None, None)] + [(f if f in exp['aforms'] else None, f if f in exp['xforms'] else None) for f in NP_FORMS]:
        if (af, xf) == (None, None) and obs is not None:
            continue
        o = {'angles_given_as': af or 'float64', 'vector_given_as': xf or 'float64'}
        try:
            x = a2x(ang if af is None else as_form(ang, af, True), c['latitude'], raw=True)
            back = x2a(want if xf is None else as_form(want, xf, True), c['latitude'], raw=True)
        except Exception as ex:
            return False, dict(o, exc=repr(ex)), None
        o['x'] = [float(v) for v in x[0]]
        o['angles'] = [float(v) for v in back[0]]
        g = x.shape == (1, 3) and back.shape == (1, 2) and bool(np.all(np.abs(x - want) <= 1e-15))
        lat_back = back[0, 1] if c['latitude'] else 90.0 - back[0, 1]
        d = ndeg(deg_sep(back[0, 0], lat_back, c['lon'] / 10.0, c['lat'] / 10.0)[()]) if not np.isnan(back).any() else CAP
        o['disc_ndeg'] = d
        g = g and d <= exp['tol']
        if obs is None or (good and not g):
            obs = o
        good = good and g
    return good, obs, None


def dist_args(c):
    k = c['k']
    return (ea_float(c['p']['ra'], k), ea_float(c['p']['dec'], k), ea_float(c['q']['ra'], k), ea_float(c['q']['dec'], k))


def replay_dist(c, exp, n=0):
    u = c['units']
    a = dist_args(c)
    want = exp['scale'] * ea_value(exp['d'], c['k'])
    calls = [('float64', False, [np.float64(v) for v in a])]
    form = pick_form(exp.get('forms', ()), n)
    if form:                     # the same values with an integer type: scalars, and (numpy types) 2-element arrays
        calls.append((form, False, [as_form(v, form) for v in a]))
        if form != 'pyint':
            calls.append((form, True, [as_form([v, v], form, True) for v in a]))
    if form:                     # ... and with the integer type given to a subset of the arguments only
        mixes = [m for m in sorted(exp.get('mixes', ())) if m != 'all' and mix_ok(m, form)]
        if mixes:
            mix = mixes[(n // max(1, len(exp['forms']))) % len(mixes)]
            if mix.startswith('scalar-') or mix.startswith('pyint-'):
                calls.append(('%s for %s, others float64' % (form, mix), True, gcirc_mixed_args([[v, v] for v in a], form, mix, True)))
            else:
                calls.append(('%s for %s, others float64' % (form, mix), False, gcirc_mixed_args(a, form, mix, False)))
                calls.append(('%s for %s, others float64' % (form, mix), True, gcirc_mixed_args([[v, v] for v in a], form, mix, True)))
    # the same values in the other floating-point types TLC admits for the case: all four arguments (scalars and
    # arrays), and the type given to a subset of the arguments only (rotating through the subsets TLC names)
    fmixes = [m for m in sorted(exp.get('fmixes', ())) if m != 'all']
    prec = {}                                      # label of a call -> the precision class TLC gives the float form
    for q, ff in enumerate(sorted(exp.get('fforms', ()))):
        if exp['fprec'][ff] == 'double' and n % 3:          # the extended-precision forms for every third case
            continue
        calls.append((ff, False, gcirc_float_args(a, ff, 'all', False)))
        calls.append((ff, True, gcirc_float_args([[v, v] for v in a], ff, 'all', True)))
        prec[ff] = exp['fprec'][ff]
        if fmixes:
            mix = fmixes[(n + q) % len(fmixes)]
            arr = (n // len(fmixes)) % 2 == 0
            calls.append(('%s for %s, others float64' % (ff, mix), arr, gcirc_float_args([[v, v] for v in a] if arr else a, ff, mix, arr)))
            prec[calls[-1][0]] = exp['fprec'][ff]
    obs, fails = None, []
    for fm, arr, args in calls:
        single = prec.get(fm) == 'single'          # single-precision input: the tolerances TLC states for it
        tolppb = exp['stolppb'] if single else exp['tolppb']
        symppb = exp['ssymppb'] if single else exp['tolppb']
        slackppb = exp['sslackppb'] if single else exp['slackppb']
        demand = exp['sdemand'] if single else exp['demand']
        try:
            got = call_gcirc(args[0], args[1], args[2], args[3], u)
            rev = call_gcirc(args[2], args[3], args[0], args[1], u)
            if arr:
                got, rev = np.asarray(got, dtype=float), np.asarray(rev, dtype=float)
                if got.shape != (2,) or rev.shape != (2,) or not (got[0] == got[1] or (got[0] != got[0] and got[1] != got[1])):
                    return False, {'exc': 'array result %r' % (got,), 'given_as': fm, 'args': list(a)}, None
                got, rev = got[0], rev[0]
            got, rev = float(got), float(rev)
        except Exception as ex:
            return False, {'exc': repr(ex), 'given_as': fm + (' arrays' if arr else ' scalars'), 'args': list(a)}, None
        o = {'gcirc': got, 'reversed': rev, 'args': list(a), 'expected': float(want), 'given_as': fm + (' arrays' if arr else ' scalars')}
        f = []
        if got != got or rev != rev or math.isinf(got) or math.isinf(rev):
            f.append('NaN' if (got != got or rev != rev) else 'Infinite')
        else:
            if got < 0 or L(got) > HALF_OUT[u] * (1 + L(slackppb) * L(1e-9)):
                f.append('Range')
            if abs(got - rev) > symppb * 1e-9 * max(abs(got), abs(rev)):
                f.append('Symmetric')
            if exp['zero'] and got != 0.0:
                f.append('ZeroOnDiagonal')
            if demand:
                err = abs(Fraction(got) - want)
                o['rel_err'] = float(err / want)
                if err > Fraction(tolppb, 10 ** 9) * want:
                    f.append('Exact')
        o['fails'] = f
        if obs is None or (not fails and f):
            obs, fails = o, f
    dev = ('D-C18-1' if (fails == ['Exact'] and exp['dev1'] and obs['given_as'].startswith('float64')) else
           'D-C18-7' if (fails == ['NaN'] and exp['dev7'] and not obs['given_as'].startswith('float64')) else None)
    return not fails, obs, dev


def tlc_key(x):
    """hashable rendering of a dumped TLA value"""
    if isinstance(x, dict):
        return tuple(sorted((k, tlc_key(v)) for k, v in x.items()))
    if isinstance(x, (list, tuple)):
        return tuple(tlc_key(v) for v in x)
    return x


def jsonable(x):
    if isinstance(x, dict):
        return {k: jsonable(v) for k, v in x.items()}
    if isinstance(x, (list, tuple)):
        return [jsonable(v) for v in x]
    if isinstance(x, frozenset):
        return sorted(jsonable(v) for v in x)
    return x


def describe(c, exp, obs):
    k = c['kind']
    if k == 'dist':
        a = obs.get('args') or dist_args(c)
        return ('gcirc(%r, %r, %r, %r, units=%d) [arguments given as %s] = %r, exact separation %r (family %s, failing: %s)' %
                (a[0], a[1], a[2], a[3], c['units'], obs.get('given_as'), obs.get('gcirc'), obs.get('expected'), c['fam'],
                 ','.join(obs.get('fails', [])) or obs.get('exc')))
    if k == 'anchor':
        return ('stripe %d %s [%s]: (%s, %s) deg -> observed (%r, %r), specified (%s, %s), off by %s ndeg (tol %s)%s' %
                (c['stripe'], 'mu,nu->ra,dec' if c['dir'] == 'fwd' else 'ra,dec->mu,nu', obs.get('handed_over_as'), exp['src']['lon'] / 10.0,
                 exp['src']['lat'] / 10.0, obs.get('lon'), obs.get('lat'), exp['dst']['lon'] / 10.0, exp['dst']['lat'] / 10.0,
                 obs.get('disc_ndeg', obs.get('exc')), exp['tol'],
                 '' if obs.get('caller_object_unchanged', True) else
                 '; the coordinate object handed in was changed by the call: now %s' % (obs.get('caller_object_now'),)))
    if k == 'capself':
        return ('cap of polar angle %s deg (cm = %s) about its centre, %s point given as %s: specified cap_distance %s deg, '
                'is_in_cap %s; observed %s' % (c['theta10'] / 10.0, exp['cmhalves'] / 2.0, c['rel'], c['conv'], exp['dist10'] / 10.0,
                                               exp['inside'], obs))
    if k == 'stripe':
        return 'stripe %d: specified eta %s incl %s node %s, observed %s' % (
            c['stripe'], exp['eta10'] / 10.0, exp['incl10'] / 10.0, exp['node10'] / 10.0, obs)
    return 'axis point lon %s lat %s latitude=%s (angles_to_x / x_to_angles): specified vector %s, observed %s' % (
        c['lon'] / 10.0, c['lat'] / 10.0, c['latitude'], list(exp['x']), obs)


def replay_cases(ctx, cases, geo):
    """cases: list of (c, exp) from the dump.  Fills geo (positions the recorded direction needs)."""
    groups = {}
    results = []
    for c, exp in cases:
        k = c['kind']
        if k == 'anchor':
            groups.setdefault((c['stripe'], c['dir']), []).append((c, exp))
            if c['dir'] == 'fwd' and c['src'] == {'on': 'circ', 't': 900}:
                geo.setdefault('pole_eq', {})[c['stripe']] = (exp['dst']['lon'] / 10.0, exp['dst']['lat'] / 10.0)
            if c['dir'] == 'fwd' and c['src'] == {'on': 'circ', 't': 0}:
                geo.setdefault('e2', {})[c['stripe']] = (exp['dst']['lon'] / 10.0, exp['dst']['lat'] / 10.0)
            if c['dir'] == 'fwd' and c['src'] == {'on': 'axis', 't': 0}:
                geo.setdefault('e1', {})[c['stripe']] = (exp['dst']['lon'] / 10.0, exp['dst']['lat'] / 10.0)
            continue
        if k == 'stripe':
            geo.setdefault('incl10', {})[c['stripe']] = exp['incl10']
            geo.setdefault('stripe_forms', {})[c['stripe']] = exp['forms']
            geo['node10'] = exp['node10']
            results.append((c, exp) + replay_stripe(c, exp))
        elif k == 'vecanchor':
            results.append((c, exp) + replay_vecanchor(c, exp))
        elif k == 'capself':
            geo.setdefault('capself', {})[(c['theta10'], c['rel'], c['sgn'], c['conv'])] = exp
            m = len(geo['capself'])
            ra = [((37 * m + 91 * j) % 1440) / 4.0 for j in range(160)]          # 160 centres of the quarter-degree grid
            dec = [((53 * m + 17 * j) % 721) / 4.0 - 90.0 for j in range(160)]
            results.append((c, exp) + replay_capself(c, exp, ra, dec))
        elif k == 'dist':
            results.append((c, exp) + replay_dist(c, exp, len(results)))
        else:
            raise core.MachineryError('unknown case kind %r' % (k,))
    # anchors whose source point is the same for every stripe go first, in a fixed order, so that
    # their coordinate object is shared by all stripes; the stripe-specific ones follow in a second object
    keys = {}
    for (s, d), grp in groups.items():
        for c, _ in grp:
            keys.setdefault((d, tlc_key(c['src'])), set()).add(s)
    cache = {}
    for (s, d), grp in sorted(groups.items()):
        grp.sort(key=lambda ce: tlc_key(ce[0]['src']))
        common = [ce for ce in grp if len(keys[(d, tlc_key(ce[0]['src']))]) == len({k[0] for k in groups})]
        own = [ce for ce in grp if len(keys[(d, tlc_key(ce[0]['src']))]) != len({k[0] for k in groups})]
        for part in (common, own):
            if not part:
                continue
            # the same anchors as ONE 1-D object (shared), as 2-D / 3-D arrays, and (every 4th) as scalars
            forms = [replay_anchor_group(s, d, part, cache), replay_anchor_group(s, d, part, cache, anchor_shape(s, d))]
            sub = [j for j in range(len(part)) if (j + s) % 4 == 0]
            scal = dict(zip(sub, replay_anchor_group(s, d, [part[j] for j in sub], cache, 'scalar'))) if sub else {}
            form = NP_FORMS[(s + (1 if d == 'inv' else 0)) % len(NP_FORMS)]
            sform = pick_form(geo['stripe_forms'][s], s + (2 if d == 'inv' else 0))
            isub = [j for j in range(len(part)) if form in part[j][1]['forms']]
            ints = dict(zip(isub, replay_anchor_group(s, d, [part[j] for j in isub], cache, ('int', form, sform, ['all', 'lon', 'lat'][(s + (1 if d == 'inv' else 0)) % 3])))) if isub else {}
            # ... and in an object that carries distances as well (every carrier TLC admits for the anchor)
            d8s = tuple(sorted(set.intersection(*[set(e['carriers']) for _, e in part]) - {0}))
            if not d8s:
                raise core.MachineryError('anchors of stripe %d admit no carrier with a distance' % s)
            forms.append(replay_anchor_group(s, d, part, cache, ('dist', d8s, 'frame' if (s + (d == 'inv')) % 2 else 'skycoord')))
            for j, (c, exp) in enumerate(part):
                cands = [f[j] for f in forms] + ([scal[j]] if j in scal else []) + ([ints[j]] if j in ints else [])
                bad = [r for r in cands if not r[0]]
                results.append((c, exp) + (bad[0] if bad else cands[0]))
                ctx.evaluated(len(cands) - 1, 'replay-anchor-shaped')
    n = 0
    for c, exp, good, obs, dev in results:
        n += 1
        ctx.evaluated(1, 'replay-' + c['kind'] + ('-' + c['fam'] if c['kind'] == 'dist' else ''))
        ctx.validated()
        if c['kind'] == 'dist':
            if exp['d'] != {'b': 0, 'm': 0}:
                ctx.nontriv(('dist', tlc_key(c)))
        elif c['kind'] == 'anchor':
            if geo.get('incl10', {}).get(c['stripe'], 1) != 0 or c['src']['on'] == 'circ':
                ctx.nontriv(('anchor', tlc_key(c)))
        else:
            ctx.nontriv((c['kind'], tlc_key(c)))
        if n % 5000 == 1 and n < 12000:
            ctx.sample({'case': jsonable(c), 'specified': jsonable(exp), 'observed': obs})
        if not good:
            report(ctx, {'what': describe(c, exp, obs), 'case': jsonable(c), 'expected': jsonable(exp),
                         'observed': obs}, dev)
    return len(results)


# ------------------------------------------------------------------ code -> spec: probes of the real code
def destination(lon, lat, s, th):
    """point at distance s (rad) and bearing th from (lon, lat), longdouble radians"""
    sl, cl = np.sin(lat), np.cos(lat)
    lat2 = np.arcsin(np.clip(sl * np.cos(s) + cl * np.sin(s) * np.cos(th), -1, 1))
    lon2 = lon + np.arctan2(np.sin(th) * np.sin(s) * cl, np.cos(s) - sl * np.sin(lat2))
    return lon2, lat2


def gen_pairs(rng, per_decade, n_special):
    """Point pairs for gcirc.  Returns list of dicts {native, ra1, dec1, ra2, dec2, tag} with float coordinates
    in the native convention ('deg' = units 2, 'hour' = units 1, 'rad' = units 0)."""
    out = []

    def base_deg(kind):
        if kind == 'sphere':
            return rng.uniform(0, 360), math.degrees(math.asin(rng.uniform(-1, 1)))
        if kind == 'nearpole':
            return rng.uniform(0, 360), rng.choice([-1, 1]) * (90.0 - 10 ** rng.uniform(-9, 0))
        if kind == 'pole':
            return rng.choice([0.0, rng.uniform(0, 360)]), rng.choice([-90.0, 90.0])
        if kind == 'equator':
            return rng.uniform(0, 360), 0.0
        if kind == 'grid':
            return rng.randrange(0, 2880) / 8.0, rng.randrange(-720, 721) / 8.0
        raise ValueError(kind)

    def add(native, ra1, dec1, ra2, dec2, tag):
        out.append({'native': native, 'ra1': float(ra1), 'dec1': float(dec1), 'ra2': float(ra2), 'dec2': float(dec2),
                    'tag': tag})

    def clipdec(d):
        return max(-90.0, min(90.0, d))

    decades = [(-9.6 + j, -8.6 + j) for j in range(12)]      # log10 of degrees: 0.9 uas ... 180 deg
    kinds = ['sphere'] * 5 + ['nearpole', 'pole', 'equator', 'grid', 'grid']
    for lo, hi in decades:
        for j in range(per_decade):
            s_deg = min(10 ** rng.uniform(lo, hi), 180.0)
            kind = kinds[j % len(kinds)]
            ra, dec = base_deg(kind)
            mode = j % 7
            if mode == 0:        # same meridian
                d2 = dec + s_deg if dec + s_deg <= 90 else dec - s_deg
                if -90 <= d2 <= 90:
                    add('deg', ra, dec, ra, d2, 'samera')
                    continue
            if mode == 1 and s_deg < 1:     # across RA = 0
                f = rng.random()
                dd = clipdec(dec if kind != 'sphere' else rng.uniform(-60, 60))
                c = max(math.cos(math.radians(dd)), 1e-3)
                add('deg', s_deg * f / c, dd, 360.0 - s_deg * (1 - f) / c, dd, 'seam')
                continue
            th = rng.uniform(0, 2 * math.pi) if mode != 2 else rng.choice([0.5, 1.5]) * math.pi
            lon2, lat2 = destination(L(ra) * D2R, L(dec) * D2R, L(s_deg) * D2R, L(th))
            ra2 = float(lon2 * R2D) % 360.0
            dec2 = clipdec(float(lat2 * R2D))
            if mode in (3, 4):       # radians are the native convention
                add('rad', math.radians(ra), math.radians(dec), math.radians(ra2), math.radians(dec2), 'rad')
            else:
                add('deg', ra, dec, ra2, dec2, 'bearing')
    # hours native, exactly convertible to degrees: dyadic coordinates, fine steps
    for j in range(n_special * 3):
        k = rng.randrange(14, 35)
        m = rng.randrange(1, 31)
        ra_h = rng.randrange(0, 191) / 8.0 + rng.randrange(0, 31) * 2.0 ** -k
        dec = rng.randrange(-719, 720) / 8.0
        if j % 3 == 0:
            add('hour', ra_h, dec, ra_h, dec + m * 2.0 ** -k, 'hexact-samera')
        elif j % 3 == 1:
            add('hour', ra_h, 0.0, ra_h + m * 2.0 ** -k, 0.0, 'hexact-equator')
        else:
            add('hour', ra_h, dec, ra_h + m * 2.0 ** -k, dec + rng.randrange(-30, 31) * 2.0 ** -k, 'hexact-both')
    for j in range(n_special):
        kind = kinds[j % len(kinds)]
        ra, dec = base_deg(kind)
        add('deg', ra, dec, ra, dec, 'ident')                                    # identical coordinates
        if j % 4 == 0:
            add('rad', math.radians(ra), math.radians(dec), math.radians(ra), math.radians(dec), 'ident')
        if j % 4 == 1:
            add('hour', ra / 15.0, dec, ra / 15.0, dec, 'ident')
        add('deg', ra, dec, (ra + 180.0) % 360.0, -dec, 'antipode')             # antipodes (exact on the grid)
        off = 10 ** rng.uniform(-10, 0)
        add('deg', ra, dec, (ra + 180.0) % 360.0, clipdec(-dec + (off if dec > 0 else -off)), 'near-antipode')
        add('deg', ra, dec, (ra + 180.0 + off) % 360.0, -dec, 'near-antipode')
        add('deg', ra, 90.0 * rng.choice([-1, 1]), rng.uniform(0, 360), 90.0 * rng.choice([-1, 1]), 'poles')
        sg = rng.choice([-1.0, 1.0])
        add('deg', ra, 90.0 * sg, rng.uniform(0, 360), 90.0 * sg, 'same-pole')   # coincident, different coordinates
        add('deg', 0.0, dec, 360.0, dec, 'turn')                                 # coincident, different coordinates
        add('deg', ra, 90.0 * sg, rng.uniform(0, 360), dec, 'pole-to-point')
        add('deg', ra, 90.0 * sg, ra, sg * (90.0 - 10 ** rng.uniform(-9.5, 0)), 'pole-samera')
    return out


def conventions(p):
    """coordinates of the pair in the three conventions {units: (ra1, dec1, ra2, dec2)} + hexact"""
    n = p['native']
    a = (p['ra1'], p['dec1'], p['ra2'], p['dec2'])
    if n == 'deg':
        d = a
        h = (a[0] / 15.0, a[1], a[2] / 15.0, a[3])
        r = tuple(float(np.deg2rad(v)) for v in a)
    elif n == 'hour':
        h = a
        d = (a[0] * 15.0, a[1], a[2] * 15.0, a[3])
        r = tuple(float(np.deg2rad(v)) for v in d)
    else:
        r = a
        d = tuple(float(np.rad2deg(v)) for v in a)
        h = (d[0] / 15.0, d[1], d[2] / 15.0, d[3])
    hexact = (Fraction(h[0]) * 15 == Fraction(d[0]) and Fraction(h[2]) * 15 == Fraction(d[2]) and
              h[1] == d[1] and h[3] == d[3])
    return {0: r, 1: h, 2: d}, hexact


def single_pairs(pairs):
    """the pairs whose native coordinates are rounded to single precision (the points ARE those values)"""
    out = []
    for p in pairs:
        q = dict(p)
        for k in ('ra1', 'dec1', 'ra2', 'dec2'):
            q[k] = float(np.float32(p[k]))
        out.append(q)
    return out


def gc_records(pairs, nchunk=1, single=False):
    """Run gcirc on every pair in the three conventions (vectorised per convention, both argument orders)
    and build the records.  single: the coordinates of every convention are handed over as float32 arrays; the
    points of a convention are then the single-precision values (oracle and class attributes are theirs)."""
    n = len(pairs)
    conv = [conventions(p) for p in pairs]
    if single:
        conv = [({u: tuple(float(np.float32(v)) for v in cv[0][u]) for u in UNITS}, False) for cv in conv]
    res, rev, ora = {}, {}, {}
    unch = []
    bounds = [round(k * n / nchunk) for k in range(nchunk + 1)]
    for u in UNITS:
        cols = [np.array([cv[0][u][j] for cv in conv], dtype=np.float64) for j in range(4)]
        if single:
            cols = [as_float_form(c, 'float32', True) for c in cols]
        res[u] = np.empty(n)
        rev[u] = np.empty(n)
        for lo, hi in zip(bounds[:-1], bounds[1:]):
            if hi == lo:
                continue
            for order, dest in (((0, 1, 2, 3), res), ((2, 3, 0, 1), rev)):
                args = [cols[j][lo:hi].copy() for j in order]
                before = [a.tobytes() for a in args]
                out = np.asarray(call_gcirc(args[0], args[1], args[2], args[3], u), dtype=np.float64)
                if out.shape != (hi - lo,):
                    raise core.MachineryError('gcirc returned shape %r for %d pairs' % (out.shape, hi - lo))
                dest[u][lo:hi] = out
                unch.append({'kind': 'unch', 'fn': 'gcirc', 'array': True, 'use': 0,
                             'same': before == [a.tobytes() for a in args]})
        ora[u] = o_dist(cols[0], cols[1], cols[2], cols[3], u)           # radians
    natu = {'rad': 0, 'hour': 1, 'deg': 2}
    recs = []
    for j, p in enumerate(pairs):
        u0 = natu[p['native']]
        a = conv[j][0][u0]
        sep = ora[u0][j]
        sep_deg = sep * R2D
        turn = {0: 2 * float(PI), 1: 24.0, 2: 360.0}[u0]
        quarter = PI / 2 if u0 == 0 else L(90)
        colat = min(quarter - abs(L(a[1])), quarter - abs(L(a[3])))
        colat_deg = colat * R2D if u0 == 0 else colat
        if u0 == 0 and colat_deg < L(1e-13):
            colat_deg = L(0)          # float(pi/2) is the pole of the radian convention
        rec = {'kind': 'gc', 'ident': a[0] == a[2] and a[1] == a[3], 'samera': a[0] == a[2],
               'seam': abs(a[2] - a[0]) > turn / 2,
               'uas': scaled_floor(sep_deg * L(3.6e9)), 'sepdeg': int(math.floor(float(sep_deg))),
               'sepbin': floorlog2(sep_deg), 'colatbin': floorlog2(colat_deg),
               'nan': [], 'neg': [], 'zero': [], 'over': [], 'vec': [], 'sym': [], 'hexact': conv[j][1], 'single': bool(single)}
        outs = {}
        for u in UNITS:
            g, r = float(res[u][j]), float(rev[u][j])
            want = ora[u][j] * (1 if u == 0 else R2D * 3600)
            rec['nan'].append(g != g or r != r)
            rec['neg'].append(g < 0 or r < 0)
            rec['zero'].append(g == 0.0 and r == 0.0)
            rec['over'].append(scaled(max(L(max(g, r)) - HALF_OUT[u], L(0)) / HALF_OUT[u], L(1e-9)) if g == g and r == r else CAP)
            rec['vec'].append(max(ppb(g, want), ppb(r, want)))
            rec['sym'].append(ppb(g, r) if abs(r) >= abs(g) else ppb(r, g))
            outs[u] = L(g) * (R2D * 3600 if u == 0 else 1)
        rec['uhd'] = ppb(outs[1], outs[2]) if outs[2] >= outs[1] else ppb(outs[2], outs[1])
        rec['urd'] = ppb(outs[0], outs[2]) if outs[2] >= outs[0] else ppb(outs[2], outs[0])
        recs.append(rec)
    return recs, conv, res, unch


def scaled_floor(x):
    x = float(x)
    if x != x or x >= CAP:
        return CAP
    return int(math.floor(x)) if x > 0 else 0


def stripe_records():
    from pydl.pydlutils.coord import SDSSMuNu, stripe_to_eta, stripe_to_incl
    recs = []
    for s in range(0, 91):
        eta = float(stripe_to_eta(s))
        incl = float(stripe_to_incl(s))
        fr = SDSSMuNu(stripe=s)
        fi = float(fr.incl.deg)
        node = float(fr.node.to('deg').value)
        vals = [eta, incl, fi, node]
        exact = all(v == v and Fraction(v) * 10 == round(v * 10) for v in vals)
        t = [int(round(v * 10)) if v == v else 0 for v in vals]
        recs.append({'kind': 'stripe', 'stripe': s, 'exact': exact, 'eta10': t[0], 'incl10': t[1], 'frameincl10': t[2],
                     'node10': t[3]})
    return recs


def munu_records(rng, geo, npts):
    """round trips, isometry and nu = 0 probes for every stripe 0..90"""
    recs, info = [], []
    ncarry = max(8, npts)          # elements of the batches that are also handed over in an object carrying distances
    for s in range(0, 91):
        pole = geo['pole_eq'][s]
        e1 = geo['e1'][s]
        e2 = geo['e2'][s]
        # --- ICRS -> (mu, nu) -> ICRS
        ra = [rng.uniform(0, 360) for _ in range(npts)]
        dec = [math.degrees(math.asin(rng.uniform(-1, 1))) for _ in range(npts)]
        ra += [pole[0], (pole[0] + 180.0) % 360.0, pole[0], pole[0], e1[0], e2[0], 0.0, 360.0 - 1e-9, 12.5, 200.0]
        dec += [pole[1], -pole[1], max(-90.0, pole[1] - 10 ** rng.uniform(-9, -2)), min(90.0, pole[1] + 10 ** rng.uniform(-9, -2)),
                e1[1], e2[1], rng.uniform(-80, 80), rng.uniform(-80, 80), 90.0, -90.0]
        ra, dec = np.array(ra), np.array(dec)
        # the batch as bare directions, then the same directions in an object that also carries distances
        ra_all, dec_all = ra, dec
        for dist in (None, carrier_dists(rng, min(len(ra), ncarry), s)):
            ra, dec = (ra_all, dec_all) if dist is None else (ra_all[:len(dist)], dec_all[:len(dist)])
            mu, nu = to_munu(s, ra, dec, dist)
            ra2, dec2 = to_icrs(s, mu, nu)
            sep = deg_sep(ra, dec, ra2, dec2)
            dj = [None] * len(ra) if dist is None else [float(x) for x in dist]
            for j in range(len(ra)):
                isnan = bool(np.isnan([mu[j], nu[j], ra2[j], dec2[j]]).any())
                polar = bool(abs(dec[j]) > 89.9 or (not np.isnan(nu[j]) and abs(nu[j]) > 89.9)
                             or min(float(deg_sep(ra[j], dec[j], pole[0], pole[1])), float(deg_sep(ra[j], dec[j], pole[0] + 180, -pole[1]))) < 0.1)
                recs.append({'kind': 'rt', 'dir': 'icrs', 'stripe': s, 'array': True, 'use': 0, 'nan': isnan, 'polar': polar,
                             'disc': CAP if isnan else ndeg(sep[j]), 'carrier': carrier_class(dj[j])})
                info.append({'probe': 'rt-icrs', 'stripe': s, 'ra': float(ra[j]), 'dec': float(dec[j]), 'mu': float(mu[j]),
                             'nu': float(nu[j]), 'ra_back': float(ra2[j]), 'dec_back': float(dec2[j]), 'dist_pc': dj[j] or 0.0})
            # --- isometry: consecutive points of the same batch
            k = len(ra)
            a, b = np.arange(0, k - 1), np.arange(1, k)
            s_eq = deg_sep(ra[a], dec[a], ra[b], dec[b])
            s_mn = deg_sep(mu[a], nu[a], mu[b], nu[b])
            for j in range(k - 1):
                isnan = bool(np.isnan([mu[j], nu[j], mu[j + 1], nu[j + 1]]).any())
                recs_polar = _rt_polar(recs, k, j)
                recs.append({'kind': 'iso', 'stripe': s, 'nan': isnan, 'polar': recs_polar,
                             'disc': CAP if isnan else ndeg(s_eq[j] - s_mn[j]),
                             'carrier': pair_carrier(carrier_class(dj[j]), carrier_class(dj[j + 1]))})
                info.append({'probe': 'iso', 'stripe': s, 'p': [float(ra[j]), float(dec[j])], 'q': [float(ra[j + 1]), float(dec[j + 1])],
                             'p_munu': [float(mu[j]), float(nu[j])], 'q_munu': [float(mu[j + 1]), float(nu[j + 1])],
                             'dist_pc': [dj[j] or 0.0, dj[j + 1] or 0.0]})
        # --- (mu, nu) -> ICRS -> (mu, nu)
        node = geo['node10'] / 10.0
        m_in = [rng.uniform(0, 360) for _ in range(npts)] + [node, node + 90.0, 0.0, 300.0, rng.uniform(0, 360), 359.999999999]
        n_in = [math.degrees(math.asin(rng.uniform(-1, 1))) for _ in range(npts)] + [0.0, 0.0, 90.0, -90.0,
                                                                                     90.0 - 10 ** rng.uniform(-9, -2), 0.0]
        m_in, n_in = np.array(m_in), np.array(n_in)
        # the (mu, nu) object as bare directions / carrying distances; the distances are also given to the ICRS object going back
        m_all, n_all = m_in, n_in
        for dist in (None, carrier_dists(rng, min(len(m_in), ncarry - 2), s + 1)):
            m_in, n_in = (m_all, n_all) if dist is None else (m_all[:len(dist)], n_all[:len(dist)])
            r3, d3 = to_icrs(s, m_in, n_in, dist)
            m4, n4 = to_munu(s, r3, d3, dist)
            sep = deg_sep(m_in, n_in, m4, n4)
            dj = [None] * len(m_in) if dist is None else [float(x) for x in dist]
            for j in range(len(m_in)):
                isnan = bool(np.isnan([r3[j], d3[j], m4[j], n4[j]]).any())
                polar = bool(abs(n_in[j]) > 89.9 or (not np.isnan(d3[j]) and abs(d3[j]) > 89.9))
                recs.append({'kind': 'rt', 'dir': 'munu', 'stripe': s, 'array': True, 'use': 0, 'nan': isnan, 'polar': polar,
                             'disc': CAP if isnan else ndeg(sep[j]), 'carrier': carrier_class(dj[j])})
                info.append({'probe': 'rt-munu', 'stripe': s, 'mu': float(m_in[j]), 'nu': float(n_in[j]), 'ra': float(r3[j]),
                             'dec': float(d3[j]), 'mu_back': float(m4[j]), 'nu_back': float(n4[j]), 'dist_pc': dj[j] or 0.0})
        # --- nu = 0 is the great circle with pole `pole`: distance of the image from that plane
        m0 = np.array([rng.uniform(0, 360) for _ in range(max(4, npts // 2))] + [node, node + 90.0, node + 180.0, node + 270.0])
        r5, d5 = to_icrs(s, m0, np.zeros(len(m0)))
        off = L(90) - deg_sep(r5, d5, np.full(len(m0), pole[0]), np.full(len(m0), pole[1]))
        for j in range(len(m0)):
            isnan = bool(np.isnan([r5[j], d5[j]]).any())
            recs.append({'kind': 'nu0', 'dir': 'fwd', 'stripe': s, 'nan': isnan, 'polar': bool(abs(d5[j]) > 89.9),
                         'disc': CAP if isnan else ndeg(off[j]), 'carrier': 'direction'})
            info.append({'probe': 'nu0-fwd', 'stripe': s, 'mu': float(m0[j]), 'ra': float(r5[j]), 'dec': float(d5[j]),
                         'circle_pole': list(pole)})
        # --- points of that great circle (oracle: cos t e1 + sin t e2) have nu = 0
        t = np.array([rng.uniform(0, 2 * math.pi) for _ in range(max(4, npts // 2))], dtype=L)
        v1 = o_vec(L(e1[0]) * D2R, L(e1[1]) * D2R)
        v2 = o_vec(L(e2[0]) * D2R, L(e2[1]) * D2R)
        v = np.cos(t)[:, None] * v1[None, :] + np.sin(t)[:, None] * v2[None, :]
        r6 = np.array((np.arctan2(v[:, 1], v[:, 0]) * R2D).astype(np.float64)) % 360.0
        d6 = np.array((np.arcsin(np.clip(v[:, 2], -1, 1)) * R2D).astype(np.float64))
        for dist in (None, carrier_dists(rng, min(len(t), 3), s + 2)):
            m7, n7 = to_munu(s, r6, d6, dist) if dist is None else to_munu(s, r6[:len(dist)], d6[:len(dist)], dist)
            dj = [None] * len(t) if dist is None else [float(x) for x in dist]
            for j in range(len(dj)):
                isnan = bool(np.isnan([m7[j], n7[j]]).any())
                # the float (ra, dec) handed to the code is the circle point only to ~1e-6 deg within 0.1 deg of a pole
                recs.append({'kind': 'nu0', 'dir': 'inv', 'stripe': s, 'nan': isnan, 'polar': bool(abs(d6[j]) > 89.9),
                             'disc': CAP if isnan else ndeg(n7[j]), 'carrier': carrier_class(dj[j])})
                info.append({'probe': 'nu0-inv', 'stripe': s, 'ra': float(r6[j]), 'dec': float(d6[j]), 'mu': float(m7[j]),
                             'nu': float(n7[j]), 'dist_pc': dj[j] or 0.0})
    return recs, info


def carrier_dists(rng, n, phase):
    """distances (parsec) for the n elements of one coordinate object: runs of two below, at and above the unit of
    length (so consecutive elements form pairs of every carrier class), seeded values from 0.1 pc to 1 kpc"""
    out = []
    for j in range(n):
        c = ((j + 2 * phase) // 2) % 3
        out.append(10 ** rng.uniform(-1, -0.01) if c == 0 else 1.0 if c == 1 else 10 ** rng.uniform(0.01, 3))
    return np.array(out)


def _rt_polar(recs, k, j):
    """polar flag of an isometry pair = either of its two round-trip records (the k rt records of this
    stripe precede the j iso records already appended)"""
    base = len(recs) - j - k
    return bool(recs[base + j]['polar'] or recs[base + j + 1]['polar'])


def vec_records(rng, n, nchunk=1):
    recs, info = [], []
    unch = []

    def chunked(fn, name, arr, latitude):
        """fn on nchunk slices of arr (each its own array); records whether the slice handed in is bit-identical
        after the call"""
        bounds = [round(k * len(arr) / nchunk) for k in range(nchunk + 1)]
        outs = []
        for lo, hi in zip(bounds[:-1], bounds[1:]):
            if hi > lo:
                part = np.array(arr[lo:hi], dtype=float, copy=True)
                before = part.tobytes()
                outs.append(fn(part, latitude))
                unch.append({'kind': 'unch', 'fn': name, 'array': True, 'use': 0, 'same': part.tobytes() == before})
        return np.concatenate(outs, 0)

    for latitude in (False, True):
        lon = [rng.uniform(0, 360) for _ in range(n)] + [0.0, 90.0, 180.0, 270.0, 359.99999999, 360.0, -10.0, 370.0, 45.0, 123.0]
        lat = [math.degrees(math.asin(rng.uniform(-1, 1))) for _ in range(n)] + [0.0, 0.0, 45.0, -45.0, 10.0, -10.0, 20.0, 30.0, 90.0, -90.0]
        for _ in range(n):       # within 0.1 deg of the poles
            lon.append(rng.uniform(0, 360))
            lat.append(rng.choice([-1, 1]) * (90.0 - 10 ** rng.uniform(-9, -1.01)))
        lon, lat = np.array(lon), np.array(lat)
        second = lat if latitude else 90.0 - lat
        a = np.stack([lon, second], 1)
        x = chunked(a2x, 'angles_to_x', a, latitude)
        b = chunked(x2a, 'x_to_angles', x, latitude)
        if x.shape != (len(lon), 3) or b.shape != (len(lon), 2):
            raise core.MachineryError('angles_to_x / x_to_angles returned shapes %r %r' % (x.shape, b.shape))
        latb = b[:, 1] if latitude else 90.0 - b[:, 1]
        late = second if latitude else 90.0 - second       # the latitude actually handed over
        sep = deg_sep(lon, late, b[:, 0], latb)
        xo = o_vec(np.asarray(lon, dtype=L) * D2R, np.asarray(late, dtype=L) * D2R)
        dv = np.sqrt(((np.asarray(x, dtype=L) - xo) ** 2).sum(1)) * R2D
        nrm = np.abs(np.sqrt((np.asarray(x, dtype=L) ** 2).sum(1)) - 1)
        for j in range(len(lon)):
            isnan = bool(np.isnan(x[j]).any() or np.isnan(b[j]).any())
            recs.append({'kind': 'vec', 'dir': 'a2x2a', 'latitude': latitude, 'nan': isnan, 'polar': bool(abs(late[j]) > 89.9),
                         'disc': CAP if isnan else ndeg(sep[j]), 'vdisc': CAP if isnan else ndeg(dv[j]),
                         'norm': CAP if isnan else scaled(nrm[j], L(1e-12))})
            info.append({'probe': 'a2x2a', 'latitude': latitude, 'angles': [float(a[j, 0]), float(a[j, 1])],
                         'x': [float(t) for t in x[j]], 'back': [float(t) for t in b[j]]})
        # unit vectors -> angles -> unit vectors
        v = [[rng.gauss(0, 1), rng.gauss(0, 1), rng.gauss(0, 1)] for _ in range(n)]
        v += [[1, 0, 0], [0, 1, 0], [0, 0, 1], [-1, 0, 0], [0, -1, 0], [0, 0, -1], [1, 1, 0], [1, 1, 1], [-1, 2, -3], [3, -4, 0]]
        for _ in range(n):
            sc = 10 ** rng.uniform(-10, -3)
            v.append([rng.gauss(0, sc), rng.gauss(0, sc), rng.choice([-1.0, 1.0])])
        v = np.array(v, dtype=np.float64)
        v = v / np.sqrt((v ** 2).sum(1))[:, None]
        a = chunked(x2a, 'x_to_angles', v, latitude)
        w = chunked(a2x, 'angles_to_x', a, latitude)
        if a.shape != (len(v), 2) or w.shape != (len(v), 3):
            raise core.MachineryError('x_to_angles / angles_to_x returned shapes %r %r' % (a.shape, w.shape))
        vl = np.asarray(v, dtype=L)
        vl = vl / np.sqrt((vl ** 2).sum(1))[:, None]
        back = o_sep(np.asarray(w, dtype=L) / np.sqrt((np.asarray(w, dtype=L) ** 2).sum(1))[:, None], vl) * R2D
        lata = a[:, 1] if latitude else 90.0 - a[:, 1]
        va = o_sep(o_vec(np.asarray(a[:, 0], dtype=L) * D2R, np.asarray(lata, dtype=L) * D2R), vl) * R2D
        nrm = np.abs(np.sqrt((np.asarray(w, dtype=L) ** 2).sum(1)) - 1)
        for j in range(len(v)):
            isnan = bool(np.isnan(a[j]).any() or np.isnan(w[j]).any())
            recs.append({'kind': 'vec', 'dir': 'x2a2x', 'latitude': latitude, 'nan': isnan, 'polar': bool(abs(v[j, 2]) > 0.9999984),
                         'disc': CAP if isnan else ndeg(back[j]), 'vdisc': CAP if isnan else ndeg(va[j]),
                         'norm': CAP if isnan else scaled(nrm[j], L(1e-12))})
            info.append({'probe': 'x2a2x', 'latitude': latitude, 'x': [float(t) for t in v[j]],
                         'angles': [float(t) for t in a[j]], 'back': [float(t) for t in w[j]]})
    return recs + unch, info + [{'probe': 'unchanged-input', 'fn': r['fn']} for r in unch]


def icrs_sequence(which, ra0, dec0, seq):
    """ONE ICRS coordinate object (array-valued when ra0 is a list) handed to the transforms of the stripes in
    `seq` one after the other; after every forward transform the result is taken back to ICRS and compared
    with the ORIGINAL coordinates.  Yields (record, step) for: the round trip ('rt'), the object handed to
    radec_to_munu unchanged ('unch'), the intermediate (mu, nu) object handed to munu_to_radec unchanged."""
    array = isinstance(ra0, (list, tuple, np.ndarray))
    obj = make_icrs(ra0, dec0, which)
    r0 = np.atleast_1d(np.array(ra0, dtype=float))
    d0 = np.atleast_1d(np.array(dec0, dtype=float))
    for use, s in enumerate(seq):
        before = coord_bytes(obj)
        m = tr_munu(obj, s)
        yield ({'kind': 'unch', 'fn': 'radec_to_munu', 'array': array, 'use': use, 'same': coord_bytes(obj) == before}, use)
        mu, nu = coord_values(m)
        before = coord_bytes(m)
        b = tr_icrs(m)
        yield ({'kind': 'unch', 'fn': 'munu_to_radec', 'array': array, 'use': 0, 'same': coord_bytes(m) == before}, use)
        ra2, dec2 = coord_values(b)
        isnan = bool(np.isnan([mu, nu, ra2, dec2]).any())
        polar = bool((np.abs(d0) > 89.9).any() or (np.abs(nu[~np.isnan(nu)]) > 89.9).any())
        disc = CAP if isnan else max(ndeg(x) for x in np.atleast_1d(deg_sep(r0, d0, ra2, dec2)))
        yield ({'kind': 'rt', 'dir': 'icrs', 'stripe': s, 'array': array, 'use': use, 'nan': isnan, 'polar': polar,
                'disc': disc, 'carrier': 'direction'}, use)


def munu_sequence(which, stripe, mu0, nu0, times):
    """ONE (mu, nu) coordinate object of a stripe handed `times` times to munu_to_radec, each result taken back
    to (mu, nu) and compared with the ORIGINAL coordinates."""
    array = isinstance(mu0, (list, tuple, np.ndarray))
    obj = make_munu(stripe, mu0, nu0, which)
    m0 = np.atleast_1d(np.array(mu0, dtype=float))
    n0 = np.atleast_1d(np.array(nu0, dtype=float))
    for use in range(times):
        before = coord_bytes(obj)
        c = tr_icrs(obj)
        yield ({'kind': 'unch', 'fn': 'munu_to_radec', 'array': array, 'use': use, 'same': coord_bytes(obj) == before}, use)
        ra, dec = coord_values(c)
        before = coord_bytes(c)
        m = tr_munu(c, stripe)
        yield ({'kind': 'unch', 'fn': 'radec_to_munu', 'array': array, 'use': 0, 'same': coord_bytes(c) == before}, use)
        mu, nu = coord_values(m)
        isnan = bool(np.isnan([ra, dec, mu, nu]).any())
        polar = bool((np.abs(n0) > 89.9).any() or (np.abs(dec[~np.isnan(dec)]) > 89.9).any())
        disc = CAP if isnan else max(ndeg(x) for x in np.atleast_1d(deg_sep(m0, n0, mu, nu)))
        yield ({'kind': 'rt', 'dir': 'munu', 'stripe': stripe, 'array': array, 'use': use, 'nan': isnan, 'polar': polar,
                'disc': disc, 'carrier': 'direction'}, use)


def reuse_records(rng, npts, times):
    """caller-object probes: array-valued and scalar coordinate objects that go through several transforms"""
    recs, info = [], []

    def sphere(k):
        return ([rng.uniform(0, 360) for _ in range(k)], [math.degrees(math.asin(rng.uniform(-0.98, 0.98))) for _ in range(k)])

    for which in ('skycoord', 'frame'):
        for array in (True, False):
            ra0, dec0 = sphere(npts)
            if not array:
                ra0, dec0 = ra0[0], dec0[0]
            seq = [s for s in range(91) for _ in range(2)]        # forward + inverse, forward again + inverse, next stripe
            rng.shuffle(seq)
            for rec, step in icrs_sequence(which, ra0, dec0, seq):
                recs.append(rec)
                info.append({'probe': 'reuse-icrs', 'which': which, 'ra': ra0, 'dec': dec0, 'seq': seq[:step + 1]})
    for s in range(91):
        for which, array in (('skycoord', True), ('frame', True), ('skycoord', False)) if s % 3 == 0 else (('skycoord', True), ('frame', False)):
            mu0, nu0 = sphere(npts)
            if not array:
                mu0, nu0 = mu0[0], nu0[0]
            for rec, step in munu_sequence(which, s, mu0, nu0, times):
                recs.append(rec)
                info.append({'probe': 'reuse-munu', 'which': which, 'stripe': s, 'mu': mu0, 'nu': nu0, 'times': step + 1})
    return recs, info


# ---- ArrayEqualsScalars: the same positions handed over as arrays of several shapes and one at a time
TRANSFORM_SHAPES = [(5,), (7,), (3, 5), (3, 3), (2, 5), (5, 3), (2, 3, 4), (3, 2, 2), (1, 7), (7, 1)]
GCIRC_SHAPES = [((5,), (5,)), ((5,), ()), ((3, 5), (3, 5)), ((3, 1), (1, 5)), ((3, 5), ()), ((), (3, 3)), ((3, 3), (3,)),
                ((2, 5), (2, 5)), ((5, 3), (3,)), ((7, 2), (7, 1)), ((2, 3, 4), (4,)), ((3, 2, 2), (3, 2, 2)),
                ((2, 1, 4), (3, 1)), ((1, 7), (1, 7)), ((7, 1), ()), ((1, 1), (1,))]
ANGLE_ROWS = [1, 2, 3, 5, 7]


def transform_shape_probe(fn, stripe, which, shape, lon, lat):
    """fn on ONE coordinate object holding the arrays lon, lat (nested lists of shape `shape`) against fn on each
    position as a scalar object"""
    lon = np.array(lon, dtype=float)
    lat = np.array(lat, dtype=float)
    rec = {'kind': 'shape', 'fn': fn, 'shape': list(shape), 'bcast': False, 'raised': False, 'shapeok': False, 'nan': False,
           'polar': False, 'disc': CAP}

    def go(a, b):
        if fn == 'radec_to_munu':
            return tr_munu(make_icrs(a, b, which), stripe)
        return tr_icrs(make_munu(stripe, a, b, which))

    refs = [coord_values(go(a, b)) for a, b in zip(lon.reshape(-1), lat.reshape(-1))]
    rlon = np.array([r[0][0] for r in refs])
    rlat = np.array([r[1][0] for r in refs])
    try:
        res = go(lon, lat)
    except Exception as ex:
        rec['raised'] = True
        return rec, repr(ex)
    rec['shapeok'] = tuple(res.shape) == tuple(shape)
    if rec['shapeok']:
        glon, glat = coord_values(res)
        rec['nan'] = bool(np.isnan([glon, glat, rlon, rlat]).any())
        rec['polar'] = bool((np.abs(lat) > 89.9).any() or (np.abs(rlat[~np.isnan(rlat)]) > 89.9).any())
        if not rec['nan']:
            rec['disc'] = max(ndeg(x) for x in np.atleast_1d(deg_sep(glon, glat, rlon, rlat)))
    return rec, None


def gcirc_shape_probe(units, s1, s2, a):
    """gcirc on arguments of shapes s1 (first point) and s2 (second point) against gcirc on each broadcast element"""
    a = [np.array(x, dtype=float) for x in a]
    want = np.broadcast_shapes(tuple(s1), tuple(s2))
    rec = {'kind': 'shape', 'fn': 'gcirc', 'shape': list(want), 'bcast': tuple(s1) != tuple(s2), 'raised': False, 'shapeok': False,
           'nan': False, 'polar': False, 'disc': CAP}
    b = [x.reshape(-1) for x in np.broadcast_arrays(*a)]
    ref = np.array([float(call_gcirc(float(b[0][j]), float(b[1][j]), float(b[2][j]), float(b[3][j]), units)) for j in range(len(b[0]))])
    try:
        got = np.asarray(call_gcirc(a[0], a[1], a[2], a[3], units))
    except Exception as ex:
        rec['raised'] = True
        return rec, repr(ex)
    rec['shapeok'] = tuple(got.shape) == tuple(want)
    if rec['shapeok']:
        got = got.reshape(-1).astype(float)
        rec['nan'] = bool(np.isnan(got).any() or np.isnan(ref).any())
        if not rec['nan']:
            rec['disc'] = max(ppb(g, r) if abs(r) >= abs(g) else ppb(r, g) for g, r in zip(got, ref))
    return rec, None


def angles_shape_probe(fn, latitude, arr):
    """angles_to_x / x_to_angles on an (n, 2) / (n, 3) array against the same rows handed over one at a time"""
    arr = np.array(arr, dtype=float)
    f = a2x if fn == 'angles_to_x' else x2a
    ncol = 3 if fn == 'angles_to_x' else 2
    rec = {'kind': 'shape', 'fn': fn, 'shape': list(arr.shape), 'bcast': False, 'raised': False, 'shapeok': False, 'nan': False,
           'polar': False, 'disc': CAP}
    ref = np.concatenate([f(arr[j:j + 1].copy(), latitude) for j in range(len(arr))], 0)
    try:
        got = f(arr.copy(), latitude)
    except Exception as ex:
        rec['raised'] = True
        return rec, repr(ex)
    rec['shapeok'] = got.shape == (len(arr), ncol)
    if rec['shapeok']:
        rec['nan'] = bool(np.isnan(got).any() or np.isnan(ref).any())
        if not rec['nan']:
            if fn == 'angles_to_x':
                d = np.sqrt(((np.asarray(got, dtype=L) - np.asarray(ref, dtype=L)) ** 2).sum(1)) * R2D
            else:
                conv = (lambda t: t) if latitude else (lambda t: 90.0 - t)
                d = deg_sep(got[:, 0], conv(got[:, 1]), ref[:, 0], conv(ref[:, 1]))
            rec['disc'] = max(ndeg(x) for x in d)
    return rec, None


def shape_records(rng, stripes, greps, areps):
    recs, info = [], []

    def pts(shape):
        n = int(np.prod(shape)) if shape else 1
        lon = np.array([rng.uniform(0, 360) for _ in range(n)]).reshape(shape)
        lat = np.array([math.degrees(math.asin(rng.uniform(-0.98, 0.98))) for _ in range(n)]).reshape(shape)
        return lon, lat

    for k, s in enumerate(stripes):
        for fn in ('radec_to_munu', 'munu_to_radec'):
            for m, shape in enumerate(TRANSFORM_SHAPES):
                which = 'frame' if (k + m) % 2 else 'skycoord'
                lon, lat = pts(shape)
                rec, exc = transform_shape_probe(fn, s, which, shape, lon, lat)
                recs.append(rec)
                info.append({'probe': 'shape-transform', 'fn': fn, 'stripe': s, 'which': which, 'shape': list(shape),
                             'lon': lon.tolist(), 'lat': lat.tolist(), 'exc': exc or ''})
    for rep in range(greps):
        for m, (s1, s2) in enumerate(GCIRC_SHAPES):
            for units in UNITS:
                p1, p2 = pts(s1), pts(s2)
                # second point within ~2 deg of a (broadcast) first point would need care at the poles; any pair will do
                a = [p1[0], p1[1], p2[0], p2[1]]
                if units == 1:
                    a[0], a[2] = a[0] / 15.0, a[2] / 15.0
                if units == 0:
                    a = [np.deg2rad(x) for x in a]
                rec, exc = gcirc_shape_probe(units, s1, s2, a)
                recs.append(rec)
                info.append({'probe': 'shape-gcirc', 'units': units, 's1': list(s1), 's2': list(s2),
                             'args': [np.asarray(x).tolist() for x in a], 'exc': exc or ''})
    for rep in range(areps):
        for n in ANGLE_ROWS:
            for latitude in (False, True):
                lon, lat = pts((n,))
                ang = np.stack([lon, lat if latitude else 90.0 - lat], 1)
                vec = a2x(ang.copy(), latitude)
                for fn, arr in (('angles_to_x', ang), ('x_to_angles', vec)):
                    rec, exc = angles_shape_probe(fn, latitude, arr)
                    recs.append(rec)
                    info.append({'probe': 'shape-angles', 'fn': fn, 'latitude': latitude, 'arr': np.asarray(arr).tolist(),
                                 'exc': exc or ''})
    return recs, info


# ---- FormIndependent: integer-typed arguments against the same values as float64
def _maxdisc(got, ref, unit):
    got = np.asarray(got, dtype=float).reshape(-1)
    ref = np.asarray(ref, dtype=float).reshape(-1)
    if got.shape != ref.shape:
        return CAP, False
    if np.isnan(got).any() or np.isnan(ref).any():
        return CAP, True
    if unit == 'ppb':
        return max([ppb(g, r) if abs(r) >= abs(g) else ppb(r, g) for g, r in zip(got, ref)] or [0]), False
    return max([ndeg(g - r) for g, r in zip(got, ref)] or [0]), False


def form_probe(inf):
    """one call with integer-typed arguments (inf['form']; arrays or scalars) and the same call with float64 /
    Python-int arguments; returns the record"""
    from pydl.pydlutils.coord import stripe_to_eta, stripe_to_incl
    from pydl.pydlutils.mangle import cap_distance
    fn, form, arr = inf['fn'], inf['form'], inf['arr']
    mix = inf.get('mix', 'all')
    rec = {'kind': 'form', 'fn': fn, 'form': form, 'mix': mix, 'arr': arr, 'raised': False, 'nan': False, 'polar': False, 'disc': CAP}
    try:
        with np.errstate(all='ignore'):
            if fn == 'gcirc':
                a = inf['args']
                if mix.startswith('scalar-') or mix.startswith('pyint-'):
                    # the integer arguments are scalars (first pair's values), the others float arrays
                    ints = GC_MIX_ARGS[mix]
                    b = [[v[0]] * len(v) if k in ints else v for k, v in enumerate(a)]
                    got = call_gcirc(*gcirc_mixed_args(b, form, mix, True), inf['units'])
                    ref = call_gcirc(*[np.array(v, dtype=float) for v in b], inf['units'])
                    gotr = call_gcirc(*(lambda m: m[2:] + m[:2])(gcirc_mixed_args(b, form, mix, True)), inf['units'])
                    got, ref = np.concatenate([np.ravel(got), np.ravel(gotr)]), np.concatenate([np.ravel(ref), np.ravel(ref)])
                elif arr:
                    m = gcirc_mixed_args(a, form, mix, True)
                    got = np.concatenate([np.ravel(call_gcirc(m[0], m[1], m[2], m[3], inf['units'])),
                                          np.ravel(call_gcirc(m[2], m[3], m[0], m[1], inf['units']))])
                    ref = np.ravel(call_gcirc(*[np.array(v, dtype=float) for v in a], inf['units']))
                    ref = np.concatenate([ref, ref])
                else:
                    got, ref = [], []
                    for j in range(len(a[0])):
                        m = gcirc_mixed_args([v[j] for v in a], form, mix, False)
                        got += [call_gcirc(m[0], m[1], m[2], m[3], inf['units']), call_gcirc(m[2], m[3], m[0], m[1], inf['units'])]
                        ref += [call_gcirc(*[float(v[j]) for v in a], inf['units'])] * 2
                rec['disc'], rec['nan'] = _maxdisc(got, ref, 'ppb')
            elif fn in ('radec_to_munu', 'munu_to_radec'):
                sv = as_form(inf['stripe'], inf['sform'])
                form = {'all': (form, form), 'lon': (form, None), 'lat': (None, form)}[mix]
                if fn == 'radec_to_munu':
                    g = coord_values(tr_munu(make_icrs(inf['lon'], inf['lat'], form=form), sv))
                    r = coord_values(tr_munu(make_icrs(inf['lon'], inf['lat']), inf['stripe']))
                else:
                    g = coord_values(tr_icrs(make_munu(sv, inf['lon'], inf['lat'], form=form)))
                    r = coord_values(tr_icrs(make_munu(inf['stripe'], inf['lon'], inf['lat'])))
                rec['nan'] = bool(np.isnan([g, r]).any())
                rec['polar'] = bool((np.abs(np.array(inf['lat'])) > 89.9).any() or (np.abs(r[1][~np.isnan(r[1])]) > 89.9).any())
                if not rec['nan']:
                    rec['disc'] = max(ndeg(x) for x in deg_sep(g[0], g[1], r[0], r[1]))
            elif fn in ('stripe_to_eta', 'stripe_to_incl'):
                f = stripe_to_eta if fn == 'stripe_to_eta' else stripe_to_incl
                rec['disc'], rec['nan'] = _maxdisc([f(as_form(inf['stripe'], form))], [f(int(inf['stripe']))], 'ndeg')
            elif fn == 'angles_to_x':
                g = a2x(as_form(inf['arr2'], form, True), inf['latitude'], raw=True)
                r = a2x(np.array(inf['arr2'], dtype=float), inf['latitude'])
                rec['nan'] = bool(np.isnan(g).any())
                if g.shape == r.shape and not rec['nan']:
                    rec['disc'] = max(ndeg(x) for x in np.sqrt(((np.asarray(g, dtype=L) - np.asarray(r, dtype=L)) ** 2).sum(1)) * R2D)
            elif fn == 'x_to_angles':
                g = x2a(as_form(inf['arr2'], form, True), inf['latitude'], raw=True)
                r = x2a(np.array(inf['arr2'], dtype=float), inf['latitude'])
                rec['nan'] = bool(np.isnan(g).any())
                conv = (lambda t: t) if inf['latitude'] else (lambda t: 90.0 - t)
                rec['polar'] = True          # axis vectors include the poles
                if g.shape == r.shape and not rec['nan']:
                    rec['disc'] = max(ndeg(x) for x in deg_sep(g[:, 0], conv(g[:, 1]), r[:, 0], conv(r[:, 1])))
            else:
                fx, fc, fp = [(form if mix in ('all', m) else 'float64') for m in ('x', 'cm', 'points')]
                g = cap_distance(as_form(inf['x'], fx, True), as_form(inf['cm'], fc), as_form(inf['arr2'], fp, True))
                r = cap_distance(np.array(inf['x'], dtype=float), float(inf['cm']), np.array(inf['arr2'], dtype=float))
                rec['polar'] = True          # arccos of +-1 for points on the axis of the cap
                rec['disc'], rec['nan'] = _maxdisc(g, r, 'ndeg')
    except Exception as ex:
        rec['raised'] = True
        inf['exc'] = repr(ex)
    return rec


def form_records(rng, reps, stripes):
    recs, info = [], []

    def emit(inf):
        recs.append(form_probe(inf))
        info.append(inf)

    def rng_int(form, lo, hi):
        if form != 'pyint':
            ii = np.iinfo(form)
            lo, hi = max(lo, ii.min), min(hi, ii.max)
        return rng.randint(min(lo, hi), hi)

    for rep in range(reps):
        for form in NP_FORMS + ['pyint']:
            signed = form == 'pyint' or np.iinfo(form).min < 0
            # ---- gcirc, three conventions; pairs in descending order, across RA 0, antipodal, at the poles
            for units in UNITS:
                ramax, half, decmax = {0: (6, 3, 1), 1: (23, 12, 90), 2: (359, 180, 90)}[units]
                ra1 = [rng_int(form, 0, ramax) for _ in range(4)] + [min(10, ramax), 0, 1, rng_int(form, 0, half - 1)]
                ra2 = [rng_int(form, 0, ramax) for _ in range(4)] + [min(9, ramax), rng_int(form, half, ramax), 0, 0]
                ra2[7] = ra1[7] + half if units else ra1[7]
                dec1 = [rng_int(form, -decmax, decmax) for _ in range(4)] + [1, 0, decmax, rng_int(form, 0, decmax if signed else 0)]
                dec2 = [rng_int(form, -decmax, decmax) for _ in range(4)] + [0, 1, rng_int(form, -decmax, decmax), 0]
                dec2[7] = -dec1[7]
                if form != 'pyint' and max(ra2) > np.iinfo(form).max:
                    ra2[7], dec2[7] = ra1[7], dec1[7]
                for arr in ((True, False) if form != 'pyint' else (False,)):
                    emit({'probe': 'form', 'fn': 'gcirc', 'form': form, 'mix': 'all', 'arr': arr, 'units': units, 'args': [ra1, dec1, ra2, dec2]})
                # the integer type for a subset of the arguments only (three of the admitted subsets, rotating)
                mixes = [m for m in sorted(GC_MIX_ARGS) if m != 'all' and mix_ok(m, form)]
                for q in range(3 if form != 'pyint' else 2):
                    m = mixes[(rep * 3 + units + q * (1 if form == 'pyint' else 2) + (NP_FORMS.index(form) if form != 'pyint' else 0)) % len(mixes)]
                    emit({'probe': 'form', 'fn': 'gcirc', 'form': form, 'mix': m, 'arr': (rep + q) % 2 == 0 or m.startswith(('scalar-', 'pyint-')),
                          'units': units, 'args': [ra1, dec1, ra2, dec2]})
            if form == 'pyint':
                continue
            # ---- the transforms: whole-degree coordinate arrays, integer-typed stripe number
            s = stripes[(rep * 9 + NP_FORMS.index(form)) % len(stripes)]
            for fn in ('radec_to_munu', 'munu_to_radec'):
                lon = [rng_int(form, 0, 359) for _ in range(6)] + [95, 0]
                lat = [rng_int(form, -89, 89) for _ in range(6)] + [0, rng_int(form, 0, 90)]
                for m in ('all', 'lon', 'lat'):
                    emit({'probe': 'form', 'fn': fn, 'form': form, 'mix': m, 'arr': True, 'stripe': s,
                          'sform': NP_FORMS[(rep + NP_FORMS.index(form)) % 8], 'lon': lon, 'lat': lat})
            for fn in ('stripe_to_eta', 'stripe_to_incl'):
                emit({'probe': 'form', 'fn': fn, 'form': form, 'arr': False, 'stripe': s})
            # ---- angles <-> vectors and cap_distance
            for latitude in (False, True):
                ang = [[rng_int(form, 0, 359), rng_int(form, -90, 90) if latitude else rng_int(form, 0, 180)] for _ in range(6)]
                ang += [[90, 0 if latitude else 90], [0, 90 if latitude else 0]]
                emit({'probe': 'form', 'fn': 'angles_to_x', 'form': form, 'arr': True, 'latitude': latitude, 'arr2': ang})
                vec = [[1, 0, 0], [0, 1, 0], [0, 0, 1]] + ([[-1, 0, 0], [0, -1, 0], [0, 0, -1]] if signed else [])
                rng.shuffle(vec)
                emit({'probe': 'form', 'fn': 'x_to_angles', 'form': form, 'arr': True, 'latitude': latitude, 'arr2': vec})
            axis = rng.choice([[0, 0, 1], [1, 0, 0], [0, 1, 0]] + ([[0, 0, -1], [-1, 0, 0]] if signed else []))
            cm = rng.choice([1, 2] + ([-1] if signed else []))
            pts = [[rng_int(form, 0, 359), rng_int(form, -90, 90)] for _ in range(6)] + [[0, 0], [90, 0]]
            for q, m in enumerate(('all', 'x', 'cm', 'points')):
                emit({'probe': 'form', 'fn': 'cap_distance', 'form': form, 'mix': m, 'arr': True, 'x': axis, 'cm': cm,
                      'arr2': pts if (q + rep) % 2 == 0 else [[1, 0, 0], [0, 1, 0], [0, 0, 1]]})
            emit({'probe': 'form', 'fn': 'cap_distance', 'form': form, 'mix': 'all', 'arr': True, 'x': axis, 'cm': cm,
                  'arr2': [[1, 0, 0], [0, 1, 0], [0, 0, 1]] if rep % 2 == 0 else pts})
    return recs, info


def falsify(rec, k):
    """one observed field of an accepted record pushed beyond what the law admits (binding self-test)"""
    r = json_copy(rec)
    kind = r['kind']
    if kind == 'gc':
        m = k % 4
        if m == 0:
            r['nan'][k % 3] = True
        elif m == 1:
            r['sym'][k % 3] = 5000000 if r['single'] else 5000
        elif m == 2:
            r['neg'][k % 3] = True
        else:
            if r['ident']:
                r['zero'][k % 3] = False
            elif r['single']:
                if r['uas'] >= 1 and 1 <= r['sepdeg'] < 179:
                    r['vec'][k % 3] = 5000000
                else:
                    r['over'][k % 3] = 5000
            elif r['uas'] >= 1 and (r['samera'] or r['colatbin'] >= -18 or r['sepbin'] >= -5) and (not r['seam'] or r['sepbin'] >= -18):
                r['vec'][k % 3] = 5000
            else:
                r['over'][k % 3] = 7
    elif kind in ('rt', 'iso', 'nu0'):
        if k % 2:
            r['disc'] = 20000
        else:
            r['nan'] = True
    elif kind == 'stripe':
        r[['eta10', 'incl10', 'frameincl10', 'node10'][k % 4]] += 25
    elif kind == 'vec':
        r[['disc', 'vdisc'][k % 2]] = 20000
    elif kind == 'unch':
        r['same'] = False
    elif kind == 'shape':
        if k % 3 == 0:
            r['shapeok'] = False
        elif k % 3 == 1:
            r['raised'] = True
        else:
            r['disc'] = 20000
    elif kind == 'form':
        r['disc'] = 20000
    elif kind == 'self':
        r[['nnan', 'wrong', 'disc'][k % 3]] = 20000 if k % 3 == 2 else 1
    return r


def json_copy(x):
    import json
    return json.loads(json.dumps(x))


# ---- a point against itself and against its antipode (SkyGeom.tla part 4c) ---------------------------
def cap_self_eval(cm, rel, conv, ra, dec):
    """cap_distance / is_in_cap of caps centred on (ra[j], dec[j]) (x = angles_to_x of the centre, as circle_cap
    builds it) for the centre itself or its antipode, the point given as RA, Dec or as a unit vector.
    Returns (distances, is_in_cap answers)."""
    from pydl.pydlutils.mangle import cap_distance, is_in_cap
    ra = np.asarray(ra, dtype=float)
    dec = np.asarray(dec, dtype=float)
    cen = np.stack([ra, dec], 1)
    xs = a2x(cen, True)
    if rel == 'coincident':
        ang = cen
        vec = xs
    else:
        ang = np.stack([(ra + 180.0) % 360.0, -dec], 1)
        vec = -xs if rel == 'antipode-negated' else a2x(ang, True)
    pts = ang if conv == 'radec' else vec
    d = np.empty(len(ra))
    ins = np.empty(len(ra), dtype=bool)
    with np.errstate(all='ignore'):
        for j in range(len(ra)):
            d[j] = cap_distance(xs[j], cm, pts[j:j + 1])[0]
            ins[j] = bool(is_in_cap(xs[j], cm, pts[j:j + 1])[0])
    return d, ins


def replay_capself(c, exp, ra, dec):
    cm = exp['cmhalves'] / 2.0
    try:
        d, ins = cap_self_eval(cm, c['rel'], c['conv'], ra, dec)
    except Exception as ex:
        return False, {'exc': repr(ex)}, None
    want = exp['dist10'] / 10.0
    bad = [j for j in range(len(ra)) if d[j] != d[j] or ndeg(d[j] - want) > exp['tol'] or bool(ins[j]) != exp['inside']]
    obs = {'centres': len(ra), 'failing': len(bad)}
    if bad:
        j = bad[0]
        obs.update(centre=[float(ra[j]), float(dec[j])], cap_distance=float(d[j]), is_in_cap=bool(ins[j]))
    return not bad, obs, None


def grid_rows(rng, nrows):
    """declination rows (index j: Dec = j/4 - 90) of the quarter-degree grid: poles, equator, seeded others"""
    rows = [0, 720, 360] + rng.sample([j for j in range(1, 720) if j != 360], nrows - 3)
    return sorted(rows)


def self_records(rng, geo, nrows, gc_rows_per_batch):
    """dense sweeps over the quarter-degree grid of centres: cap_distance / is_in_cap of the centre and of its
    antipode (both conventions), gcirc of the point itself and of its antipode (three conventions)"""
    recs, info = [], []
    cases = geo['capself']                        # (theta10, rel, sgn, conv) -> what TLC specifies
    combos = sorted({(t, sg) for (t, _, sg, _) in cases})
    ra_all = np.arange(1440) / 4.0
    nb = 0
    for j in grid_rows(rng, nrows):
        dec_row = np.full(1440, j / 4.0 - 90.0)
        for lo in range(0, 2880, 72):
            if lo < 1440:
                ra, dec = ra_all[lo:lo + 72], dec_row[lo:lo + 72]
            else:           # as many centres off the grid (seeded random positions on the sphere)
                ra = np.array([rng.uniform(0, 360) for _ in range(72)])
                dec = np.array([math.degrees(math.asin(rng.uniform(-1, 1))) for _ in range(72)])
            t, sg = combos[nb % len(combos)]
            nb += 1
            for conv in ('radec', 'vector'):
                for rel in ('coincident', 'antipode', 'antipode-negated'):
                    e = cases.get((t, rel, sg, conv))
                    if e is None:
                        continue
                    d, ins = cap_self_eval(e['cmhalves'] / 2.0, rel, conv, ra, dec)
                    nan = np.isnan(d)
                    disc = max([ndeg(x - e['dist10'] / 10.0) for x in d[~nan]] or [0])
                    recs.append({'kind': 'self', 'fn': 'cap_distance', 'conv': conv, 'rel': rel, 'scale': 0, 'n': len(ra), 'nnan': int(nan.sum()),
                                 'disc': disc, 'wrong': int((ins != e['inside']).sum())})
                    k = int(np.argmax(nan)) if nan.any() else int(np.argmax(np.abs(d - e['dist10'] / 10.0)))
                    info.append({'probe': 'self-cap', 'theta10': t, 'sgn': sg, 'conv': conv, 'rel': rel, 'ra': ra.tolist(),
                                 'dec': dec.tolist(), 'worst': [float(ra[k]), float(dec[k]), float(d[k])]})
    sep = {rel: e['sep10'] / 10.0 for (_, rel, _, _), e in cases.items()}
    for j0 in range(0, 721, gc_rows_per_batch):
        js = np.arange(j0, min(721, j0 + gc_rows_per_batch))
        ra = np.tile(ra_all, len(js))
        dec = np.repeat(js / 4.0 - 90.0, 1440)
        for rel in ('coincident', 'antipode'):
            ra2, dec2 = (ra, dec) if rel == 'coincident' else ((ra + 180.0) % 360.0, -dec)
            for u in UNITS:
                if u == 2:
                    a = (ra, dec, ra2, dec2)
                elif u == 1:
                    a = (ra / 15.0, dec, ra2 / 15.0, dec2)
                else:
                    a = tuple(np.deg2rad(v) for v in (ra, dec, ra2, dec2))
                g = np.asarray(call_gcirc(a[0], a[1], a[2], a[3], u), dtype=float)
                gd = g * (float(R2D) if u == 0 else 1 / 3600.0)
                nan = np.isnan(gd)
                dv = np.abs(gd - sep[rel])
                worst = int(np.argmax(nan)) if nan.any() else int(np.argmax(dv))
                recs.append({'kind': 'self', 'fn': 'gcirc', 'conv': 'u%d' % u, 'rel': rel, 'scale': 0, 'n': len(ra), 'nnan': int(nan.sum()),
                             'disc': ndeg(np.max(dv[~nan])) if (~nan).any() else 0, 'wrong': 0})
                info.append({'probe': 'self-gcirc', 'units': u, 'rel': rel, 'rows': [int(js[0]), int(js[-1])],
                             'worst': [float(a[0][worst]), float(a[1][worst]), float(a[2][worst]), float(a[3][worst]), float(g[worst])]})
    return recs, info


NEAR_SCALES = [1, 100, 1000, 10000, 100000, 1000000]       # units of 1e-12 deg (SkyGeom.tla NearScales)


def near_partner(nrng, ra, dec, rel, scale, direction):
    """the same points / their exact antipodes with uniform offsets of at most scale * 1e-12 deg in RA, Dec or both"""
    n = len(ra)
    s = scale * 1e-12
    dra = nrng.uniform(-s, s, n) if direction in ('ra', 'both') else 0.0
    ddec = nrng.uniform(-s, s, n) if direction in ('dec', 'both') else 0.0
    if rel == 'near-coincident':
        return ra + dra, np.clip(dec + ddec, -90.0, 90.0)
    return (ra + 180.0) % 360.0 + dra, np.clip(-dec + ddec, -90.0, 90.0)


def near_centres(nrng, n):
    """half on the quarter-degree grid, half anywhere on the sphere"""
    h = n // 2
    ra = np.concatenate([nrng.integers(0, 1440, h) / 4.0, nrng.uniform(0.0, 360.0, n - h)])
    dec = np.concatenate([nrng.integers(0, 721, h) / 4.0 - 90.0, np.degrees(np.arcsin(nrng.uniform(-1.0, 1.0, n - h)))])
    return ra, dec


def near_gcirc_probe(seed, units, rel, scale, direction, n):
    """one batch of n nearly coincident / nearly antipodal pairs through gcirc; reproducible from its arguments"""
    nrng = np.random.default_rng([seed, units, NEAR_SCALES.index(scale), ['ra', 'dec', 'both'].index(direction), rel == 'near-antipode'])
    ra, dec = near_centres(nrng, n)
    ra2, dec2 = near_partner(nrng, ra, dec, rel, scale, direction)
    if units == 2:
        a = (ra, dec, ra2, dec2)
    elif units == 1:
        a = (ra / 15.0, dec, ra2 / 15.0, dec2)
    else:
        a = tuple(np.deg2rad(v) for v in (ra, dec, ra2, dec2))
    g = np.asarray(call_gcirc(a[0], a[1], a[2], a[3], units), dtype=float)
    gd = g * (float(R2D) if units == 0 else 1 / 3600.0)
    nan = np.isnan(gd)
    want = 0.0 if rel == 'near-coincident' else 180.0
    half = float(HALF_OUT[units])
    out = ~nan & ((g < 0) | (g > half * (1 + 1e-9)))
    dv = np.abs(gd - want)
    rec = {'kind': 'self', 'fn': 'gcirc', 'conv': 'u%d' % units, 'rel': rel, 'scale': scale, 'n': n, 'nnan': int(nan.sum()),
           'disc': ndeg(np.max(dv[~nan])) if (~nan).any() else 0, 'wrong': int(out.sum())}
    k = int(np.argmax(nan)) if nan.any() else int(np.argmax(out)) if out.any() else int(np.argmax(dv))
    return rec, [float(v[k]) for v in a] + [float(g[k])]


def near_cap_probe(seed, block, conv, rel, scale, cases, ncentres, npart):
    """ncentres caps (theta / sign rotating), each asked for npart * 3 partners near its centre / its antipode"""
    from pydl.pydlutils.mangle import cap_distance, is_in_cap
    nrng = np.random.default_rng([seed, block, conv == 'vector', NEAR_SCALES.index(scale), rel == 'near-antipode'])
    ra, dec = near_centres(nrng, ncentres)
    xs = a2x(np.stack([ra, dec], 1), True)
    combos = sorted({(t, sg) for (t, _, sg, _) in cases})
    base = 'coincident' if rel == 'near-coincident' else 'antipode'
    nnan = wrong = n = 0
    disc = 0.0
    worst = None
    with np.errstate(all='ignore'):
        for j in range(ncentres):
            t, sg = combos[(block + j) % len(combos)]
            e = cases[(t, base, sg, conv)]
            pr, pd = [], []
            for direction in ('ra', 'dec', 'both'):
                a, b = near_partner(nrng, np.full(npart, ra[j]), np.full(npart, dec[j]), rel, scale, direction)
                pr.append(a)
                pd.append(b)
            ang = np.stack([np.concatenate(pr), np.concatenate(pd)], 1)
            pts = ang if conv == 'radec' else a2x(ang, True)
            cm = e['cmhalves'] / 2.0
            d = cap_distance(xs[j], cm, pts)
            ins = is_in_cap(xs[j], cm, pts)
            nan = np.isnan(d)
            n += len(d)
            nnan += int(nan.sum())
            wrong += int((np.asarray(ins, dtype=bool) != e['inside']).sum())
            if (~nan).any():
                disc = max(disc, float(np.max(np.abs(d[~nan] - e['dist10'] / 10.0))))
            if nan.any() and worst is None:
                k = int(np.argmax(nan))
                worst = {'centre': [float(ra[j]), float(dec[j])], 'cm': cm, 'point_radec': [float(ang[k, 0]), float(ang[k, 1])]}
    rec = {'kind': 'self', 'fn': 'cap_distance', 'conv': conv, 'rel': rel, 'scale': scale, 'n': n, 'nnan': nnan, 'disc': ndeg(disc),
           'wrong': wrong}
    return rec, worst


def near_records(seed, cases, gc_n, cap_blocks, quick):
    recs, info = [], []
    for units in UNITS:
        for rel in ('near-coincident', 'near-antipode'):
            for scale in NEAR_SCALES:
                for direction in ('ra', 'dec', 'both'):
                    n = gc_n if rel == 'near-antipode' else gc_n // 2
                    rec, worst = near_gcirc_probe(seed, units, rel, scale, direction, n)
                    recs.append(rec)
                    info.append({'probe': 'near-gcirc', 'seed': seed, 'units': units, 'rel': rel, 'scale': scale, 'dir': direction, 'n': n,
                                 'worst_call': worst})
    for block in range(cap_blocks):
        for conv in ('radec', 'vector'):
            for rel in ('near-coincident', 'near-antipode'):
                for scale in NEAR_SCALES:
                    rec, worst = near_cap_probe(seed, block, conv, rel, scale, cases, 8 if quick else 12, 130 if quick else 100)
                    recs.append(rec)
                    info.append({'probe': 'near-cap', 'seed': seed, 'block': block, 'conv': conv, 'rel': rel, 'scale': scale,
                                 'quick': quick, 'worst': worst or {}})
    return recs, info


def judge(ctx, recs, minper, label):
    """Hand the records to Trace_SkyGeom.  Returns {i: (ok, why, trig, dev)}; i = 0 is the non-vacuity verdict."""
    import os
    path = os.path.join(ctx.scratch, 'trace_skygeom_%s.json' % label)
    core.write_json(path, recs)
    r = ctx.tlc('Trace_SkyGeom.tla', 'Trace_SkyGeom.cfg', dump=True, count=False, label='Trace_SkyGeom[%s:%d]' % (label, len(recs)),
                env={'VERIF_TRACE': path, 'VERIF_MINPER': str(minper)}, timeout=1500)
    out = {}
    for st in core.iter_states(r):
        out[st['i']] = (bool(st['ok']), st['why'], sorted(st['trig']), st['dev'])
    if len(out) != len(recs) + 1:
        raise core.MachineryError('Trace_SkyGeom judged %d of %d records' % (len(out) - 1, len(recs)))
    os.remove(path)
    return out


def gc_what(p, cv, res, j, why, single=False):
    u = {'rad': 0, 'hour': 1, 'deg': 2}[p['native']]
    a = cv[0][u]
    return ('gcirc(%r, %r, %r, %r, units=%d)%s = %r rejected by Trace_SkyGeom: %s  [%s pair]' %
            (a[0], a[1], a[2], a[3], u, ' [coordinates as float32 arrays]' if single else '', float(res[u][j]), why.strip(), p['tag']))


EXPLANATION = (
    'Floating-point trigonometry cannot be model-checked. TLC (a) checks the laws of the statement on the exact part of '
    'SkyGeom.tla (stripe table; exact anchors of the rotation; exact-separation families in dyadic arithmetic; exact axis '
    'images) and produces every expected value replayed into pydl; (b) judges every recorded probe: which laws it triggers, '
    'the tolerance that applies, whether it holds, and the minimum instance counts per law and class. The judgements that are '
    "the harness's: comparing a float with TLC's exact rational to the relative tolerance TLC states; the independent distance "
    'oracle (unit vectors in numpy longdouble, atan2(|a x b|, a.b), cross-checked against the chord formula; own error <= 1e-7 '
    'relative at 1 micro-arcsecond); measuring angular discrepancies with that oracle and rounding them up to integer '
    'ppb / nano-degrees; the class attributes of a probe (separation in uas, octaves of separation and polar distance, '
    'same-RA, across-RA-0, near-pole flags). Not demanded (IEEE doubles cannot deliver relative 1e-6 from rounded radian '
    'values there; stated in SkyGeom.tla `Resolvable`): pairs with different RA closer than 2^-5 deg to each other of which '
    'one is within 2^-18 deg of a celestial pole, and pairs closer than 2^-18 deg whose RA difference exceeds half a turn. '
    'Positions are compared to 1e-9 deg, to 1e-5 deg within 0.1 deg of a pole of the output system (arcsin / arccos).')


def run(ctx):
    ctx.level = 'other'
    ctx.explanation = EXPLANATION
    ctx.rule = ('every state of MC_SkyGeom is one case (stripe row | anchor of the rotation: stripe x direction x point | axis '
                'point of angles<->vectors | exact-distance pair x unit convention) replayed into pydl; non-trivial = distance '
                'cases with non-zero separation, anchors that move or belong to an inclined stripe; recorded probes = seeded '
                'random/adversarial calls judged law by law by Trace_SkyGeom, counted per (law, class); coordinate objects '
                '(array-valued and scalar, SkyCoord and bare frames) are reused across stripes / repeated transforms and '
                'compared with the coordinates they were built from; CallerObjectUnchanged = argument arrays bit-identical '
                'after the call; ArrayEqualsScalars = the same positions as arrays of shapes (n,), (3,5), (3,3), (2,5), (5,3), '
                '(2,3,4), (3,2,2), (1,7), (7,1) (gcirc: broadcast pairs of shapes) against one-at-a-time calls, counted per shape class; '
                'self records = batches of centres of the quarter-degree grid: the point itself and its antipode ((RA+180, -Dec) and the '
                'negated vector) through cap_distance / is_in_cap (RA,Dec and unit-vector points) and gcirc (three conventions); '
                'every exact-distance case is also called with float32 / longdouble coordinates where TLC admits them (all four arguments '
                'and per-argument subsets), every recorded pair also rounded to single precision and handed over as float32 arrays; every '
                'anchor group and every recorded batch of every stripe is also handed over in a coordinate object that carries distances '
                '(below, at and above 1 pc)')
    ctx.assumptions = [
        'IEEE-754 doubles; numpy longdouble is the x87 80-bit format (64-bit mantissa) - checked at start',
        'exact families use coordinates b/8 + m/2^k that are exactly representable, so the separation TLC computes is the '
        'separation of the floats handed to gcirc',
        'relative 1e-6 is not demanded in the two unresolvable corners named in the explanation',
        'abstraction: discrepancies rounded up to integer ppb / nano-degrees, capped at 2e9',
        'integer-typed arguments (int8..uint64 arrays and numpy scalars, Python ints) are in the domain wherever the values are '
        'integral: "all point pairs / all angle arrays" does not restrict the numeric type; TLC decides which forms a case admits',
        'observation only, outside the statement: x_to_angles divides z by the SQUARED norm (points**2).sum(1), so for non-unit '
        'vectors the polar angle is wrong ([1,2,2] gives 77.16 instead of 48.19 deg); the statement is about angles <-> UNIT '
        'vectors, for which r = r^2 = 1, so only (rounded) unit vectors are submitted and nothing is demanded of non-unit ones',
        '"the distance is never NaN, also for coincident and antipodal points" is read to cover mangle.cap_distance (the distance '
        'computed from the angles <-> unit-vector conversions of the same sentence) and is_in_cap through it, as well as gcirc',
        'stripe_to_eta / stripe_to_incl are given scalar stripes only (the unchanged code does not take arrays; not in the statement)',
        'single-precision (float32) coordinates are in the domain of gcirc ("all point pairs" does not restrict the type); a single-'
        'precision input cannot demand more than single precision: NaN-freedom, zero on the diagonal, symmetry (1e-3) and the range '
        '(+ 240 ppb) everywhere, the value to 1e-4 for separations of 1..179 deg (SkyGeom.tla SingleDemand); float16 is not submitted '
        '(648000 arcsec is not a float16 number); longdouble coordinates are held to the double-precision demands',
        'a coordinate object that also carries a DISTANCE is a sky position like any other: its image is the image of its direction '
        '(SkyGeom.tla 2b); whether the result keeps the distance is left open, only directions are compared. Observation only: a '
        'frame whose representation_type is cartesian is refused by the unchanged code (AttributeError: no attribute ra) - not submitted']
    if np.finfo(L).nmant < 63:
        raise core.MachineryError('numpy longdouble has only %d mantissa bits' % np.finfo(L).nmant)
    cfg = 'MC_SkyGeom_quick.cfg' if ctx.quick else 'MC_SkyGeom_thorough.cfg'
    r = ctx.tlc('MC_SkyGeom.tla', cfg, dump=True, timeout=1500)
    cases = [(st['c'], st['exp']) for st in core.iter_states(r)]
    geo = {}
    replay_cases(ctx, cases, geo)
    for key in ('pole_eq', 'e1', 'e2', 'incl10'):
        if sorted(geo.get(key, {})) != list(range(91)):
            raise core.MachineryError('dump lacks the %s anchors of some stripe' % key)

    # ---- code -> spec ------------------------------------------------------------------------------
    rng = random.Random(ctx.seed)
    pairs = gen_pairs(rng, 70 if ctx.quick else 1200, 40 if ctx.quick else 600)
    grecs, conv, res, gunch = gc_records(pairs, 4 if ctx.quick else 20)
    # the same pairs rounded to single precision and handed over as float32 arrays
    spairs = single_pairs(pairs)
    sgrecs, sconv, sres, sunch = gc_records(spairs, 4 if ctx.quick else 20, single=True)
    npair = len(pairs)
    pairs, grecs, conv, gunch = pairs + spairs, grecs + sgrecs, conv + sconv, gunch + sunch
    srecs = stripe_records()
    mrecs, minfo = munu_records(rng, geo, 6 if ctx.quick else 50)
    vrecs, vinfo = vec_records(rng, 40 if ctx.quick else 600, 3 if ctx.quick else 26)
    urecs, uinfo = reuse_records(rng, 5 if ctx.quick else 12, 3 if ctx.quick else 4)
    mrecs, minfo = mrecs + urecs + gunch, minfo + uinfo + [{'probe': 'unchanged-input', 'fn': 'gcirc'} for _ in gunch]
    shrecs, shinfo = shape_records(rng, sorted(rng.sample(range(91), 12)) if ctx.quick else list(range(91)),
                                   2 if ctx.quick else 18, 5 if ctx.quick else 50)
    mrecs, minfo = mrecs + shrecs, minfo + shinfo
    frecs, finfo = form_records(rng, 6 if ctx.quick else 52, sorted(rng.sample(range(91), 12)) if ctx.quick else list(range(91)))
    mrecs, minfo = mrecs + frecs, minfo + finfo
    selfrecs, selfinfo = self_records(rng, geo, 10 if ctx.quick else 100, 8 if ctx.quick else 1)
    mrecs, minfo = mrecs + selfrecs, minfo + selfinfo
    nrecs, ninfo = near_records(ctx.seed, geo['capself'], 100000 if ctx.quick else 1000000, 10 if ctx.quick else 100, ctx.quick)
    mrecs, minfo = mrecs + nrecs, minfo + ninfo
    recs = grecs + srecs + mrecs + vrecs
    verdict = judge(ctx, recs, 10 if ctx.quick else 100, ctx.tier)
    ok0, why0, _, _ = verdict[0]
    if not ok0:
        raise core.MachineryError('recorded history too thin for: ' + why0)
    tally = {}
    for i in range(1, len(recs) + 1):
        ok, why, trig, dev = verdict[i]
        rec = recs[i - 1]
        for law in trig:
            tally[law] = tally.get(law, 0) + 1
        ctx.validated()
        if i <= len(grecs):
            p = pairs[i - 1]
            ctx.nontriv(('gc', p['tag'], rec['uas'], rec['sepdeg'], i))
            if not ok:
                rr, jj = (res, i - 1) if i <= npair else (sres, i - 1 - npair)
                report(ctx, {'what': gc_what(p, conv[i - 1], rr, jj, why, rec['single']), 'record': rec, 'pair': p,
                             'conventions': {str(u): list(conv[i - 1][0][u]) for u in UNITS}}, dev)
        elif i <= len(grecs) + len(srecs):
            ctx.nontriv(('stripe', rec['stripe']))
            if not ok:
                ctx.violation({'what': 'stripe table row rejected by Trace_SkyGeom (%s): %s' % (why.strip(), rec), 'record': rec})
        elif i <= len(grecs) + len(srecs) + len(mrecs):
            inf = minfo[i - 1 - len(grecs) - len(srecs)]
            ctx.nontriv((rec['kind'], rec.get('stripe', rec.get('fn')), i))
            if not ok:
                ctx.violation({'what': 'probe rejected by Trace_SkyGeom (%s): %s record=%s' % (why.strip(), inf, rec),
                               'record': rec, 'probe': inf}, finding=dev or None)
        else:
            inf = vinfo[i - 1 - len(grecs) - len(srecs) - len(mrecs)]
            ctx.nontriv(('vec', rec.get('dir', rec.get('fn')), rec.get('latitude'), i))
            if not ok:
                ctx.violation({'what': 'angles<->vectors probe rejected by Trace_SkyGeom (%s): %s %s' % (why.strip(), inf, rec),
                               'record': rec, 'probe': inf})
    for law, cnt in sorted(tally.items()):
        ctx.evaluated(cnt, 'law-' + law)
    flush_pending(ctx)
    ctx.sample({'law_instances_judged_by_TLC': tally})
    ctx.sample({'recorded_gcirc_probe': grecs[0], 'pair': pairs[0]})
    ctx.sample({'recorded_munu_probe': mrecs[0], 'inputs': minfo[0]})
    # ---- binding self-test: accepted records with ONE observed field falsified must all be rejected -------------
    accepted = [k for k in range(len(recs)) if verdict[k + 1][0]]
    step = max(1, len(accepted) // (220 if ctx.quick else 300))
    by_kind = {}
    for k in accepted:
        by_kind.setdefault(recs[k]['kind'], []).append(k)
    chosen = accepted[::step] + [ks[j] for ks in by_kind.values() for j in range(min(8, len(ks)))]
    fals = [falsify(recs[k], n) for n, k in enumerate(chosen)]
    core.binding_selftest(ctx, 'Trace_SkyGeom', fals, 'recorded_probes', extra_env={'VERIF_NOCOUNTS': '1', 'VERIF_MINPER': '0'})
    ctx.exhaustive = False


def replay(ctx, case):
    """bin/check C18 --replay <file>: re-execute the single failing case / probe of a replay file."""
    ctx.level = 'other'
    ctx.explanation = EXPLANATION
    ctx.rule = 'single replayed case'
    ctx.nontriv('a')
    ctx.nontriv('b')
    ctx.evaluated(1)
    if 'case' in case:
        c, exp = case['case'], case['expected']
        if c['kind'] == 'anchor':
            sh = (case.get('observed') or {}).get('shape')
            forms = [None, 'scalar'] + ([tuple(sh)] if isinstance(sh, list) else list(ANCHOR_SHAPES[:3]))
            forms += [('int', f, 'pyint' if k % 2 else f, m) for k, f in enumerate(NP_FORMS) if f in exp.get('forms', ())
                      for m in ('all', 'lon', 'lat')]
            forms += [('dist', (d8,), w) for d8 in sorted(exp.get('carriers', ())) if d8 for w in ('skycoord', 'frame')]
            good, obs, dev = True, None, None
            for f in forms:
                g, o, dv = replay_anchor_group(c['stripe'], c['dir'], [(c, exp)], None, f)[0]
                print('handed over as', o.get('handed_over_as'), '->', 'ok' if g else o)
                if obs is None or (good and not g):
                    obs, dev = o, dv
                good = good and g
        elif c['kind'] == 'stripe':
            good, obs, dev = replay_stripe(c, exp)
        elif c['kind'] == 'vecanchor':
            exp = dict(exp, angles=list(exp['angles']), x=list(exp['x']))
            good, obs, dev = replay_vecanchor(c, exp)
        else:
            good, obs, dev = True, None, None
            for n in range(max(8, len(exp.get('forms', ())))):          # every integer form, every float mix as scalars and arrays
                g, o, dv = replay_dist(c, exp, n)
                if obs is None or (good and not g):
                    obs, dev = o, dv
                good = good and g
        print('replayed case:', c, '\nspecified:', exp, '\nobserved:', obs)
        if not good:
            ctx.violation(case, finding=dev)
        return
    if 'pair' in case:
        single = bool((case.get('record') or {}).get('single'))
        recs, conv, res, _ = gc_records([case['pair']], single=single)
        what = lambda why: gc_what(case['pair'], conv[0], res, 0, why, single)
    else:
        inf = case['probe']
        recs = [_reprobe(inf, case['record'])]
        what = lambda why: 'probe %s rejected: %s %s' % (inf, why, recs[0])
    v = judge(ctx, recs, 0, 'replay')
    ok, why, trig, dev = v[1]
    print('replayed probe record:', recs[0], '\nlaws triggered:', trig, '\nverdict:', 'ok' if ok else why)
    if not ok:
        ctx.violation(dict(case, what=what(why)), finding=dev or None)


def _reprobe(inf, old):
    """re-run one SDSSMuNu / angles<->vectors / caller-object probe from its recorded inputs"""
    k = inf['probe']
    rec = dict(old)
    if k in ('reuse-icrs', 'reuse-munu'):
        gen = (icrs_sequence(inf['which'], inf['ra'], inf['dec'], inf['seq']) if k == 'reuse-icrs' else
               munu_sequence(inf['which'], inf['stripe'], inf['mu'], inf['nu'], inf['times']))
        last = None
        for r, _ in gen:          # the whole history of the object; the last record of the same sort is the probe
            if r['kind'] == old['kind'] and r.get('fn') == old.get('fn'):
                last = r
        return last
    if k == 'form':
        return form_probe(dict(inf))
    if k == 'near-gcirc':
        return near_gcirc_probe(inf['seed'], inf['units'], inf['rel'], inf['scale'], inf['dir'], inf['n'])[0]
    if k == 'near-cap':
        cases = {}
        for t, h in ((600, 1), (900, 2), (1200, 3)):
            for sg in (-1, 1):
                for cv in ('radec', 'vector'):
                    for base, sep in (('coincident', 0), ('antipode', 1800)):
                        d10 = sg * (t - sep)
                        cases[(t, base, sg, cv)] = {'cmhalves': sg * h, 'dist10': d10, 'inside': d10 >= 0}
        return near_cap_probe(inf['seed'], inf['block'], inf['conv'], inf['rel'], inf['scale'], cases,
                              8 if inf['quick'] else 12, 130 if inf['quick'] else 100)[0]
    if k == 'self-cap':
        from fractions import Fraction as F
        cm = inf['sgn'] * {600: 1, 900: 2, 1200: 3}[inf['theta10']] / 2.0
        d, ins = cap_self_eval(cm, inf['rel'], inf['conv'], inf['ra'], inf['dec'])
        want = inf['sgn'] * (inf['theta10'] / 10.0 - (0.0 if inf['rel'] == 'coincident' else 180.0))
        nan = np.isnan(d)
        rec.update(nnan=int(nan.sum()), disc=max([ndeg(x - want) for x in d[~nan]] or [0]), wrong=int((ins != (want >= 0)).sum()))
        return rec
    if k == 'self-gcirc':
        w = inf['worst']
        g = float(call_gcirc(np.array([w[0]]), np.array([w[1]]), np.array([w[2]]), np.array([w[3]]), inf['units'])[0])
        gd = g * (float(R2D) if inf['units'] == 0 else 1 / 3600.0)
        want = 0.0 if inf['rel'] == 'coincident' else 180.0
        rec.update(n=1440, nnan=int(gd != gd), disc=0 if gd != gd else ndeg(gd - want))
        return rec
    if k == 'shape-transform':
        return transform_shape_probe(inf['fn'], inf['stripe'], inf['which'], tuple(inf['shape']), inf['lon'], inf['lat'])[0]
    if k == 'shape-gcirc':
        return gcirc_shape_probe(inf['units'], inf['s1'], inf['s2'], inf['args'])[0]
    if k == 'shape-angles':
        return angles_shape_probe(inf['fn'], inf['latitude'], inf['arr'])[0]
    if k == 'unchanged-input':
        # a representative call of the function with an array argument that is inspected afterwards
        a = np.array([[10.0, 20.0], [200.0, 100.0], [359.0, 179.0]])
        before = a.tobytes()
        if inf['fn'] == 'gcirc':
            call_gcirc(a[:, 0], a[:, 1] - 90.0, a[:, 0] + 1.0, a[:, 1] - 90.0, 2)
        elif inf['fn'] == 'angles_to_x':
            a2x(a, False)
        else:
            a = a2x(a, False)
            before = a.tobytes()
            x2a(a, False)
        rec.update(same=a.tobytes() == before)
        return rec
    dist = [inf['dist_pc']] if isinstance(inf.get('dist_pc'), float) and inf['dist_pc'] else None
    if k == 'rt-icrs':
        mu, nu = to_munu(inf['stripe'], [inf['ra']], [inf['dec']], dist)
        ra, dec = to_icrs(inf['stripe'], mu, nu)
        isnan = bool(np.isnan([mu[0], nu[0], ra[0], dec[0]]).any())
        rec.update(nan=isnan, disc=CAP if isnan else ndeg(deg_sep(inf['ra'], inf['dec'], ra[0], dec[0])[()]))
    elif k == 'rt-munu':
        ra, dec = to_icrs(inf['stripe'], [inf['mu']], [inf['nu']], dist)
        mu, nu = to_munu(inf['stripe'], ra, dec, dist)
        isnan = bool(np.isnan([mu[0], nu[0], ra[0], dec[0]]).any())
        rec.update(nan=isnan, disc=CAP if isnan else ndeg(deg_sep(inf['mu'], inf['nu'], mu[0], nu[0])[()]))
    elif k == 'iso':
        dd = inf.get('dist_pc')
        mu, nu = to_munu(inf['stripe'], [inf['p'][0], inf['q'][0]], [inf['p'][1], inf['q'][1]], dd if dd and all(dd) else None)
        isnan = bool(np.isnan([mu, nu]).any())
        d = deg_sep(inf['p'][0], inf['p'][1], inf['q'][0], inf['q'][1])[()] - deg_sep(mu[0], nu[0], mu[1], nu[1])[()]
        rec.update(nan=isnan, disc=CAP if isnan else ndeg(d))
    elif k == 'nu0-fwd':
        ra, dec = to_icrs(inf['stripe'], [inf['mu']], [0.0])
        isnan = bool(np.isnan([ra[0], dec[0]]).any())
        off = L(90) - deg_sep(ra[0], dec[0], inf['circle_pole'][0], inf['circle_pole'][1])[()]
        rec.update(nan=isnan, disc=CAP if isnan else ndeg(off))
    elif k == 'nu0-inv':
        mu, nu = to_munu(inf['stripe'], [inf['ra']], [inf['dec']], dist)
        isnan = bool(np.isnan([mu[0], nu[0]]).any())
        rec.update(nan=isnan, disc=CAP if isnan else ndeg(nu[0]))
    elif k == 'a2x2a':
        lat = inf['latitude']
        a = np.array([inf['angles']])
        b = x2a(a2x(a, lat), lat)
        isnan = bool(np.isnan(b).any())
        f = (lambda t: t) if lat else (lambda t: 90.0 - t)
        rec.update(nan=isnan, disc=CAP if isnan else ndeg(deg_sep(a[0, 0], f(a[0, 1]), b[0, 0], f(b[0, 1]))[()]))
    elif k == 'x2a2x':
        lat = inf['latitude']
        v = np.array([inf['x']])
        w = a2x(x2a(v, lat), lat)
        isnan = bool(np.isnan(w).any())
        rec.update(nan=isnan, disc=CAP if isnan else ndeg(o_sep(np.asarray(w[0], dtype=L), np.asarray(v[0], dtype=L)) * R2D))
    return rec
