"""X02 - small utilities: find_contiguous, cirrange, hogg_iau_name, djs_laxisgen/djs_laxisnum, struct_print,
file_lines, djs_median (whole-array / axis forms), read_ds_cooling.

Spec: spec/MiscUtils.tla (statements S1..S8 in its header); MC: mc/MC_MiscUtils; Trace: trace/Trace_MiscUtils.

spec -> code: every state of MC_MiscUtils is one call c with the outcome exp the specification demands; the call is
concretised (rationals -> floats, character sequences -> str / files, column descriptions -> record arrays), executed
on the real function and the abstracted result compared with exp.
code -> spec: seeded random / adversarial calls are executed first, recorded (arguments + abstracted result) and judged
by TLC with the same operators (Trace_MiscUtils).
Python only concretises and abstracts; every expected value is TLC's.
"""
import gzip
import io
import math
import os
import random
import re
from fractions import Fraction

import numpy as np

from .. import core

TWO_PI = 2.0 * math.pi
FINDINGS = {
    'D-X02-1': 'djs_laxisgen/djs_laxisnum accept iaxis >= 1 for a 1-D shape (documented: ValueError)',
    'D-X02-2': 'cirrange returns the period itself (360.0 / 2pi) for a tiny negative angle (documented: less than 360)',
    'D-X02-3': 'hogg_iau_name prints the right-ascension cell below when the coordinate is exactly on a last-digit boundary',
    'D-X02-4': 'struct_print(html=True, no_head=True) still prints the header row',
}


def J(v):
    """TLC value (as parsed by tlaval) -> JSON-able."""
    if isinstance(v, (tuple, list)):
        return [J(x) for x in v]
    if isinstance(v, (set, frozenset)):
        return sorted((J(x) for x in v), key=repr)
    if isinstance(v, dict):
        return {str(k): J(x) for k, x in v.items()}
    return v


def outcome(fn):
    try:
        return {'err': False, 'exc': '', 'r': fn()}
    except Exception as ex:  # the kind of exception is part of the observation
        return {'err': True, 'exc': 'ValueError' if isinstance(ex, ValueError) else type(ex).__name__,
                'msg': '%s: %s' % (type(ex).__name__, str(ex)[:100]), 'r': None}


def text(pieces):
    return ''.join(pieces)


# ---------------------------------------------------------------------------------------------------
# concretise + execute + abstract, one function per specified routine.  c is the call as TLC prints it.
# ---------------------------------------------------------------------------------------------------
def run_contig(c, env):
    from pydl.pydlutils.math import find_contiguous
    x = [int(v) for v in c['x']]
    as_bool = bool(x) and all(v in (0, 1) for v in x) and (sum(x) + len(x)) % 2 == 1
    o = outcome(lambda: find_contiguous(np.array(x, dtype=bool if as_bool else np.int64)))
    val = None
    if not o['err'] and isinstance(o['r'], list) and all(isinstance(v, (int, np.integer)) for v in o['r']):
        val = [int(v) for v in o['r']]
    return {'err': o['err'], 'exc': o['exc'], 'val': val}


def cir_angle(c):
    kind = c['kind']
    if kind == 'deg':
        return c['x'][0] / c['x'][1], False
    if kind == 'turns':
        return (c['x'][0] / c['x'][1]) * TWO_PI, True
    return c['sign'] * math.ldexp(1.0, -c['k']), kind == 'tinyrad'


def run_cir(c, env):
    from pydl.goddard.misc import cirrange
    ang, rad = cir_angle(c)
    kw = {'radians': True} if rad else {}
    if c['form'] == 'scalar':
        o = outcome(lambda: cirrange(ang, **kw))
    else:
        def go():
            r = np.asarray(cirrange(np.array([0.0, ang]), **kw))
            if r.shape != (2,):
                raise core.MachineryError('cirrange(array) returned shape %r' % (r.shape,))
            return r[1]
        o = outcome(go)
    if o['err']:
        return {'err': True, 'exc': o['exc'], 'inrange': False, 'isperiod': False, 'close': False, 'val': [0, 1], 'r': None}
    r = float(o['r'])
    period = TWO_PI if rad else 360.0
    obs = {'err': False, 'exc': '', 'inrange': 0.0 <= r < period, 'isperiod': r == period, 'r': repr(r)}
    if c['kind'] == 'deg':
        fr = Fraction(r)
        obs['close'] = fr.denominator <= 2 ** 20 and abs(fr.numerator) < 2 ** 31
        obs['val'] = [fr.numerator, fr.denominator] if obs['close'] else [0, 1]
    else:
        d = c['x'][1] if c['kind'] == 'turns' else 1
        t = r / period
        m = round(t * d)
        obs['close'] = abs(t - m / d) < 1e-9
        fr = Fraction(m, d)
        obs['val'] = [fr.numerator, fr.denominator]
    return obs


def iau_args(c):
    ra = c['ra'][0] / c['ra'][1]
    dec = c['dec'][0] / c['dec'][1]
    prefix = text(c['prefix'])
    kw = {}
    implicit = c['ra'][0] % 2 == 0          # use the documented defaults implicitly on half of the eligible calls
    if not (prefix == 'SDSS' and implicit):
        kw['prefix'] = prefix
    if not (c['p'] == 1 and implicit):
        kw['precision'] = c['p']
    return ra, dec, kw


def run_iau(c, env):
    from pydl.pydlutils.misc import hogg_iau_name
    ra, dec, kw = iau_args(c)
    form = c['form']
    if form == 'scalar':
        o = outcome(lambda: hogg_iau_name(ra, dec, **kw))
        ok = isinstance(o['r'], str)
        val = o['r'] if ok else None
    elif form == 'vector':
        o = outcome(lambda: hogg_iau_name(np.array([ra, 10.5, 200.25]), np.array([dec, -3.5, 45.125]), **kw))
        ok = isinstance(o['r'], list) and len(o['r']) == 3 and all(isinstance(s, str) for s in o['r'])
        val = o['r'][0] if ok else None
    else:   # one-element arrays: the docstring allows a str or a list
        o = outcome(lambda: hogg_iau_name(np.array([ra]), np.array([dec]), **kw))
        r = o['r']
        ok = isinstance(r, str) or (isinstance(r, list) and len(r) == 1 and isinstance(r[0], str))
        val = (r if isinstance(r, str) else r[0]) if ok else None
    return {'err': o['err'], 'exc': o['exc'], 'val': val, 'type_ok': bool(ok)}


def run_laxis(c, env):
    from pydl.pydlutils import misc
    f = misc.djs_laxisgen if c['fn'] == 'laxisgen' else misc.djs_laxisnum
    dims = [int(v) for v in c['dims']]
    arg = tuple(dims) if sum(dims) % 2 else dims
    if c['iaxis'] == 0 and len(dims) % 2:
        o = outcome(lambda: f(arg))                 # documented default iaxis=0
    else:
        o = outcome(lambda: f(arg, c['iaxis']) if sum(dims) % 3 else f(arg, iaxis=c['iaxis']))
    if o['err']:
        return {'err': True, 'exc': o['exc'], 'shape': [], 'val': [], 'dtype': ''}
    r = o['r']
    if not isinstance(r, np.ndarray):
        return {'err': False, 'exc': '', 'shape': [], 'val': [], 'dtype': 'not an ndarray: ' + type(r).__name__}
    return {'err': False, 'exc': '', 'shape': [int(v) for v in r.shape], 'val': [int(v) for v in r.ravel(order='C')],
            'dtype': str(r.dtype)}


_CELL = re.compile(r'<(t[dh])>\s*(.*?)\s*</t[dh]>')


def html_norm(line):
    """html: blanks around a cell's text are insignificant."""
    return _CELL.sub(lambda m: '<%s>%s</%s>' % (m.group(1), m.group(2), m.group(1)), line)


def build_table(cols):
    dt = []
    for col in cols:
        name = text(col['name'])
        kind = col['kind']
        if kind == 'i':
            big = max(abs(int(v)) for v in col['vals']) >= 2 ** 15
            dt.append((name, 'i4' if big or len(name) % 2 else 'i2'))
        elif kind == 's':
            dt.append((name, 'S%d' % col['slen']))
        else:
            dt.append((name, kind))
    nrows = len(cols[0]['vals'])
    rows = []
    for r in range(nrows):
        row = []
        for col in cols:
            v = col['vals'][r]
            if col['kind'] == 'i':
                row.append(int(v))
            elif col['kind'] == 's':
                row.append(text(v))
            else:
                row.append(int(v) / 100.0)
        rows.append(tuple(row))
    return np.array(rows, dtype=dt)


def run_print(c, env):
    from pydl.pydlutils.misc import struct_print
    arr = build_table(c['cols'])
    alias = {text(col['name']): text(col['alias']) for col in c['cols'] if len(col['alias'])}
    kw = {'silent': True}
    if alias:
        kw['alias'] = alias
    if c['html'] or len(c['cols']) % 2:
        kw['html'] = c['html']
    if c['nohead'] or len(c['cols']) % 2 == 0:
        kw['no_head'] = c['nohead']
    dest = c.get('dest', 'none')
    buf = None
    path = None
    if dest == 'bytesio':
        buf = io.BytesIO()
        kw['filename'] = buf
    elif dest == 'path':
        env['nfile'] = env.get('nfile', 0) + 1
        path = os.path.join(env['dir'], 'sp_%d.txt' % env['nfile'])
        kw['filename'] = path
    o = outcome(lambda: struct_print(arr, **kw))
    if o['err']:
        return {'err': True, 'exc': o.get('msg', o['exc']), 'lines': [], 'css': 'bad', 'hasfile': False, 'file': ''}
    r = o['r']
    if not (isinstance(r, tuple) and len(r) == 2 and isinstance(r[0], list) and isinstance(r[1], list)
            and all(isinstance(s, str) for s in r[0])):
        return {'err': True, 'exc': 'bad return type', 'lines': [], 'css': 'bad', 'hasfile': False, 'file': ''}
    lines, css = r
    if c['html']:
        lines = [html_norm(s) for s in lines]
    cssk = 'none' if css == [] else ('style' if css[0] == '<style type="text/css">' and css[-1] == '</style>' else 'bad')
    obs = {'err': False, 'exc': '', 'lines': lines, 'css': cssk, 'hasfile': dest != 'none', 'file': ''}
    if dest != 'none':
        if buf is not None:
            data = buf.getvalue()
        else:
            with open(path, 'rb') as fh:
                data = fh.read()
            os.remove(path)
        s = data.decode('utf-8')
        if c['html']:
            s = ''.join(html_norm(x) + '\n' for x in s.split('\n')[:-1]) + s.split('\n')[-1]
        obs['file'] = s
    return obs


def run_lines(c, env):
    from pydl import file_lines
    paths = []
    for t in c['texts']:
        env['nfile'] = env.get('nfile', 0) + 1
        p = os.path.join(env['dir'], 'fl_%d.txt%s' % (env['nfile'], '.gz' if c['compress'] else ''))
        data = text(t).encode('ascii')
        if c['compress']:
            with gzip.open(p, 'wb') as fh:
                fh.write(data)
        else:
            with open(p, 'wb') as fh:
                fh.write(data)
        paths.append(p)
    arg = paths[0] if c['scalar'] else paths
    if c['compress'] or len(paths) % 2:
        o = outcome(lambda: file_lines(arg, compress=c['compress']))
    else:
        o = outcome(lambda: file_lines(arg))
    for p in paths:
        os.remove(p)
    if o['err']:
        return {'err': True, 'exc': o.get('msg', o['exc']), 'val': [], 'islist': False}
    r = o['r']
    if isinstance(r, (int, np.integer)) and not isinstance(r, bool):
        return {'err': False, 'exc': '', 'val': [int(r)], 'islist': False}
    if isinstance(r, list) and all(isinstance(v, (int, np.integer)) for v in r):
        return {'err': False, 'exc': '', 'val': [int(v) for v in r], 'islist': True}
    return {'err': True, 'exc': 'bad return type ' + type(r).__name__, 'val': [], 'islist': False}


def run_median(c, env):
    from pydl.pydlutils.math import djs_median
    a = [int(v) for v in c['a']]
    shape = [int(v) for v in c['shape']]
    dt = np.float64 if (sum(a) + len(a)) % 2 else np.int64
    arr = np.array(a, dtype=dt).reshape(shape)
    mode = c['mode']
    if mode == 'all':
        o = outcome(lambda: djs_median(arr))
    elif mode == 'axis':
        o = outcome(lambda: djs_median(arr, dimension=c['d']) if len(a) % 2 else djs_median(arr, c['d']))
    elif mode == 'width1':
        o = outcome(lambda: djs_median(arr, width=1))
    else:
        o = outcome(lambda: djs_median(arr, dimension=0, width=3))
    if o['err']:
        return {'err': True, 'exc': o['exc'], 'shape': [], 'val': [], 'close': False}
    r = np.asarray(o['r'], dtype=np.float64)
    vals = []
    close = True
    for v in r.ravel(order='C'):
        fr = Fraction(float(v)) if math.isfinite(float(v)) else Fraction(10 ** 9)
        if fr.denominator > 2 or abs(fr.numerator) >= 2 ** 30:
            close = False
            fr = Fraction(0)
        vals.append([fr.numerator, fr.denominator])
    return {'err': False, 'exc': '', 'shape': [int(v) for v in r.shape], 'val': vals, 'close': close}


def run_coolname(c, env):
    from pydl.pydlutils.cooling import read_ds_cooling
    o = outcome(lambda: read_ds_cooling(c['name']))
    ok = True
    if not o['err']:
        r = o['r']
        ok = isinstance(r, tuple) and len(r) == 2 and len(r[0]) == len(r[1]) and len(r[0]) > 0
    return {'err': o['err'] or not ok, 'exc': o['exc'] if o['err'] else ('' if ok else 'bad return value')}


RUNNERS = {'contig': run_contig, 'cir': run_cir, 'iau': run_iau, 'laxisgen': run_laxis, 'laxisnum': run_laxis,
           'print': run_print, 'lines': run_lines, 'median': run_median, 'coolname': run_coolname}


def run_case(c, env):
    return RUNNERS[c['fn']](c, env)


# ---------------------------------------------------------------------------------------------------
# spec -> code comparison: obs against TLC's exp.  Returns (good, finding id or None).
# ---------------------------------------------------------------------------------------------------
def judge(c, exp, obs):
    fn = c['fn']
    if fn == 'contig':
        if exp['open']:
            return True, None
        return (not obs['err'] and obs['val'] is not None and tuple(obs['val']) in exp['val']), None
    if fn == 'cir':
        if obs['err']:
            return False, None
        if not obs['inrange']:
            return False, ('D-X02-2' if exp['dev'] and obs['isperiod'] else None)
        if not obs['close']:
            return False, None
        got = Fraction(*obs['val'])
        want = Fraction(*exp['val'])
        return (got == want) if exp['cmp'] == 'exact' else ((got - want) % 1 == 0), None
    if fn == 'iau':
        if obs['err'] or not obs['type_ok']:
            return False, None
        if obs['val'] == text(exp['val']):
            return True, None
        return False, ('D-X02-3' if len(exp['dev']) and obs['val'] == text(exp['dev']) else None)
    if fn in ('laxisgen', 'laxisnum'):
        def same(e):
            if e['out'] == 'err':
                return obs['err'] and obs['exc'] == 'ValueError'
            return (not obs['err'] and obs['shape'] == list(e['shape']) and obs['val'] == list(e['val'])
                    and obs['dtype'] == e['dtype'])
        if exp['val']['out'] == 'open' or same(exp['val']):
            return True, None
        return False, ('D-X02-1' if exp['dev']['out'] != 'open' and same(exp['dev']) else None)
    if fn == 'print':
        def same(e):
            return (not obs['err'] and obs['lines'] == [text(s) for s in e['lines']] and obs['css'] == e['css'])
        if same(exp['val']):
            if obs['hasfile'] and obs['file'] != text(exp['file']):
                return False, None
            return True, None
        return False, ('D-X02-4' if same(exp['dev']) else None)
    if fn == 'lines':
        if obs['err']:
            return False, None
        if c['scalar']:
            return (not obs['islist'] and obs['val'] == [exp]), None
        return (obs['islist'] and obs['val'] == list(exp)), None
    if fn == 'median':
        if exp['out'] == 'open':
            return True, None
        if exp['out'] == 'err':
            return (obs['err'] and obs['exc'] == 'ValueError'), None
        return (not obs['err'] and obs['close'] and obs['shape'] == list(exp['shape'])
                and [tuple(v) for v in obs['val']] == [tuple(v) for v in exp['val']]), None
    if fn == 'coolname':
        if exp['accepts']:
            return not obs['err'], None
        return (obs['err'] and obs['exc'] == 'ValueError'), None
    raise core.MachineryError('no judge for ' + fn)


def nontrivial_key(c):
    fn = c['fn']
    if fn == 'contig':
        x = c['x']
        runs = sum(1 for k in range(len(x)) if x[k] and (k == 0 or not x[k - 1]))
        return ('contig', tuple(x)) if runs >= 2 else None
    if fn == 'cir':
        return ('cir', c['kind'], tuple(c['x']), c['sign'], c['k']) if (c['kind'] != 'deg' or not 0 <= c['x'][0] < 360 * c['x'][1]) else None
    if fn == 'iau':
        return ('iau', tuple(c['ra']), tuple(c['dec']), c['p'], text(c['prefix']))
    if fn in ('laxisgen', 'laxisnum'):
        return (fn, tuple(c['dims']), c['iaxis']) if len(c['dims']) >= 1 and all(d > 1 for d in c['dims']) else None
    if fn == 'print':
        return ('print', repr(J(c['cols'])), c['html'], c['nohead']) if len(c['cols']) >= 2 else None
    if fn == 'lines':
        return ('lines', repr(J(c['texts']))) if any(len(t) >= 2 for t in c['texts']) else None
    if fn == 'median':
        return ('median', c['mode'], tuple(c['a']), tuple(c['shape']), c['d']) if len(set(c['a'])) >= 2 else None
    return None


def describe(c):
    fn = c['fn']
    if fn == 'iau':
        return 'hogg_iau_name(%s/%s, %s/%s, prefix=%r, precision=%d) [%s]' % (
            c['ra'][0], c['ra'][1], c['dec'][0], c['dec'][1], text(c['prefix']), c['p'], c['form'])
    if fn == 'cir':
        ang, rad = cir_angle(c)
        return 'cirrange(%r%s) [%s]' % (ang, ', radians=True' if rad else '', c['form'])
    if fn in ('laxisgen', 'laxisnum'):
        return 'djs_%s(%s, iaxis=%d)' % (fn, list(c['dims']), c['iaxis'])
    if fn == 'contig':
        return 'find_contiguous(%s)' % (list(c['x']),)
    if fn == 'print':
        return 'struct_print(columns %s, %d rows, html=%s, no_head=%s, dest=%s)' % (
            [text(col['name']) + ':' + col['kind'] for col in c['cols']], len(c['cols'][0]['vals']), c['html'], c['nohead'],
            c.get('dest', 'none'))
    if fn == 'lines':
        return 'file_lines(%s, compress=%s)' % ([text(t) for t in c['texts']] if not c['scalar'] else repr(text(c['texts'][0])), c['compress'])
    if fn == 'median':
        return 'djs_median(array %s shape %s, mode=%s, dimension=%s)' % (list(c['a']), list(c['shape']), c['mode'], c['d'])
    if fn == 'coolname':
        return 'read_ds_cooling(%r)' % c['name']
    return fn


def short(obs):
    o = {k: v for k, v in obs.items() if k not in ('file',)} if isinstance(obs, dict) else obs
    s = repr(o)
    return s if len(s) < 400 else s[:400] + '...'


# ---------------------------------------------------------------------------------------------------
# code -> spec: seeded random calls, recorded for Trace_MiscUtils
# ---------------------------------------------------------------------------------------------------
def rat(n, d):
    f = Fraction(n, d)
    return (f.numerator, f.denominator)


def gen_calls(rng, quick):
    """Yield call dicts in the same format as TLC's c."""
    scale = 1 if quick else 6
    letters = 'abcdefghijklmnopqrstuvwxyz'
    for _ in range(250 * scale):
        n = rng.choice([0, 1, 2, 3, 5, 8, 13, 21, 40])
        dens = rng.choice([0.0, 0.2, 0.5, 0.8, 1.0])
        yield {'fn': 'contig', 'x': tuple((rng.choice([1, 1, 2, -1, 7]) if rng.random() < dens else 0) for _ in range(n))}
    for _ in range(350 * scale):
        kind = rng.choice(['deg', 'deg', 'turns', 'tinydeg', 'tinyrad'])
        form = rng.choice(['scalar', 'array'])
        if kind == 'deg':
            d = 2 ** rng.randint(0, 10)
            x = rat(rng.randint(-3000 * d, 3000 * d), d)
            yield {'fn': 'cir', 'kind': kind, 'x': x, 'sign': 0, 'k': 0, 'form': form}
        elif kind == 'turns':
            d = rng.choice([1, 2, 3, 4, 5, 6, 7, 8, 9, 10, 12, 16, 360])
            yield {'fn': 'cir', 'kind': kind, 'x': rat(rng.randint(-10 * d, 10 * d), d), 'sign': 0, 'k': 0, 'form': form}
        else:
            yield {'fn': 'cir', 'kind': kind, 'x': (0, 1), 'sign': rng.choice([-1, 1]), 'k': rng.randint(40, 1074), 'form': form}
    prefixes = [(), tuple('SDSS'), tuple('2MASS'), tuple('SDSS'), tuple('J x')]
    for _ in range(500 * scale):
        p = rng.choice([0, 1, 1, 2])
        if rng.random() < 0.6:      # exactly representable coordinates (dyadic); often on a last-digit boundary
            d = 2 ** rng.choice([0, 1, 2, 3, 4, 5, 6, 6, 6, 8, 10])
            ra = rat(rng.randint(0, 360 * d - 1), d)
            dd = 2 ** rng.choice([0, 2, 4, 6, 8, 10])
            dec = rat(rng.randint(-90 * dd, 90 * dd), dd)
        else:                       # half a unit of the last digit inside the cell
            u = 10 ** (p + 1)
            ra = rat(2 * rng.randint(0, 86400 * u - 1) + 1, 480 * u)
            ud = 10 ** p
            dec = rat(rng.choice([-1, 1]) * (2 * rng.randint(0, 324000 * ud - 1) + 1), 7200 * ud)
        yield {'fn': 'iau', 'ra': ra, 'dec': dec, 'prefix': rng.choice(prefixes), 'p': p,
               'form': rng.choice(['scalar', 'scalar', 'vector', 'array1'])}
    for _ in range(200 * scale):
        r = rng.choice([0, 1, 1, 2, 2, 2, 3, 3, 3, 4])
        yield {'fn': rng.choice(['laxisgen', 'laxisnum']), 'dims': tuple(rng.randint(0, 5) for _ in range(r)),
               'iaxis': rng.randint(-2, 5)}
    for _ in range(200 * scale):
        ncol = rng.randint(1, 4)
        nrows = rng.randint(1, 5)
        cols = []
        names = set()
        for j in range(ncol):
            kind = rng.choice(['i', 's', 'f4', 'f8'])
            while True:
                name = ''.join(rng.choice(letters) for _ in range(rng.randint(1, 8)))
                if name not in names:
                    names.add(name)
                    break
            col = {'name': tuple(name), 'kind': kind, 'slen': 0, 'alias': ()}
            if kind == 'i':
                mag = 10 ** rng.randint(0, 6)
                col['vals'] = tuple(rng.randint(-mag, mag) if rng.random() < 0.5 else rng.randint(0, mag) for _ in range(nrows))
            elif kind == 's':
                col['slen'] = rng.randint(1, 9)
                col['vals'] = tuple(tuple(rng.choice(letters) for _ in range(rng.randint(0, col['slen']))) for _ in range(nrows))
            else:
                neg = rng.random() < 0.4
                col['vals'] = tuple(rng.choice([rng.randint(-99999 if neg else 0, 99999), rng.randint(0, 999), 100 * rng.randint(0, 99)])
                                    for _ in range(nrows))
            if rng.random() < 0.25:
                col['alias'] = tuple(name.upper()[:rng.randint(1, len(name))])
            cols.append(col)
        yield {'fn': 'print', 'cols': tuple(cols), 'html': rng.random() < 0.4, 'nohead': rng.random() < 0.4,
               'dest': rng.choice(['none', 'none', 'path', 'bytesio'])}
    for _ in range(150 * scale):
        scalar = rng.random() < 0.5
        nt = 1 if scalar else rng.randint(0, 4)
        texts = []
        for _k in range(nt):
            n = rng.choice([0, 1, 2, 3, 10, 30, 60])
            texts.append(tuple(rng.choice(['a', 'b', ' ', '\n', '\n']) for _ in range(n)))
        yield {'fn': 'lines', 'texts': tuple(texts), 'scalar': scalar, 'compress': rng.random() < 0.5}
    for _ in range(300 * scale):
        rank = rng.randint(1, 3)
        shape = tuple(rng.randint(1, 4) for _ in range(rank))
        a = tuple(rng.randint(-9, 9) for _ in range(int(np.prod(shape))))
        mode = rng.choice(['all', 'axis', 'axis', 'axis', 'width1', 'both'])
        yield {'fn': 'median', 'mode': mode, 'a': a, 'shape': shape, 'd': rng.randint(-rank - 1, rank) if mode == 'axis' else 0}


def to_record(c, obs):
    fn = c['fn']
    r = {'fn': fn}
    if fn == 'contig':
        r.update(x=J(c['x']), ret={'err': obs['err'] or obs['val'] is None, 'exc': obs['exc'] or 'bad return type', 'val': obs['val'] or []})
    elif fn == 'cir':
        r.update(kind=c['kind'], x=J(c['x']), sign=c['sign'], k=c['k'],
                 ret={'inrange': bool(obs['inrange']), 'isperiod': bool(obs['isperiod']), 'close': bool(obs['close']), 'val': obs['val']})
    elif fn == 'iau':
        r.update(ra=J(c['ra']), dec=J(c['dec']), prefix=J(c['prefix']), p=c['p'],
                 ret=obs['val'] if (obs['val'] is not None and not obs['err']) else '(no name: %s)' % obs['exc'])
    elif fn in ('laxisgen', 'laxisnum'):
        r.update(dims=J(c['dims']), iaxis=c['iaxis'],
                 ret={'err': obs['err'], 'exc': obs['exc'], 'shape': obs['shape'], 'val': obs['val'], 'dtype': obs['dtype']})
    elif fn == 'print':
        r.update(cols=J(c['cols']), html=c['html'], nohead=c['nohead'],
                 ret={'err': obs['err'], 'exc': obs['exc'], 'lines': obs['lines'], 'css': obs['css'], 'hasfile': obs['hasfile'],
                      'file': obs['file']})
    elif fn == 'lines':
        r.update(texts=J(c['texts']), scalar=c['scalar'], compress=c['compress'],
                 ret={'err': obs['err'], 'exc': obs['exc'], 'val': obs['val'], 'islist': obs['islist']})
    elif fn == 'median':
        r.update(mode=c['mode'], a=J(c['a']), shape=J(c['shape']), d=c['d'],
                 ret={'err': obs['err'], 'exc': obs['exc'], 'shape': obs['shape'], 'val': obs['val'], 'close': obs['close']})
    elif fn == 'coolname':
        r = {'fn': 'cool', 'kind': 'name', 'name': c['name'], 'ret': {'err': obs['err'], 'exc': obs['exc']}}
    return r


# ---- read_ds_cooling: the packaged tables, read here from the files (tab separated, third line = header) ----
COOL_NAMES = ['m-00.cie', 'm-05.cie', 'm+05.cie', 'm-10.cie', 'm-15.cie', 'm-20.cie', 'm-30.cie', 'mzero.cie']


def scaled(v, k):
    m = round(float(v) * k)
    return int(m), abs(float(v) * k - m) < 1e-6


def read_table(name):
    path = os.path.join(core.PYDL_SRC, 'pydl', 'pydlutils', 'data', 'cooling', name)
    with open(path) as fh:
        lines = fh.read().split('\n')
    hdr = lines[2].split('\t')
    it, il = hdr.index('log(T)'), hdr.index('log(lambda net)')
    grid, vals = [], []
    for ln in lines[3:]:
        f = ln.split('\t')
        if len(f) <= il or not f[it].strip():
            continue
        grid.append(scaled(f[it], 1000)[0])
        vals.append(scaled(f[il], 100)[0])
    return grid, vals


def cooling_records(rng, quick):
    from pydl.pydlutils.cooling import read_ds_cooling
    recs = []
    for name in COOL_NAMES + ['', 'm-00', 'M-00.CIE', 'nosuch.cie', 'm-15.cie\n']:
        o = outcome(lambda: read_ds_cooling(name))
        recs.append({'fn': 'cool', 'kind': 'name', 'name': name, 'ret': {'err': o['err'], 'exc': o['exc']}})
    for name in COOL_NAMES:
        grid, vals = read_table(name)
        o = outcome(lambda: read_ds_cooling(name))
        ret = {'err': o['err'], 'exc': o['exc'], 'grid': [], 'vals': []}
        if not o['err']:
            g = [scaled(v, 1000) for v in o['r'][0]]
            l = [scaled(v, 100) for v in o['r'][1]]
            ret['grid'] = [m if ok else -10 ** 9 for m, ok in g]
            ret['vals'] = [m if ok else -10 ** 9 for m, ok in l]
        recs.append({'fn': 'cool', 'kind': 'table', 'name': name, 'grid': grid, 'vals': vals, 'ret': ret})
        qs = [rng.randint(grid[0] - 300, grid[-1] + 300) for _ in range(12 if quick else 60)]
        qs += [grid[0], grid[-1], grid[5], grid[5] + 25, grid[-2] + 1]
        if name == 'm-15.cie' and not quick:
            qs += grid + [g + 25 for g in grid[:-1]]
        logT = np.array([q / 1000.0 for q in qs])
        o = outcome(lambda: read_ds_cooling(name, logT=logT))
        for k, q in enumerate(qs):
            ret = {'err': o['err'], 'exc': o['exc'], 'close': False, 'val': [0, 1], 'q': 0}
            if not o['err']:
                step = 1
                for j in range(len(grid) - 1):
                    if grid[j] <= q <= grid[j + 1]:
                        step = grid[j + 1] - grid[j]
                v = float(o['r'][1][k]) * 100.0
                m = round(v * step)
                fr = Fraction(m, step)
                ret.update(close=abs(v * step - m) < 1e-6, val=[fr.numerator, fr.denominator], q=scaled(o['r'][0][k], 1000)[0])
            recs.append({'fn': 'cool', 'kind': 'interp', 'name': name, 'grid': grid, 'vals': vals, 'q': q, 'ret': ret})
    return recs


# ---------------------------------------------------------------------------------------------------
def iau_batches(ctx, cases):
    """Vector form: all scalar-form cases of one (prefix, precision) in a single call, compared element by element."""
    from pydl.pydlutils.misc import hogg_iau_name
    groups = {}
    for c, exp in cases:
        groups.setdefault((text(c['prefix']), c['p']), []).append((c, exp))
    for (prefix, p), grp in sorted(groups.items()):
        if len(grp) < 2:
            continue
        ra = np.array([c['ra'][0] / c['ra'][1] for c, _ in grp])
        dec = np.array([c['dec'][0] / c['dec'][1] for c, _ in grp])
        o = outcome(lambda: hogg_iau_name(ra, dec, prefix=prefix, precision=p))
        ctx.evaluated(len(grp), 'iau-vectorised')
        ctx.validated(len(grp))
        if o['err'] or not isinstance(o['r'], list) or len(o['r']) != len(grp):
            ctx.violation({'what': 'hogg_iau_name on %d-element arrays (prefix=%r, precision=%d): %s' % (
                len(grp), prefix, p, o.get('msg', 'bad return value')), 'call': J(dict(grp[0][0], form='vector'))})
            continue
        nbad = 0
        for (c, exp), got in zip(grp, o['r']):
            if got != text(exp['val']):
                nbad += 1
                if nbad <= 3:
                    dev = len(exp['dev']) and got == text(exp['dev'])
                    ctx.violation({'what': 'vector element: %s expected %r observed %r' % (describe(c), text(exp['val']), got),
                                   'call': J(dict(c, form='vector')), 'expected': J(exp)}, finding='D-X02-3' if dev else None)


def run(ctx):
    ctx.level = 'model_checking'
    ctx.rule = ('every state of MC_MiscUtils is one call (function, arguments, calling form) with the specified outcome; '
                'non-trivial = distinct calls with at least two runs (find_contiguous), an angle outside [0, 360) (cirrange), '
                'any coordinate pair (hogg_iau_name), every axis length > 1 (laxis), two or more columns (struct_print), a file of '
                'two or more characters (file_lines), a non-constant array (djs_median); recorded calls = seeded random / '
                'adversarial arguments judged by Trace_MiscUtils')
    ctx.assumptions = [
        'hogg_iau_name: coordinates are exactly representable floats (k/2^m) or lie half a unit of the last digit inside a cell, '
        'so the digits of the float and of the rational agree; decimal inputs exactly on a digit boundary are not decided',
        'cirrange: degrees on dyadic rationals (float remainder is exact); radians compared on the circle to 1e-9 turns; '
        'in every case 0 <= result < period is demanded of the returned float',
        'struct_print floats: values h/100 with at most five significant digits, default fdigit/ddigit; html cells compared up to '
        'surrounding blanks; byte-string columns only (unicode columns are not decided)',
        'file_lines: ASCII contents over {a, b, blank, newline}; carriage returns and undecodable bytes are not decided',
        'read_ds_cooling: the table is read by the harness from the packaged file and handed to TLC; outside the table open',
        'TLC 32-bit integers bound the magnitudes (see MC_MiscUtils cfg constants)']
    env = {'dir': os.path.join(ctx.scratch, 'x02files')}
    os.makedirs(env['dir'], exist_ok=True)
    cfg = 'MC_MiscUtils_quick.cfg' if ctx.quick else 'MC_MiscUtils_thorough.cfg'
    r = ctx.tlc('MC_MiscUtils.tla', cfg, dump=True, timeout=1500)
    n = 0
    iau_scalar = []
    nviol = {}
    sampled = set()
    for st in core.iter_states(r):
        c, exp = st['c'], st['exp']
        fn = c['fn']
        if fn in ('root', 'seed'):
            continue
        if fn == 'interp':
            ctx.evaluated(1, 'interp-laws-only')
            continue
        n += 1
        obs = run_case(c, env)
        ctx.evaluated(1, fn)
        ctx.validated()
        key = nontrivial_key(c)
        if key is not None:
            ctx.nontriv(key)
        if fn == 'iau' and c['form'] == 'scalar':
            iau_scalar.append((c, exp))
        good, finding = judge(c, exp, obs)
        if fn == 'contig' and not exp['open'] and len(exp['val']) > 1 and good:
            # informational: which of several equally long runs is returned is left open by the docstring
            which = 'first' if tuple(obs['val']) == min(exp['val']) else 'other'
            ties = ctx.cov.setdefault('contig_ties_returned', {'first': 0, 'other': 0})
            ties[which] += 1
        if fn not in sampled:
            sampled.add(fn)
            ctx.sample({'call': describe(c), 'expected': short(J(exp)), 'observed': short(obs)}, limit=12)
        if not good:
            k = (fn, finding)
            nviol[k] = nviol.get(k, 0) + 1
            if nviol[k] <= 12:          # a systematic deviation: a dozen replay files per class are enough
                ctx.violation({'what': '%s: specified %s observed %s' % (describe(c), short(J(exp)), short(obs)),
                               'call': J(c), 'expected': J(exp), 'observed': J(obs)}, finding=finding)
    for (fn, finding), k in sorted(nviol.items(), key=repr):
        print('  %d %s cases deviate from the specification%s' % (k, fn, ' (%s: %s)' % (finding, FINDINGS[finding]) if finding else ''))
        ctx.cov.setdefault('deviating_cases', {})['%s/%s' % (fn, finding or 'unexplained')] = k
    iau_batches(ctx, iau_scalar)

    # ---- code -> spec ---------------------------------------------------------------------------------
    rng = random.Random(ctx.seed)
    calls = list(gen_calls(rng, ctx.quick))
    recs = []
    for c in calls:
        obs = run_case(c, env)
        recs.append(to_record(c, obs))
        key = nontrivial_key(c)
        if key is not None:
            ctx.nontriv(key)
    crecs = cooling_records(rng, ctx.quick)
    allrecs = recs + crecs
    bad = core.validate_records(ctx, 'Trace_MiscUtils', allrecs, chunk=3000)
    ctx.evaluated(len(allrecs), 'recorded')
    ctx.validated(len(allrecs))
    nrec = {}
    for k in sorted(bad):
        why = bad[k]
        m = re.match(r'(D-X02-\d+)', why)
        finding = m.group(1) if m else None
        rec = allrecs[k]
        cls = (rec['fn'], finding or why.split(':')[0])
        nrec[cls] = nrec.get(cls, 0) + 1
        if nrec[cls] <= 8:
            case = {'what': 'recorded %s rejected by Trace_MiscUtils (%s)' % (describe(calls[k]) if k < len(calls) else
                                                                              'read_ds_cooling(%r, %s)' % (rec['name'], rec['kind']), why),
                    'record': rec}
            if k < len(calls):
                case['call'] = J(calls[k])
            ctx.violation(case, finding=finding)
    for cls, k in sorted(nrec.items(), key=repr):
        print('  %d recorded %s calls rejected: %s' % (k, cls[0], cls[1]))
        ctx.cov.setdefault('rejected_records', {})['%s/%s' % cls] = k
    ctx.sample({'recorded_call': allrecs[0]}, limit=13)
    ctx.exhaustive = not ctx.quick


def replay(ctx, case):
    """bin/check X02 --replay <file>: re-execute the single failing call of a replay file."""
    ctx.level = 'model_checking'
    ctx.rule = 'single replayed case'
    env = {'dir': os.path.join(ctx.scratch, 'x02files')}
    os.makedirs(env['dir'], exist_ok=True)
    ctx.nontriv('a')
    ctx.nontriv('b')
    if 'call' not in case:          # a read_ds_cooling record: re-record all of them and judge again
        recs = cooling_records(random.Random(ctx.seed), True)
        bad = core.validate_records(ctx, 'Trace_MiscUtils', recs)
        ctx.evaluated(len(recs))
        for k in sorted(bad):
            ctx.violation({'what': 'recorded read_ds_cooling(%r, %s) rejected (%s)' % (recs[k]['name'], recs[k]['kind'], bad[k]),
                           'record': recs[k]})
        return
    c = case['call']
    obs = run_case(c, env)
    ctx.evaluated(1)
    print('replayed call:', describe(c), '\nobserved:', short(obs))
    rec = to_record(c, obs)
    bad = core.validate_records(ctx, 'Trace_MiscUtils', [rec])
    if bad:
        print('Trace_MiscUtils:', bad[0])
        m = re.match(r'(D-X02-\d+)', bad[0])
        ctx.violation({'what': 'replayed %s rejected by Trace_MiscUtils (%s)' % (describe(c), bad[0]), 'call': c, 'record': rec},
                      finding=m.group(1) if m else None)
    else:
        print('Trace_MiscUtils: the observed outcome is a specified one')
